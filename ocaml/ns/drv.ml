(* Namespace-repair history driver: `<case> <tables> | <start state> | op;op;...` ->
   `<case> <outcome>/<read-back>/<serialisations of the roots>;...` *)
open Caseio
open Treeio
open Histio

let parse_top (b : Interning.builtins) (s : string) : Hist.top =
  let f = Array.of_list (String.split_on_char ' ' s) in
  match f.(0) with
  | "cmp" -> Hist.TCmp (ph f.(1))
  | "dedup" -> Hist.TDedup (ph f.(1))
  | _ -> Hist.TH (parse_hop b s)

let () =
  iter_lines (fun line ->
    let (case, rest) = split_case line in
    match split_bar rest with
    | tables :: init :: tl ->
      let (b, t) = parse_tables tables in
      let st0 = parse_state init in
      let ops = (match tl with [] -> [] | o :: _ -> L.map (parse_top b) (split_on ';' o)) in
      let nn = b.Interning.b_no_namespace in
      let nsn tt = { NsTools.ns_empty_prefix = b.Interning.b_empty_prefix; NsTools.ns_xml_prefix = b.Interning.b_xml_prefix;
                     NsTools.ns_no_ns = nn; NsTools.ns_xml_ns = b.Interning.b_xml_namespace;
                     NsTools.ns_of_name = (fun n -> match Interning.namespace_for_name tt n with Some x -> x | None -> nn) } in
      let res = Hist.trun (nsn t) (t, st0) ops in
      let prev = ref st0 in
      let items = L.map (fun (o, (tt, st)) ->
          let nm = Serio.names_of b tt in
          let roots = (let rec go f = match f with Base.FNil -> [] | Base.FCons (i, _, _, r) -> i :: go r in go st.Store.store) in
          let roots = L.sort (fun a b -> compare (int_of_n a) (int_of_n b)) roots in
          let prm = { XmlSer.p_cdata = []; XmlSer.p_unescaped_gt = false } in
          let sers = L.map (fun r ->
              match Zipper.locate r st.Store.store with
              | None -> nstr r ^ ":?"
              | Some z -> nstr r ^ ":" ^ (match XmlSer.serialize_write nm prm z with
                  | Datatypes.Coq_inr s -> "ok:" ^ enc_str s
                  | Datatypes.Coq_inl e -> "ERR:" ^ Serio.err_name e)) roots in
          let s = show_out !prev st o ^ "/" ^ show_state st ^ "/" ^ (if sers = [] then "-" else String.concat "," sers) in
          prev := st; s) res in
      print_endline (case ^ " " ^ String.concat ";" items)
    | _ -> failwith "ns: bad case line")
