(* Parsing the shared text form of tables and trees (harness/src/tree.rs) into the extracted model types.
   Requires the extraction to contain Base, Interning, InternOps. *)
open Caseio
open Base

(* "ns=..;pf=..;nm=.." -> model tables, built by replaying the registrations through the model's own
   x_new / x_add_* (so the tables are reachable states); every id must equal its position *)
let parse_tables (s : string) : Interning.builtins * Interning.tables =
  let parts = String.split_on_char ';' s in
  let field name =
    let pre = name ^ "=" in
    match L.find_opt (fun p -> String.length p >= String.length pre && String.sub p 0 (String.length pre) = pre) parts with
    | None -> failwith ("tables: missing " ^ name)
    | Some p -> split_on ',' (String.sub p (String.length pre) (String.length p - String.length pre)) in
  let (b, t0) = match InternOps.x_new with Interning.ROk st -> st | Interning.RPanic -> failwith "x_new panics" in
  let check what pos id = if int_of_n id <> pos then failwith (Printf.sprintf "tables: %s #%d got id %d" what pos (int_of_n id)) in
  let t = ref t0 in
  L.iteri (fun i s ->
    match InternOps.x_add_namespace !t (dec_str s) with
    | Interning.ROk (id, t') -> check "namespace" i id; t := t'
    | Interning.RPanic -> failwith "add_namespace panics") (field "ns");
  L.iteri (fun i s ->
    match InternOps.x_add_prefix !t (dec_str s) with
    | Interning.ROk (id, t') -> check "prefix" i id; t := t'
    | Interning.RPanic -> failwith "add_prefix panics") (field "pf");
  L.iteri (fun i s ->
    match String.split_on_char '/' s with
    | [l; n] ->
      (match InternOps.x_add_name_ns !t (dec_str l) (n_of_int (int_of_string n)) with
       | Interning.ROk (id, t') -> check "name" i id; t := t'
       | Interning.RPanic -> failwith "add_name_ns panics")
    | _ -> failwith ("tables: bad name " ^ s)) (field "nm");
  (b, !t)

(* tokens -> forest; slots are assigned in order of appearance starting at [first] *)
let parse_forest ?(first = 0) (s : string) : forest * int =
  let toks = Array.of_list (split_on ' ' s) in
  let pos = ref 0 in
  let next_slot = ref first in
  let fresh () = let k = !next_slot in incr next_slot; n_of_int k in
  let after c tok = String.sub tok 1 (String.length tok - 1) |> fun r -> ignore c; r in
  let split2 ch r = match String.index_opt r ch with
    | None -> failwith ("tree: bad token " ^ r)
    | Some i -> (String.sub r 0 i, String.sub r (i + 1) (String.length r - i - 1)) in
  (* parses a sibling list until ")" or the end *)
  let rec siblings () : forest =
    if !pos >= Array.length toks then FNil
    else begin
      let tok = toks.(!pos) in
      if tok = ")" then FNil
      else begin
        incr pos;
        let slot = fresh () in
        let (v, kids) =
          match tok.[0] with
          | 'D' -> let k = siblings () in expect_close (); (VDocument, k)
          | 'E' ->
            let r = after 'E' tok in
            let name = String.sub r 0 (String.length r - 1) in
            let k = siblings () in expect_close ();
            (VElement (n_of_int (int_of_string name)), k)
          | 'T' -> (VText (dec_str (after 'T' tok)), FNil)
          | 'C' -> (VComment (dec_str (after 'C' tok)), FNil)
          | 'P' -> let (n, d) = split2 '=' (after 'P' tok) in (VPI (n_of_int (int_of_string n), dec_opt_str d), FNil)
          | 'A' -> let (n, d) = split2 '=' (after 'A' tok) in (VAttribute (n_of_int (int_of_string n), dec_str d), FNil)
          | 'N' -> let (p, n) = split2 ':' (after 'N' tok) in (VNamespace (n_of_int (int_of_string p), n_of_int (int_of_string n)), FNil)
          | _ -> failwith ("tree: unknown token " ^ tok) in
        let rest = siblings () in
        FCons (slot, v, kids, rest)
      end
    end
  and expect_close () =
    if !pos < Array.length toks && toks.(!pos) = ")" then incr pos else failwith "tree: expected )" in
  let f = siblings () in
  if !pos <> Array.length toks then failwith "tree: trailing tokens";
  (f, !next_slot)

(* split "a | b | c" *)
let split_bar (s : string) : string list = L.map String.trim (String.split_on_char '|' s)

let show_slots (l : BinNums.coq_N list) : string =
  if l = [] then "-" else String.concat "," (L.map nstr l)
