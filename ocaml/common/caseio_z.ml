(* Z conversions, for drivers whose extraction includes BinNums.Z *)
open BinNums
open Caseio
let z_of_int n = if n = 0 then Z0 else if n > 0 then Zpos (pos_of_int n) else Zneg (pos_of_int (-n))
let int_of_z = function Z0 -> 0 | Zpos p -> int_of_pos p | Zneg p -> - (int_of_pos p)
