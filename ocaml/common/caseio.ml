(* Shared glue between the text case files and the extracted model (ExtrOcamlBasic only: N, Z and positive
   stay the extracted datatypes; bool, option, list, pairs are OCaml's). *)
open BinNums

module L = Stdlib.List

let rec pos_of_int n =
  if n <= 1 then Coq_xH
  else if n land 1 = 0 then Coq_xO (pos_of_int (n lsr 1))
  else Coq_xI (pos_of_int (n lsr 1))

let n_of_int n = if n = 0 then N0 else Npos (pos_of_int n)

let rec int_of_pos = function
  | Coq_xH -> 1
  | Coq_xO p -> 2 * int_of_pos p
  | Coq_xI p -> 2 * int_of_pos p + 1

let int_of_n = function N0 -> 0 | Npos p -> int_of_pos p


let dec_str (s : string) : coq_N list =
  if s = "_" then [] else L.map (fun x -> n_of_int (int_of_string x)) (String.split_on_char '.' s)

let enc_str (l : coq_N list) : string =
  if l = [] then "_" else String.concat "." (L.map (fun n -> string_of_int (int_of_n n)) l)

let dec_opt_str s = if s = "~" then None else Some (dec_str s)
let enc_opt_str = function None -> "~" | Some s -> enc_str s

let nstr n = string_of_int (int_of_n n)

(* iterate over the non-empty lines of stdin *)
let iter_lines f =
  try
    while true do
      let l = input_line stdin in
      if String.trim l <> "" then f l
    done
  with End_of_file -> ()

(* "case rest-of-line" *)
let split_case l =
  match String.index_opt l ' ' with
  | None -> (l, "")
  | Some i -> (String.sub l 0 i, String.sub l (i + 1) (String.length l - i - 1))

let split_on c s = L.filter (fun x -> x <> "") (String.split_on_char c s)
