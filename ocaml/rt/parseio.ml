(* Text form of xmlparser token lists (harness/src/parseobs.rs) and of the parse observation. *)
open Caseio
open Base
open Builder

let span_of (s : string) : span =
  match String.split_on_char '-' s with
  | [a; b] -> { sp_start = n_of_int (int_of_string a); sp_end = n_of_int (int_of_string b) }
  | _ -> failwith ("bad span " ^ s)

(* "<enc>@<s>-<e>" *)
let sstr_of (s : string) : sstr =
  match String.index_opt s '@' with
  | None -> failwith ("bad strspan " ^ s)
  | Some i -> { ss_text = dec_str (String.sub s 0 i); ss_span = span_of (String.sub s (i + 1) (String.length s - i - 1)) }

let token_of (s : string) : ptoken =
  match String.split_on_char ':' s with
  | ["D"; v; e] -> TkDecl (sstr_of v, (if e = "~" then None else Some (sstr_of e)))
  | ["P"; t; c] -> TkPI (sstr_of t, (if c = "~" then None else Some (sstr_of c)))
  | ["C"; t] -> TkComment (sstr_of t)
  | ["X"; sp] -> TkDtd (span_of sp)
  | ["S"; p; l] -> TkElementStart (sstr_of p, sstr_of l)
  | ["A"; p; l; v] -> TkAttribute (sstr_of p, sstr_of l, sstr_of v)
  | ["O"; sp] -> TkEndOpen (span_of sp)
  | ["L"; p; l; sp] -> TkEndClose (sstr_of p, sstr_of l, span_of sp)
  | ["M"; sp] -> TkEndEmpty (span_of sp)
  | ["T"; t] -> TkText (sstr_of t)
  | ["K"; t] -> TkCdata (sstr_of t)
  | ["R"; pos] -> TkError (n_of_int (int_of_string pos))
  | _ -> failwith ("bad token " ^ s)

let tokens_of (s : string) : ptoken list =
  if s = "-" then [] else L.map token_of (String.split_on_char ';' s)

let name_text (t : Interning.tables) (n : BinNums.coq_N) : string =
  match Interning.name_ns_str t n with
  | Some (l, u) -> enc_str l ^ "/" ^ enc_str u
  | None -> "?name" ^ nstr n

let ostr f = function Some s -> enc_str s | None -> f

let tree_text (t : Interning.tables) (f : forest) : string =
  let buf = Buffer.create 256 in
  let first = ref true in
  let emit s = (if !first then first := false else Buffer.add_char buf ' '); Buffer.add_string buf s in
  let rec go f =
    match f with
    | FNil -> ()
    | FCons (i, v, k, r) ->
      (match v with
       | VDocument -> emit ("D@" ^ nstr i ^ "("); go k; emit ")"
       | VElement n -> emit ("E" ^ name_text t n ^ "@" ^ nstr i ^ "("); go k; emit ")"
       | VText s -> emit ("T" ^ enc_str s ^ "@" ^ nstr i)
       | VComment s -> emit ("C" ^ enc_str s ^ "@" ^ nstr i)
       | VPI (n, d) -> emit ("P" ^ name_text t n ^ "=" ^ enc_opt_str d ^ "@" ^ nstr i)
       | VAttribute (n, s) -> emit ("A" ^ name_text t n ^ "=" ^ enc_str s ^ "@" ^ nstr i)
       | VNamespace (p, n) ->
         emit ("N" ^ ostr "?" (Interning.prefix_str t p) ^ ":" ^ ostr "?" (Interning.namespace_str t n) ^ "@" ^ nstr i));
      go r in
  go f; Buffer.contents buf

let span_text (m : spaninfo) (k : skey) : string =
  match span_get m k with
  | Some s -> nstr s.sp_start ^ "-" ^ nstr s.sp_end
  | None -> "-"

let spans_text (t : Interning.tables) (m : spaninfo) (f : forest) : string =
  let out = ref [] in
  let add s = out := s :: !out in
  let rec attrs e k =
    match k with
    | FCons (_, VAttribute (a, _), _, r) ->
      add ("an" ^ nstr e ^ "/" ^ name_text t a ^ "=" ^ span_text m (KAttrName (e, a)));
      add ("av" ^ nstr e ^ "/" ^ name_text t a ^ "=" ^ span_text m (KAttrValue (e, a)));
      attrs e r
    | FCons (_, VNamespace _, _, r) -> attrs e r
    | _ -> () in
  let rec go f =
    match f with
    | FNil -> ()
    | FCons (i, v, k, r) ->
      (match v with
       | VElement _ ->
         add ("es" ^ nstr i ^ "=" ^ span_text m (KElStart i));
         add ("ee" ^ nstr i ^ "=" ^ span_text m (KElEnd i));
         attrs i k
       | VText _ -> add ("tx" ^ nstr i ^ "=" ^ span_text m (KText i))
       | VComment _ -> add ("cm" ^ nstr i ^ "=" ^ span_text m (KComment i))
       | VPI _ -> add ("pt" ^ nstr i ^ "=" ^ span_text m (KPiTarget i)); add ("pc" ^ nstr i ^ "=" ^ span_text m (KPiContent i))
       | _ -> ());
      go k; go r in
  go f;
  if !out = [] then "-" else String.concat "," (L.rev !out)

(* xml:id values of the tree (attributes named xml:id on elements, ordinary descendants) and what the index gives *)
let ids_text (b : Interning.builtins) (p : parsed) : string =
  let out = ref [] in
  let rec attr k =
    match k with
    | FCons (_, VAttribute (a, v), _, r) -> if a = b.Interning.b_xml_id then Some v else attr r
    | FCons (_, VNamespace _, _, r) -> attr r
    | _ -> None in
  let rec go f =
    match f with
    | FNil -> ()
    | FCons (_, v, k, r) ->
      (match v with
       | VElement _ ->
         (match attr k with
          | Some v -> out := (enc_str v ^ ">" ^ (match xml_id_lookup p v with Some n -> nstr n | None -> "-")) :: !out
          | None -> ())
       | _ -> ());
      go k; go r in
  go p.pr_tree;
  if !out = [] then "-" else String.concat "," (L.sort compare !out)

let error_text (e : perror) : string =
  let s = perror_span e in
  let (kind, detail) = match e with
    | PEUnclosedTag _ -> ("UnclosedTag", None)
    | PEInvalidCloseTag (p, n, _) -> ("InvalidCloseTag", Some (enc_str p ^ ":" ^ enc_str n))
    | PEUnclosedEntity (n, _) -> ("UnclosedEntity", Some (enc_str n))
    | PEInvalidEntity (n, _) -> ("InvalidEntity", Some (enc_str n))
    | PEUnknownPrefix (p, _) -> ("UnknownPrefix", Some (enc_str p))
    | PEDuplicateAttribute (n, _) -> ("DuplicateAttribute", Some (enc_str n))
    | PEUnsupportedVersion (v, _) -> ("UnsupportedVersion", Some (enc_str v))
    | PEDtdUnsupported _ -> ("DtdUnsupported", None)
    | PENoElementAtTopLevel _ -> ("NoElementAtTopLevel", None)
    | PEMultipleElementsAtTopLevel _ -> ("MultipleElementsAtTopLevel", None)
    | PETextAtTopLevel _ -> ("TextAtTopLevel", None)
    | PEDuplicateId (v, _) -> ("DuplicateId", Some (enc_str v))
    | PEXmlParser _ -> ("XmlParser", None) in
  "ERR:" ^ kind ^ ":" ^ nstr s.sp_start ^ "-" ^ nstr s.sp_end ^ (match detail with Some d -> ":" ^ d | None -> "")

let parsed_text (b : Interning.builtins) (r : parsed bres) : string =
  match r with
  | BPanic -> "PANIC"
  | BFull -> "PANIC"      (* an interning table is full: the crate unwinds too (C08) *)
  | BErr e -> error_text e
  | BOk p -> "OK tree=" ^ tree_text p.pr_tabs p.pr_tree ^ " | spans=" ^ spans_text p.pr_tabs p.pr_spans p.pr_tree ^ " | ids=" ^ ids_text b p
