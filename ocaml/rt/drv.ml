(* Round-trip model driver: `<case> <tables> | <tree> | <node>@<params> | <srclen> <doc|frag> | <tokens>` ->
   `<case> ser=.. rp=..` *)
open Caseio
open Treeio
open Serio

let field (s : string) (k : string) : string option =
  L.fold_left (fun acc f ->
      match String.index_opt f '=' with
      | Some i when String.sub f 0 i = k -> Some (String.sub f (i + 1) (String.length f - i - 1))
      | _ -> acc) None (String.split_on_char ';' s)

let () =
  let (b0, t0) = match InternOps.x_new with Interning.ROk st -> st | Interning.RPanic -> failwith "x_new panics" in
  iter_lines (fun line ->
    let (case, rest) = split_case line in
    match split_bar rest with
    | [tables; tree; query; head; toks] ->
      let (b, t) = parse_tables tables in
      let nm = names_of b t in
      let (store, _) = parse_forest tree in
      let (ni, ptxt) = (match String.index_opt query '@' with
          | Some i -> (int_of_string (String.sub query 0 i), String.sub query (i + 1) (String.length query - i - 1))
          | None -> failwith "rt: bad query") in
      let p = parse_params ptxt in
      let decl = (match field ptxt "dc" with
          | None | Some "-" -> None
          | Some v -> (match String.split_on_char '/' v with
              | [e; s] -> Some ((if e = "~" then None else Some (dec_str e)), (match s with "y" -> Some true | "n" -> Some false | _ -> None))
              | _ -> failwith "rt: bad dc")) in
      let indent = (field ptxt "in" = Some "1") in
      let z = (match Zipper.locate (n_of_int ni) store with Some z -> z | None -> failwith "rt: no such node") in
      let prm = { XmlSer.p_cdata = p.cd; XmlSer.p_unescaped_gt = p.gt } in
      let mem l n = L.exists (fun x -> x = n) l in
      let ser = XmlSer.serialize_xml nm decl (if indent then Some (mem p.su) else None) prm z in
      let sertxt = (match ser with Datatypes.Coq_inr s -> "ok:" ^ enc_str s | Datatypes.Coq_inl e -> "ERR:" ^ err_name e) in
      let rp = (match ser with
          | Datatypes.Coq_inl _ -> "-"
          | Datatypes.Coq_inr _ ->
            (match split_on ' ' head with
             | [srclen; mode] ->
               let ts = Parseio.tokens_of (String.trim toks) in
               let r = if mode = "frag" then Builder.parse_fragment b0 t0 (n_of_int 0) ts
                 else Builder.parse_document b0 t0 (n_of_int 0) (n_of_int (int_of_string srclen)) ts in
               Parseio.parsed_text b0 r
             | _ -> failwith "rt: bad head")) in
      print_endline (case ^ " ser=" ^ sertxt ^ " rp=" ^ rp)
    | _ -> failwith "rt: bad case line")
