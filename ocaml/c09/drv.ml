(* C09 model driver. *)
open Caseio
open Treeio
open Zipper
open Scope

let () =
  iter_lines (fun line ->
    let (case, rest) = split_case line in
    match split_bar rest with
    | [tables; tree] ->
      let (b, t) = parse_tables tables in
      let (store, _) = parse_forest tree in
      let ep = b.Interning.b_empty_prefix and xp = b.Interning.b_xml_prefix
      and nn = b.Interning.b_no_namespace and xn = b.Interning.b_xml_namespace in
      let ns_of_name n = match Interning.namespace_for_name t n with Some x -> x | None -> nn in
      let np = L.length t.Interning.t_prefixes.Interning.by_id and nns = L.length t.Interning.t_namespaces.Interning.by_id in
      let range n = L.init n (fun i -> i) in
      let so = function None -> "-" | Some x -> nstr x in
      let pairs l = String.concat "," (L.map (fun (p, n) -> nstr p ^ ">" ^ nstr n) l) in
      let pstr p = match Interning.prefix_str t p with Some s -> s | None -> [] in
      let lstr n = match Interning.local_name_str t n with Some s -> s | None -> [] in
      let full name (p : BinNums.coq_N option) = (match p with Some q -> pstr q @ [n_of_int 58] | None -> []) @ lstr name in
      let obs = L.map (fun z ->
          let inh = L.sort compare (L.map (fun (p, n) -> (int_of_n p, int_of_n n)) (inherited_prefixes ep xp nn xn ns_of_name z)) in
          let own = node_name z in
          let fnm = (match own with
              | Some nm -> (match full_name_prefix ep xp nn xn ns_of_name z nm with Some p -> enc_str (full nm p) | None -> "!")
              | None -> "-") in
          let nnr = (match own with
              | Some nm -> (match name_ref_prefix ep xp nn xn ns_of_name z nm with
                  | Some p -> nstr p ^ "/" ^ enc_str (full nm (if p = ep then None else Some p))
                  | None -> "!")
              | None -> "-") in
          Printf.sprintf "%s:in=%s;nfp=%s;pfn=%s;ipd=%s;inh=%s;un=%s;fn=%s;nnr=%s" (nstr z.z_slot)
            (pairs (namespaces_in_scope ep xp nn xn z))
            (String.concat "," (L.map (fun p -> so (namespace_for_prefix xp nn xn z (n_of_int p))) (range np)))
            (String.concat "," (L.map (fun n -> so (prefix_for_namespace ep xp xn z (n_of_int n))) (range nns)))
            (String.concat "" (L.map (fun p -> if is_prefix_defined xp nn xn z (n_of_int p) then "1" else "0") (range np)))
            (String.concat "," (L.map (fun (p, n) -> string_of_int p ^ ">" ^ string_of_int n) inh))
            (String.concat "," (L.map nstr (unresolved_namespaces ep xp nn xn ns_of_name z)))
            fnm nnr) (Access.store_cursors store) in
      print_endline (case ^ " " ^ String.concat "|" obs)
    | _ -> failwith "c09: bad case line")
