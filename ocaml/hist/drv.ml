(* History model driver: `<case> <tables> | <start state> | op;op;...` -> `<case> <outcome>/<read-back>;...` *)
open Caseio
open Treeio
open Histio

let () =
  iter_lines (fun line ->
    let (case, rest) = split_case line in
    match split_bar rest with
    | tables :: init :: tl ->
      let (b, _) = parse_tables tables in
      let st0 = parse_state init in
      let ops = (match tl with [] -> [] | o :: _ -> L.map (parse_hop b) (split_on ';' o)) in
      let res = Hist.hrun st0 ops in
      let prev = ref st0 in
      (* optional 4th part `idx=<id>:<slot>.<stamp>,...`: the xml:id index the parser built for the start document;
         then every step also shows what xml_id_node answers for every id *)
      let idx = (match L.filter (fun p -> String.length p >= 4 && String.sub p 0 4 = "idx=") tl with
                 | [] -> None
                 | p :: _ -> Some (parse_idx p)) in
      let ids st = (match idx with
                    | None -> ""
                    | Some index -> "#" ^ String.concat "," (L.map show_handle_opt (Hist.xml_id_answers st index))) in
      let items = L.map (fun (o, st) -> let s = show_out !prev st o ^ "/" ^ show_state st ^ ids st in prev := st; s) res in
      print_endline (case ^ " " ^ String.concat ";" items)
    | _ -> failwith "hist: bad case line")
