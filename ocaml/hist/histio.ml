(* Text form of histories (harness/src/history.rs): start state, operations, read-back. *)
open Caseio
open Base
open Store
open Manip

let z_of_int n =
  let open BinNums in
  if n = 0 then Z0 else if n > 0 then Zpos (pos_of_int n) else Zneg (pos_of_int (-n))
let int_of_z = function BinNums.Z0 -> 0 | BinNums.Zpos p -> int_of_pos p | BinNums.Zneg p -> - (int_of_pos p)

(* "E2@5.0(" -> ("E2(", Some (5,0)) *)
let split_handle (tok : string) : string * (int * int) =
  match String.index_opt tok '@' with
  | None -> failwith ("readback token without handle: " ^ tok)
  | Some i ->
    let head = String.sub tok 0 i in
    let tail = String.sub tok (i + 1) (String.length tok - i - 1) in
    let (tail, paren) = if String.length tail > 0 && tail.[String.length tail - 1] = '(' then (String.sub tail 0 (String.length tail - 1), "(") else (tail, "") in
    (match String.split_on_char '.' tail with
     | [a; b] -> (head ^ paren, (int_of_string a, int_of_string b))
     | _ -> failwith ("bad handle in " ^ tok))

(* parses "c1 <tokens with handles>" into a state: slots as written, stamps from the handles *)
let parse_state (s : string) : xstate =
  let toks = split_on ' ' s in
  let cons = (match toks with c :: _ -> c = "c1" | [] -> true) in
  let toks = (match toks with _ :: r -> Array.of_list r | [] -> [||]) in
  let pos = ref 0 in
  let maxslot = ref (-1) in
  let stamps = Hashtbl.create 64 in
  let split2 ch r = match String.index_opt r ch with
    | None -> failwith ("bad token " ^ r)
    | Some i -> (String.sub r 0 i, String.sub r (i + 1) (String.length r - i - 1)) in
  let rec siblings () : forest =
    if !pos >= Array.length toks || toks.(!pos) = ")" then FNil
    else begin
      let raw = toks.(!pos) in
      incr pos;
      let (tok, (slot, stamp)) = split_handle raw in
      if slot > !maxslot then maxslot := slot;
      Hashtbl.replace stamps slot stamp;
      let rest_of t = String.sub t 1 (String.length t - 1) in
      let close () = if !pos < Array.length toks && toks.(!pos) = ")" then incr pos else failwith "expected )" in
      let (v, kids) =
        match tok.[0] with
        | 'D' -> let k = siblings () in close (); (VDocument, k)
        | 'E' -> let r = rest_of tok in
          let name = String.sub r 0 (String.length r - 1) in
          let k = siblings () in close (); (VElement (n_of_int (int_of_string name)), k)
        | 'T' -> (VText (dec_str (rest_of tok)), FNil)
        | 'C' -> (VComment (dec_str (rest_of tok)), FNil)
        | 'P' -> let (n, d) = split2 '=' (rest_of tok) in (VPI (n_of_int (int_of_string n), dec_opt_str d), FNil)
        | 'A' -> let (n, d) = split2 '=' (rest_of tok) in (VAttribute (n_of_int (int_of_string n), dec_str d), FNil)
        | 'N' -> let (p, n) = split2 ':' (rest_of tok) in (VNamespace (n_of_int (int_of_string p), n_of_int (int_of_string n)), FNil)
        | _ -> failwith ("unknown token " ^ tok) in
      let rest = siblings () in
      FCons (n_of_int slot, v, kids, rest)
    end in
  let f = siblings () in
  let n = !maxslot + 1 in
  let st = L.init n (fun i -> match Hashtbl.find_opt stamps i with Some s -> z_of_int s | None -> failwith "start state with a free slot") in
  { store = f; stamps = st; free = []; cons = cons }

let ph (s : string) : BinNums.coq_N =
  match String.split_on_char '.' s with
  | [a; _] -> n_of_int (int_of_string a)
  | _ -> failwith ("bad handle " ^ s)

let parse_op (s : string) : mop =
  let f = Array.of_list (String.split_on_char ' ' s) in
  let u i = n_of_int (int_of_string f.(i)) in
  match f.(0) with
  | "new_doc" -> ONewDoc
  | "new_el" -> ONewEl (u 1)
  | "new_text" -> ONewText (dec_str f.(1))
  | "new_comment" -> ONewComment (dec_str f.(1))
  | "new_pi" -> ONewPi (u 1, dec_opt_str f.(2))
  | "new_attr" -> ONewAttr (u 1, dec_str f.(2))
  | "new_ns" -> ONewNs (u 1, u 2)
  | "append" -> OAppend (ph f.(1), ph f.(2))
  | "prepend" -> OPrepend (ph f.(1), ph f.(2))
  | "ia" -> OInsertAfter (ph f.(1), ph f.(2))
  | "ib" -> OInsertBefore (ph f.(1), ph f.(2))
  | "any_append" -> OAnyAppend (ph f.(1), ph f.(2))
  | "append_attr" -> OAppendAttrNode (ph f.(1), ph f.(2))
  | "append_ns" -> OAppendNsNode (ph f.(1), ph f.(2))
  | "detach" -> ODetach (ph f.(1))
  | "remove" -> ORemove (ph f.(1))
  | "replace" -> OReplace (ph f.(1), ph f.(2))
  | "wrap" -> OWrap (ph f.(1), u 2)
  | "unwrap" -> OUnwrap (ph f.(1))
  | "clone" -> OCloneNode (ph f.(1))
  | "set_name" -> OSetName (ph f.(1), u 2)
  | "set_attr" -> OSetAttr (ph f.(1), u 2, dec_str f.(3))
  | "rm_attr" -> ORmAttr (ph f.(1), u 2)
  | "set_ns" -> OSetNs (ph f.(1), u 2, u 3)
  | "rm_ns" -> ORmNs (ph f.(1), u 2)
  | "attrs_clear" -> OAttrsClear (ph f.(1))
  | "ns_clear" -> ONsClear (ph f.(1))
  | "attrs_getmut" -> OAttrsGetMutSet (ph f.(1), u 2, dec_str f.(3))
  | "attrs_or_insert" -> OAttrsEntryOrInsert (ph f.(1), u 2, dec_str f.(3))
  | "attrs_modify" -> OAttrsEntryModify (ph f.(1), u 2, dec_str f.(3))
  | "attrs_entry_remove" -> OAttrsEntryRemove (ph f.(1), u 2)
  | "ns_getmut" -> ONsGetMutSet (ph f.(1), u 2, u 3)
  | "ns_or_insert" -> ONsEntryOrInsert (ph f.(1), u 2, u 3)
  | "set_text" -> OSetText (ph f.(1), dec_str f.(2))
  | "set_comment" -> OSetComment (ph f.(1), dec_str f.(2))
  | "set_pi_data" -> OSetPiData (ph f.(1), dec_opt_str f.(2))
  | "set_attr_value" -> OSetAttrValue (ph f.(1), dec_str f.(2))
  | "set_ns_value" -> OSetNsValue (ph f.(1), u 2)
  | "tcm" -> OTextContentMut (ph f.(1), dec_str f.(2))
  | "cons" -> OCons (f.(1) = "1")
  | "new_doc_with" -> ONewDocWith (ph f.(1))
  | x -> failwith ("unknown op " ^ x)

(* operations beyond the core mutators (Model/Hist.v) *)
let parse_hop (b : Interning.builtins) (s : string) : Hist.hop =
  let f = Array.of_list (String.split_on_char ' ' s) in
  match f.(0) with
  | "rmws" -> Hist.HRemoveWs (ph f.(1), b.Interning.b_xml_space)
  | _ -> Hist.HM (parse_op s)

(* read-back of a state: roots sorted by slot, raw order, every node with its handle *)
let show_state (st : xstate) : string =
  let hd i = nstr i ^ "." ^ string_of_int (int_of_z (stamp_of st i)) in
  let buf = Buffer.create 256 in
  let rec node (i, v, k) =
    (match v with
     | VDocument -> Buffer.add_string buf ("D@" ^ hd i ^ "("); kids k; Buffer.add_string buf " )"
     | VElement n -> Buffer.add_string buf ("E" ^ nstr n ^ "@" ^ hd i ^ "("); kids k; Buffer.add_string buf " )"
     | VText s -> Buffer.add_string buf ("T" ^ enc_str s ^ "@" ^ hd i)
     | VComment s -> Buffer.add_string buf ("C" ^ enc_str s ^ "@" ^ hd i)
     | VPI (n, d) -> Buffer.add_string buf ("P" ^ nstr n ^ "=" ^ enc_opt_str d ^ "@" ^ hd i)
     | VAttribute (n, s) -> Buffer.add_string buf ("A" ^ nstr n ^ "=" ^ enc_str s ^ "@" ^ hd i)
     | VNamespace (p, n) -> Buffer.add_string buf ("N" ^ nstr p ^ ":" ^ nstr n ^ "@" ^ hd i))
  and kids f =
    match f with
    | FNil -> ()
    | FCons (i, v, k, r) -> Buffer.add_char buf ' '; node (i, v, k); kids r in
  let rec roots f = match f with FNil -> [] | FCons (i, v, k, r) -> (i, v, k) :: roots r in
  let rs = L.sort (fun (a, _, _) (b, _, _) -> compare (int_of_n a) (int_of_n b)) (roots st.store) in
  Buffer.add_string buf (if st.cons then "c1" else "c0");
  L.iter (fun t -> Buffer.add_char buf ' '; node t) rs;
  Buffer.contents buf

(* a returned node is printed as the handle the caller holds: the stamp the slot had before the call when the slot
   was in use then (the call returned one of its arguments), else the stamp it has now (a node created by the call) *)
let show_out (before : xstate) (st : xstate) (o : mout) : string =
  match o with
  | MDone None -> "OK"
  | MDone (Some n) ->
    let sb = int_of_z (stamp_of before n) in
    let existed = int_of_n n < L.length before.stamps && sb >= 0 in
    "OK:" ^ nstr n ^ "." ^ string_of_int (if existed then sb else int_of_z (stamp_of st n))
  | MErr EInvalidOperation -> "ERR:InvalidOperation"
  | MErr ENodeError -> "ERR:NodeError"
  | MErr EInvalidComment -> "ERR:InvalidComment"
  | MErr ENotElement -> "ERR:NotElement"
  | MPanic -> "PANIC"

(* idx=<id code points>:<slot>.<stamp>,... *)
let parse_idx (s : string) =
  let body = String.sub s 4 (String.length s - 4) in
  L.map (fun e ->
    match String.split_on_char ':' e with
    | [id; h] ->
      (match String.split_on_char '.' h with
       | [a; b] -> (dec_str id, (n_of_int (int_of_string a), z_of_int (int_of_string b)))
       | _ -> failwith ("bad handle in idx: " ^ e))
    | _ -> failwith ("bad idx entry: " ^ e)) (split_on ',' body)

let show_handle_opt = function
  | None -> "-"
  | Some (i, s) -> nstr i ^ "." ^ string_of_int (int_of_z s)
