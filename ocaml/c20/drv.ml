(* C20 model driver: three kinds of case lines (parse / fixed / steps). *)
open Caseio
open Treeio
open Histio

(* tree text of a document -> the arguments of Fixed.xotify_document *)
let rec content_of (f : Base.forest) : Fixed.fcontent =
  match f with
  | Base.FNil -> Fixed.FCNil
  | Base.FCons (_, v, k, r) ->
    (match v with
     | Base.VText s -> Fixed.FCText (s, content_of r)
     | Base.VComment s -> Fixed.FCComment (s, content_of r)
     | Base.VPI (t, d) -> Fixed.FCPI (t, d, content_of r)
     | Base.VElement n ->
       let (ps, attrs, kids) = split_element k in
       Fixed.FCElem (n, ps, attrs, content_of kids, content_of r)
     | _ -> failwith "c20: unexpected node in fixed content")
and split_element (k : Base.forest) =
  match k with
  | Base.FCons (_, Base.VNamespace (p, n), _, r) -> let (ps, a, kids) = split_element r in ((p, n) :: ps, a, kids)
  | Base.FCons (_, Base.VAttribute (n, v), _, r) -> let (ps, a, kids) = split_element r in (ps, (n, v) :: a, kids)
  | _ -> ([], [], k)

let empty_state = { Store.store = Base.FNil; Store.stamps = []; Store.free = []; Store.cons = true }

let () =
  let (b0, t0) = match InternOps.x_new with Interning.ROk st -> st | Interning.RPanic -> failwith "x_new panics" in
  iter_lines (fun line ->
    let (case, rest) = split_case line in
    let (kind, rest) = split_case rest in
    match kind with
    | "parse" ->
      (match String.split_on_char '|' rest with
       | head :: toks :: _ ->
         (match split_on ' ' head with
          | [_mode; srclen] ->
            let ts = Parseio.tokens_of (String.trim toks) in
            print_endline (case ^ " " ^ Parseio.parsed_text b0 (Builder.parse_document b0 t0 (n_of_int 0) (n_of_int (int_of_string srclen)) ts))
          | _ -> failwith "c20: bad parse head")
       | _ -> failwith "c20: bad parse line")
    | "fixed" ->
      (match split_bar rest with
       | [tables; tree] ->
         let _ = parse_tables tables in
         let (f, _) = parse_forest tree in
         (match f with
          | Base.FCons (_, Base.VDocument, kids, Base.FNil) ->
            let rec split_doc k before =
              match k with
              | Base.FCons (i, Base.VElement n, ek, r) -> (L.rev before, (i, n, ek), r)
              | Base.FCons (i, v, k', r) -> split_doc r (Base.FCons (i, v, k', Base.FNil) :: before)
              | Base.FNil -> failwith "c20: no document element" in
            let (before, (_, name, ek), after) = split_doc kids [] in
            let before_f = L.fold_right (fun x acc -> match x with Base.FCons (i, v, k, _) -> Base.FCons (i, v, k, acc) | Base.FNil -> acc) before Base.FNil in
            let (ps, attrs, ekids) = split_element ek in
            (match Fixed.xotify_document (content_of before_f) name ps attrs (content_of ekids) (content_of after) empty_state with
             | Some (st, doc) -> print_endline (case ^ " " ^ show_out empty_state st (Manip.MDone (Some doc)) ^ "/" ^ show_state st)
             | None -> print_endline (case ^ " PANIC"))
          | _ -> failwith "c20: fixed case is not a document")
       | _ -> failwith "c20: bad fixed line")
    | "steps" ->
      (match split_bar rest with
       | tables :: init :: tl ->
         let (b, _) = parse_tables tables in
         let st0 = parse_state init in
         let ops = (match tl with [] -> [] | o :: _ -> L.map (parse_hop b) (split_on ';' o)) in
         let res = Hist.hrun st0 ops in
         let prev = ref st0 in
         let items = L.map (fun (o, st) -> let s = show_out !prev st o ^ "/" ^ show_state st in prev := st; s) res in
         print_endline (case ^ " " ^ String.concat ";" items)
       | _ -> failwith "c20: bad steps line")
    | _ -> failwith ("c20: unknown case kind " ^ kind))
