(* C13 model driver. *)
open Caseio
open Treeio
open Base
open Compare

let lower (s : BinNums.coq_N list) = L.map (fun c -> let i = int_of_n c in if i >= 65 && i <= 90 then n_of_int (i + 32) else c) s
let tc_exact a b = str_eqb a b
let tc_ci a b = str_eqb (lower a) (lower b)
let b01 b = if b then "1" else "0"

let () =
  iter_lines (fun line ->
    let (case, rest) = split_case line in
    match split_bar rest with
    | [tables; trees; pairs; igs] ->
      let (_, t) = parse_tables tables in
      let (store, _) = parse_forest trees in
      let node i = match Base.find (n_of_int i) store with Some (v, k) -> (v, k) | None -> failwith "c13: no such node" in
      let ns_str i = match Interning.namespace_str t i with Some s -> s | None -> [] in
      let igs = L.map (fun s -> if s = "" then [] else L.map (fun x -> n_of_int (int_of_string x)) (String.split_on_char '+' s)) (String.split_on_char ',' igs) in
      let obs = L.mapi (fun pi p ->
          match String.split_on_char '-' p with
          | [x; y] ->
            let (vx, kx) = node (int_of_string x) and (vy, ky) = node (int_of_string y) in
            let keep_nc v = (match v with VComment _ -> false | _ -> true) in
            Printf.sprintf "%d:de=%s;rev=%s;dec=%s;dex=%s;dexci=%s;adexp=%s;adenc=%s;adeall=%s;se=%s;sei=%s;svx=%s;svy=%s" pi
              (b01 (deep_equal vx kx vy ky)) (b01 (deep_equal vy ky vx kx)) (b01 (deep_equal_children kx ky))
              (b01 (deep_equal_xpath tc_exact vx kx vy ky)) (b01 (deep_equal_xpath tc_ci vx kx vy ky))
              (b01 (advanced_deep_equal tc_exact keep_xpath vx kx vy ky)) (b01 (advanced_deep_equal tc_ci keep_nc vx kx vy ky))
              (b01 (advanced_deep_equal tc_ci (fun _ -> true) vx kx vy ky))
              (b01 (shallow_equal vx kx vy ky))
              (String.concat "" (L.map (fun ig -> b01 (shallow_equal_ignore ig vx kx vy ky)) igs))
              (enc_str (string_value ns_str vx kx)) (enc_str (string_value ns_str vy ky))
          | _ -> failwith "c13: bad pair") (split_on ',' pairs) in
      print_endline (case ^ " " ^ String.concat "|" obs)
    | _ -> failwith "c13: bad case line")
