(* C16 model driver *)
open Caseio
open Treeio
open Serio

let () =
  iter_lines (fun line ->
    let (case, rest) = split_case line in
    match split_bar rest with
    | [tables; tree; queries] ->
      let (b, t) = parse_tables tables in
      let nm = names_of b t in
      let (store, _) = parse_forest tree in
      let obs = L.map (fun q ->
          match String.index_opt q '@' with
          | None -> failwith "c16: bad query"
          | Some i ->
            let ni = int_of_string (String.sub q 0 i) and p = parse_params (String.sub q (i + 1) (String.length q - i - 1)) in
            (match Zipper.locate (n_of_int ni) store with
             | Some z -> obs_text nm z p
             | None -> failwith "c16: no such node")) (split_on ',' queries) in
      print_endline (case ^ " " ^ String.concat " || " obs)
    | _ -> failwith "c16: bad case line")
