(* Parser model driver: `<case> <class> <doc|bomdoc|frag> <srclen> | <tokens> | ...` -> `<case> <observation>`
   (bomdoc: a document whose text starts with a byte order mark) *)
open Caseio
open Parseio

let () =
  let (b, t0) = match InternOps.x_new with Interning.ROk st -> st | Interning.RPanic -> failwith "x_new panics" in
  iter_lines (fun line ->
    let (case, rest) = split_case line in
    match String.split_on_char '|' rest with
    | head :: toks :: _ ->
      (match split_on ' ' head with
       | ["enc"; _; _] ->
         (* which encoding label src/encoding.rs takes (Model/Encoding.v chosen_label), shown as the character the byte 0xE9
            decodes to under that label (encoding_rs is third-party code: the table below is what it does, observed once) *)
         let bytes = Stdlib.List.map (fun t -> n_of_int (int_of_string t))
             (Stdlib.List.filter (fun t -> t <> "") (String.split_on_char '.' (String.trim toks))) in
         let table = [("iso-8859-1", 233); ("windows-1252", 233); ("iso-8859-2", 233); ("koi8-r", 1048); ("windows-1251", 1081);
                      ("ibm866", 1097); ("iso-8859-7", 953); ("macintosh", 200); ("iso-8859-5", 1097); ("utf-8", 65533);
                      ("us-ascii", 233); ("latin1", 233)] in
         (match Encoding.chosen_label bytes None with
          | None -> print_endline (case ^ " ENC left-to-xhtmlchardet")
          | Some l ->
            let label = String.lowercase_ascii (String.trim (String.concat "" (Stdlib.List.map (fun c -> String.make 1 (Char.chr (int_of_n c))) l))) in
            (* Encoding::decode of encoding_rs sniffs the byte order mark first: behind a UTF-8 byte order mark the bytes are
               decoded as UTF-8 whatever the label says (a document that declares something else there contradicts itself) *)
            let bom = (match bytes with a :: b :: c :: _ -> int_of_n a = 239 && int_of_n b = 187 && int_of_n c = 191 | _ -> false) in
            let code = if bom then 65533 else try Stdlib.List.assoc label table with Not_found -> 65533 in
            (* the lone byte 0xE9 is not legal UTF-8: where the label (or the byte order mark, or an unknown label's fallback)
               means UTF-8 the document is rejected *)
            print_endline (case ^ " ENC " ^ (if code = 65533 then "rejected" else string_of_int code)))
       | [_cls; mode; srclen] ->
         let ts = tokens_of (String.trim toks) in
         let r = if mode = "frag" then Builder.parse_fragment b t0 (n_of_int 0) ts
           else Builder.parse_document_at b (mode = "bomdoc") t0 (n_of_int 0) (n_of_int (int_of_string srclen)) ts in
         (* the shape Proofs/BuilderTotal.v assumes of xmlparser's token stream is checked on every stream it produced *)
         if not (Builder.stream_shape false ts) then print_endline (case ^ " TOKEN-SHAPE-BROKEN")
         else print_endline (case ^ " " ^ parsed_text b r)
       | _ -> failwith "parse: bad head")
    | _ -> failwith "parse: bad case line")
