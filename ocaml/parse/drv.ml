(* Parser model driver: `<case> <class> <doc|bomdoc|frag> <srclen> | <tokens> | ...` -> `<case> <observation>`
   (bomdoc: a document whose text starts with a byte order mark) *)
open Caseio
open Parseio

let () =
  let (b, t0) = match InternOps.x_new with Interning.ROk st -> st | Interning.RPanic -> failwith "x_new panics" in
  iter_lines (fun line ->
    let (case, rest) = split_case line in
    match String.split_on_char '|' rest with
    | head :: toks :: _ ->
      (match split_on ' ' head with
       | [_cls; mode; srclen] ->
         let ts = tokens_of (String.trim toks) in
         let r = if mode = "frag" then Builder.parse_fragment b t0 (n_of_int 0) ts
           else Builder.parse_document_at b (mode = "bomdoc") t0 (n_of_int 0) (n_of_int (int_of_string srclen)) ts in
         (* the shape Proofs/BuilderTotal.v assumes of xmlparser's token stream is checked on every stream it produced *)
         if not (Builder.stream_shape false ts) then print_endline (case ^ " TOKEN-SHAPE-BROKEN")
         else print_endline (case ^ " " ^ parsed_text b r)
       | _ -> failwith "parse: bad head")
    | _ -> failwith "parse: bad case line")
