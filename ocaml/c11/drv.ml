(* C11 model driver: history + observation of both node-map views of two elements after every step. *)
open Caseio
open Treeio
open Histio
open Base
open NodeMapRead

let rust_vec (l : string list) = "[" ^ String.concat ", " l ^ "]"
let q s = "\"" ^ s ^ "\""
let handle_str st i = nstr i ^ "." ^ string_of_int (int_of_z (Store.stamp_of st i))

let obs_view (st : Store.xstate) (kind : Manip.mapkind) (e : BinNums.coq_N) (probes : int list) : string =
  let v = view kind st e in
  let valstr (x : value) = match x with
    | VAttribute (_, s) -> enc_str s | VNamespace (_, n) -> nstr n | _ -> "?" in
  let isattr = (match kind with Manip.KAttr -> true | Manip.KNs -> false) in
  let keys = L.map nstr (v_keys v) in
  let values = L.map (fun x -> if isattr then q (valstr x) else valstr x) (v_values v) in
  let nodes = L.map (fun i -> q (handle_str st i)) (v_nodes v) in
  let kv = L.map (fun (_, x) -> q (nstr (Manip.key_of x) ^ "=" ^ valstr x)) v in
  let hm = L.sort compare (L.map (fun (_, x) -> nstr (Manip.key_of x) ^ "=" ^ valstr x) v) in
  let head = Printf.sprintf "len=%s empty=%d keys=%s values=%s nodes=%s iter=%s vec=%s hm=%s"
      (nstr (v_len v)) (if v_is_empty v then 1 else 0) (rust_vec keys) (rust_vec values) (rust_vec nodes)
      (rust_vec kv) (rust_vec kv) (rust_vec (L.map q hm)) in
  let probe k =
    let key = n_of_int k in
    Printf.sprintf "%d:%d:%s:%s" k (if v_contains_key v key then 1 else 0)
      (match v_get v key with Some x -> valstr x | None -> "~")
      (match v_get_node v key with Some i -> handle_str st i | None -> "-") in
  let s = (if isattr then "A " else "N ") ^ head ^ " " ^ String.concat "," (L.map probe probes) in
  String.concat "_" (String.split_on_char ' ' s)

let () =
  iter_lines (fun line ->
    let (case, rest) = split_case line in
    match split_bar rest with
    | [tables; init; ops; hs; ak; pk] ->
      let _ = parse_tables tables in
      let st0 = parse_state init in
      let ops = L.map parse_op (split_on ';' ops) in
      let es = L.map ph (split_on ' ' hs) in
      let ak = L.map int_of_string (split_on ',' ak) in
      let pk = L.map int_of_string (split_on ',' pk) in
      let res = Manip.mrun st0 ops in
      let prev = ref st0 in
      let items = L.map (fun (o, st) ->
          let s = show_out !prev st o in
          prev := st;
          String.concat "/" (s :: L.map (fun e -> obs_view st Manip.KAttr e ak ^ "+" ^ obs_view st Manip.KNs e pk) es)) res in
      print_endline (case ^ " " ^ String.concat ";" items)
    | _ -> failwith "c11: bad case line")
