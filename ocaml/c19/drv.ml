(* C19 model driver: `<case> <tables> | <tree> | <node>@cd=..;su=..;in=.. , ...` -> `<case> ok:.. || ERR:.. || PANIC` *)
open Caseio
open Treeio
open Serio

let field (s : string) (k : string) : string =
  L.fold_left (fun acc f ->
      match String.index_opt f '=' with
      | Some i when String.sub f 0 i = k -> String.sub f (i + 1) (String.length f - i - 1)
      | _ -> acc) "-" (String.split_on_char ';' s)

let ids v = if v = "-" then [] else L.map (fun x -> n_of_int (int_of_string x)) (String.split_on_char '+' v)

let () =
  iter_lines (fun line ->
    let (case, rest) = split_case line in
    match split_bar rest with
    | [tables; tree; queries] ->
      let (b, t) = parse_tables tables in
      (* Html5::new registers the HTML namespaces and names after everything the case registered *)
      let (x, m, s, t') = (match InternOps.x_html5 t b.Interning.b_no_namespace with
          | Interning.ROk r -> let (((x, m), s), t') = r in (x, m, s, t')
          | Interning.RPanic -> failwith "html5 panics") in
      let nm = names_of b t' in
      let hn = { HtmlSer.h_xhtml = x; HtmlSer.h_mathml = m; HtmlSer.h_svg = s } in
      let (store, _) = parse_forest tree in
      let obs = L.map (fun q ->
          match String.index_opt q '@' with
          | None -> failwith "c19: bad query"
          | Some i ->
            let ni = int_of_string (String.sub q 0 i) and p = String.sub q (i + 1) (String.length q - i - 1) in
            (match Zipper.locate (n_of_int ni) store with
             | None -> failwith "c19: no such node"
             | Some z ->
               let indent = if field p "in" = "1" then Some (ids (field p "su")) else None in
               (match HtmlSer.html5_serialize nm hn (ids (field p "cd")) indent z with
                | HtmlSer.HOk s -> "ok:" ^ enc_str s
                | HtmlSer.HErr HtmlSer.HMissingPrefix -> "ERR:MissingPrefix"
                | HtmlSer.HErr HtmlSer.HNamespaceInPI -> "ERR:NamespaceInPI"
                | HtmlSer.HErr HtmlSer.HPIGt -> "ERR:PIGt"
                | HtmlSer.HPanic -> "PANIC"))) (split_on ',' queries) in
      print_endline (case ^ " " ^ String.concat " || " obs)
    | _ -> failwith "c19: bad case line")
