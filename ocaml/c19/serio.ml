(* Shared by the serialisation drivers: the `names` record from the tables, parameters, observation text. *)
open Caseio
open XmlSer

let names_of (b : Interning.builtins) (t : Interning.tables) : names =
  let nn = b.Interning.b_no_namespace in
  { n_empty_prefix = b.Interning.b_empty_prefix; n_xml_prefix = b.Interning.b_xml_prefix;
    n_no_ns = nn; n_xml_ns = b.Interning.b_xml_namespace;
    n_ns_of_name = (fun n -> match Interning.namespace_for_name t n with Some x -> x | None -> nn);
    n_local = (fun n -> match Interning.local_name_str t n with Some s -> s | None -> []);
    n_prefix_str = (fun p -> match Interning.prefix_str t p with Some s -> s | None -> []);
    n_ns_str = (fun n -> match Interning.namespace_str t n with Some s -> s | None -> []);
    n_xml_space = b.Interning.b_xml_space }

type sp = { cd : BinNums.coq_N list; gt : bool; su : BinNums.coq_N list }

let parse_params (s : string) : sp =
  let l v = if v = "-" then [] else L.map (fun x -> n_of_int (int_of_string x)) (String.split_on_char '+' v) in
  L.fold_left (fun p f ->
      match String.index_opt f '=' with
      | None -> p
      | Some i ->
        let k = String.sub f 0 i and v = String.sub f (i + 1) (String.length f - i - 1) in
        (match k with "cd" -> { p with cd = l v } | "gt" -> { p with gt = (v = "1") } | "su" -> { p with su = l v } | _ -> p))
    { cd = []; gt = false; su = [] } (String.split_on_char ';' s)

let err_name = function EMissingPrefix -> "MissingPrefix" | ENamespaceInPI -> "NamespaceInPI" | ENoParentForText -> "NoParent"

let output_text = function
  | OStartTagOpen n -> "so" ^ nstr n
  | OStartTagClose -> "sc"
  | OEndTag n -> "et" ^ nstr n
  | OPrefix (p, n) -> "px" ^ nstr p ^ ">" ^ nstr n
  | OAttribute (n, v) -> "at" ^ nstr n ^ "=" ^ enc_str v
  | OText s -> "tx" ^ enc_str s
  | OComment s -> "cm" ^ enc_str s
  | OPI (t, d) -> "pi" ^ nstr t ^ "=" ^ enc_opt_str d

let nat_int (n : Datatypes.nat) : int =
  let rec go n acc = match n with Datatypes.O -> acc | Datatypes.S k -> go k (acc + 1) in go n 0

let obs_text (nm : names) (z : Zipper.zipper) (p : sp) : string =
  let prm = { p_cdata = p.cd; p_unescaped_gt = p.gt } in
  let mem l n = L.exists (fun x -> x = n) l in
  let r = function Datatypes.Coq_inr s -> "ok:" ^ enc_str s | Datatypes.Coq_inl e -> "ERR:" ^ err_name e in
  let slot (c : Zipper.zipper) = nstr c.Zipper.z_slot in
  let toks = (match tokens nm prm z with
      | Datatypes.Coq_inl _ -> "PANIC"
      | Datatypes.Coq_inr l -> String.concat "," (L.map (fun ((c, _), t) -> slot c ^ ":" ^ (if t.t_space then "1" else "0") ^ ":" ^ enc_str t.t_text) l)) in
  let ptoks = (match pretty_tokens nm (mem p.su) (fun _ -> false) prm z with
      | Datatypes.Coq_inl _ -> "PANIC"
      | Datatypes.Coq_inr l -> String.concat "," (L.map (fun ((c, _), t) ->
          slot c ^ ":" ^ string_of_int (nat_int t.pt_indent) ^ ":" ^ (if t.pt_space then "1" else "0") ^ ":" ^ enc_str t.pt_text ^ ":" ^ (if t.pt_newline then "1" else "0")) l)) in
  let outs = String.concat "," (L.map (fun (c, o) -> slot c ^ ":" ^ output_text o) (gen_outputs nm z)) in
  Printf.sprintf "ser=%s tok=%s pty=%s ptok=%s out=%s" (r (serialize_write nm prm z)) toks
    (r (serialize_pretty_write nm (mem p.su) (fun _ -> false) prm z)) ptoks outs
