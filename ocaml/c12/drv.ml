(* C12 model driver: histories with clone_with_prefixes (Hist.trun): `<case> <tables> | <start state> | op;op;...` *)
open Caseio
open Treeio
open Histio

let parse_top (b : Interning.builtins) (s : string) : Hist.top =
  let f = Array.of_list (String.split_on_char ' ' s) in
  match f.(0) with
  | "cmp" -> Hist.TCmp (ph f.(1))
  | "dedup" -> Hist.TDedup (ph f.(1))
  | "clonep" ->
    let ord = if Array.length f < 3 || f.(2) = "-" then [] else L.map (fun x -> n_of_int (int_of_string x)) (String.split_on_char '+' f.(2)) in
    Hist.TCloneP (ph f.(1), ord)
  | _ -> Hist.TH (parse_hop b s)

let () =
  iter_lines (fun line ->
    let (case, rest) = split_case line in
    match split_bar rest with
    | tables :: init :: tl ->
      let (b, t) = parse_tables tables in
      let st0 = parse_state init in
      let ops = (match tl with [] -> [] | o :: _ -> L.map (parse_top b) (split_on ';' o)) in
      let nn = b.Interning.b_no_namespace in
      let nsn = { NsTools.ns_empty_prefix = b.Interning.b_empty_prefix; NsTools.ns_xml_prefix = b.Interning.b_xml_prefix;
                  NsTools.ns_no_ns = nn; NsTools.ns_xml_ns = b.Interning.b_xml_namespace;
                  NsTools.ns_of_name = (fun n -> match Interning.namespace_for_name t n with Some x -> x | None -> nn) } in
      let res = Hist.trun nsn (t, st0) ops in
      let prev = ref st0 in
      let items = L.map (fun (o, (_, st)) -> let s = show_out !prev st o ^ "/" ^ show_state st in prev := st; s) res in
      print_endline (case ^ " " ^ String.concat ";" items)
    | _ -> failwith "c12: bad case line")
