(* C08 model driver: reads histories, runs the extracted model, prints one observation line per case in
   the format harness/src/bin/c08.rs prints for the implementation. *)
open Caseio
open InternOps

let parse_op (o : string) : iop option =
  match String.split_on_char ' ' o with
  | ["an"; s; n] -> Some (OAddNameNs (dec_str s, n_of_int (int_of_string n)))
  | ["ans"; s] -> Some (OAddNamespace (dec_str s))
  | ["ap"; s] -> Some (OAddPrefix (dec_str s))
  | ["ln"; s; n] -> Some (OLookupNameNs (dec_str s, n_of_int (int_of_string n)))
  | ["lns"; s] -> Some (OLookupNamespace (dec_str s))
  | ["lp"; s] -> Some (OLookupPrefix (dec_str s))
  | ["ns"; i] -> Some (ONameStr (n_of_int (int_of_string i)))
  | ["nss"; i] -> Some (ONamespaceStr (n_of_int (int_of_string i)))
  | ["ps"; i] -> Some (OPrefixStr (n_of_int (int_of_string i)))
  | ["h5"] -> Some OHtml5
  | ["cl"] -> Some OClone
  | _ -> failwith ("unknown op " ^ o)

let show_obs = function
  | ObsId i -> "i" ^ nstr i
  | ObsOptId None -> "o-"
  | ObsOptId (Some i) -> "o" ^ nstr i
  | ObsStr None -> "s!"
  | ObsStr (Some s) -> "s" ^ enc_str s
  | ObsName None -> "n!"
  | ObsName (Some (l, u)) -> "n" ^ enc_str l ^ "/" ^ enc_str u
  | ObsHtml (x, m, s) -> "h" ^ nstr x ^ "," ^ nstr m ^ "," ^ nstr s
  | ObsUnit -> "u"
  | ObsPanic -> "P"

let () =
  iter_lines (fun line ->
    let (case, rest) = split_case line in
    let ops = L.filter_map parse_op (split_on ';' rest) in
    match x_new with
    | Interning.RPanic -> print_endline (case ^ " NEW-PANIC")
    | Interning.ROk st ->
      let b = builtin_obs st in
      let bs = String.concat " " (L.map (fun (i, s) -> nstr i ^ ":" ^ (match s with None -> "!" | Some s -> enc_str s)) b) in
      let (_, obs) = irun st ops in
      print_endline (case ^ " B " ^ bs ^ (if obs = [] then "" else ";") ^ String.concat ";" (L.map show_obs obs)))
