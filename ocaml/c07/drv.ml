(* C07 model driver: every traversal entry point of Model/Access.v at every node of every case tree. *)
open Caseio
open Treeio
open Zipper
open Access

let sl (l : zipper list) = show_slots (L.map (fun z -> z.z_slot) l)
let so (o : zipper option) = match o with None -> "-" | Some z -> nstr z.z_slot
let se (l : edge list) =
  if l = [] then "-" else String.concat "," (L.map (function EStart z -> "S" ^ nstr z.z_slot | EEnd z -> "E" ^ nstr z.z_slot) l)
let son (o : BinNums.coq_N option) = match o with None -> "-" | Some n -> nstr n
let err_name = function
  | ENotDocument -> "NotDocument" | ENoElementAtTopLevel -> "NoElementAtTopLevel" | ETextAtTopLevel -> "TextAtTopLevel"
  | EIllegalAtTopLevel -> "IllegalAtTopLevel" | EMultipleElementsAtTopLevel -> "MultipleElementsAtTopLevel"

let axes = [ (AxChild, "axChild"); (AxDescendant, "axDescendant"); (AxParent, "axParent"); (AxAncestor, "axAncestor");
             (AxFollowingSibling, "axFollowingSibling"); (AxPrecedingSibling, "axPrecedingSibling");
             (AxFollowing, "axFollowing"); (AxPreceding, "axPreceding"); (AxAttribute, "axAttribute"); (AxSelf, "axSelf");
             (AxDescendantOrSelf, "axDescendantOrSelf"); (AxAncestorOrSelf, "axAncestorOrSelf") ]

let node_obs (rootz : zipper) (z : zipper) : string =
  let f = [
    ("parent", so (parent z)); ("first_child", so (first_child z)); ("last_child", so (last_child z));
    ("next_sibling", so (next_sibling z)); ("previous_sibling", so (previous_sibling z));
    ("children", sl (children z)); ("reverse_children", sl (reverse_children z)); ("ancestors", sl (ancestors z));
    ("descendants", sl (descendants z)); ("all_descendants", sl (all_descendants z));
    ("following_siblings", sl (following_siblings z)); ("preceding_siblings", sl (preceding_siblings z));
    ("following", sl (following z)); ("all_following", sl (all_following z)); ("preceding", sl (preceding z));
    ("reverse_preorder", sl (reverse_preorder z)); ("all_reverse_preorder", sl (all_reverse_preorder z));
    ("traverse", se (traverse z)); ("all_traverse", se (all_traverse z)); ("reverse_traverse", se (reverse_traverse z));
    ("reverse_all_traverse", se (reverse_all_traverse z));
    ("edge_next", se (edge_next_walk z)); ("edge_previous", se (edge_previous_walk z));
    ("level_order", String.concat "," (L.map (function None -> "$" | Some y -> nstr y.z_slot) (level_order z))) ]
    @ L.map (fun (a, name) -> (name, sl (axis_nodes a z))) axes
    @ [ ("attribute_nodes", sl (attribute_nodes z));
        ("child_index_parent", (match parent z with Some p -> son (child_index p z) | None -> "-"));
        ("child_index_root", son (child_index rootz z));
        ("root", nstr (root z).z_slot);
        ("top_element", (match top_element z with Some t -> nstr t.z_slot | None -> "!"));
        ("document_element", (match document_element z with Datatypes.Coq_inr e -> nstr e.z_slot | Datatypes.Coq_inl e -> err_name e));
        ("validate", (match validate_well_formed_document z with None -> "ok" | Some e -> err_name e)) ] in
  nstr z.z_slot ^ ":" ^ String.concat ";" (L.map (fun (k, v) -> k ^ "=" ^ v) f)

let () =
  iter_lines (fun line ->
    let (case, rest) = split_case line in
    match split_bar rest with
    | [tables; tree] ->
      let _ = parse_tables tables in
      let (store, _) = parse_forest tree in
      let cursors = store_cursors store in
      let rootz = L.hd cursors in
      print_endline (case ^ " " ^ String.concat "|" (L.map (node_obs rootz) cursors))
    | _ -> failwith "c07: bad case line")
