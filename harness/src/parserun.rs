//! Driver shared by the parser properties (C02, C03, C17): inputs of three classes — lexical renderings of abstract
//! documents (`sp`, with the expected tree / spans / ids), damaged renderings from the catalogue (`dm:<entry>`, must be
//! rejected), arbitrary Unicode / bytes (`rnd`) — each dumped as xmlparser tokens for the model, parsed by the real crate,
//! and judged by the oracles of the property.
//!
//! Case line:  <case> <class> <doc|frag> <srclen> | <tokens> | <input> [| <expected tree> | <expected spans> | <expected ids>]
use crate::common::*;
use crate::parseobs::*;
use crate::spell::*;
use xot::{Value, Xot};

struct Case {
    id: String,
    class: String,
    fragment: bool,
    input: String,
    expect: Option<(String, String, String)>,
}

fn case_line(c: &Case) -> String {
    let mut s = format!("{} {} {} {} | {} | {}", c.id, c.class, if c.fragment { "frag" } else if c.input.starts_with('\u{feff}') { "bomdoc" } else { "doc" }, c.input.len(), dump_tokens(&c.input, c.fragment), enc(&c.input));
    if let Some((t, sp, ids)) = &c.expect {
        s.push_str(&format!(" | {} | {} | {}", t, sp, ids));
    }
    s
}

fn parse_case_line(line: &str) -> Case {
    let parts: Vec<&str> = line.split(" | ").collect();
    let head: Vec<&str> = parts[0].split(' ').collect();
    let expect = if parts.len() >= 6 { Some((parts[3].to_string(), parts[4].to_string(), parts[5].to_string())) } else { None };
    Case { id: head[0].to_string(), class: head[1].to_string(), fragment: head[2] == "frag", input: dec(parts[2]), expect }
}

/// structural soundness of an accepted tree, through the public API
fn sound(xot: &Xot, root: xot::Node) -> Option<String> {
    for n in xot.all_descendants(root) {
        if xot.is_element(n) {
            let names: Vec<_> = xot.attributes(n).keys().collect();
            let mut d = names.clone();
            d.sort();
            d.dedup();
            if d.len() != names.len() {
                return Some("an element carries two attributes with one expanded name".into());
            }
            let ps: Vec<_> = xot.namespaces(n).keys().collect();
            let mut d = ps.clone();
            d.sort();
            d.dedup();
            if d.len() != ps.len() {
                return Some("an element declares one prefix twice".into());
            }
        }
        if let Value::ProcessingInstruction(pi) = xot.value(n) {
            // PITarget ::= Name - (('X' | 'x') ('M' | 'm') ('L' | 'l')): the target xml, in any case, is reserved; an XML
            // declaration is no node of the tree
            let (local, ns) = xot.name_ns_str(pi.target());
            if ns.is_empty() && local.eq_ignore_ascii_case("xml") {
                return Some(format!("a processing instruction with the reserved target {:?}", local));
            }
        }
        let kids: Vec<_> = xot.children(n).collect();
        for w in kids.windows(2) {
            if xot.is_text(w[0]) && xot.is_text(w[1]) {
                return Some("adjacent text nodes".into());
            }
        }
        for k in &kids {
            if xot.parent(*k) != Some(n) {
                return Some("parent link disagrees with the child list".into());
            }
            if let Value::Text(t) = xot.value(*k) {
                if t.get().is_empty() {
                    return Some("empty text node".into());
                }
            }
        }
    }
    None
}

fn run_case(pid: &str, c: &Case, out: &mut Out, stats: &mut Stats) {
    let line = case_line(c);
    out.case(&line);
    let p = parse_fresh(&c.input, c.fragment);
    let obs = parsed_text(&p);
    out.imp(&format!("{} {}", c.id, obs));
    let class_key = c.class.split(':').next().unwrap().to_string();
    stats.bump(&format!("class.{}", class_key));
    stats.bump(match &p { Parsed::Ok { .. } => "outcome.accepted", Parsed::Err(_) => "outcome.rejected", Parsed::Panic => "outcome.panic" });
    if let Parsed::Err(e) = &p {
        stats.bump(&format!("error.{}", error_text(e).split(':').nth(1).unwrap_or("?")));
    }
    stats.case(&line, c.input.len() >= 8);
    if class_key == "sp" { stats.sample(&line); }
    // ---------------- totality (C03; reported for every property: a panic is never acceptable)
    if let Parsed::Panic = p {
        out.fail(&c.id, "parse-panic", &format!("parsing {:?} panicked", c.input));
        return;
    }
    // ---------------- C17: every error span lies inside the source
    if let Parsed::Err(e) = &p {
        let s = e.span();
        if pid == "C17" && !(s.start <= s.end && s.end <= c.input.len()) {
            out.fail(&c.id, "error-span-out-of-bounds", &format!("{} for an input of {} bytes", error_text(e), c.input.len()));
        }
        // ... also when the source is given as bytes in another encoding: parse_bytes reports positions in its decoded copy
        // of the text, which can lie beyond the bytes that were given (a known deviation with a class of its own)
        if pid == "C17" && !c.fragment && c.input.chars().all(|ch| (ch as u32) < 0x80 || ((ch as u32) >= 0xA0 && (ch as u32) <= 0xFF)) && c.input.chars().any(|ch| (ch as u32) >= 0xA0)
            && !c.input.starts_with("<?xml") {
            let mut v: Vec<u8> = b"<?xml version=\"1.0\" encoding=\"ISO-8859-1\"?>".to_vec();
            v.extend(c.input.chars().map(|ch| ch as u32 as u8));
            let mut x = Xot::new();
            if let Ok(Err(eb)) = guard(|| x.parse_bytes(&v)) {
                stats.bump("c17.bytes.error_spans");
                let sb = eb.span();
                if sb.end > v.len() {
                    out.fail(&c.id, "parse-bytes-error-span-beyond-the-bytes", &format!("{} for {} bytes of ISO-8859-1", error_text(&eb), v.len()));
                }
            }
        }
    }
    match class_key.as_str() {
        "sp" => {
            let (et, es, ei) = c.expect.clone().expect("sp case carries its expectation");
            match &p {
                Parsed::Ok { xot, root, si } => {
                    let tt = tree_text(xot, *root);
                    if pid == "C02" || pid == "C03" {
                        if tt != et {
                            out.fail(&c.id, "parsed-tree-differs", &format!("the text denotes {} but the parser built {}", et, tt));
                        }
                        let it = ids_text(xot, *root);
                        if it != ei {
                            out.fail(&c.id, "xml-id-index-differs", &format!("expected xml:id index {} but xml_id_node gives {}", ei, it));
                        }
                    }
                    if pid == "C17" {
                        let st = spans_text(xot, *root, si);
                        if st != es {
                            let a: Vec<&str> = es.split(',').collect();
                            let b: Vec<&str> = st.split(',').collect();
                            let d = a.iter().zip(b.iter()).find(|(x, y)| x != y).map(|(x, y)| format!("expected {} got {}", x, y)).unwrap_or(format!("{} vs {} entries", a.len(), b.len()));
                            out.fail(&c.id, "span-differs", &format!("{} (source {:?})", d, c.input));
                        }
                        // independent of the renderer's bookkeeping: in bounds, on character boundaries, names slice to themselves
                        for item in st.split(',') {
                            if let Some((_, rng)) = item.split_once('=') {
                                if let Some((a, b)) = rng.split_once('-') {
                                    if let (Ok(a), Ok(b)) = (a.parse::<usize>(), b.parse::<usize>()) {
                                        if !(a <= b && b <= c.input.len() && c.input.is_char_boundary(a) && c.input.is_char_boundary(b)) {
                                            out.fail(&c.id, "span-not-a-slice", &format!("span {} of a {}-byte source", item, c.input.len()));
                                        }
                                    }
                                } else if !item.starts_with("pc") {
                                    out.fail(&c.id, "span-missing", &format!("no span recorded for {}", item));
                                }
                            }
                        }
                    }
                    if pid == "C02" {
                        c02_extra(c, xot, *root, &tt, out, stats);
                    }
                }
                Parsed::Err(e) => out.fail(&c.id, "well-formed-rejected", &format!("a well-formed rendering was rejected with {}: {:?}", error_text(e), c.input)),
                Parsed::Panic => {}
            }
        }
        "dm" => {
            if let Parsed::Ok { xot, root, .. } = &p {
                if pid == "C03" {
                    out.fail(&c.id, &format!("ill-formed-accepted:{}", c.class.split(':').nth(1).unwrap_or("?")), &format!("{:?} was accepted as {}", c.input, tree_text(xot, *root)));
                }
            }
        }
        _ => {}
    }
    // ---------------- C03: whatever is accepted is sound, validates, re-serialises and reparses deep-equal
    if pid == "C03" {
        if let Parsed::Ok { xot, root, .. } = &p {
            stats.bump(&format!("accepted.{}", class_key));
            if let Some(why) = sound(xot, *root) {
                out.fail(&c.id, "accepted-tree-unsound", &format!("{} in the tree parsed from {:?}", why, c.input));
            }
            if !c.fragment {
                if let Err(e) = xot.validate_well_formed_document(*root) {
                    out.fail(&c.id, "accepted-not-well-formed", &format!("validate_well_formed_document: {:?} for {:?}", e, c.input));
                }
            }
            match guard(|| xot.to_string(*root)) {
                Ok(Ok(s)) => {
                    let mut x2 = xot.clone();
                    let r2 = guard(|| if c.fragment { x2.parse_fragment(&s) } else { x2.parse(&s) });
                    match r2 {
                        Ok(Ok(root2)) => {
                            if !x2.deep_equal(*root, root2) {
                                out.fail(&c.id, "reserialised-differs", &format!("{:?} parses, serialises to {:?}, and that reparses to a different tree", c.input, s));
                            }
                        }
                        Ok(Err(e)) => out.fail(&c.id, "reserialised-rejected", &format!("{:?} parses, serialises to {:?}, which is rejected: {}", c.input, s, error_text(&e))),
                        Err(()) => out.fail(&c.id, "parse-panic", &format!("reparsing {:?} panicked", s)),
                    }
                }
                Ok(Err(e)) => out.fail(&c.id, "accepted-not-serialisable", &format!("{:?} parses but does not serialise: {:?}", c.input, e)),
                Err(()) => out.fail(&c.id, "serialise-panic", &format!("serialising the tree parsed from {:?} panicked", c.input)),
            }
        }
    }
}

/// C02 beyond the plain parse: the other entry points give the same document
fn c02_extra(c: &Case, _xot: &Xot, _root: xot::Node, tt: &str, out: &mut Out, stats: &mut Stats) {
    // parse (without span info) and parse_fragment agree with the *_with_span_info entry points
    let mut x = Xot::new();
    let r = guard(|| if c.fragment { x.parse_fragment(&c.input) } else { x.parse(&c.input) });
    match r {
        Ok(Ok(root)) => {
            if tree_text(&x, root) != tt {
                out.fail(&c.id, "entry-points-differ", "parse / parse_fragment and the *_with_span_info entry point build different trees");
            }
        }
        _ => out.fail(&c.id, "entry-points-differ", "parse / parse_fragment fails where the *_with_span_info entry point succeeds"),
    }
    // a fragment has the content of the same text wrapped in one element
    if c.fragment {
        let wrapped = format!("<wrap-9>{}</wrap-9>", c.input);
        let mut x = Xot::new();
        match guard(|| x.parse(&wrapped)) {
            Ok(Ok(root)) => {
                let el = x.document_element(root).unwrap();
                let mut y = Xot::new();
                let fr = y.parse_fragment(&c.input).unwrap();
                let a: Vec<String> = x.children(el).map(|k| strip_slots(&tree_text(&x, k))).collect();
                let b: Vec<String> = y.children(fr).map(|k| strip_slots(&tree_text(&y, k))).collect();
                if a != b {
                    out.fail(&c.id, "fragment-differs-from-wrapped", &format!("parse_fragment gives {:?} but the wrapped text gives {:?}", b, a));
                }
                stats.bump("c02.fragment_vs_wrapped");
            }
            _ => out.fail(&c.id, "fragment-differs-from-wrapped", "the wrapped text is rejected"),
        }
        return;
    }
    // bytes in a declared / sniffed encoding
    let has_decl = { let t = c.input.trim_start_matches('\u{feff}'); t.starts_with("<?xml") && t[5..].starts_with(|ch: char| ch == ' ' || ch == '\t' || ch == '\r' || ch == '\n') };
    let body = c.input.trim_start_matches('\u{feff}');
    let mut variants: Vec<(&str, Vec<u8>)> = vec![("utf-8", c.input.as_bytes().to_vec())];
    if !has_decl {
        let mut v = vec![0xEF, 0xBB, 0xBF];
        v.extend_from_slice(body.as_bytes());
        variants.push(("utf-8-bom", v));
        let mut le: Vec<u8> = vec![0xFF, 0xFE];
        for u in body.encode_utf16() { le.extend_from_slice(&u.to_le_bytes()); }
        variants.push(("utf-16le-bom", le));
        let mut be: Vec<u8> = vec![0xFE, 0xFF];
        for u in body.encode_utf16() { be.extend_from_slice(&u.to_be_bytes()); }
        variants.push(("utf-16be-bom", be));
        if body.chars().all(|ch| (ch as u32) < 0x80 || ((ch as u32) >= 0xA0 && (ch as u32) <= 0xFF)) {
            for label in ["ISO-8859-1", "windows-1252"] {
                // the declaration in the plain spelling and in one of the other well-formed spellings (XMLDecl ::= '<?xml'
                // VersionInfo EncodingDecl? SDDecl? S? '?>', Eq ::= S? '=' S?, either quote), chosen by the input
                let mut v: Vec<u8> = format!("<?xml version=\"1.0\" encoding=\"{}\"?>", label).into_bytes();
                v.extend(body.chars().map(|ch| ch as u32 as u8));
                variants.push((if label == "ISO-8859-1" { "latin1" } else { "cp1252" }, v));
                let mut v: Vec<u8> = decl_spelling(input_hash(&c.input) ^ (label.len() as u64), Some(label)).into_bytes();
                v.extend(body.chars().map(|ch| ch as u32 as u8));
                variants.push((if label == "ISO-8859-1" { "latin1-spelled" } else { "cp1252-spelled" }, v));
            }
        }
        // ISO-8859-1 proper has the C1 controls at 0x80-0x9F (U+0085, NEL, is an XML Char); encoding_rs follows the WHATWG
        // Encoding Standard, in which the label iso-8859-1 means windows-1252 (a known deviation with a class of its own)
        if body.chars().all(|ch| (ch as u32) <= 0xFF) && body.chars().any(|ch| (0x80..=0x9F).contains(&(ch as u32))) {
            let mut v: Vec<u8> = b"<?xml version=\"1.0\" encoding=\"ISO-8859-1\"?>".to_vec();
            v.extend(body.chars().map(|ch| ch as u32 as u8));
            let mut x = Xot::new();
            if let Ok(Ok(root)) = guard(|| x.parse_bytes(&v)) {
                stats.bump("c02.bytes.latin1-c1");
                if tree_text(&x, root) != tt {
                    out.fail(&c.id, "iso-8859-1-c1-bytes-decoded-as-windows-1252", &format!("parse_bytes of ISO-8859-1 bytes in 0x80-0x9F builds {} instead of {}", tree_text(&x, root), tt));
                }
            }
        }
        // a UTF-8 document whose declaration names no encoding, with text further down that looks like an encoding declaration
        // (in a comment or a processing instruction in front of the document element): the document is UTF-8 all the same
        if body.chars().any(|ch| (ch as u32) >= 0x80) {
            let h = input_hash(&c.input);
            let lure = ["ISO-8859-1", "windows-1252", "koi8-r", "utf-16"][(h % 4) as usize];
            let q = if (h >> 2) & 1 == 0 { '"' } else { '\'' };
            let word = if (h >> 3) % 3 == 0 { "charset" } else { "encoding" };
            let front = if (h >> 5) & 1 == 0 { format!("<!-- {}={}{}{} -->", word, q, lure, q) } else { format!("<?note {}={}{}{}?>", word, q, lure, q) };
            let text = format!("{}{}{}", decl_spelling(h >> 6, None), front, body);
            let mut xs = Xot::new();
            if let Ok(Ok(r)) = guard(|| xs.parse(&text)) {
                let want = tree_text(&xs, r);
                let mut xb = Xot::new();
                match guard(|| xb.parse_bytes(text.as_bytes())) {
                    Ok(Ok(root)) => {
                        stats.bump("c02.bytes.utf8-with-encoding-lookalike");
                        if tree_text(&xb, root) != want {
                            out.fail(&c.id, "bytes-differ:utf8-with-encoding-lookalike", &format!("parse_bytes of the UTF-8 bytes of {:?} builds {} instead of {}", text, tree_text(&xb, root), want));
                        }
                    }
                    Ok(Err(e)) => out.fail(&c.id, "bytes-differ:utf8-with-encoding-lookalike", &format!("parse_bytes of the UTF-8 bytes of {:?} is rejected: {}", text, error_text(&e))),
                    Err(()) => out.fail(&c.id, "parse-panic", &format!("parse_bytes of the UTF-8 bytes of {:?} panicked", text)),
                }
            }
        }
    }
    // single-byte encodings whose bytes happen to be valid UTF-8: every non-ASCII character of the body is replaced by a pair
    // such as U+00C3 U+00A9 (bytes C3 A9 in ISO-8859-1) or U+00C2 U+20AC (bytes C2 80 in windows-1252), so that the whole
    // byte stream decodes as UTF-8 too — to something else.  The expected tree is what the string entry point builds from
    // the same text (the declared encoding decides, not what the bytes look like).
    if !has_decl {
        fn second_latin1(k: u32) -> char { char::from_u32(0xA0 + k % 0x20).unwrap() }
        fn second_cp1252(_k: u32) -> char { '\u{20AC}' }
        let kinds: [(&str, fn(u32) -> char, Option<u8>); 2] = [("ISO-8859-1", second_latin1, None), ("windows-1252", second_cp1252, Some(0x80u8))];
        for (label, second, second_byte) in kinds {
            let look: String = body.chars().map(|ch| if (ch as u32) < 0x80 { ch.to_string() } else { format!("{}{}", if second_byte.is_some() { '\u{C2}' } else { '\u{C3}' }, second(ch as u32)) }).collect();
            if look == body { continue; }
            let mut bytes: Vec<u8> = format!("<?xml version=\"1.0\" encoding=\"{}\"?>", label).into_bytes();
            bytes.extend(look.chars().map(|ch| if ch == '\u{20AC}' { second_byte.unwrap_or(b'?') } else { ch as u32 as u8 }));
            let mut xs = Xot::new();
            let want = match guard(|| xs.parse(&look)) { Ok(Ok(r)) => tree_text(&xs, r), _ => continue };
            let mut xb = Xot::new();
            match guard(|| xb.parse_bytes(&bytes)) {
                Ok(Ok(root)) => {
                    stats.bump(&format!("c02.bytes.utf8-lookalike.{}", label));
                    if tree_text(&xb, root) != want {
                        out.fail(&c.id, &format!("bytes-differ:{}-utf8-lookalike", label), &format!("parse_bytes of {} bytes that are also valid UTF-8 builds {} instead of {}", label, tree_text(&xb, root), want));
                    }
                }
                Ok(Err(e)) => out.fail(&c.id, &format!("bytes-differ:{}-utf8-lookalike", label), &format!("parse_bytes of the {} encoding is rejected: {}", label, error_text(&e))),
                Err(()) => out.fail(&c.id, "parse-panic", &format!("parse_bytes of the {} encoding panicked", label)),
            }
        }
    }
    // one byte order mark belongs to the encoding; a second one is a character in front of the document and is rejected (as
    // parse("\u{feff}\u{feff}...") is), in UTF-8 and in UTF-16
    if !has_decl {
        let mut doubled: Vec<(&str, Vec<u8>)> = vec![];
        let mut v = vec![0xEF, 0xBB, 0xBF, 0xEF, 0xBB, 0xBF];
        v.extend_from_slice(body.as_bytes());
        doubled.push(("utf-8", v));
        let mut le: Vec<u8> = vec![0xFF, 0xFE, 0xFF, 0xFE];
        for u in body.encode_utf16() { le.extend_from_slice(&u.to_le_bytes()); }
        doubled.push(("utf-16le", le));
        for (label, bytes) in doubled {
            let mut x = Xot::new();
            match guard(|| x.parse_bytes(&bytes)) {
                Ok(Ok(_)) => out.fail(&c.id, "bytes-double-bom-accepted", &format!("parse_bytes accepts {} bytes that start with two byte order marks", label)),
                Ok(Err(_)) => stats.bump("c02.bytes.double-bom-rejected"),
                Err(()) => out.fail(&c.id, "parse-panic", &format!("parse_bytes of {} bytes with two byte order marks panicked", label)),
            }
        }
    }
    for (label, bytes) in variants {
        let mut x = Xot::new();
        match guard(|| x.parse_bytes(&bytes)) {
            Ok(Ok(root)) => {
                stats.bump(&format!("c02.bytes.{}", label));
                if tree_text(&x, root) != tt {
                    out.fail(&c.id, &format!("bytes-differ:{}", label), &format!("parse_bytes of the {} encoding builds {} instead of {}", label, tree_text(&x, root), tt));
                }
            }
            Ok(Err(e)) => out.fail(&c.id, &format!("bytes-differ:{}", label), &format!("parse_bytes of the {} encoding is rejected: {}", label, error_text(&e))),
            Err(()) => out.fail(&c.id, "parse-panic", &format!("parse_bytes of the {} encoding panicked", label)),
        }
    }
}

fn input_hash(s: &str) -> u64 {
    let mut h: u64 = 0xcbf29ce484222325;
    for b in s.as_bytes() { h ^= *b as u64; h = h.wrapping_mul(0x100000001b3); }
    h ^ (h >> 29)
}

/// One well-formed spelling of an XML declaration, chosen by `h`: either quote per pseudo-attribute, white space around each
/// '=', one or more white space characters between the pseudo-attributes, an optional standalone declaration, optional white
/// space before '?>', the label in either case.
fn decl_spelling(h: u64, label: Option<&str>) -> String {
    let q = |k: u64| if (h >> k) & 1 == 0 { '"' } else { '\'' };
    let eq = |k: u64| ["=", " =", "= ", " = "][((h >> k) % 4) as usize];
    let sep = |k: u64| [" ", "  ", "\n", "\t"][((h >> k) % 4) as usize];
    let mut s = format!("<?xml{}version{}{}1.0{}", sep(0), eq(2), q(4), q(4));
    if let Some(l) = label {
        let l = if (h >> 5) & 1 == 0 { l.to_string() } else { l.to_lowercase() };
        s.push_str(&format!("{}encoding{}{}{}{}", sep(6), eq(8), q(10), l, q(10)));
    }
    match (h >> 11) % 3 { 0 => {}, k => s.push_str(&format!("{}standalone{}{}{}{}", sep(13), eq(15), q(17), if k == 1 { "yes" } else { "no" }, q(17))) }
    s.push_str(["", " ", "\n"][((h >> 18) % 3) as usize]);
    s.push_str("?>");
    s
}

fn strip_slots(s: &str) -> String {
    s.split(' ').map(|t| match t.rfind('@') { Some(i) if t != ")" => { let tail = &t[i..]; if tail.ends_with('(') { format!("{}(", &t[..i]) } else { t[..i].to_string() } } _ => t.to_string() }).collect::<Vec<_>>().join(" ")
}

const RND_ALPHABET: &[&str] = &[
    "<", ">", "/", "&", ";", "#", "x", "\"", "'", "=", " ", "\n", "\r", "!", "?", "-", "[", "]", "a", "b", ":", "xmlns", "xml", "CDATA", "<!--", "-->", "<?", "?>",
    "<![CDATA[", "]]>", "<a>", "</a>", "<a ", "<b/>", "&amp;", "&#", "&#x", "1", "0", "D800", "\u{0}", "\u{1}", "\u{b}", "\u{fffe}", "\u{ffff}", "\u{e9}", "\u{1F600}", "\u{feff}",
    "<!DOCTYPE", "version", "id", "p:", "='", "=\"",
];

fn gen_random_text(r: &mut Rng) -> String {
    let n = r.below(14);
    (0..n).map(|_| *r.pick(RND_ALPHABET)).collect()
}

pub fn main_for(pid: &str) {
    quiet_panics();
    let a = args();
    let mut out = Out::new(&a.out);
    let mut stats = Stats::default();
    if let Some(path) = &a.replay {
        let text = std::fs::read_to_string(path).expect("replay file");
        for line in text.lines().filter(|l| !l.trim().is_empty()) {
            if line.split(' ').nth(1) == Some("enc") {
                let parts: Vec<&str> = line.split(" | ").collect();
                let bytes: Vec<u8> = parts[1].split('.').filter(|t| !t.is_empty()).map(|t| t.parse().unwrap()).collect();
                run_enc_case(line.split(' ').next().unwrap(), &bytes, &mut out, &mut stats);
                continue;
            }
            let c = parse_case_line(line);
            run_case(pid, &c, &mut out, &mut stats);
        }
        out.finish(&stats);
        return;
    }
    let base = Rng::new(a.seed);
    let mut choices: std::collections::BTreeMap<String, u64> = Default::default();
    for k in 0..a.n {
        let mut r = base.fork(k as u64);
        let fragment = r.chance(3, 10);
        let doc = gen_doc(&mut r, fragment);
        let nrender = if pid == "C03" { 1 } else { 3 };
        for j in 0..nrender {
            let ro = RenderOpts { declaration: r.chance(1, 3), bom: r.chance(1, 8) };
            let ren = render(&mut r, &doc, &ro);
            for (c, v) in &ren.choices { *choices.entry(c.clone()).or_insert(0) += v; }
            let case = Case { id: format!("c{}r{}", k, j), class: "sp".into(), fragment, input: ren.text.clone(), expect: Some((expected_tree(&ren), expected_spans(&ren), expected_ids(&ren))) };
            run_case(pid, &case, &mut out, &mut stats);
            if j == 0 && (pid == "C03" || pid == "C17") {
                let all = damage(&ren, fragment);
                let take = if pid == "C03" { all.len() } else { 12.min(all.len()) };
                let start = if all.len() > take { r.below(all.len() - take + 1) } else { 0 };
                for (i, (entry, _pos, text)) in all.into_iter().enumerate().skip(start).take(take) {
                    let c = Case { id: format!("c{}d{}", k, i), class: format!("dm:{}", entry.replace(' ', "_")), fragment, input: text, expect: None };
                    run_case(pid, &c, &mut out, &mut stats);
                }
            }
        }
        if pid == "C03" || pid == "C17" {
            for j in 0..(if pid == "C03" { 12 } else { 4 }) {
                let text = gen_random_text(&mut r);
                let c = Case { id: format!("c{}x{}", k, j), class: "rnd".into(), fragment: r.chance(1, 2), input: text, expect: None };
                run_case(pid, &c, &mut out, &mut stats);
            }
            if pid == "C03" {
                // arbitrary bytes through parse_bytes: totality only (the decoders are third-party code)
                for _ in 0..6 {
                    let n = r.below(24);
                    let mut bytes: Vec<u8> = (0..n).map(|_| r.next() as u8).collect();
                    match r.below(6) {
                        0 => { let mut v = b"<?xml version=\"1.0\" encoding=\"".to_vec(); v.extend_from_slice(*r.pick(&[&b"bogus"[..], &b"UTF-16"[..], &b"x-user-defined"[..], &b""[..], &b"KOI8-R"[..]])); v.extend_from_slice(b"\"?><a>"); v.extend_from_slice(&bytes); v.extend_from_slice(b"</a>"); bytes = v; }
                        1 => { let mut v = vec![0xFF, 0xFE]; v.extend_from_slice(&bytes); bytes = v; }
                        2 => { let mut v = vec![0xFE, 0xFF]; v.extend_from_slice(&bytes); bytes = v; }
                        3 => { let mut v = b"<a>".to_vec(); v.extend_from_slice(&bytes); v.extend_from_slice(b"</a>"); bytes = v; }
                        _ => {}
                    }
                    let mut x = Xot::new();
                    stats.bump("class.bytes");
                    if guard(|| x.parse_bytes(&bytes).is_ok()).is_err() {
                        out.fail(&format!("c{}b", k), "parse-panic", &format!("parse_bytes({:?}) panicked", bytes));
                    }
                }
                // bytes that are not legal in the (declared or default) encoding are a fatal error, not U+FFFD (which is a name
                // character): an otherwise well-formed UTF-8 document with one illegal byte in a name, in text, in an attribute value
                for (label, bad) in [("text", &b"<a>\xff</a>"[..]), ("name", &b"<a\xfe/>"[..]), ("truncated sequence", &b"<a>\xc3</a>"[..]), ("attribute value", &b"<a k='\xff'/>"[..]),
                                     ("declared UTF-8", &b"<?xml version=\"1.0\" encoding=\"UTF-8\"?><a>\xe9</a>"[..]), ("overlong", &b"<a>\xc0\xaf</a>"[..]), ("lone surrogate", &b"<a>\xed\xa0\x80</a>"[..])] {
                    let mut x = Xot::new();
                    stats.bump("class.bytes_illegal_in_encoding");
                    match guard(|| x.parse_bytes(bad)) {
                        Ok(Ok(_)) => out.fail(&format!("c{}b", k), "bytes-illegal-in-encoding-accepted", &format!("parse_bytes accepts {:?} ({})", bad, label)),
                        Ok(Err(_)) => {}
                        Err(()) => out.fail(&format!("c{}b", k), "parse-panic", &format!("parse_bytes({:?}) panicked", bad)),
                    }
                    if k > 0 { break; }   // the seven fixed inputs once per run is enough
                }
            }
        }
    }
    if pid == "C02" {
        // which encoding label parse_bytes takes (src/encoding.rs; Model/Encoding.v chosen_label): one byte 0xE9 in a document
        // whose XML declaration, in any well-formed spelling, names one of a set of single-byte encodings that decode it to
        // different characters — with further text that looks like an encoding declaration where it is none
        for k in 0..a.n {
            let mut r = base.fork(0x0e0c_0000 + k as u64);
            let bytes = gen_enc_case(&mut r);
            run_enc_case(&format!("e{}", k), &bytes, &mut out, &mut stats);
        }
    }
    for (c, v) in choices { stats.add(&format!("spelling.{}", c), v); }
    out.finish(&stats);
}

const ENC_LABELS: &[&str] = &["ISO-8859-1", "windows-1252", "ISO-8859-2", "koi8-r", "KOI8-R", "windows-1251", "ibm866", "ISO-8859-7", "macintosh", "ISO-8859-5", "UTF-8", "utf-8", "us-ascii", "latin1", "bogus-label"];

fn gen_enc_case(r: &mut Rng) -> Vec<u8> {
    let mut v: Vec<u8> = vec![];
    if r.chance(1, 6) { v.extend_from_slice(&[0xEF, 0xBB, 0xBF]); }
    let lure = |r: &mut Rng| -> String {
        let q = if r.chance(1, 2) { '"' } else { '\'' };
        format!("{}{}{}{}{}", r.pick(&["encoding", "charset"]), r.pick(&["=", " = ", " ="]), q, r.pick(ENC_LABELS), q)
    };
    match r.below(8) {
        // a declaration with an encoding declaration, in any spelling
        0..=4 => v.extend_from_slice(decl_spelling(r.next(), Some(*r.pick(ENC_LABELS))).as_bytes()),
        // a declaration without one
        5 => v.extend_from_slice(decl_spelling(r.next(), None).as_bytes()),
        // a processing instruction that merely starts like one
        6 => v.extend_from_slice(format!("<?xml-stylesheet {}?>", lure(r)).as_bytes()),
        // no declaration
        _ => {}
    }
    // text that looks like an encoding declaration further down
    match r.below(5) {
        0 => v.extend_from_slice(format!("<!-- {} -->", lure(r)).as_bytes()),
        1 => v.extend_from_slice(format!("<?note {}?>", lure(r)).as_bytes()),
        _ => {}
    }
    let attr = if r.chance(1, 3) { format!(" {}", lure(r)) } else { String::new() };
    v.extend_from_slice(format!("<{}{}>", r.pick(&["p", "pp", "enc", "meta"]), attr).as_bytes());
    v.push(0xE9);
    if r.chance(1, 4) { v.extend_from_slice(lure(r).as_bytes()); }
    // the end tag repeats the name
    let name_start = v.iter().rposition(|b| *b == b'<').unwrap();
    let name: Vec<u8> = v[name_start + 1..].iter().take_while(|b| b.is_ascii_alphabetic()).cloned().collect();
    v.extend_from_slice(b"</"); v.extend_from_slice(&name); v.push(b'>');
    v
}

fn run_enc_case(id: &str, bytes: &[u8], out: &mut Out, stats: &mut Stats) {
    let dotted: Vec<String> = bytes.iter().map(|b| b.to_string()).collect();
    let line = format!("{} enc doc {} | {} | -", id, bytes.len(), dotted.join("."));
    out.case(&line);
    stats.bump("class.enc");
    stats.case(&line, true);
    let mut x = Xot::new();
    let obs = match guard(|| x.parse_bytes(bytes)) {
        Ok(Ok(root)) => {
            // the character the byte 0xE9 was decoded to: the first character of the document element's text
            let el = x.document_element(root).unwrap();
            match x.text_content_str(el).and_then(|t| t.chars().next()) { Some(ch) => format!("ENC {}", ch as u32), None => "ENC none".into() }
        }
        Ok(Err(_)) => "ENC rejected".into(),
        Err(()) => { out.fail(id, "parse-panic", "parse_bytes panicked"); "ENC panic".into() }
    };
    stats.bump(&format!("enc.{}", obs.replace(' ', "_")));
    out.imp(&format!("{} {}", id, obs));
}
