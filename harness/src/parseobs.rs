//! Observation of the parse entry points (C02, C03, C17, and the reparse leg of C01 / C14): the xmlparser token list
//! of an input (what the model's Builder consumes), the parsed tree with names as strings and arena slots, the span
//! information, the xml:id index, or the error with its span.
use crate::common::*;
use crate::history::handle;
use xot::{Node, ParseError, SpanInfo, SpanInfoKey, Value, Xot};

fn sp(s: xmlparser::StrSpan) -> String {
    format!("{}@{}-{}", enc(s.as_str()), s.start(), s.end())
}
fn rg(s: xmlparser::StrSpan) -> String {
    format!("{}-{}", s.start(), s.end())
}

/// the token list of `text` in the text form read by ocaml/parse/parseio.ml; a tokenizer error ends the list
pub fn dump_tokens(text: &str, fragment: bool) -> String {
    use xmlparser::{ElementEnd, Token, Tokenizer};
    let mut tk = if fragment { Tokenizer::from_fragment(text, 0..text.len()) } else { Tokenizer::from(text) };
    let mut out: Vec<String> = vec![];
    loop {
        let pos = tk.stream().pos();
        match tk.next() {
            None => break,
            Some(Err(_)) => {
                out.push(format!("R:{}", pos));
                break;
            }
            Some(Ok(t)) => out.push(match t {
                Token::Declaration { version, encoding, .. } => format!("D:{}:{}", sp(version), encoding.map(|e| sp(e)).unwrap_or("~".into())),
                Token::ProcessingInstruction { target, content, .. } => format!("P:{}:{}", sp(target), match content { Some(c) => sp(c), None => "~".into() }),
                Token::Comment { text, .. } => format!("C:{}", sp(text)),
                Token::DtdStart { span, .. } | Token::EmptyDtd { span, .. } | Token::EntityDeclaration { span, .. } | Token::DtdEnd { span } => format!("X:{}", rg(span)),
                Token::ElementStart { prefix, local, .. } => format!("S:{}:{}", sp(prefix), sp(local)),
                Token::Attribute { prefix, local, value, .. } => format!("A:{}:{}:{}", sp(prefix), sp(local), sp(value)),
                Token::ElementEnd { end, span } => match end {
                    ElementEnd::Open => format!("O:{}", rg(span)),
                    ElementEnd::Close(p, l) => format!("L:{}:{}:{}", sp(p), sp(l), rg(span)),
                    ElementEnd::Empty => format!("M:{}", rg(span)),
                },
                Token::Text { text } => format!("T:{}", sp(text)),
                Token::Cdata { text, .. } => format!("K:{}", sp(text)),
            }),
        }
    }
    if out.is_empty() { "-".into() } else { out.join(";") }
}

pub fn slot(n: Node) -> u64 {
    handle(n).0
}

/// `local/uri`
pub fn name_text(xot: &Xot, n: xot::NameId) -> String {
    let (l, u) = xot.name_ns_str(n);
    format!("{}/{}", enc(l), enc(u))
}

/// the tree with names as strings and every node's arena slot, raw arena order
pub fn tree_text(xot: &Xot, root: Node) -> String {
    let mut out: Vec<String> = vec![];
    for e in xot.all_traverse(root) {
        match e {
            xot::NodeEdge::Start(n) => {
                let s = slot(n);
                match xot.value(n) {
                    Value::Document => out.push(format!("D@{}(", s)),
                    Value::Element(e) => out.push(format!("E{}@{}(", name_text(xot, e.name()), s)),
                    Value::Text(t) => out.push(format!("T{}@{}", enc(t.get()), s)),
                    Value::Comment(c) => out.push(format!("C{}@{}", enc(c.get()), s)),
                    Value::ProcessingInstruction(p) => out.push(format!("P{}={}@{}", name_text(xot, p.target()), enc_opt(p.data()), s)),
                    Value::Attribute(a) => out.push(format!("A{}={}@{}", name_text(xot, a.name()), enc(a.value()), s)),
                    Value::Namespace(ns) => out.push(format!("N{}:{}@{}", enc(xot.prefix_str(ns.prefix())), enc(xot.namespace_str(ns.namespace())), s)),
                }
            }
            xot::NodeEdge::End(n) => match xot.value(n) {
                Value::Document | Value::Element(_) => out.push(")".into()),
                _ => {}
            },
        }
    }
    out.join(" ")
}

fn span_text(si: &SpanInfo, k: SpanInfoKey) -> String {
    match si.get(k) {
        Some(s) => format!("{}-{}", s.start, s.end),
        None => "-".into(),
    }
}

/// every span of every node, in raw document order
pub fn spans_text(xot: &Xot, root: Node, si: &SpanInfo) -> String {
    let mut out: Vec<String> = vec![];
    for n in xot.all_descendants(root) {
        let s = slot(n);
        match xot.value(n) {
            Value::Element(_) => {
                out.push(format!("es{}={}", s, span_text(si, SpanInfoKey::ElementStart(n))));
                out.push(format!("ee{}={}", s, span_text(si, SpanInfoKey::ElementEnd(n))));
                for (a, _) in xot.attributes(n).iter() {
                    out.push(format!("an{}/{}={}", s, name_text(xot, a), span_text(si, SpanInfoKey::AttributeName(n, a))));
                    out.push(format!("av{}/{}={}", s, name_text(xot, a), span_text(si, SpanInfoKey::AttributeValue(n, a))));
                }
            }
            Value::Text(_) => out.push(format!("tx{}={}", s, span_text(si, SpanInfoKey::Text(n)))),
            Value::Comment(_) => out.push(format!("cm{}={}", s, span_text(si, SpanInfoKey::Comment(n)))),
            Value::ProcessingInstruction(_) => {
                out.push(format!("pt{}={}", s, span_text(si, SpanInfoKey::PiTarget(n))));
                out.push(format!("pc{}={}", s, span_text(si, SpanInfoKey::PiContent(n))));
            }
            _ => {}
        }
    }
    if out.is_empty() { "-".into() } else { out.join(",") }
}

/// xml:id values of the tree and what xml_id_node finds for them, sorted
pub fn ids_text(xot: &Xot, root: Node) -> String {
    let mut out: Vec<String> = vec![];
    let idn = xot.xml_id_name();
    for n in xot.descendants(root) {
        if xot.is_element(n) {
            if let Some(v) = xot.attributes(n).get(idn) {
                let found = xot.xml_id_node(root, v).map(|x| slot(x).to_string()).unwrap_or("-".into());
                out.push(format!("{}>{}", enc(v), found));
            }
        }
    }
    out.sort();
    if out.is_empty() { "-".into() } else { out.join(",") }
}

pub fn error_text(e: &ParseError) -> String {
    let s = e.span();
    let (kind, detail) = match e {
        ParseError::UnclosedTag(_) => ("UnclosedTag", None),
        ParseError::InvalidCloseTag(p, n, _) => ("InvalidCloseTag", Some(format!("{}:{}", enc(p), enc(n)))),
        ParseError::UnclosedEntity(n, _) => ("UnclosedEntity", Some(enc(n))),
        ParseError::InvalidEntity(n, _) => ("InvalidEntity", Some(enc(n))),
        ParseError::UnknownPrefix(p, _) => ("UnknownPrefix", Some(enc(p))),
        ParseError::DuplicateAttribute(n, _) => ("DuplicateAttribute", Some(enc(n))),
        ParseError::UnsupportedVersion(v, _) => ("UnsupportedVersion", Some(enc(v))),
        ParseError::DtdUnsupported(_) => ("DtdUnsupported", None),
        ParseError::NoElementAtTopLevel(_) => ("NoElementAtTopLevel", None),
        ParseError::MultipleElementsAtTopLevel(_) => ("MultipleElementsAtTopLevel", None),
        ParseError::TextAtTopLevel(_) => ("TextAtTopLevel", None),
        ParseError::DuplicateId(v, _) => ("DuplicateId", Some(enc(v))),
        ParseError::XmlParser(_, _) => ("XmlParser", None),
        #[allow(deprecated)]
        ParseError::UnsupportedNotStandalone(_) => ("UnsupportedNotStandalone", None),
    };
    format!("ERR:{}:{}-{}{}", kind, s.start, s.end, detail.map(|d| format!(":{}", d)).unwrap_or_default())
}

pub enum Parsed {
    Ok { xot: Xot, root: Node, si: SpanInfo },
    Err(ParseError),
    Panic,
}

/// parse `text` in a fresh Xot (document node = slot 0)
pub fn parse_fresh(text: &str, fragment: bool) -> Parsed {
    let mut xot = Xot::new();
    let r = guard(|| if fragment { xot.parse_fragment_with_span_info(text) } else { xot.parse_with_span_info(text) });
    match r {
        Err(()) => Parsed::Panic,
        Ok(Err(e)) => Parsed::Err(e),
        Ok(Ok((root, si))) => Parsed::Ok { xot, root, si },
    }
}

pub fn parsed_text(p: &Parsed) -> String {
    match p {
        Parsed::Panic => "PANIC".into(),
        Parsed::Err(e) => error_text(e),
        Parsed::Ok { xot, root, si } => format!("OK tree={} | spans={} | ids={}", tree_text(xot, *root), spans_text(xot, *root, si), ids_text(xot, *root)),
    }
}
