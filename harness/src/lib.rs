pub mod common;
pub mod tree;
pub mod treeparse;
