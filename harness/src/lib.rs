pub mod common;
pub mod tree;
pub mod treeparse;
pub mod history;
pub mod histrun;
pub mod serobs;
