pub mod common;
