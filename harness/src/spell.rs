//! Abstract documents and their lexical renderings (C02, C03, C17, C20).
//!
//! An abstract document (`SNode` tree) is rendered to XML text with every spelling choice drawn from the PRNG: literal
//! characters, predefined entities, decimal / hexadecimal character references, CDATA sections (split at random points),
//! either quote, in-tag white space, LF / CR / CRLF line ends, declaration placement, empty-element tags.  The renderer
//! knows the answer: it produces, together with the text, the tree the text denotes (in the text form of
//! `parseobs::tree_text`, names resolved by its own scope stack) and the byte span of everything it writes (in the form
//! of `parseobs::spans_text`).  It also records the edit points the damage catalogue (C03) uses.
use crate::common::*;

pub const XML_NS: &str = "http://www.w3.org/XML/1998/namespace";

#[derive(Clone, Debug)]
pub struct SAttr {
    pub prefix: String,
    pub local: String,
    pub value: String, // the abstract (normalised) value
}

#[derive(Clone, Debug)]
pub struct SElem {
    pub prefix: String,
    pub local: String,
    pub decls: Vec<(String, String)>, // (prefix, uri); prefix "" = default namespace; ("", "") = xmlns=""
    pub attrs: Vec<SAttr>,
    pub kids: Vec<SNode>,
}

#[derive(Clone, Debug)]
pub enum SNode {
    Elem(SElem),
    Text(String),
    Comment(String),
    Pi(String, Option<String>),
}

#[derive(Clone, Debug)]
pub struct SDoc {
    pub top: Vec<SNode>,
    pub fragment: bool,
}

// ------------------------------------------------------------------------------------------------ generation

const URIS: &[&str] = &["urn:a", "urn:b", "http://example.com/ns?x=1&y=2", "urn:c d"];
const PREFIXES: &[&str] = &["p", "q", "n0", "r"];
const LOCALS: &[&str] = &["a", "b", "c", "em", "data", "x-y", "_u", "\u{e9}l"];
const ATTR_LOCALS: &[&str] = &["x", "y", "k", "id", "space", "lang"];

const TEXT_ALPHABET: &[char] = &[
    '<', '&', '>', '"', '\'', ']', ']', '>', '\t', '\n', '\n', '\r', ' ', ' ', '\u{a0}', '\u{85}', '\u{2028}', 'a', 'b', 'x', '\u{e9}',
    '\u{4e2d}', '\u{1F600}', '-', '?', ';', '#', '=', '/', '\u{feff}',
];

fn gen_string(r: &mut Rng, min: usize, max: usize) -> String {
    let n = min + r.below(max - min + 1);
    (0..n).map(|_| *r.pick(TEXT_ALPHABET)).collect()
}

fn gen_comment(r: &mut Rng) -> String {
    let mut s: String = gen_string(r, 0, 6).chars().filter(|c| *c != '\r').collect();
    while s.contains("--") {
        s = s.replace("--", "-x-");
    }
    if s.ends_with('-') {
        s.push('.');
    }
    s
}

/// The line ends of comment and processing-instruction data in one of their spellings: LF, CR LF, or a bare CR (where no LF
/// follows, which would make it a CR LF).  All of them denote LF (XML 1.0, 2.11).
fn spell_line_ends(r: &mut Rng, s: &str, choices: &mut std::collections::BTreeMap<String, u64>) -> String {
    let cs: Vec<char> = s.chars().collect();
    let mut out = String::new();
    for (i, ch) in cs.iter().enumerate() {
        if *ch == '\n' {
            match r.below(4) {
                0 => { out.push_str("\r\n"); *choices.entry("comment_pi.crlf".into()).or_insert(0) += 1; }
                1 if cs.get(i + 1) != Some(&'\n') => { out.push('\r'); *choices.entry("comment_pi.cr".into()).or_insert(0) += 1; }
                _ => { out.push('\n'); *choices.entry("comment_pi.lf".into()).or_insert(0) += 1; }
            }
        } else { out.push(*ch); }
    }
    out
}

fn gen_pi(r: &mut Rng) -> (String, Option<String>) {
    let target = r.pick(&["pi", "target", "x-m", "php", "xm"]).to_string();
    let data = if r.chance(1, 3) {
        None
    } else {
        let mut s: String = gen_string(r, 1, 6).chars().filter(|c| *c != '\r').collect();
        while s.contains("?>") {
            s = s.replace("?>", "? >");
        }
        let t = s.trim_start_matches(|c| c == ' ' || c == '\t' || c == '\n').to_string();
        if t.is_empty() { None } else { Some(t) }
    };
    (target, data)
}

/// scope: innermost binding last
type Scope = Vec<(String, String)>;

fn resolve(scope: &Scope, prefix: &str) -> Option<String> {
    if prefix == "xml" {
        return Some(XML_NS.to_string());
    }
    scope.iter().rev().find(|(p, _)| p == prefix).map(|(_, u)| u.clone())
}

pub struct GenOpts {
    pub max_depth: usize,
    pub max_kids: usize,
    pub budget: usize,
}

fn gen_elem(r: &mut Rng, o: &GenOpts, depth: usize, budget: &mut usize, scope: &Scope, ids: &mut Vec<String>) -> SElem {
    // declarations first, then names that resolve in the resulting scope
    let mut decls: Vec<(String, String)> = vec![];
    let nd = match r.below(10) { 0..=4 => 0, 5..=7 => 1, 8 => 2, _ => 3 };
    for _ in 0..nd {
        let p = if r.chance(1, 3) { "".to_string() } else { r.pick(PREFIXES).to_string() };
        if decls.iter().any(|(q, _)| *q == p) {
            continue;
        }
        let u = if p.is_empty() && r.chance(1, 4) { "".to_string() } else { r.pick(URIS).to_string() };
        // xmlns="" only makes sense (and is only legal to write) for the default namespace
        decls.push((p, u));
    }
    let mut sc = scope.clone();
    sc.extend(decls.iter().cloned());
    // element name: unprefixed, or a prefix bound to a non-empty URI
    let bound: Vec<String> = { let mut v: Vec<String> = sc.iter().filter(|(p, _)| !p.is_empty()).map(|(p, _)| p.clone()).collect(); v.sort(); v.dedup(); v };
    let prefix = if !bound.is_empty() && r.chance(1, 2) { r.pick(&bound).clone() } else { "".to_string() };
    let local = r.pick(LOCALS).to_string();
    // attributes: unique by expanded name
    let mut attrs: Vec<SAttr> = vec![];
    let mut seen: Vec<(String, String)> = vec![];
    for _ in 0..r.below(4) {
        let ap = match r.below(6) { 0 | 1 if !bound.is_empty() => r.pick(&bound).clone(), 2 => "xml".to_string(), _ => "".to_string() };
        // (an attribute p:xmlns, with a prefix, is an ordinary attribute whose local name happens to be xmlns)
        let al = if ap == "xml" { r.pick(&["id", "space", "lang"]).to_string() } else if !ap.is_empty() && r.chance(1, 8) { "xmlns".to_string() } else { r.pick(ATTR_LOCALS).to_string() };
        let uri = if ap.is_empty() { "".to_string() } else { resolve(&sc, &ap).unwrap() };
        if seen.contains(&(uri.clone(), al.clone())) {
            continue;
        }
        let value = if ap == "xml" && al == "id" {
            // an already normalised, document-unique id
            // (sometimes with white space other than #x20 inside, which only a character reference can put there and which
            // the normalisation of an ID value leaves alone)
            let v = format!("i{}{}", ids.len(), match r.below(9) { 0 | 1 | 2 => " w", 3 => "\tw", 4 => "\nw", 5 => "\u{a0}w", _ => "" });
            ids.push(v.clone());
            v
        } else if ap == "xml" && al == "space" {
            r.pick(&["preserve", "default"]).to_string()
        } else {
            gen_string(r, 0, 6)
        };
        seen.push((uri, al.clone()));
        attrs.push(SAttr { prefix: ap, local: al, value });
    }
    let mut kids = vec![];
    if depth < o.max_depth {
        let n = match r.below(10) { 0..=2 => 0, _ => 1 + r.below(o.max_kids) };
        gen_kids(r, o, depth, n, budget, &sc, ids, &mut kids);
    }
    SElem { prefix, local, decls, attrs, kids }
}

fn gen_kids(r: &mut Rng, o: &GenOpts, depth: usize, n: usize, budget: &mut usize, scope: &Scope, ids: &mut Vec<String>, kids: &mut Vec<SNode>) {
    for _ in 0..n {
        if *budget == 0 {
            break;
        }
        *budget -= 1;
        let prev_text = matches!(kids.last(), Some(SNode::Text(_)));
        let k = r.below(10);
        let node = if k < 4 && depth < o.max_depth {
            SNode::Elem(gen_elem(r, o, depth + 1, budget, scope, ids))
        } else if k < 8 && !prev_text {
            SNode::Text(gen_string(r, 1, 8))
        } else if k == 8 {
            SNode::Comment(gen_comment(r))
        } else {
            let (t, d) = gen_pi(r);
            SNode::Pi(t, d)
        };
        kids.push(node);
    }
}

/// a document that is large in one dimension: depth, width, attributes and declarations on one element (and so prefixes in
/// scope), or the length of a text and an attribute value — inline buffers, depth caps and batch sizes of 8 … 64 are exceeded
pub fn gen_big_doc(r: &mut Rng, fragment: bool) -> SDoc {
    let leaf = |l: &str| SElem { prefix: String::new(), local: l.to_string(), decls: vec![], attrs: vec![], kids: vec![] };
    let el = match r.below(5) {
        0 => {
            // deep: 18 … 30 levels, every level declares another prefix (x0, x1, …) and may use one declared further out;
            // one of the outermost levels re-declares an inner prefix for another namespace
            let depth = 18 + r.below(13);
            let mut n = SElem { prefix: String::new(), local: "a".into(), decls: vec![], attrs: vec![], kids: vec![SNode::Text("x".into())] };
            for i in 0..depth {
                let mut decls = vec![(format!("x{}", i % 24), format!("urn:x{}", i % 24))];
                if i + 3 >= depth && r.chance(1, 2) { let j = r.below(12); if j != i % 24 { decls.push((format!("x{}", j), format!("urn:y{}", j))); } }
                let mut attrs = vec![];
                if r.chance(1, 5) { attrs.push(SAttr { prefix: "xml".into(), local: "space".into(), value: r.pick(&["preserve", "default"]).to_string() }); }
                let prefix = if r.chance(1, 2) { format!("x{}", i % 24) } else { String::new() };
                let mut kids = vec![];
                if r.chance(1, 2) { kids.push(SNode::Text(if r.chance(1, 2) { " \n".into() } else { "l".into() })); }
                kids.push(SNode::Elem(n));
                if r.chance(1, 2) { kids.push(SNode::Text(if r.chance(1, 2) { "\n ".into() } else { "r".into() })); }
                n = SElem { prefix, local: LOCALS[i % LOCALS.len()].to_string(), decls, attrs, kids };
            }
            n
        }
        1 => {
            // wide: 20 … 48 children
            let width = 20 + r.below(29);
            let mut kids: Vec<SNode> = vec![];
            for i in 0..width {
                let prev_text = matches!(kids.last(), Some(SNode::Text(_)));
                kids.push(match r.below(4) {
                    0 if !prev_text => SNode::Text(format!("t{}", i)),
                    1 => { let mut e = leaf("b"); e.kids = vec![SNode::Elem(leaf("c")), SNode::Text("x".into())]; SNode::Elem(e) }
                    2 => SNode::Comment(format!("c{}", i)),
                    _ => SNode::Elem(leaf(LOCALS[i % LOCALS.len()])),
                });
            }
            let mut e = leaf("a"); e.kids = kids; e
        }
        2 => {
            // 13 … 24 attributes and as many declarations on one element; a prefixed attribute through one of them
            let n = 13 + r.below(12);
            let decls: Vec<(String, String)> = (0..n).map(|i| (format!("x{}", i), format!("urn:x{}", (i * 7) % 24))).collect();
            let mut attrs: Vec<SAttr> = (0..n).map(|i| SAttr { prefix: String::new(), local: format!("k{}", i), value: format!("v{}", i) }).collect();
            attrs.push(SAttr { prefix: format!("x{}", n - 1), local: "k".into(), value: "last".into() });
            let mut inner = leaf("b"); inner.attrs = attrs.iter().rev().filter(|a| a.prefix.is_empty()).cloned().collect(); inner.kids = vec![SNode::Text("x".into())];
            SElem { prefix: format!("x{}", n / 2), local: "a".into(), decls, attrs, kids: vec![SNode::Elem(inner), SNode::Elem(leaf("c"))] }
        }
        _ => {
            // long character data
            // (a blank every few characters: each can be spelt as a TAB, a line feed, a carriage return or both in an attribute value)
            let spaced = |r: &mut Rng, lo: usize, hi: usize| -> String {
                let t = gen_string(r, lo, hi);
                t.chars().enumerate().flat_map(|(i, c)| if i % 7 == 6 { vec![' ', c] } else { vec![c] }).collect()
            };
            let mut e = leaf("a");
            e.attrs = vec![SAttr { prefix: String::new(), local: "x".into(), value: spaced(r, 40, 120) },
                           SAttr { prefix: String::new(), local: "y".into(), value: spaced(r, 33, 40) }];
            e.kids = vec![SNode::Text(spaced(r, 40, 200)), SNode::Elem(leaf("b")), SNode::Text(gen_string(r, 30, 60))];
            e
        }
    };
    SDoc { top: vec![SNode::Elem(el)], fragment }
}

pub fn gen_doc(r: &mut Rng, fragment: bool) -> SDoc {
    // one document in ten is large in one dimension
    if r.chance(1, 10) {
        return gen_big_doc(r, fragment);
    }
    let o = GenOpts { max_depth: 1 + r.below(5), max_kids: 1 + r.below(4), budget: 2 + r.below(30) };
    let mut budget = o.budget;
    let mut ids = vec![];
    let scope: Scope = vec![];
    let mut top = vec![];
    if fragment {
        let n = r.below(5);
        gen_kids(r, &o, 0, n, &mut budget, &scope, &mut ids, &mut top);
        // U+FEFF is a byte order mark only in front of a document entity: at the start of a fragment it is content, and every
        // position after it counts its three bytes
        if r.chance(1, 6) {
            if let Some(SNode::Text(t)) = top.first_mut() { t.insert(0, '\u{feff}'); } else { top.insert(0, SNode::Text("\u{feff}".to_string())); }
        }
    } else {
        let misc = |r: &mut Rng, top: &mut Vec<SNode>| {
            for _ in 0..r.below(3) {
                if r.chance(1, 2) { top.push(SNode::Comment(gen_comment(r))); } else { let (t, d) = gen_pi(r); top.push(SNode::Pi(t, d)); }
            }
        };
        misc(r, &mut top);
        top.push(SNode::Elem(gen_elem(r, &o, 1, &mut budget, &scope, &mut ids)));
        misc(r, &mut top);
    }
    SDoc { top, fragment }
}

// ------------------------------------------------------------------------------------------------- rendering

#[derive(Clone, Debug, Default)]
pub struct ElemPoints {
    pub slot: usize,
    pub name_start: usize,    // of the qualified name in the start tag
    pub name_end: usize,
    pub attrs_at: usize,      // where another attribute can be inserted (right after the element name)
    pub content_start: Option<usize>, // right after '>' of the start tag (None for an empty-element tag)
    pub end_tag: Option<(usize, usize)>, // span of the end tag; its name starts 2 bytes in
    pub end_name: Option<(usize, usize)>,
    pub attr_values: Vec<(usize, usize)>, // spans of the attribute values (between the quotes)
    pub whole: (usize, usize),
}

#[derive(Default)]
pub struct Rendering {
    pub text: String,
    pub tree: Vec<String>,          // tokens of the expected tree text
    pub spans: Vec<String>,         // expected spans, in document order
    pub ids: Vec<String>,           // expected `value>slot`
    pub elems: Vec<ElemPoints>,
    pub text_spans: Vec<(usize, usize)>,
    pub comment_spans: Vec<(usize, usize)>,
    pub root_span: Option<(usize, usize)>,
    next_slot: usize,
    pub choices: std::collections::BTreeMap<String, u64>,
}

impl Rendering {
    fn count(&mut self, k: &str) {
        *self.choices.entry(k.to_string()).or_insert(0) += 1;
    }
    fn slot(&mut self) -> usize {
        let s = self.next_slot;
        self.next_slot += 1;
        s
    }
}

fn ws(r: &mut Rng, at_least_one: bool) -> String {
    let n = if at_least_one { 1 + r.below(2) } else { r.below(2) };
    (0..n).map(|_| *r.pick(&[" ", " ", "\n", "\t", "\r\n", "\r"])).collect()
}

fn numeric_ref(r: &mut Rng, c: char) -> String {
    let v = c as u32;
    match r.below(4) {
        0 => format!("&#{};", v),
        1 => format!("&#x{:x};", v),
        2 => format!("&#x{:X};", v),
        _ => format!("&#{}{};", if r.chance(1, 2) { "0" } else { "00" }, v),
    }
}

/// spelling of character data `s` as a run of text / CDATA parts; returns (text, content_start, content_end)
fn spell_text(r: &mut Rng, s: &str, ren: &mut Rendering) -> String {
    let chars: Vec<char> = s.chars().collect();
    let mut out = String::new();
    let mut i = 0;
    let mut after_bare_cr = false;
    while i < chars.len() {
        // a CDATA part?  (never for a CR: it would be normalised away)
        if r.chance(1, 6) && chars[i] != '\r' {
            let mut j = i;
            let maxlen = 1 + r.below(4);
            let mut body = String::new();
            while j < chars.len() && j - i < maxlen && chars[j] != '\r' {
                let c = chars[j];
                // never let "]]>" form inside one section
                if c == '>' && body.ends_with("]]") {
                    break;
                }
                if c == '\n' {
                    match r.below(4) {
                        0 => { body.push_str("\r\n"); ren.count("cdata.crlf"); }
                        1 if !(j + 1 < chars.len() && chars[j + 1] == '\n') => { body.push('\r'); ren.count("cdata.cr"); }
                        _ => body.push('\n'),
                    }
                } else {
                    body.push(c);
                }
                j += 1;
            }
            if j > i {
                // a section is one token: what follows it is normalised on its own
                after_bare_cr = false;
                out.push_str("<![CDATA[");
                out.push_str(&body);
                out.push_str("]]>");
                ren.count("text.cdata_part");
                i = j;
                continue;
            }
        }
        let c = chars[i];
        let lit_ok = match c {
            '<' | '&' | '\r' => false,
            '>' => !out.ends_with("]]"),
            '\n' => !after_bare_cr,
            _ => true,
        };
        after_bare_cr = false;
        let k = r.below(10);
        if c == '\n' && lit_ok && k < 6 {
            match r.below(4) {
                0 => { out.push_str("\r\n"); ren.count("text.crlf"); }
                1 if !(i + 1 < chars.len() && chars[i + 1] == '\n') => { out.push('\r'); after_bare_cr = true; ren.count("text.cr"); }
                _ => out.push('\n'),
            }
        } else if lit_ok && k < 7 {
            out.push(c);
        } else {
            let named = match c { '<' => Some("&lt;"), '&' => Some("&amp;"), '>' => Some("&gt;"), '"' => Some("&quot;"), '\'' => Some("&apos;"), _ => None };
            match named {
                Some(n) if r.chance(1, 2) => { out.push_str(n); ren.count("text.named_ref"); }
                _ => { out.push_str(&numeric_ref(r, c)); ren.count("text.numeric_ref"); }
            }
        }
        i += 1;
    }
    out
}

/// spelling of the abstract attribute value `v` between quotes `q`
fn spell_attr(r: &mut Rng, v: &str, q: char, xml_id: bool, ren: &mut Rendering) -> String {
    let mut out = String::new();
    let chars: Vec<char> = v.chars().collect();
    let mut after_bare_cr = false;
    let pad = |r: &mut Rng, out: &mut String| {
        for _ in 0..r.below(3) { out.push(' '); }
    };
    if xml_id && r.chance(1, 2) {
        pad(r, &mut out);
        if !out.is_empty() { ren.count("xmlid.padded"); }
    }
    for (i, &c) in chars.iter().enumerate() {
        match c {
            ' ' => {
                let next_is_space = i + 1 < chars.len() && chars[i + 1] == ' ';
                match r.below(8) {
                    0 if !after_bare_cr => { out.push('\n'); after_bare_cr = false; ren.count("attr.lf_as_space"); }
                    1 => { out.push('\t'); after_bare_cr = false; ren.count("attr.tab_as_space"); }
                    2 => { out.push_str("\r\n"); after_bare_cr = false; ren.count("attr.crlf_as_space"); }
                    3 if !next_is_space => { out.push('\r'); after_bare_cr = true; ren.count("attr.cr_as_space"); }
                    4 => { out.push_str(&numeric_ref(r, ' ')); after_bare_cr = false; }
                    _ => { out.push(' '); after_bare_cr = false; }
                }
                if xml_id && r.chance(1, 2) { out.push(' '); ren.count("xmlid.doubled"); }
            }
            '\t' | '\n' | '\r' | '<' | '&' => {
                after_bare_cr = false;
                let named = match c { '<' => Some("&lt;"), '&' => Some("&amp;"), _ => None };
                match named {
                    Some(n) if r.chance(1, 2) => out.push_str(n),
                    _ => { out.push_str(&numeric_ref(r, c)); ren.count("attr.numeric_ref"); }
                }
            }
            c if c == q => {
                after_bare_cr = false;
                if r.chance(1, 2) { out.push_str(if q == '"' { "&quot;" } else { "&apos;" }); } else { out.push_str(&numeric_ref(r, c)); }
            }
            c => {
                after_bare_cr = false;
                if r.chance(1, 8) { out.push_str(&numeric_ref(r, c)); ren.count("attr.numeric_ref"); } else { out.push(c); }
            }
        }
    }
    if xml_id && r.chance(1, 2) {
        pad(r, &mut out);
    }
    out
}

fn qn(prefix: &str, local: &str) -> String {
    if prefix.is_empty() { local.to_string() } else { format!("{}:{}", prefix, local) }
}

fn render_node(r: &mut Rng, n: &SNode, scope: &Scope, ren: &mut Rendering) {
    match n {
        SNode::Text(s) => {
            let slot = ren.slot();
            let sp = spell_text(r, s, ren);
            let start = ren.text.len();
            ren.text.push_str(&sp);
            let end = ren.text.len();
            // the span runs from the first part's content to the last part's content
            let cs = if sp.starts_with("<![CDATA[") { start + 9 } else { start };
            let ce = if sp.ends_with("]]>") && sp.contains("<![CDATA[") && last_part_is_cdata(&sp) { end - 3 } else { end };
            ren.tree.push(format!("T{}@{}", enc(s), slot));
            ren.spans.push(format!("tx{}={}-{}", slot, cs, ce));
            ren.text_spans.push((start, end));
        }
        SNode::Comment(s) => {
            let slot = ren.slot();
            ren.text.push_str("<!--");
            let a = ren.text.len();
            ren.text.push_str(&spell_line_ends(r, s, &mut ren.choices));
            let b = ren.text.len();
            ren.text.push_str("-->");
            ren.tree.push(format!("C{}@{}", enc(s), slot));
            ren.spans.push(format!("cm{}={}-{}", slot, a, b));
            ren.comment_spans.push((a - 4, b + 3));
        }
        SNode::Pi(t, d) => {
            let slot = ren.slot();
            ren.text.push_str("<?");
            let a = ren.text.len();
            ren.text.push_str(t);
            let b = ren.text.len();
            ren.tree.push(format!("P{}/_={}@{}", enc(t), enc_opt(d.as_deref()), slot));
            ren.spans.push(format!("pt{}={}-{}", slot, a, b));
            match d {
                Some(d) => {
                    ren.text.push_str(&ws(r, true).replace('\r', " "));
                    let c = ren.text.len();
                    ren.text.push_str(&spell_line_ends(r, d, &mut ren.choices));
                    let e = ren.text.len();
                    ren.spans.push(format!("pc{}={}-{}", slot, c, e));
                }
                None => {
                    if r.chance(1, 3) { ren.text.push(' '); }
                    ren.spans.push(format!("pc{}=-", slot));
                }
            }
            ren.text.push_str("?>");
        }
        SNode::Elem(e) => {
            let slot = ren.slot();
            let mut sc = scope.clone();
            sc.extend(e.decls.iter().cloned());
            let uri = if e.prefix.is_empty() { resolve(&sc, "").unwrap_or_default() } else { resolve(&sc, &e.prefix).expect("generated prefix is bound") };
            let whole_start = ren.text.len();
            ren.text.push('<');
            let mut pts = ElemPoints { slot, ..Default::default() };
            pts.name_start = ren.text.len();
            ren.text.push_str(&qn(&e.prefix, &e.local));
            pts.name_end = ren.text.len();
            pts.attrs_at = ren.text.len();
            ren.tree.push(format!("E{}/{}@{}(", enc(&e.local), enc(&uri), slot));
            ren.spans.push(format!("es{}={}-{}", slot, pts.name_start, pts.name_end));
            let ee_index = ren.spans.len();
            ren.spans.push(String::new()); // ee, filled in below
            // declarations and attributes, interleaved in a random order (each kind keeps its own order)
            enum Item<'a> { D(&'a (String, String)), A(&'a SAttr) }
            let mut items: Vec<Item> = vec![];
            let (mut di, mut ai) = (0, 0);
            while di < e.decls.len() || ai < e.attrs.len() {
                let take_decl = if di >= e.decls.len() { false } else if ai >= e.attrs.len() { true } else { r.chance(1, 2) };
                if take_decl { items.push(Item::D(&e.decls[di])); di += 1; } else { items.push(Item::A(&e.attrs[ai])); ai += 1; }
            }
            // namespace nodes come first in the tree, then the attribute nodes
            let ns_slots: Vec<usize> = e.decls.iter().map(|_| ren.slot()).collect();
            for ((p, u), s) in e.decls.iter().zip(ns_slots.iter()) {
                ren.tree.push(format!("N{}:{}@{}", enc(p), enc(u), s));
            }
            let attr_slots: Vec<usize> = e.attrs.iter().map(|_| ren.slot()).collect();
            let mut attr_tree: Vec<String> = vec![];
            let mut attr_spans: Vec<String> = vec![];
            let mut ai2 = 0;
            for it in items {
                ren.text.push_str(&ws(r, true));
                let q = if r.chance(1, 2) { '"' } else { '\'' };
                let eq = |r: &mut Rng| -> String { match r.below(6) { 0 => " =".into(), 1 => "= ".into(), 2 => " = ".into(), _ => "=".into() } };
                match it {
                    Item::D((p, u)) => {
                        ren.text.push_str(&if p.is_empty() { "xmlns".to_string() } else { format!("xmlns:{}", p) });
                        ren.text.push_str(&eq(r));
                        ren.text.push(q);
                        let v = spell_attr(r, u, q, false, ren);
                        ren.text.push_str(&v);
                        ren.text.push(q);
                    }
                    Item::A(a) => {
                        let auri = if a.prefix.is_empty() { String::new() } else { resolve(&sc, &a.prefix).expect("bound") };
                        let ns = ren.text.len();
                        ren.text.push_str(&qn(&a.prefix, &a.local));
                        let ne = ren.text.len();
                        ren.text.push_str(&eq(r));
                        ren.text.push(q);
                        let is_id = a.prefix == "xml" && a.local == "id";
                        let vs = ren.text.len();
                        let v = spell_attr(r, &a.value, q, is_id, ren);
                        ren.text.push_str(&v);
                        let ve = ren.text.len();
                        ren.text.push(q);
                        let name = format!("{}/{}", enc(&a.local), enc(&auri));
                        attr_tree.push(format!("A{}={}@{}", name, enc(&a.value), attr_slots[ai2]));
                        attr_spans.push(format!("an{}/{}={}-{}", slot, name, ns, ne));
                        attr_spans.push(format!("av{}/{}={}-{}", slot, name, vs, ve));
                        pts.attr_values.push((vs, ve));
                        if is_id { ren.ids.push(format!("{}>{}", enc(&a.value), slot)); }
                        ai2 += 1;
                    }
                }
            }
            ren.tree.extend(attr_tree);
            ren.spans.extend(attr_spans);
            ren.text.push_str(&ws(r, false));
            if e.kids.is_empty() && r.chance(1, 2) {
                let a = ren.text.len();
                ren.text.push_str("/>");
                ren.spans[ee_index] = format!("ee{}={}-{}", slot, a, a + 2);
                ren.count("elem.empty_tag");
            } else {
                ren.text.push('>');
                pts.content_start = Some(ren.text.len());
                for k in &e.kids {
                    render_node(r, k, &sc, ren);
                }
                let a = ren.text.len();
                ren.text.push_str("</");
                let na = ren.text.len();
                ren.text.push_str(&qn(&e.prefix, &e.local));
                let nb = ren.text.len();
                ren.text.push_str(&ws(r, false));
                ren.text.push('>');
                let b = ren.text.len();
                ren.spans[ee_index] = format!("ee{}={}-{}", slot, a, b);
                pts.end_tag = Some((a, b));
                pts.end_name = Some((na, nb));
            }
            pts.whole = (whole_start, ren.text.len());
            ren.tree.push(")".into());
            ren.elems.push(pts);
        }
    }
}

fn last_part_is_cdata(sp: &str) -> bool {
    // the rendering ends with "]]>" — is that the end of a CDATA section (and not literal text, which never contains it)?
    sp.ends_with("]]>")
}

pub struct RenderOpts {
    pub declaration: bool,
    pub bom: bool,
}

pub fn render(r: &mut Rng, d: &SDoc, o: &RenderOpts) -> Rendering {
    let mut ren = Rendering::default();
    if o.bom && !d.fragment {
        ren.text.push('\u{feff}');
    }
    if o.declaration && !d.fragment {
        let q = if r.chance(1, 2) { '"' } else { '\'' };
        // XMLDecl ::= '<?xml' VersionInfo EncodingDecl? SDDecl? S? '?>'; every S is any white space, Eq ::= S? '=' S?
        let s1 = |r: &mut Rng| -> &'static str { if r.chance(3, 4) { " " } else { *r.pick(&["\t", "\n", "  ", "\r\n"]) } };
        let eq = |r: &mut Rng| -> &'static str { if r.chance(3, 4) { "=" } else { *r.pick(&[" =", "= ", " = ", "\t=\n"]) } };
        let (a, b) = (s1(r), eq(r));
        ren.text.push_str(&format!("<?xml{}version{}{}1.0{}", a, b, q, q));
        if r.chance(1, 2) { let (a, b) = (s1(r), eq(r)); ren.text.push_str(&format!("{}encoding{}{}{}{}", a, b, q, r.pick(&["UTF-8", "utf-8", "UTF8"]), q)); }
        if r.chance(1, 3) { let (a, b) = (s1(r), eq(r)); ren.text.push_str(&format!("{}standalone{}{}{}{}", a, b, q, r.pick(&["yes", "no"]), q)); }
        if r.chance(1, 4) { ren.text.push_str(*r.pick(&[" ", "\n", "\t "])); }
        ren.text.push_str("?>");
        ren.count("doc.declaration");
    }
    let doc_slot = ren.slot();
    ren.tree.push(format!("D@{}(", doc_slot));
    for n in &d.top {
        if !d.fragment && r.chance(1, 2) {
            ren.text.push_str(&ws(r, false));
        }
        let is_root = matches!(n, SNode::Elem(_));
        let a = ren.text.len();
        render_node(r, n, &vec![], &mut ren);
        if is_root && !d.fragment {
            ren.root_span = Some((a, ren.text.len()));
        }
    }
    if !d.fragment && r.chance(1, 2) {
        ren.text.push_str(&ws(r, false));
    }
    ren.tree.push(")".into());
    ren
}

pub fn expected_tree(ren: &Rendering) -> String {
    ren.tree.join(" ")
}
pub fn expected_spans(ren: &Rendering) -> String {
    if ren.spans.is_empty() { "-".into() } else { ren.spans.join(",") }
}
pub fn expected_ids(ren: &Rendering) -> String {
    let mut v = ren.ids.clone();
    v.sort();
    if v.is_empty() { "-".into() } else { v.join(",") }
}

// ------------------------------------------------------------------------------------------ damage catalogue

/// every ill-formed variant of a well-formed document rendering: (catalogue entry, position, text).  Each edit makes the
/// text break a well-formedness or namespace constraint by construction.
pub fn damage(ren: &Rendering, fragment: bool) -> Vec<(String, usize, String)> {
    let t = &ren.text;
    let mut out: Vec<(String, usize, String)> = vec![];
    let ins = |at: usize, s: &str| -> String { format!("{}{}{}", &t[..at], s, &t[at..]) };
    let rep = |a: usize, b: usize, s: &str| -> String { format!("{}{}{}", &t[..a], s, &t[b..]) };
    for e in &ren.elems {
        if let (Some((a, b)), Some((na, nb))) = (e.end_tag, e.end_name) {
            out.push(("mismatched-end-tag".into(), a, rep(na, nb, "zz9")));
            // the end tag must repeat the start tag's name as it is written: a dropped or an added prefix is a mismatch even
            // where the default namespace makes the expanded names meet
            match t[na..nb].find(':') {
                Some(c) => out.push(("end-tag-prefix-dropped".into(), a, rep(na, na + c + 1, ""))),
                None => out.push(("end-tag-prefix-added".into(), a, rep(na, na, "xml:"))),
            }
            out.push(("missing-end-tag".into(), a, rep(a, b, "")));
            out.push(("undeclared-prefix-element".into(), e.name_start, format!("{}und:{}{}und:{}{}", &t[..e.name_start], &t[e.name_start..e.name_end], &t[e.name_end..na], &t[na..nb], &t[nb..])));
        } else {
            out.push(("undeclared-prefix-element".into(), e.name_start, ins(e.name_start, "und:")));
        }
        out.push(("undeclared-prefix-attribute".into(), e.attrs_at, ins(e.attrs_at, " und:k='v'")));
        // the text ends inside a start tag (a fragment's tokenizer ends silently there)
        out.push(("text-ends-in-start-tag".into(), e.name_end, t[..e.name_end].to_string()));
        out.push(("text-ends-in-start-tag".into(), e.attrs_at, format!("{} b='1'", &t[..e.attrs_at])));
        out.push(("attribute-twice-by-qname".into(), e.attrs_at, ins(e.attrs_at, " dup='1' dup='2'")));
        out.push(("attribute-twice-by-expanded-name".into(), e.attrs_at, ins(e.attrs_at, " xmlns:d1='urn:dup' xmlns:d2='urn:dup' d1:k='1' d2:k='2'")));
        // ... also where the one expanded name is reached through a prefix bound to the empty namespace name (which the crate
        // takes for "no namespace") and through no prefix at all, in either order
        out.push(("attribute-twice-by-expanded-name-empty-uri-prefix".into(), e.attrs_at, ins(e.attrs_at, " xmlns:d0='' d0:k='1' k='2'")));
        out.push(("attribute-twice-by-expanded-name-empty-uri-prefix".into(), e.attrs_at, ins(e.attrs_at, " k='1' xmlns:d0='' d0:k='2'")));
        out.push(("attribute-twice-by-expanded-name-default-is-no-help".into(), e.attrs_at, ins(e.attrs_at, " xmlns:d1='urn:dup' d1:k='1' xmlns:d2='urn:dup' d2:k='2' k='3' xmlns='urn:dup'")));
        // ... and where the one expanded name is in the XML namespace, reached through `xml` and through a second prefix bound
        // to that namespace name (the parser accepts such a binding): xml:id, xml:space and another name, in either order
        for (l, v1, v2) in [("id", "xi1", "xi2"), ("space", "preserve", "default"), ("lang", "en", "nl")] {
            out.push(("attribute-twice-by-expanded-name-xml-namespace".into(), e.attrs_at,
                      ins(e.attrs_at, &format!(" xmlns:dx='http://www.w3.org/XML/1998/namespace' dx:{l}='{v1}' xml:{l}='{v2}'"))));
            out.push(("attribute-twice-by-expanded-name-xml-namespace".into(), e.attrs_at,
                      ins(e.attrs_at, &format!(" xml:{l}='{v1}' dx:{l}='{v2}' xmlns:dx='http://www.w3.org/XML/1998/namespace'"))));
        }
        out.push(("prefix-declared-twice".into(), e.attrs_at, ins(e.attrs_at, " xmlns:dd='urn:u1' xmlns:dd='urn:u2'")));
        // a name written with a colon in front is no QName
        out.push(("name-with-leading-colon".into(), e.attrs_at, ins(e.attrs_at, " :k='v'")));
        out.push(("name-with-leading-colon".into(), e.attrs_at, ins(e.attrs_at, " :xmlns='urn:lc'")));
        out.push(("name-with-leading-colon".into(), e.name_start, ins(e.name_start, ":")));
        if let Some((_, _)) = e.end_tag { if let Some((na, _)) = e.end_name { if !t[e.name_start..e.name_end].contains(':') { out.push(("name-with-leading-colon".into(), na, ins(na, ":"))); } } }
        // Namespaces in XML 1.0, "No Prefix Undeclaring": only the default namespace can be undeclared
        out.push(("prefix-undeclared".into(), e.attrs_at, ins(e.attrs_at, " xmlns:ud=''")));
        out.push(("prefix-undeclared".into(), e.attrs_at, ins(e.attrs_at, " xmlns:ud=\"\" ud:k='v'")));
        out.push(("default-namespace-declared-twice".into(), e.attrs_at, ins(e.attrs_at, " xmlns='urn:u1' xmlns='urn:u1'")));
        out.push(("raw-lt-in-attribute".into(), e.attrs_at, ins(e.attrs_at, " lt='a<b'")));
        out.push(("raw-amp-in-attribute".into(), e.attrs_at, ins(e.attrs_at, " amp='a & b'")));
        out.push(("duplicate-xml-id".into(), e.attrs_at, {
            // a second element with the same id right inside / after this one
            let s = ins(e.attrs_at, " xml:id='dupid'");
            match e.content_start { Some(c) => format!("{}<w xml:id=' dupid '/>{}", &s[..c + 15], &s[c + 15..]), None => String::new() }
        }));
        for bad in ["&#0;", "&#1;", "&#xB;", "&#xD800;", "&#xFFFE;", "&#x110000;", "&#+65;", "&#x+41;", "&#6 5;", "&#xG;", "&#;", "&#x;", "&#-1;", "&foo;", "&amp", "&#12", "&"] {
            out.push((format!("bad-reference-attribute:{}", bad), e.attrs_at, ins(e.attrs_at, &format!(" r='x{}y'", bad))));
        }
        // a reference that never ends (or names no entity), followed by a long tail of multi-byte characters at every alignment:
        // whatever the parser does with the offending name (copy it into the error, cut it, measure it) happens on character boundaries
        for k in 0..4usize {
            for ch in ['\u{e9}', '\u{20ac}', '\u{1f600}'] {
                let tail: String = "a".repeat(k) + &ch.to_string().repeat(24);
                out.push((format!("long-unterminated-reference-attribute:{}:{:x}", k, ch as u32), e.attrs_at, ins(e.attrs_at, &format!(" r='x&{}'", tail))));
                out.push((format!("long-unknown-entity-attribute:{}:{:x}", k, ch as u32), e.attrs_at, ins(e.attrs_at, &format!(" r='x&{};y'", tail))));
                if let Some(c) = e.content_start {
                    out.push((format!("long-unterminated-reference-content:{}:{:x}", k, ch as u32), c, ins(c, &format!("x&{}", tail))));
                    out.push((format!("long-unknown-entity-content:{}:{:x}", k, ch as u32), c, ins(c, &format!("x&{};y", tail))));
                }
            }
        }
        if let Some(c) = e.content_start {
            out.push(("stray-end-tag".into(), c, ins(c, "</zz9>")));
            out.push(("raw-lt-in-content".into(), c, ins(c, "a < b")));
            out.push(("raw-amp-in-content".into(), c, ins(c, "a & b")));
            // an opened construct is unterminated only when its terminator does not occur later in the text
            if !t[c..].contains("-->") { out.push(("unterminated-comment".into(), c, ins(c, "<!-- x"))); }
            if !t[c..].contains("?>") { out.push(("unterminated-pi".into(), c, ins(c, "<?pi x"))); }
            if !t[c..].contains("]]>") { out.push(("unterminated-cdata".into(), c, ins(c, "<![CDATA[ x"))); }
            out.push(("double-hyphen-in-comment".into(), c, ins(c, "<!-- a -- b -->")));
            out.push(("comment-ending-in-hyphen".into(), c, ins(c, "<!-- a --->")));
            out.push(("cdata-end-in-text".into(), c, ins(c, "a]]>b")));
            out.push(("xml-declaration-in-content".into(), c, ins(c, "<?xml version='1.0'?>")));
            // Namespaces in XML 1.0: no colon in a processing instruction target
            for bad in ["<?a:b c?>", "<?:a?>", "<?p:q?>"] {
                out.push((format!("colon-in-pi-target:{}", bad), c, ins(c, bad)));
            }
            // PI ::= '<?' PITarget (S (Char* - (Char* '?>' Char*)))? '?>': white space between the target and what follows it
            for bad in ["<?a+b?>", "<?a?b?>", "<?a<b?>", "<?a\u{e9}=1?>", "<?pi<?xml version='1.0'?>"] {
                out.push((format!("pi-without-space-after-target:{}", bad.escape_default()), c, ins(c, bad)));
            }
            // PITarget ::= Name - (('X' | 'x') ('M' | 'm') ('L' | 'l')): the target xml is reserved in every case and with any
            // white space after it
            for bad in ["<?xml\tversion='1.0'?>", "<?xml\nx?>", "<?XML x?>", "<?Xml?>", "<?xMl\ty?>", "<?xml?>"] {
                out.push((format!("reserved-pi-target:{}", bad.escape_default()), c, ins(c, bad)));
            }
            for bad in ["&#0;", "&#1;", "&#xB;", "&#xD800;", "&#xDFFF;", "&#xFFFE;", "&#xFFFF;", "&#x110000;", "&#4294967296;", "&#+65;", "&#x+41;", "&#6 5;", "&#xG;", "&#;", "&#x;", "&#-1;", "&foo;", "&amp", "&#12", "&"] {
                out.push((format!("bad-reference-content:{}", bad), c, ins(c, &format!("x{}y", bad))));
            }
        }
    }
    for (a, b) in &ren.comment_spans {
        out.push(("double-hyphen-in-comment".into(), *a, rep(*a + 4, *b - 3, "x--y")));
    }
    if !fragment {
        if let Some((a, b)) = ren.root_span {
            out.push(("second-root".into(), b, ins(b, "<r2/>")));
            out.push(("top-level-text-after".into(), b, ins(b, "tail")));
            out.push(("top-level-text-before".into(), a, ins(a, "head")));
            out.push(("top-level-cdata".into(), b, ins(b, "<![CDATA[x]]>")));
            out.push(("top-level-reference".into(), b, ins(b, "&#65;")));
            out.push(("no-root".into(), a, rep(a, b, "<!--only a comment-->")));
            out.push(("empty-document".into(), 0, String::from("  ")));
            out.push(("dtd".into(), a, ins(a, "<!DOCTYPE a>")));
            out.push(("dtd-with-entity".into(), a, ins(a, "<!DOCTYPE a [<!ENTITY e \"x\">]>")));
            out.push(("stray-end-tag-top".into(), b, ins(b, "</zz9>")));
            let body_start = if t.starts_with('\u{feff}') { 3 } else { 0 };
            let after_decl = if t[body_start..].starts_with("<?xml") && t[body_start + 5..].starts_with(|ch: char| ch == ' ' || ch == '\t' || ch == '\r' || ch == '\n') { t[body_start..].find("?>").map(|i| body_start + i + 2).unwrap_or(body_start) } else { body_start };
            for v in ["1.1", "2.0", "1.00", ""] {
                out.push((format!("version:{}", v), 0, format!("{}<?xml version=\"{}\"?>{}", &t[..body_start], v, &t[after_decl..])));
            }
            // EncName ::= [A-Za-z] ([A-Za-z0-9._] | '-')*
            for e in ["", "8859-1", "-utf8", "_x", "utf 8", "\u{e9}"] {
                out.push((format!("encname:{}", e), 0, format!("{}<?xml version=\"1.0\" encoding=\"{}\"?>{}", &t[..body_start], e, &t[after_decl..])));
                out.push((format!("encname:{}", e), 0, format!("{}<?xml\tversion=\"1.0\" encoding='{}' ?>{}", &t[..body_start], e, &t[after_decl..])));
            }
            out.push(("declaration-not-at-start".into(), 0, format!("{} <?xml version=\"1.0\"?>{}", &t[..body_start], &t[after_decl..])));
            out.push(("reserved-pi-target-after-root".into(), b, ins(b, "<?xml\tversion='1.0'?>")));
            out.push(("reserved-pi-target-after-root".into(), b, ins(b, "<?XmL x?>")));
            // truncations: the document cut inside the root element
            let len = b - a;
            for k in 1..6 {
                let mut cut = a + len * k / 6;
                while !t.is_char_boundary(cut) { cut -= 1; }
                if cut > a && cut < b { out.push(("truncated".into(), cut, t[..cut].to_string())); }
            }
        }
    } else {
        out.push(("stray-end-tag-top".into(), t.len(), format!("{}</zz9>", t)));
        out.push(("stray-end-tag-only".into(), 0, "</a>".to_string()));
        out.push(("unclosed-element-top".into(), t.len(), format!("{}<open>", t)));
    }
    // end tags that name the same expanded name in other words
    for fixed in ["<p:a xmlns:p=\"urn:u\" xmlns:q=\"urn:u\"></q:a>", "<p:a xmlns:p=\"urn:u\" xmlns=\"urn:u\"></a>",
                  "<a xmlns:p=\"urn:u\" xmlns=\"urn:u\"></p:a>", "<d xmlns:p=\"urn:u\" xmlns=\"urn:d\"><p:a>t</a></d>"] {
        out.push(("end-tag-same-expanded-name-other-spelling".into(), 0, fixed.to_string()));
    }
    out.retain(|(_, _, s)| !s.is_empty());
    out
}
