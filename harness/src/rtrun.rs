//! Serialise-then-parse runner (C01, C14; C10 and C15 add a namespace repair step before it): a tree in a real Xot is
//! serialised under some parameters, the text is tokenised for the model and reparsed in a fresh Xot, and the oracle
//! compares the reparsed tree with the source.
//!
//! Case line:  <case> <tables> | <tree> | <node>@<params> | <srclen> | <tokens of the written text or ->
//! Observation: ser=<ok:text | ERR:kind> rp=<parse observation | ->
use crate::common::*;
use crate::parseobs::*;
use crate::serobs::*;
use crate::spell;
use crate::tree::*;
use xot::output::{xml, Indentation};
use xot::{Node, Value, Xot};

#[derive(Clone, Debug)]
pub struct RtParams {
    pub ser: SerParams,
    pub decl: Option<(Option<String>, Option<bool>)>,
    pub indent: bool,
}

pub fn rt_params_text(p: &RtParams) -> String {
    let d = match &p.decl {
        None => "-".to_string(),
        Some((e, s)) => format!("{}/{}", enc_opt(e.as_deref()), match s { None => "~", Some(true) => "y", Some(false) => "n" }),
    };
    format!("{};dc={};in={}", params_text(&p.ser), d, if p.indent { 1 } else { 0 })
}

pub fn parse_rt_params(s: &str) -> RtParams {
    let ser = parse_params(s);
    let mut decl = None;
    let mut indent = false;
    for f in s.split(';') {
        if let Some((k, v)) = f.split_once('=') {
            match k {
                "dc" => {
                    if v != "-" {
                        let (e, st) = v.split_once('/').unwrap();
                        decl = Some((if e == "~" { None } else { Some(dec(e)) }, match st { "y" => Some(true), "n" => Some(false), _ => None }));
                    }
                }
                "in" => indent = v == "1",
                _ => {}
            }
        }
    }
    RtParams { ser, decl, indent }
}

pub fn random_rt_params(r: &mut Rng, pool: &Pool, options: bool) -> RtParams {
    if !options {
        return RtParams { ser: SerParams { cdata: vec![], unescaped_gt: false, suppress: vec![] }, decl: None, indent: false };
    }
    let ser = random_params(r, pool);
    // the encoding label is a parameter like any other: the crate writes it as given and writes the same characters whatever
    // it says (the result is a String), so every label has to read back to the same tree
    let label = |r: &mut Rng| -> String { r.pick(&["UTF-8", "UTF-8", "utf-8", "US-ASCII", "ASCII", "ISO-8859-1", "UTF-16"]).to_string() };
    let decl = match r.below(4) {
        0 => None,
        1 => Some((None, None)),
        2 => Some((Some(label(r)), None)),
        _ => Some((if r.chance(1, 2) { Some(label(r)) } else { None }, Some(r.chance(1, 2)))),
    };
    RtParams { ser, decl, indent: r.chance(1, 2) }
}

pub fn serialise(xot: &Xot, reg: &Reg, node: Node, p: &RtParams) -> Result<String, String> {
    let names: Vec<xot::NameId> = reg.names.iter().map(|x| x.2).collect();
    let xp = xml::Parameters {
        indentation: if p.indent { Some(Indentation { suppress: p.ser.suppress.iter().map(|i| names[*i]).collect() }) } else { None },
        cdata_section_elements: p.ser.cdata.iter().map(|i| names[*i]).collect(),
        declaration: p.decl.as_ref().map(|(e, s)| xml::Declaration { encoding: e.clone(), standalone: *s }),
        doctype: None,
        unescaped_gt: p.ser.unescaped_gt,
    };
    match guard(|| xot.serialize_xml_string(xp, node)) {
        Ok(Ok(s)) => Ok(s),
        Ok(Err(e)) => Err(match e { xot::Error::MissingPrefix(_) => "MissingPrefix".into(), xot::Error::NamespaceInProcessingInstruction => "NamespaceInPI".into(), o => format!("{:?}", o).split('(').next().unwrap().to_string() }),
        Err(()) => Err("PANIC".into()),
    }
}

/// canonical content of a subtree: the tree text without slots
pub fn canon(xot: &Xot, node: Node) -> Vec<String> {
    tree_text(xot, node).split(' ').map(|t| match t.rfind('@') { Some(i) if t != ")" => { let tail = &t[i..]; if tail.ends_with('(') { format!("{}(", &t[..i]) } else { t[..i].to_string() } } _ => t.to_string() }).collect()
}

fn xml_ws(s: &str) -> bool {
    s.chars().all(|c| c == ' ' || c == '\t' || c == '\r' || c == '\n')
}

/// Is `node` a tree XML 1.0 can express and the parser can give back (the domain of C01 / C14)?  Returns the reason when not.
pub fn representable(xot: &Xot, node: Node) -> Option<String> {
    let fragment_ok = true;
    let _ = fragment_ok;
    for n in xot.descendants(node) {
        match xot.value(n) {
            Value::Text(t) => {
                if t.get().is_empty() { return Some("empty text node".into()); }
                if !t.get().chars().all(xml_char) { return Some("non-XML character in text".into()); }
                if let Some(p) = xot.previous_sibling(n) { if xot.is_text(p) { return Some("adjacent text nodes".into()); } }
            }
            Value::Comment(c) => {
                let s = c.get();
                if s.contains("--") || s.ends_with('-') || !s.chars().all(xml_char) || s.contains('\r') { return Some("comment body".into()); }
            }
            Value::ProcessingInstruction(p) => {
                let (l, _) = xot.name_ns_str(p.target());
                if l.eq_ignore_ascii_case("xml") || !ncname(l) { return Some("PI target".into()); }
                if let Some(d) = p.data() {
                    if d.is_empty() || d.contains("?>") || d.starts_with(|c: char| c == ' ' || c == '\t' || c == '\n' || c == '\r') || !d.chars().all(xml_char) || d.contains('\r') { return Some("PI data".into()); }
                }
            }
            Value::Element(e) => {
                let (l, _) = xot.name_ns_str(e.name());
                if !ncname(l) { return Some("element name".into()); }
                for (p, ns) in xot.namespaces(n).iter() {
                    let ps = xot.prefix_str(p);
                    let us = xot.namespace_str(*ns);
                    // (the one legal declaration with the xml prefix or the xml namespace is xmlns:xml="http://www.w3.org/XML/1998/namespace")
                    let xml_pair = ps == "xml" && us == spell::XML_NS;
                    if !ps.is_empty() && (us.is_empty() || !ncname(ps) || ps == "xmlns" || (ps == "xml" && !xml_pair)) { return Some("declaration".into()); }
                    if !us.chars().all(xml_char) || (us == spell::XML_NS && !xml_pair) { return Some("declaration".into()); }
                }
                let mut ids = vec![];
                for (a, v) in xot.attributes(n).iter() {
                    let (l, _) = xot.name_ns_str(a);
                    if !ncname(l) || !v.chars().all(xml_char) { return Some("attribute".into()); }
                    if a == xot.xml_id_name() { ids.push(v.clone()); }
                }
            }
            _ => {}
        }
    }
    // xml:id values: normalised and unique below the root
    let mut seen = std::collections::BTreeSet::new();
    for n in xot.descendants(node) {
        if xot.is_element(n) {
            if let Some(v) = xot.attributes(n).get(xot.xml_id_name()) {
                let norm: Vec<&str> = v.split(' ').filter(|s| !s.is_empty()).collect();
                if norm.join(" ") != *v { return Some("xml:id not normalised".into()); }
                if !seen.insert(v.clone()) { return Some("duplicate xml:id".into()); }
            }
        }
    }
    // well-formed document or fragment
    if xot.is_document(node) {
        None
    } else {
        Some("root is not a document node".into())
    }
}

pub fn ncname(s: &str) -> bool {
    let mut it = s.chars();
    match it.next() {
        Some(c) if c.is_alphabetic() || c == '_' => {}
        _ => return false,
    }
    it.all(|c| c.is_alphanumeric() || c == '_' || c == '-' || c == '.')
}

pub struct RtObs {
    pub ser: Result<String, String>,
    pub reparsed: Option<Parsed>,
    pub line_tail: String, // "<srclen> | <tokens>"
}

pub fn observe_rt(xot: &Xot, reg: &Reg, node: Node, p: &RtParams) -> RtObs {
    let ser = serialise(xot, reg, node, p);
    match &ser {
        Ok(s) => {
            // a document with exactly one element (and no top-level text) is parsed as a document, anything else as a fragment
            let frag = !is_wf_document(xot, node);
            let toks = dump_tokens(s, frag);
            let rp = parse_fresh(s, frag);
            let tail = format!("{} {} | {}", s.len(), if frag { "frag" } else { "doc" }, toks);
            RtObs { ser: ser.clone(), reparsed: Some(rp), line_tail: tail }
        }
        Err(_) => RtObs { ser, reparsed: None, line_tail: "0 doc | -".into() },
    }
}

pub fn is_wf_document(xot: &Xot, node: Node) -> bool {
    xot.is_document(node) && xot.validate_well_formed_document(node).is_ok()
}

pub fn rt_obs_text(o: &RtObs) -> String {
    let s = match &o.ser { Ok(s) => format!("ok:{}", enc(s)), Err(k) => format!("ERR:{}", k) };
    let r = match &o.reparsed { Some(p) => parsed_text(p), None => "-".into() };
    format!("ser={} rp={}", s, r)
}

/// the comparison of the reparsed tree with the source, for a serialisation without indentation
pub fn compare_exact(src: &Xot, node: Node, re: &Xot, root: Node, allow_added_undeclaration: bool) -> Option<String> {
    let a = canon(src, node);
    let b = canon(re, root);
    if a == b {
        return None;
    }
    if allow_added_undeclaration {
        // the serialiser writes xmlns="" on an element in no namespace that sits in a default-namespace scope, and declares the
        // default namespace again on a descendant that relies on it: the reparsed tree carries those declarations of the
        // empty prefix, the source need not.  Every other token must agree, in order.
        let (mut i, mut j) = (0, 0);
        let mut ok = true;
        while i < a.len() || j < b.len() {
            if i < a.len() && j < b.len() && a[i] == b[j] { i += 1; j += 1; continue; }
            if j < b.len() && b[j].starts_with("N_:") { j += 1; continue; }
            ok = false;
            break;
        }
        if ok { return None; }
        return Some(format!("source has {:?} where the reparsed tree has {:?} (positions {} / {})", a.get(i), b.get(j), i, j));
    }
    let i = a.iter().zip(b.iter()).position(|(x, y)| x != y).unwrap_or(a.len().min(b.len()));
    Some(format!("source has {:?} where the reparsed tree has {:?} (position {})", a.get(i), b.get(i), i))
}

/// the comparison for an indented serialisation: the reparsed tree may only have additional white-space-only text nodes, and
/// none inside an element with text children, inside xml:space="preserve" scope or inside a suppressed element
pub fn compare_indented(src: &Xot, node: Node, re: &Xot, root: Node, suppress: &[xot::NameId]) -> Option<String> {
    fn go(src: &Xot, a: Node, re: &Xot, b: Node, preserve: bool, quiet_above: bool, suppress: &[xot::NameId], top: bool) -> Option<String> {
        // same node up to children (an element written on its own also carries the declarations it inherits)
        let head = |x: &Xot, n: Node| -> String { node_head(x, n) };
        let strip = |s: String| s.split(' ').filter(|t| !(t.starts_with("N_:") || (top && t.starts_with('N')))).collect::<Vec<_>>().join(" ");
        if strip(head(src, a)) != strip(head(re, b)) {
            return Some(format!("node {} became {}", head(src, a), head(re, b)));
        }
        let preserve_here = match src.value(a) {
            Value::Element(_) => match src.attributes(a).get(src.xml_space_name()) { Some(v) => v == "preserve", None => preserve },
            _ => preserve,
        };
        let ka: Vec<Node> = src.children(a).collect();
        let kb: Vec<Node> = re.children(b).collect();
        // "anywhere inside": an element with text children and an element of the suppress list silence their whole subtree
        let mixed = quiet_above || ka.iter().any(|k| src.is_text(*k));
        let suppressed = match src.value(a) { Value::Element(e) => suppress.contains(&e.name()), _ => false };
        let mut j = 0;
        for k in &ka {
            // skip added white space
            loop {
                if j >= kb.len() { return Some("a child is missing after indentation".into()); }
                let same_text = match (src.value(*k), re.value(kb[j])) { (Value::Text(x), Value::Text(y)) => x.get() == y.get(), (Value::Text(_), _) => false, (_, Value::Text(_)) => false, _ => true };
                if same_text { break; }
                match re.value(kb[j]) {
                    Value::Text(t) if xml_ws(t.get()) && !src.is_text(*k) => {
                        if mixed || preserve_here || suppressed {
                            return Some(format!("white space added inside {} content", if mixed { "mixed" } else if preserve_here { "xml:space=preserve" } else { "suppressed" }));
                        }
                        j += 1;
                    }
                    _ => return Some("children differ by more than added white space".into()),
                }
            }
            if let Some(why) = go(src, *k, re, kb[j], preserve_here, mixed || suppressed, suppress, false) { return Some(why); }
            j += 1;
        }
        while j < kb.len() {
            match re.value(kb[j]) {
                Value::Text(t) if xml_ws(t.get()) => {
                    if mixed || preserve_here || suppressed {
                        return Some(format!("white space added inside {} content", if mixed { "mixed" } else if preserve_here { "xml:space=preserve" } else { "suppressed" }));
                    }
                    j += 1;
                }
                _ => return Some("extra child after indentation".into()),
            }
        }
        None
    }
    // the context the node stands in: white space is not added inside the scope of an ancestor's xml:space="preserve", inside an
    // ancestor with text children, or inside a suppressed ancestor either
    let mut preserve0 = false;
    for a in src.ancestors(node).skip(1) {
        if src.is_element(a) { if let Some(v) = src.attributes(a).get(src.xml_space_name()) { preserve0 = v == "preserve"; break; } }
    }
    let quiet0 = src.ancestors(node).skip(1).any(|a| match src.value(a) {
        Value::Element(e) => suppress.contains(&e.name()) || src.children(a).any(|k| src.is_text(k)),
        _ => false,
    });
    go(src, node, re, root, preserve0, quiet0, suppress, src.parent(node).is_some())
}

/// the node itself with its namespace and attribute nodes (no children)
pub fn node_head(x: &Xot, n: Node) -> String {
    match x.value(n) {
        Value::Element(e) => {
            let mut v = vec![format!("E{}", name_text(x, e.name()))];
            for (p, u) in x.namespaces(n).iter() { v.push(format!("N{}:{}", enc(x.prefix_str(p)), enc(x.namespace_str(*u)))); }
            for (a, val) in x.attributes(n).iter() { v.push(format!("A{}={}", name_text(x, a), enc(val))); }
            v.join(" ")
        }
        Value::Document => "D".into(),
        _ => canon(x, n).join(" "),
    }
}

/// one tree, several parameter records
pub fn run_tree(pid: &str, case: &str, xot: &Xot, reg: &Reg, root: Node, queries: &[RtParams], out: &mut Out, stats: &mut Stats, route: &str) {
    let text = print_tree(xot, reg, root);
    let dom = representable(xot, root);
    stats.bump(&format!("route.{}", route));
    stats.bump(if dom.is_none() { "domain.representable" } else { "domain.outside" });
    for (qi, p) in queries.iter().enumerate() {
        let cid = format!("{}q{}", case, qi);
        let o = observe_rt(xot, reg, root, p);
        let line = format!("{} {} | {} | 0@{} | {}", cid, reg.tables(), text, rt_params_text(p), o.line_tail);
        out.case(&line);
        stats.case(&line, xot.descendants(root).count() >= 3);
        stats.sample(&line);
        out.imp(&format!("{} {}", cid, rt_obs_text(&o)));
        stats.bump(if p.indent { "params.indent" } else { "params.plain" });
        if !p.ser.cdata.is_empty() { stats.bump("params.cdata_elements"); }
        if p.ser.unescaped_gt { stats.bump("params.unescaped_gt"); }
        if p.decl.is_some() { stats.bump("params.declaration"); }
        match (&o.ser, &o.reparsed) {
            (Err(k), _) => {
                stats.bump(&format!("ser.err.{}", k));
                if k == "PANIC" {
                    out.fail(&cid, "serialise-panic", "serialisation panicked");
                } else if dom.is_none() && needs_no_prefix(xot, root) {
                    out.fail(&cid, "representable-not-serialised", &format!("a representable tree with usable prefixes fails to serialise: {}", k));
                }
            }
            (Ok(s), Some(rp)) => {
                stats.bump("ser.ok");
                if dom.is_some() { continue; }
                if p.decl.is_some() && !is_wf_document(xot, root) {
                    // an XML declaration belongs to a document: parse_fragment does not read one, nothing to compare
                    stats.bump("declaration_on_fragment.not_reparsed");
                    continue;
                }
                match rp {
                    Parsed::Panic => out.fail(&cid, "reparse-panic", &format!("parsing {:?} panicked", s)),
                    Parsed::Err(e) => out.fail(&cid, "reparse-rejected", &format!("the serialisation {:?} is rejected: {}", s, error_text(e))),
                    Parsed::Ok { xot: x2, root: r2, .. } => {
                        let names: Vec<xot::NameId> = reg.names.iter().map(|x| x.2).collect();
                        let suppress: Vec<xot::NameId> = p.ser.suppress.iter().map(|i| names[*i]).collect();
                        let diff = if p.indent {
                            // the indentation clause ranges over well-formed documents and element-rooted subtrees
                            if is_wf_document(xot, root) { compare_indented(xot, root, x2, *r2, &suppress) } else { None }
                        } else {
                            compare_exact(xot, root, x2, *r2, true)
                        };
                        if let Some(why) = diff {
                            let cls = if p.indent { "indentation-changed-content" } else if pid == "C14" && (!p.ser.cdata.is_empty() || p.ser.unescaped_gt || p.decl.is_some()) { "option-changed-content" } else { "roundtrip-differs" };
                            out.fail(&cid, cls, &format!("{} — written as {:?}", why, s));
                        }
                        // deep_equal in one store (the property's own notion), for the non-indented case
                        if !p.indent {
                            let mut x3 = xot.clone();
                            let frag = !is_wf_document(xot, root);
                            if let Ok(Ok(r3)) = guard(|| if frag { x3.parse_fragment(s) } else { x3.parse(s) }) {
                                if !x3.deep_equal(root, r3) {
                                    out.fail(&cid, "roundtrip-not-deep-equal", &format!("deep_equal(source, reparse) is false for {:?}", s));
                                }
                            }
                        }
                    }
                }
            }
            _ => {}
        }
    }
}

/// an element INSIDE a tree serialised on its own (C01): the model sees the whole tree and the node's pre-order index (the
/// inherited declarations are part of what is written); the oracle compares the reparsed element with the subtree by expanded
/// names, attributes and content — the declarations copied onto the top element are not part of the comparison
pub fn run_tree_at(pid: &str, case: &str, xot: &Xot, reg: &Reg, root: Node, node: Node, out: &mut Out, stats: &mut Stats) {
    let text = print_tree(xot, reg, root);
    let (all, index) = preorder(xot, root);
    let _ = all;
    let ni = match index.get(&node) { Some(i) => *i, None => return };
    let p = RtParams { ser: SerParams { cdata: vec![], unescaped_gt: false, suppress: vec![] }, decl: None, indent: false };
    let cid = format!("{}n{}", case, ni);
    let o = observe_rt(xot, reg, node, &p);
    let line = format!("{} {} | {} | {}@{} | {}", cid, reg.tables(), text, ni, rt_params_text(&p), o.line_tail);
    out.case(&line);
    stats.case(&line, true);
    out.imp(&format!("{} {}", cid, rt_obs_text(&o)));
    stats.bump("inner_node.serialised");
    // the domain test looks at the whole tree: the node is written with declarations it inherits
    if representable(xot, root).is_some() { return; }
    if let (Ok(s), Some(rp)) = (&o.ser, &o.reparsed) {
        match rp {
            Parsed::Panic => out.fail(&cid, "reparse-panic", &format!("parsing {:?} panicked", s)),
            Parsed::Err(e) => out.fail(&cid, "inner-node-reparse-rejected", &format!("the serialisation {:?} of an inner element is rejected: {}", s, error_text(e))),
            Parsed::Ok { xot: x2, root: r2, .. } => {
                let strip = |v: Vec<String>| -> Vec<String> { v.into_iter().filter(|t| !t.starts_with('N')).collect() };
                let el2 = x2.children(*r2).find(|c| x2.is_element(*c));
                if let Some(e2) = el2 {
                    let a = strip(canon(xot, node));
                    let b = strip(canon(x2, e2));
                    if a != b {
                        let i = a.iter().zip(b.iter()).position(|(x, y)| x != y).unwrap_or(a.len().min(b.len()));
                        out.fail(&cid, "inner-node-roundtrip-differs", &format!("source has {:?} where the reparsed element has {:?} (position {}) — written as {:?}", a.get(i), b.get(i), i, s));
                    }
                }
            }
        }
    }
}

/// C14: an inner element written with indentation (and a suppress list that may name one of its ancestors): the white space
/// added respects the context the element stands in
pub fn run_tree_at_indented(case: &str, xot: &Xot, reg: &Reg, root: Node, node: Node, r: &mut Rng, out: &mut Out, stats: &mut Stats) {
    if !xot.is_element(node) { return; }
    let text = print_tree(xot, reg, root);
    let (_, index) = preorder(xot, root);
    let ni = match index.get(&node) { Some(i) => *i, None => return };
    // the suppress list: empty, or the name of an ancestor, or of the node
    let mut suppress: Vec<usize> = vec![];
    let anc_names: Vec<usize> = xot.ancestors(node).filter_map(|a| xot.element(a).map(|e| reg.name_idx(e.name()))).collect();
    if r.chance(1, 2) && !anc_names.is_empty() { suppress.push(*r.pick(&anc_names)); }
    let p = RtParams { ser: SerParams { cdata: vec![], unescaped_gt: false, suppress }, decl: None, indent: true };
    let cid = format!("{}n{}i", case, ni);
    let o = observe_rt(xot, reg, node, &p);
    let line = format!("{} {} | {} | {}@{} | {}", cid, reg.tables(), text, ni, rt_params_text(&p), o.line_tail);
    out.case(&line);
    stats.case(&line, true);
    out.imp(&format!("{} {}", cid, rt_obs_text(&o)));
    stats.bump("inner_node.serialised_indented");
    if representable(xot, root).is_some() { return; }
    if let (Ok(s), Some(Parsed::Ok { xot: x2, root: r2, .. })) = (&o.ser, &o.reparsed) {
        if let Some(e2) = x2.children(*r2).find(|c| x2.is_element(*c)) {
            let names: Vec<xot::NameId> = reg.names.iter().map(|x| x.2).collect();
            let sup: Vec<xot::NameId> = p.ser.suppress.iter().map(|i| names[*i]).collect();
            let in_context = xot.ancestors(node).skip(1).any(|a| xot.is_element(a) && (xot.attributes(a).get(xot.xml_space_name()).is_some() || xot.children(a).any(|k| xot.is_text(k)) || xot.element(a).map(|e| sup.contains(&e.name())).unwrap_or(false)));
            if in_context { stats.bump("inner_node.indented_in_a_quiet_context"); }
            if let Some(why) = compare_indented(xot, node, x2, e2, &sup) {
                out.fail(&cid, "indentation-changed-content", &format!("{} — inner element written as {:?}", why, s));
            }
        }
    }
}

/// every namespaced element name has some binding in scope and every namespaced attribute name a prefixed one
pub fn needs_no_prefix(xot: &Xot, root: Node) -> bool {
    for n in xot.descendants(root) {
        if let Value::Element(e) = xot.value(n) {
            let ns = xot.namespace_for_name(e.name());
            if ns != xot.no_namespace() && xot.prefix_for_namespace(n, ns).is_none() { return false; }
            // a name in no namespace has no spelling on an element that itself declares a default namespace
            if ns == xot.no_namespace() && xot.namespaces(n).iter().any(|(p, u)| p == xot.empty_prefix() && *u != xot.no_namespace()) { return false; }
            for (a, _) in xot.attributes(n).iter() {
                let ans = xot.namespace_for_name(a);
                if ans != xot.no_namespace() && ans != xot.xml_namespace() {
                    let ok = xot.namespaces_in_scope(n).any(|(p, u)| u == ans && p != xot.empty_prefix());
                    if !ok { return false; }
                }
            }
        }
        if let Value::ProcessingInstruction(p) = xot.value(n) {
            if xot.namespace_for_name(p.target()) != xot.no_namespace() { return false; }
        }
    }
    true
}

/// registers everything an abstract spelled document mentions, so that the parser finds the ids the registry knows
pub fn register_sdoc(xot: &mut Xot, reg: &mut Reg, d: &spell::SDoc) {
    fn walk(xot: &mut Xot, reg: &mut Reg, n: &spell::SNode, scope: &Vec<(String, String)>) {
        match n {
            spell::SNode::Elem(e) => {
                let mut sc = scope.clone();
                for (p, u) in &e.decls { reg.prefix(xot, p); reg.ns(xot, u); sc.push((p.clone(), u.clone())); }
                let res = |sc: &Vec<(String, String)>, p: &str| -> String { if p == "xml" { spell::XML_NS.to_string() } else { sc.iter().rev().find(|(q, _)| q == p).map(|(_, u)| u.clone()).unwrap_or_default() } };
                let u = res(&sc, &e.prefix);
                reg.prefix(xot, &e.prefix);
                let ui = reg.ns(xot, &u);
                reg.name(xot, &e.local, ui);
                for a in &e.attrs {
                    let au = if a.prefix.is_empty() { String::new() } else { res(&sc, &a.prefix) };
                    reg.prefix(xot, &a.prefix);
                    let ai = reg.ns(xot, &au);
                    reg.name(xot, &a.local, ai);
                }
                for k in &e.kids { walk(xot, reg, k, &sc); }
            }
            spell::SNode::Pi(t, _) => { reg.name(xot, t, 0); }
            _ => {}
        }
    }
    for n in &d.top { walk(xot, reg, n, &vec![]); }
}

pub fn main_for(pid: &str) {
    quiet_panics();
    let a = args();
    let mut out = Out::new(&a.out);
    let mut stats = Stats::default();
    if let Some(path) = &a.replay {
        let text = std::fs::read_to_string(path).expect("replay file");
        for line in text.lines().filter(|l| !l.trim().is_empty()) {
            let (case, rest) = line.split_once(' ').unwrap();
            let parts: Vec<&str> = rest.split(" | ").collect();
            let mut xot = Xot::new();
            let reg = crate::treeparse::reg_from_tables(&mut xot, parts[0]);
            let tree = crate::treeparse::parse_anode(parts[1]).expect("tree");
            let root = build(&mut xot, &reg, &tree);
            let (_, ptxt) = parts[2].split_once('@').unwrap();
            let base = case.rsplit_once('q').map(|(b, _)| b.to_string()).unwrap_or(case.to_string());
            run_tree(pid, &base, &xot, &reg, root, &[parse_rt_params(ptxt)], &mut out, &mut stats, "replay");
        }
        out.finish(&stats);
        return;
    }
    let base = Rng::new(a.seed);
    for k in 0..a.n {
        let mut r = base.fork(k as u64);
        let mut xot = Xot::new();
        let mut reg = Reg::new(&xot);
        let pool = make_pool(&mut xot, &mut reg, true);
        let options = pid == "C14";
        if options && k < BRACKET_DOCS {
            // exhaustive stream: every string over { ']', '>', 'x' } up to length 5 and over { ']', '>' } of length 6 and 7, as the
            // text of one element each, written with unescaped_gt on / off and as ordinary text / as a CDATA section element
            let strs = bracket_strings();
            let per = (strs.len() + BRACKET_DOCS - 1) / BRACKET_DOCS;
            let name = pool.names[0];
            let kids: Vec<ANode> = strs.iter().skip(k * per).take(per)
                .map(|s| ANode::Elem { name, ns: vec![], attrs: vec![], kids: vec![ANode::Text(s.clone())] }).collect();
            // (names in no namespace: nothing to declare, and no stray declaration takes the document out of the oracle's domain)
            let t = ANode::Doc(vec![ANode::Elem { name, ns: vec![], attrs: vec![], kids }]);
            let root = build(&mut xot, &reg, &t);
            let mut queries = vec![];
            for gt in [true, false] {
                for cd in [false, true] {
                    queries.push(RtParams { ser: SerParams { cdata: if cd { vec![name] } else { vec![] }, unescaped_gt: gt, suppress: vec![] }, decl: None, indent: false });
                }
            }
            run_tree(pid, &format!("c{}", k), &xot, &reg, root, &queries, &mut out, &mut stats, "bracket-enum");
            continue;
        }
        if options && k >= BRACKET_DOCS && k < BRACKET_DOCS + SPACE_DOCS {
            // exhaustive stream: four nested elements <a><b><c><d/></c><e/></b><f/></a>, each of a, b, c with xml:space absent /
            // "preserve" / "default", b with and without a text child (mixed content), written with indentation on and off:
            // the nearest xml:space attribute decides, however many elements without one lie in between
            let j = k - BRACKET_DOCS;
            let val = |x: usize| -> Vec<(usize, String)> { match x { 0 => vec![], 1 => vec![(0, "preserve".to_string())], _ => vec![(0, "default".to_string())] } };
            // a, b, c and the leaves carry four different names, so that a suppress list can name exactly one level: the stream is
            // written with indentation and no suppress list, with each of a, b, c alone in the suppress list, and without indentation
            let no_ns: Vec<usize> = pool.names.iter().copied().filter(|n| reg.names[*n].1 == 0).collect();
            let (na, nb, nc, nl) = (no_ns[0], no_ns[1 % no_ns.len()], no_ns[2 % no_ns.len()], no_ns[3 % no_ns.len()]);
            let leaf = |n: usize| ANode::Elem { name: n, ns: vec![], attrs: vec![], kids: vec![] };
            let c = ANode::Elem { name: nc, ns: vec![], attrs: val(j % 3), kids: vec![leaf(nl)] };
            let mut bk = vec![c, leaf(nl)];
            if (j / 27) % 2 == 1 { bk.insert(1, ANode::Text("x".into())); }
            let b = ANode::Elem { name: nb, ns: vec![], attrs: val((j / 3) % 3), kids: bk };
            let a = ANode::Elem { name: na, ns: vec![], attrs: val((j / 9) % 3), kids: vec![b, leaf(nl)] };
            let t = ANode::Doc(vec![a]);
            let root = build(&mut xot, &reg, &t);
            let mut queries = vec![
                RtParams { ser: SerParams { cdata: vec![], unescaped_gt: false, suppress: vec![] }, decl: None, indent: true },
                RtParams { ser: SerParams { cdata: vec![], unescaped_gt: false, suppress: vec![] }, decl: None, indent: false },
            ];
            for su in [na, nb, nc] {
                queries.push(RtParams { ser: SerParams { cdata: vec![], unescaped_gt: false, suppress: vec![su] }, decl: None, indent: true });
            }
            run_tree(pid, &format!("c{}", k), &xot, &reg, root, &queries, &mut out, &mut stats, "xml-space-enum");
            // ... and the element <a> on its own
            if let Some(el) = xot.first_child(root) {
                run_tree(pid, &format!("c{}s", k), &xot, &reg, el, &queries[..1], &mut out, &mut stats, "xml-space-enum");
            }
            continue;
        }
        let route = if pid == "C01" { k % 3 } else { k % 2 };
        let (root, route_name) = match route {
            1 => {
                // parsed from a random lexical rendering of a random abstract document
                let fragment = r.chance(3, 10);
                let d = spell::gen_doc(&mut r, fragment);
                register_sdoc(&mut xot, &mut reg, &d);
                let ren = spell::render(&mut r, &d, &spell::RenderOpts { declaration: false, bom: false });
                match if fragment { xot.parse_fragment(&ren.text) } else { xot.parse(&ren.text) } {
                    Ok(n) => (n, "parsed"),
                    Err(_) => continue,
                }
            }
            2 => {
                // assembled by manipulation: a created tree into which subtrees of a second one are moved and cloned
                let cfg = GenCfg { max_nodes: 16, max_depth: 4, doc_root: 100, fragment: 30, adjacent_text: false, empty_text: false, xml_space: 10, ..GenCfg::default() };
                let mut t1 = gen_tree(&mut r, &cfg, &pool);
                let mut t2 = gen_tree(&mut r, &cfg, &pool);
                make_representable(&mut t1);
                make_representable(&mut t2);
                declare_missing(&mut r, &mut t1, &reg, &pool, 100);
                declare_missing(&mut r, &mut t2, &reg, &pool, 100);
                let a1 = build(&mut xot, &reg, &t1);
                let a2 = build(&mut xot, &reg, &t2);
                for _ in 0..(2 + r.below(5)) {
                    let els1: Vec<Node> = xot.descendants(a1).filter(|n| xot.is_element(*n)).collect();
                    let src: Vec<Node> = xot.descendants(a2).filter(|n| !xot.is_document(*n)).collect();
                    if els1.is_empty() || src.is_empty() { break; }
                    let target = *r.pick(&els1);
                    let s = *r.pick(&src);
                    let moved = if r.chance(1, 2) { xot.clone_with_prefixes(s) } else { s };
                    let _ = match r.below(3) { 0 => xot.append(target, moved), 1 => xot.prepend(target, moved), _ => if xot.parent(target).map(|p| xot.is_element(p)).unwrap_or(false) { xot.insert_after(target, moved) } else { xot.append(target, moved) } };
                    if r.chance(1, 4) { let rm: Vec<Node> = xot.descendants(a1).filter(|n| xot.is_text(*n) || xot.is_comment(*n)).collect(); if !rm.is_empty() { let _ = xot.remove(*r.pick(&rm)); } }
                }
                (a1, "manipulated")
            }
            _ => {
                let cfg = GenCfg { max_nodes: 25, max_depth: 5, doc_root: 100, fragment: 30, adjacent_text: k % 10 == 9, empty_text: k % 10 == 9, xml_space: if options { 25 } else { 8 }, ..GenCfg::default() };
                let mut t = gen_tree(&mut r, &cfg, &pool);
                if k % 10 != 9 { make_representable(&mut t); }
                if options {
                    // concentrate text on ']' and '>' runs
                    bracket_text(&mut r, &mut t);
                }
                declare_missing(&mut r, &mut t, &reg, &pool, if k % 7 == 6 { 80 } else { 100 });
                (build(&mut xot, &reg, &t), "created")
            }
        };
        let nq = if options { 4 } else { 1 };
        let queries: Vec<RtParams> = (0..nq).map(|_| random_rt_params(&mut r, &pool, options)).collect();
        run_tree(pid, &format!("c{}", k), &xot, &reg, root, &queries, &mut out, &mut stats, route_name);
        if pid == "C14" {
            // ... and up to two elements inside the tree, each written with indentation on its own
            let inner: Vec<Node> = xot.descendants(root).filter(|n| xot.is_element(*n) && xot.parent(*n).map(|p| xot.is_element(p)).unwrap_or(false)).collect();
            if !inner.is_empty() {
                for _ in 0..2 { let n = *r.pick(&inner); run_tree_at_indented(&format!("c{}", k), &xot, &reg, root, n, &mut r, &mut out, &mut stats); }
            }
        }
        if pid == "C01" {
            // ... and up to two elements inside the tree, each serialised on its own
            let inner: Vec<Node> = xot.descendants(root).filter(|n| xot.is_element(*n) && xot.parent(*n).map(|p| xot.is_element(p)).unwrap_or(false)).collect();
            if !inner.is_empty() {
                for _ in 0..2 { let n = *r.pick(&inner); run_tree_at(pid, &format!("c{}", k), &xot, &reg, root, n, &mut out, &mut stats); }
            }
        }
    }
    out.finish(&stats);
}

const BRACKET_DOCS: usize = 40;
const SPACE_DOCS: usize = 54;

pub fn bracket_strings() -> Vec<String> {
    let mut out = vec![];
    // ... and over { ']', '>', CR } up to length 4: a carriage return ends a CDATA section, so it meets the "]]>" guard
    // ... and over { ']', '>', U+00E9 } and { ']', '>', U+1F600 } up to length 4: a character of two / four bytes before the
    // brackets (byte offsets and character counts differ from there on)
    for (alphabet, lens) in [(&[']', '>', 'x'][..], 1..=5usize), (&[']', '>'][..], 6..=7usize), (&[']', '>', '\r'][..], 2..=4usize),
                             (&[']', '>', '\u{e9}'][..], 2..=4usize), (&[']', '>', '\u{1F600}'][..], 3..=4usize)] {
        for len in lens {
            let total = alphabet.len().pow(len as u32);
            for mut i in 0..total {
                let mut s = String::new();
                for _ in 0..len { s.push(alphabet[i % alphabet.len()]); i /= alphabet.len(); }
                out.push(s);
            }
        }
    }
    out
}

pub fn bracket_text(r: &mut Rng, a: &mut ANode) {
    match a {
        ANode::Doc(kids) => { for k in kids.iter_mut() { bracket_text(r, k); } }
        ANode::Elem { kids, .. } => { for k in kids.iter_mut() { bracket_text(r, k); } }
        ANode::Text(s) => {
            if r.chance(1, 2) {
                let n = 1 + r.below(7);
                *s = (0..n).map(|_| *r.pick(&[']', ']', ']', '>', '>', 'x', '<', '&', '\n', '\r', '\u{e9}', '\u{4e2d}'])).collect();
            }
        }
        _ => {}
    }
}
