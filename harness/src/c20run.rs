//! C20 — the same abstract document built three ways is the same tree: (p) parse of a lexical rendering, (f) fixed::Document
//! xotify, (s) stepwise creation in several orders (top-down with append, bottom-up, right-to-left with prepend /
//! insert_before, random attachment order).  Each route is one model case; the oracle compares the routes with each other.
//!
//! Case lines:  <case> parse doc <srclen> | <tokens>
//!              <case> fixed <tables> | <document as tree text>
//!              <case> steps <tables> | <start state> | op;op;...
use crate::common::*;
use crate::history::*;
use crate::parseobs::*;
use crate::rtrun::{canon, register_sdoc};
use crate::spell::*;
use crate::tree::*;
use xot::fixed;
use xot::{Node, Xot};

type Scope = Vec<(String, String)>;
fn resolve(sc: &Scope, p: &str) -> String {
    if p == "xml" { return XML_NS.to_string(); }
    sc.iter().rev().find(|(q, _)| q == p).map(|(_, u)| u.clone()).unwrap_or_default()
}

fn to_fixed_elem(e: &SElem, scope: &Scope) -> fixed::Element {
    let mut sc = scope.clone();
    sc.extend(e.decls.iter().cloned());
    fixed::Element {
        name: fixed::Name { namespace: resolve(&sc, &e.prefix), localname: e.local.clone() },
        prefixes: e.decls.iter().map(|(p, u)| fixed::Prefix { name: p.clone(), namespace: u.clone() }).collect(),
        attributes: e.attrs.iter().map(|a| (fixed::Name { namespace: if a.prefix.is_empty() { String::new() } else { resolve(&sc, &a.prefix) }, localname: a.local.clone() }, a.value.clone())).collect(),
        children: e.kids.iter().map(|k| match k {
            SNode::Elem(c) => fixed::Content::Element(to_fixed_elem(c, &sc)),
            SNode::Text(t) => fixed::Content::Text(t.clone()),
            SNode::Comment(t) => fixed::Content::Comment(t.clone()),
            SNode::Pi(t, d) => fixed::Content::ProcessingInstruction(fixed::ProcessingInstruction { target: t.clone(), content: d.clone() }),
        }).collect(),
    }
}

fn to_fixed(d: &SDoc) -> fixed::Document {
    let pos = d.top.iter().position(|n| matches!(n, SNode::Elem(_))).expect("document element");
    let dc = |n: &SNode| match n {
        SNode::Comment(t) => fixed::DocumentContent::Comment(t.clone()),
        SNode::Pi(t, dd) => fixed::DocumentContent::ProcessingInstruction(fixed::ProcessingInstruction { target: t.clone(), content: dd.clone() }),
        _ => unreachable!(),
    };
    let el = if let SNode::Elem(e) = &d.top[pos] { to_fixed_elem(e, &vec![]) } else { unreachable!() };
    fixed::Document { before: d.top[..pos].iter().map(dc).collect(), document_element: el, after: d.top[pos + 1..].iter().map(dc).collect() }
}

/// the document as an ANode over the registry (the text form the model's xotify reads)
fn to_anode(xot: &mut Xot, reg: &mut Reg, d: &SDoc) -> ANode {
    fn node(xot: &mut Xot, reg: &mut Reg, n: &SNode, scope: &Scope) -> ANode {
        match n {
            SNode::Text(t) => ANode::Text(t.clone()),
            SNode::Comment(t) => ANode::Comment(t.clone()),
            SNode::Pi(t, d) => ANode::Pi(reg.name(xot, t, 0), d.clone()),
            SNode::Elem(e) => {
                let mut sc = scope.clone();
                sc.extend(e.decls.iter().cloned());
                let u = resolve(&sc, &e.prefix);
                let ui = reg.ns(xot, &u);
                let name = reg.name(xot, &e.local, ui);
                let ns = e.decls.iter().map(|(p, u)| (reg.prefix(xot, p), reg.ns(xot, u))).collect();
                let attrs = e.attrs.iter().map(|a| { let au = if a.prefix.is_empty() { String::new() } else { resolve(&sc, &a.prefix) }; let ai = reg.ns(xot, &au); (reg.name(xot, &a.local, ai), a.value.clone()) }).collect();
                let kids = e.kids.iter().map(|k| node(xot, reg, k, &sc)).collect();
                ANode::Elem { name, ns, attrs, kids }
            }
        }
    }
    ANode::Doc(d.top.iter().map(|n| node(xot, reg, n, &vec![])).collect())
}

fn anode_text(a: &ANode) -> String {
    match a {
        ANode::Doc(k) => format!("D( {} )", k.iter().map(anode_text).collect::<Vec<_>>().join(" ")).replace("(  )", "( )"),
        ANode::Elem { name, ns, attrs, kids } => {
            let mut v: Vec<String> = ns.iter().map(|(p, n)| format!("N{}:{}", p, n)).collect();
            v.extend(attrs.iter().map(|(n, s)| format!("A{}={}", n, enc(s))));
            v.extend(kids.iter().map(anode_text));
            format!("E{}( {} )", name, v.join(" ")).replace("(  )", "( )")
        }
        ANode::Text(s) => format!("T{}", enc(s)),
        ANode::Comment(s) => format!("C{}", enc(s)),
        ANode::Pi(t, d) => format!("P{}={}", t, enc_opt(d.as_deref())),
        ANode::Attr(n, s) => format!("A{}={}", n, enc(s)),
        ANode::Ns(p, n) => format!("N{}:{}", p, n),
    }
}

/// stepwise construction: returns the document handle
fn build_steps(st: &mut Store, r: &mut Rng, a: &ANode, order: usize, ops: &mut Vec<Op>, obs: &mut Vec<String>, out: &mut Out, case: &str) -> Option<Handle> {
    fn run(st: &mut Store, op: Op, ops: &mut Vec<Op>, obs: &mut Vec<String>) -> Outcome {
        let o = exec(st, &op);
        st.refresh();
        ops.push(op);
        obs.push(format!("{}/{}", outcome_str(&o), st.readback()));
        o
    }
    fn created(o: Outcome) -> Option<Handle> { if let Outcome::Ok(Some(h)) = o { Some(h) } else { None } }
    // a cheap deterministic choice source: changes with every node created so far
    fn mix(st: &Store) -> usize { let n = st.known.len(); (n * 2654435761usize) >> 7 }
    // create a node (with its declarations and attributes for an element), unattached
    fn create(st: &mut Store, a: &ANode, ops: &mut Vec<Op>, obs: &mut Vec<String>) -> Option<Handle> {
        match a {
            ANode::Text(s) => created(run(st, Op::NewText(s.clone()), ops, obs)),
            ANode::Comment(s) => created(run(st, Op::NewComment(s.clone()), ops, obs)),
            ANode::Pi(t, d) => created(run(st, Op::NewPi(*t, d.clone()), ops, obs)),
            ANode::Elem { name, ns, attrs, .. } => {
                let e = created(run(st, Op::NewEl(*name), ops, obs))?;
                // declarations and attributes in a random interleaving (each list in its own order), each one either through
                // the map API or as a node of its own attached with append_namespace_node / append_attribute_node / any_append
                let (mut i, mut j) = (0usize, 0usize);
                while i < ns.len() || j < attrs.len() {
                    let take_ns = if i >= ns.len() { false } else if j >= attrs.len() { true } else { mix(st) % 2 == 0 };
                    if take_ns {
                        let (p, n) = ns[i];
                        i += 1;
                        match mix(st) % 3 {
                            0 => { run(st, Op::SetNs(e, p, n), ops, obs); }
                            k => { let node = created(run(st, Op::NewNs(p, n), ops, obs))?; run(st, if k == 1 { Op::AppendNsNode(e, node) } else { Op::AnyAppend(e, node) }, ops, obs); }
                        }
                    } else {
                        let (n, v) = attrs[j].clone();
                        j += 1;
                        match mix(st) % 3 {
                            0 => { run(st, Op::SetAttr(e, n, v), ops, obs); }
                            k => { let node = created(run(st, Op::NewAttr(n, v), ops, obs))?; run(st, if k == 1 { Op::AppendAttrNode(e, node) } else { Op::AnyAppend(e, node) }, ops, obs); }
                        }
                    }
                }
                Some(e)
            }
            ANode::Doc(_) => created(run(st, Op::NewDoc, ops, obs)),
            _ => None,
        }
    }
    fn kids_of(a: &ANode) -> &[ANode] { match a { ANode::Doc(k) => k, ANode::Elem { kids, .. } => kids, _ => &[] } }
    // order 0: top-down, children appended left to right as soon as they are created
    // order 1: bottom-up: the children's subtrees are complete before they are appended
    // order 2: right-to-left: children created last to first, attached with prepend / insert_before
    // order 3: children attached in a random order, each at its final position by insert_before / insert_after / append
    fn go(st: &mut Store, r: &mut Rng, a: &ANode, order: usize, ops: &mut Vec<Op>, obs: &mut Vec<String>) -> Option<Handle> {
        let me = create(st, a, ops, obs)?;
        let kids = kids_of(a);
        match order {
            0 => {
                for k in kids {
                    let c = create(st, k, ops, obs)?;
                    run(st, Op::Append(me, c), ops, obs);
                    fill(st, r, k, c, order, ops, obs)?;
                }
            }
            1 => {
                let mut built = vec![];
                for k in kids { built.push(go(st, r, k, order, ops, obs)?); }
                for c in built { run(st, Op::Append(me, c), ops, obs); }
            }
            2 => {
                let mut next: Option<Handle> = None;
                for k in kids.iter().rev() {
                    let c = go(st, r, k, order, ops, obs)?;
                    match next {
                        Some(n) if r.chance(1, 2) => { run(st, Op::InsertBefore(n, c), ops, obs); }
                        _ => { run(st, Op::Prepend(me, c), ops, obs); }
                    }
                    next = Some(c);
                }
            }
            _ => {
                let mut built: Vec<Option<Handle>> = vec![None; kids.len()];
                let mut idx: Vec<usize> = (0..kids.len()).collect();
                // random attachment order
                for i in (1..idx.len()).rev() { let j = r.below(i + 1); idx.swap(i, j); }
                // text nodes last: attaching a text node next to another one before the node that separates them in the
                // document is there would merge the two (consolidation), and that construction does not end in this document
                idx.sort_by_key(|i| matches!(kids[*i], ANode::Text(_)));
                for i in idx {
                    let c = go(st, r, &kids[i], order, ops, obs)?;
                    // attach relative to the nearest already attached sibling
                    let left = (0..i).rev().find_map(|j| built[j]);
                    let right = (i + 1..kids.len()).find_map(|j| built[j]);
                    match (left, right) {
                        (Some(l), _) if r.chance(1, 2) => { run(st, Op::InsertAfter(l, c), ops, obs); }
                        (_, Some(rr)) => { run(st, Op::InsertBefore(rr, c), ops, obs); }
                        (Some(l), None) => { run(st, Op::InsertAfter(l, c), ops, obs); }
                        (None, None) => { run(st, Op::Append(me, c), ops, obs); }
                    }
                    built[i] = Some(c);
                }
            }
        }
        Some(me)
    }
    // the children of an already created and attached node (order 0)
    fn fill(st: &mut Store, r: &mut Rng, a: &ANode, me: Handle, order: usize, ops: &mut Vec<Op>, obs: &mut Vec<String>) -> Option<()> {
        for k in kids_of(a) {
            let c = create(st, k, ops, obs)?;
            run(st, Op::Append(me, c), ops, obs);
            fill(st, r, k, c, order, ops, obs)?;
        }
        Some(())
    }
    let h = go(st, r, a, order, ops, obs);
    if h.is_none() { out.fail(case, "stepwise-construction-failed", "a creation call did not return a node"); }
    h
}

/// stepwise construction through the convenience calls only, top-down: append_element / append_text / append_comment /
/// append_processing_instruction attach a node made on the spot; the declarations of an element are added with
/// append_namespace (xmlname::CreateNamespace) and its attributes with set_attribute once the element is in place under its
/// parent — the order of attachment in which a call can see what is in scope above the element.
fn build_convenience(xot: &mut Xot, reg: &Reg, a: &ANode) -> Result<Node, String> {
    fn fill(xot: &mut Xot, reg: &Reg, me: Node, a: &ANode) -> Result<(), String> {
        if let ANode::Elem { ns, attrs, .. } = a {
            for (p, n) in ns {
                let (ps, us) = (reg.prefixes[*p].0.clone(), reg.nss[*n].0.clone());
                let c = xot::xmlname::CreateNamespace::new(xot, &ps, &us);
                let got = xot.append_namespace(me, &c).map_err(|e| format!("append_namespace: {:?}", e))?;
                if xot.parent(got) != Some(me) { return Err(format!("append_namespace returned a node that is no child of the element")); }
            }
            for (n, v) in attrs { xot.set_attribute(me, reg.names[*n].2, v.clone()); }
        }
        let kids: &[ANode] = match a { ANode::Doc(k) => k, ANode::Elem { kids, .. } => kids, _ => &[] };
        for k in kids {
            match k {
                ANode::Elem { name, .. } => {
                    xot.append_element(me, reg.names[*name].2).map_err(|e| format!("append_element: {:?}", e))?;
                    let c = xot.last_child(me).ok_or("append_element left no last child")?;
                    fill(xot, reg, c, k)?;
                }
                ANode::Text(s) => xot.append_text(me, s).map_err(|e| format!("append_text: {:?}", e))?,
                ANode::Comment(s) => xot.append_comment(me, s).map_err(|e| format!("append_comment: {:?}", e))?,
                ANode::Pi(t, d) => xot.append_processing_instruction(me, reg.names[*t].2, d.as_deref()).map_err(|e| format!("append_processing_instruction: {:?}", e))?,
                _ => return Err("unexpected node kind".into()),
            }
        }
        Ok(())
    }
    let d = xot.new_document();
    fill(xot, reg, d, a)?;
    Ok(d)
}

pub fn main() {
    quiet_panics();
    let a = args();
    let mut out = Out::new(&a.out);
    let mut stats = Stats::default();
    // a replay regenerates the recorded document: the case id carries seed and index (`c<seed>_<k>...`)
    let mut jobs: Vec<(u64, usize)> = vec![];
    if let Some(path) = &a.replay {
        let text = std::fs::read_to_string(path).expect("replay file");
        for line in text.lines().filter(|l| !l.trim().is_empty()) {
            let id = line.split(' ').next().unwrap();
            let core: String = id.trim_start_matches('c').chars().take_while(|c| c.is_ascii_digit() || *c == '_').collect();
            if let Some((s, k)) = core.split_once('_') { jobs.push((s.parse().unwrap(), k.parse().unwrap())); }
        }
        jobs.dedup();
    } else {
        jobs = (0..a.n).map(|k| (a.seed, k)).collect();
    }
    for (seed, k) in jobs {
        let base = Rng::new(seed);
        let mut r = base.fork(k as u64);
        let d = gen_doc(&mut r, false);
        let case = format!("c{}_{}", seed, k);
        let mut texts: Vec<(String, Vec<String>, Result<String, String>)> = vec![]; // route, canon, serialisation
        // ---------- (p) parse of a rendering
        {
            let decl = r.chance(1, 3);
            let ren = render(&mut r, &d, &RenderOpts { declaration: decl, bom: false });
            let line = format!("{}p parse doc {} | {}", case, ren.text.len(), dump_tokens(&ren.text, false));
            out.case(&line);
            let p = parse_fresh(&ren.text, false);
            out.imp(&format!("{}p {}", case, parsed_text(&p)));
            stats.case(&line, true);
            match &p {
                Parsed::Ok { xot, root, .. } => texts.push(("parse".into(), canon(xot, *root), xot.to_string(*root).map_err(|e| format!("{:?}", e)))),
                _ => out.fail(&case, "route-failed", &format!("the rendering {:?} does not parse", ren.text)),
            }
        }
        // ---------- (f) fixed::Document::xotify
        {
            let mut st = Store::new();
            register_sdoc(&mut st.xot, &mut st.reg, &d);
            let an = to_anode(&mut st.xot, &mut st.reg, &d);
            let fx = to_fixed(&d);
            let line = format!("{}f fixed {} | {}", case, st.reg.tables(), anode_text(&an));
            out.case(&line);
            stats.case(&line, true);
            stats.sample(&line);
            match guard(|| fx.xotify(&mut st.xot)) {
                Ok(doc) => {
                    let h = st.learn(doc);
                    st.refresh();
                    out.imp(&format!("{}f OK:{}/{}", case, hs(h), st.readback()));
                    texts.push(("fixed".into(), canon(&st.xot, doc), st.xot.to_string(doc).map_err(|e| format!("{:?}", e))));
                    // leading and trailing items are siblings of the document element, in the given order
                    let kids: Vec<Node> = st.xot.children(doc).collect();
                    let el_pos = kids.iter().position(|n| st.xot.is_element(*n));
                    if el_pos != Some(fx.before.len()) || kids.len() != fx.before.len() + 1 + fx.after.len() {
                        out.fail(&case, "fixed-document-content-misplaced", &format!("{} leading and {} trailing items, but the document has {} children with the element at {:?}", fx.before.len(), fx.after.len(), kids.len(), el_pos));
                    }
                }
                Err(()) => { out.imp(&format!("{}f PANIC", case)); out.fail(&case, "route-failed", "xotify panicked"); }
            }
        }
        // ---------- (s) stepwise construction in four orders
        for order in 0..4 {
            let mut st = Store::new();
            register_sdoc(&mut st.xot, &mut st.reg, &d);
            let an = to_anode(&mut st.xot, &mut st.reg, &d);
            let tables = st.reg.tables();
            let init = st.readback();
            let (mut ops, mut obs) = (vec![], vec![]);
            let h = build_steps(&mut st, &mut r, &an, order, &mut ops, &mut obs, &mut out, &case);
            let ops_text: Vec<String> = ops.iter().map(op_str).collect();
            let line = format!("{}s{} steps {} | {} | {}", case, order, tables, init, ops_text.join(";"));
            out.case(&line);
            out.imp(&format!("{}s{} {}", case, order, obs.join(";")));
            stats.case(&line, true);
            stats.add("c20.steps", ops.len() as u64);
            if let Some(h) = h {
                let doc = st.known[&h];
                texts.push((format!("steps{}", order), canon(&st.xot, doc), st.xot.to_string(doc).map_err(|e| format!("{:?}", e))));
            }
        }
        // ---------- (w) the convenience calls, top-down (implementation only: each of them is new_* followed by append)
        {
            let mut st = Store::new();
            register_sdoc(&mut st.xot, &mut st.reg, &d);
            let an = to_anode(&mut st.xot, &mut st.reg, &d);
            let reg = st.reg.clone();
            match guard(|| build_convenience(&mut st.xot, &reg, &an)) {
                Ok(Ok(doc)) => { texts.push(("convenience".into(), canon(&st.xot, doc), st.xot.to_string(doc).map_err(|e| format!("{:?}", e)))); stats.bump("c20.convenience_routes"); }
                Ok(Err(e)) => out.fail(&case, "route-failed", &format!("the convenience route failed: {}", e)),
                Err(()) => out.fail(&case, "route-failed", "the convenience route panicked"),
            }
        }
        // ---------- the routes agree: same tree (kinds, order, expanded names, attribute order, declarations, values), same text
        if let Some((r0, c0, s0)) = texts.first().cloned() {
            for (rn, c, s) in texts.iter().skip(1) {
                if *c != c0 {
                    let i = c.iter().zip(c0.iter()).position(|(x, y)| x != y).unwrap_or(c.len().min(c0.len()));
                    out.fail(&case, &format!("routes-differ:{}", rn.trim_end_matches(char::is_numeric)), &format!("{} builds {:?} where {} builds {:?} (token {})", rn, c.get(i), r0, c0.get(i), i));
                } else if *s != s0 {
                    out.fail(&case, &format!("routes-serialise-differently:{}", rn.trim_end_matches(char::is_numeric)), &format!("{} serialises as {:?}, {} as {:?}", rn, s, r0, s0));
                }
            }
            stats.add("c20.routes_compared", texts.len() as u64);
        }
    }
    out.finish(&stats);
}
