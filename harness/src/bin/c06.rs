fn main() { xh::histrun::main_for("C06"); }
