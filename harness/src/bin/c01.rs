fn main() { xh::rtrun::main_for("C01"); }
