//! C11 — attribute and namespace views behave as insertion-ordered maps.
//!
//! Histories of map-style and node-style updates on two elements; after every step both the read-only and the
//! mutable view of both maps of both elements are observed through every read accessor.  Oracle: a reference
//! ordered map (Vec of pairs) per element and map kind, and the order of the output events.
use xh::common::*;
use xh::history::*;
use xh::tree::*;
use xot::{Node, Xot};

type RefMap = Vec<(usize, String)>; // key index (name / prefix), value (attr value / ns index as string)

fn view_obs(st: &mut Store, e: Node, out: &mut Out, case: &str, step: usize, pool: &Pool) -> String {
    let reg_names: Vec<xot::NameId> = st.reg.names.iter().map(|x| x.2).collect();
    let reg_pfx: Vec<xot::PrefixId> = st.reg.prefixes.iter().map(|x| x.1).collect();
    let mut parts: Vec<String> = vec![];
    // ---------- attributes, read-only view
    let (ro, ro_probe) = {
        let xot: &Xot = &st.xot;
        let a = xot.attributes(e);
        let keys: Vec<usize> = a.keys().map(|k| st.reg.name_idx(k)).collect();
        let values: Vec<String> = a.values().map(|v| enc(v)).collect();
        let nodes: Vec<String> = a.nodes().map(|n| hs(handle(n))).collect();
        let iter: Vec<String> = a.iter().map(|(k, v)| format!("{}={}", st.reg.name_idx(k), enc(v))).collect();
        let to_vec: Vec<String> = a.to_vec().iter().map(|(k, v)| format!("{}={}", st.reg.name_idx(*k), enc(v))).collect();
        let mut hm: Vec<String> = a.to_hashmap().iter().map(|(k, v)| format!("{}={}", st.reg.name_idx(*k), enc(v))).collect();
        hm.sort();
        let probes: Vec<String> = pool.attr_names.iter().map(|k| {
            let id = reg_names[*k];
            format!("{}:{}:{}:{}", k, if a.contains_key(id) { 1 } else { 0 }, a.get(id).map(|v| enc(v)).unwrap_or("~".into()), a.get_node(id).map(|n| hs(handle(n))).unwrap_or("-".into()))
        }).collect();
        (format!("len={} empty={} keys={:?} values={:?} nodes={:?} iter={:?} vec={:?} hm={:?}", a.len(), a.is_empty() as u8, keys, values, nodes, iter, to_vec, hm), probes.join(","))
    };
    let (mu, mu_probe) = {
        let a = st.xot.attributes_mut(e);
        let keys: Vec<usize> = a.keys().map(|k| st.reg.name_idx(k)).collect();
        let values: Vec<String> = a.values().map(|v| enc(v)).collect();
        let nodes: Vec<String> = a.nodes().map(|n| hs(handle(n))).collect();
        let iter: Vec<String> = a.iter().map(|(k, v)| format!("{}={}", st.reg.name_idx(k), enc(v))).collect();
        let to_vec: Vec<String> = a.to_vec().iter().map(|(k, v)| format!("{}={}", st.reg.name_idx(*k), enc(v))).collect();
        let mut hm: Vec<String> = a.to_hashmap().iter().map(|(k, v)| format!("{}={}", st.reg.name_idx(*k), enc(v))).collect();
        hm.sort();
        let probes: Vec<String> = pool.attr_names.iter().map(|k| {
            let id = reg_names[*k];
            format!("{}:{}:{}:{}", k, if a.contains_key(id) { 1 } else { 0 }, a.get(id).map(|v| enc(v)).unwrap_or("~".into()), a.get_node(id).map(|n| hs(handle(n))).unwrap_or("-".into()))
        }).collect();
        (format!("len={} empty={} keys={:?} values={:?} nodes={:?} iter={:?} vec={:?} hm={:?}", a.len(), a.is_empty() as u8, keys, values, nodes, iter, to_vec, hm), probes.join(","))
    };
    if ro != mu || ro_probe != mu_probe {
        out.fail(case, "views-disagree", &format!("step {}: attributes read-only view [{} {}] but mutable view [{} {}]", step, ro, ro_probe, mu, mu_probe));
    }
    parts.push(format!("A {} {}", mu, mu_probe).replace(' ', "_"));
    // ---------- namespaces
    let (ro, ro_probe) = {
        let xot: &Xot = &st.xot;
        let a = xot.namespaces(e);
        let keys: Vec<usize> = a.keys().map(|k| st.reg.prefix_idx(k)).collect();
        let values: Vec<usize> = a.values().map(|v| st.reg.ns_idx(*v)).collect();
        let nodes: Vec<String> = a.nodes().map(|n| hs(handle(n))).collect();
        let iter: Vec<String> = a.iter().map(|(k, v)| format!("{}={}", st.reg.prefix_idx(k), st.reg.ns_idx(*v))).collect();
        let to_vec: Vec<String> = a.to_vec().iter().map(|(k, v)| format!("{}={}", st.reg.prefix_idx(*k), st.reg.ns_idx(*v))).collect();
        let mut hm: Vec<String> = a.to_hashmap().iter().map(|(k, v)| format!("{}={}", st.reg.prefix_idx(*k), st.reg.ns_idx(*v))).collect();
        hm.sort();
        let probes: Vec<String> = pool.prefixes.iter().map(|k| {
            let id = reg_pfx[*k];
            format!("{}:{}:{}:{}", k, if a.contains_key(id) { 1 } else { 0 }, a.get(id).map(|v| st.reg.ns_idx(*v).to_string()).unwrap_or("~".into()), a.get_node(id).map(|n| hs(handle(n))).unwrap_or("-".into()))
        }).collect();
        (format!("len={} empty={} keys={:?} values={:?} nodes={:?} iter={:?} vec={:?} hm={:?}", a.len(), a.is_empty() as u8, keys, values, nodes, iter, to_vec, hm), probes.join(","))
    };
    let (mu, mu_probe) = {
        let a = st.xot.namespaces_mut(e);
        let keys: Vec<usize> = a.keys().map(|k| st.reg.prefix_idx(k)).collect();
        let values: Vec<usize> = a.values().map(|v| st.reg.ns_idx(*v)).collect();
        let nodes: Vec<String> = a.nodes().map(|n| hs(handle(n))).collect();
        let iter: Vec<String> = a.iter().map(|(k, v)| format!("{}={}", st.reg.prefix_idx(k), st.reg.ns_idx(*v))).collect();
        let to_vec: Vec<String> = a.to_vec().iter().map(|(k, v)| format!("{}={}", st.reg.prefix_idx(*k), st.reg.ns_idx(*v))).collect();
        let mut hm: Vec<String> = a.to_hashmap().iter().map(|(k, v)| format!("{}={}", st.reg.prefix_idx(*k), st.reg.ns_idx(*v))).collect();
        hm.sort();
        let probes: Vec<String> = pool.prefixes.iter().map(|k| {
            let id = reg_pfx[*k];
            format!("{}:{}:{}:{}", k, if a.contains_key(id) { 1 } else { 0 }, a.get(id).map(|v| st.reg.ns_idx(*v).to_string()).unwrap_or("~".into()), a.get_node(id).map(|n| hs(handle(n))).unwrap_or("-".into()))
        }).collect();
        (format!("len={} empty={} keys={:?} values={:?} nodes={:?} iter={:?} vec={:?} hm={:?}", a.len(), a.is_empty() as u8, keys, values, nodes, iter, to_vec, hm), probes.join(","))
    };
    if ro != mu || ro_probe != mu_probe {
        out.fail(case, "views-disagree", &format!("step {}: namespaces read-only view [{} {}] but mutable view [{} {}]", step, ro, ro_probe, mu, mu_probe));
    }
    parts.push(format!("N {} {}", mu, mu_probe).replace(' ', "_"));
    parts.join("+")
}

/// the reference ordered maps of an element as the views must report them: (attrs, nss)
fn check_reference(st: &Store, e: Node, ra: &RefMap, rn: &RefMap, out: &mut Out, case: &str, step: usize, op: &str) {
    let got_a: RefMap = st.xot.attributes(e).iter().map(|(k, v)| (st.reg.name_idx(k), v.clone())).collect();
    let got_n: RefMap = st.xot.namespaces(e).iter().map(|(k, v)| (st.reg.prefix_idx(k), st.reg.ns_idx(*v).to_string())).collect();
    if &got_a != ra {
        out.fail(case, "ordered-map-attributes", &format!("step {} `{}`: attributes are {:?} but an insertion-ordered map gives {:?}", step, op, got_a, ra));
    }
    if &got_n != rn {
        out.fail(case, "ordered-map-namespaces", &format!("step {} `{}`: namespaces are {:?} but an insertion-ordered map gives {:?}", step, op, got_n, rn));
    }
    // what the updates hand back, tried on throw-away copies of the store: insert returns the previous value (also when the new
    // value equals it), an occupied entry's insert returns the old value, remove returns the removed value
    {
        let ns: Vec<(xot::PrefixId, xot::NamespaceId)> = st.xot.namespaces(e).to_vec();
        for (p, n) in &ns {
            let mut c = st.xot.clone();
            match guard(|| c.namespaces_mut(e).insert(*p, *n)) { Ok(Some(old)) if old == *n => {}, other => out.fail(case, "map-return-value", &format!("step {}: namespaces_mut.insert of the present pair returned {:?}", step, other)) }
            let mut c = st.xot.clone();
            match guard(|| match c.namespaces_mut(e).entry(*p) { xot::Entry::Occupied(mut o) => Some(o.insert(*n)), xot::Entry::Vacant(_) => None }) { Ok(Some(old)) if old == *n => {}, other => out.fail(case, "map-return-value", &format!("step {}: the occupied namespace entry's insert returned {:?}", step, other)) }
            let mut c = st.xot.clone();
            match guard(|| c.namespaces_mut(e).remove(*p)) { Ok(Some(old)) if old == *n => {}, other => out.fail(case, "map-return-value", &format!("step {}: namespaces_mut.remove of a present prefix returned {:?}", step, other)) }
        }
        let at: Vec<(xot::NameId, String)> = st.xot.attributes(e).to_vec();
        for (k, v) in &at {
            let mut c = st.xot.clone();
            match guard(|| c.attributes_mut(e).insert(*k, v.clone())) { Ok(Some(old)) if old == *v => {}, other => out.fail(case, "map-return-value", &format!("step {}: attributes_mut.insert of the present pair returned {:?}", step, other)) }
            let mut c = st.xot.clone();
            match guard(|| match c.attributes_mut(e).entry(*k) { xot::Entry::Occupied(mut o) => Some(o.insert(v.clone())), xot::Entry::Vacant(_) => None }) { Ok(Some(old)) if old == *v => {}, other => out.fail(case, "map-return-value", &format!("step {}: the occupied attribute entry's insert returned {:?}", step, other)) }
            let mut c = st.xot.clone();
            match guard(|| c.attributes_mut(e).remove(*k)) { Ok(Some(old)) if old == *v => {}, other => out.fail(case, "map-return-value", &format!("step {}: attributes_mut.remove of a present name returned {:?}", step, other)) }
        }
    }
    // accessors against the reference
    let a = st.xot.attributes(e);
    if a.len() != ra.len() || a.is_empty() != ra.is_empty() {
        out.fail(case, "len-is-empty", &format!("step {}: len/is_empty of the attribute view disagree with its content", step));
    }
    // serialisation order = view order (output events)
    let mut ev_a: Vec<usize> = vec![];
    let mut ev_n: Vec<usize> = vec![];
    let mut depth = 0;
    for (n, o) in st.xot.outputs(e) {
        match o {
            xot::output::Output::StartTagOpen(_) => depth += 1,
            xot::output::Output::EndTag(_) => depth -= 1,
            xot::output::Output::Attribute(k, _) if n == e && depth == 1 => ev_a.push(st.reg.name_idx(k)),
            xot::output::Output::Prefix(p, _) if n == e && depth == 1 => ev_n.push(st.reg.prefix_idx(p)),
            _ => {}
        }
    }
    let want_a: Vec<usize> = ra.iter().map(|x| x.0).collect();
    let want_n: Vec<usize> = rn.iter().map(|x| x.0).collect();
    // the top element additionally gets the in-scope prefixes it does not declare itself, in front
    let ev_n_own: Vec<usize> = ev_n.iter().copied().filter(|p| want_n.contains(p)).collect();
    if ev_a != want_a || ev_n_own[ev_n_own.len().saturating_sub(want_n.len())..] != want_n[..] {
        out.fail(case, "serialisation-order", &format!("step {}: output events list attributes {:?} / prefixes {:?}, views {:?} / {:?}", step, ev_a, ev_n, want_a, want_n));
    }
    // ... and the written text: every declaration of the view is in the start tag, in the order of the view (read back by
    // parsing what was written; a serialisation that fails — a name without a usable prefix — is not judged here)
    // (a prefix bound to "no namespace" through the API has no spelling in XML — `xmlns:p=""` is not allowed — and no name is
    // written with it: such a pair is left out, everything else is written, and the text parses)
    if let Ok(Ok(text)) = guard(|| st.xot.to_string(e)) {
        let mut x2 = Xot::new();
        match guard(|| x2.parse(&text)) {
            Ok(Ok(doc)) => {
                let top = x2.document_element(doc).unwrap();
                let written: Vec<(String, String)> = x2.namespaces(top).iter().map(|(p, n)| (x2.prefix_str(p).to_string(), x2.namespace_str(*n).to_string())).collect();
                let view: Vec<(String, String)> = st.xot.namespaces(e).iter().filter(|(p, n)| *p == st.xot.empty_prefix() || **n != st.xot.no_namespace())
                    .map(|(p, n)| (st.xot.prefix_str(p).to_string(), st.xot.namespace_str(*n).to_string())).collect();
                // the declarations of the view, as a subsequence of what was written (in front of them come the bindings the
                // element inherits, and the serialiser may add an xmlns="" of its own)
                let mut it = written.iter();
                let all_in_order = view.iter().all(|d| it.any(|w| w == d));
                if !all_in_order {
                    out.fail(case, "declaration-of-the-view-not-written", &format!("step {}: the namespace view holds {:?} but the start tag written is {:?} (declarations read back: {:?})", step, view, text.split('>').next().unwrap_or(""), written));
                }
            }
            Ok(Err(err)) => out.fail(case, "written-element-does-not-parse", &format!("step {}: {:?} is rejected: {:?}", step, text, err)),
            Err(()) => out.fail(case, "written-element-does-not-parse", &format!("step {}: parsing {:?} panicked", step, text)),
        }
    }
}

fn apply_ref(op: &Op, e: Handle, st: &Store, before_vals: &std::collections::BTreeMap<Handle, String>, ra: &mut RefMap, rn: &mut RefMap, before_parent: &std::collections::BTreeMap<Handle, Option<Handle>>) {
    use Op::*;
    let upd = |m: &mut RefMap, k: usize, v: String| {
        if let Some(x) = m.iter_mut().find(|x| x.0 == k) { x.1 = v; } else { m.push((k, v)); }
    };
    let node_kv = |h: &Handle| -> Option<(char, usize, String)> {
        // value of a node before the call: "A<nameid>=<enc>" / "N<p>:<ns>" with raw ids; translate through the registry
        let s = before_vals.get(h)?;
        let body = s.split(' ').next().unwrap();
        if let Some(rest) = body.strip_prefix('A') {
            let (n, v) = rest.split_once('=').unwrap();
            let idx = st.reg.names.iter().position(|x| id_num(x.2).to_string() == n)?;
            Some(('A', idx, dec(v)))
        } else if let Some(rest) = body.strip_prefix('N') {
            let (p, n) = rest.split_once(':').unwrap();
            let pi = st.reg.prefixes.iter().position(|x| id_num(x.1).to_string() == p)?;
            let ni = st.reg.nss.iter().position(|x| id_num(x.1).to_string() == n)?;
            Some(('N', pi, ni.to_string()))
        } else { None }
    };
    match op {
        SetAttr(h, k, v) if *h == e => upd(ra, *k, v.clone()),
        AttrsEntryOrInsert(h, k, v) if *h == e => { if !ra.iter().any(|x| x.0 == *k) { ra.push((*k, v.clone())); } }
        AttrsEntryModify(h, k, v) if *h == e => { if ra.iter().any(|x| x.0 == *k) { upd(ra, *k, v.clone()); } else { ra.push((*k, format!("new:{}", v))); } }
        AttrsGetMutSet(h, k, v) if *h == e => { if ra.iter().any(|x| x.0 == *k) { upd(ra, *k, v.clone()); } }
        RmAttr(h, k) | AttrsEntryRemove(h, k) if *h == e => ra.retain(|x| x.0 != *k),
        AttrsClear(h) if *h == e => ra.clear(),
        SetNs(h, p, n) if *h == e => upd(rn, *p, n.to_string()),
        NsEntryOrInsert(h, p, n) if *h == e => { if !rn.iter().any(|x| x.0 == *p) { rn.push((*p, n.to_string())); } }
        NsGetMutSet(h, p, n) if *h == e => { if rn.iter().any(|x| x.0 == *p) { upd(rn, *p, n.to_string()); } }
        RmNs(h, p) if *h == e => rn.retain(|x| x.0 != *p),
        NsClear(h) if *h == e => rn.clear(),
        _ => {}
    }
}

fn main() {
    quiet_panics();
    let a = args();
    let mut out = Out::new(&a.out);
    let mut stats = Stats::default();
    let replay_lines: Option<Vec<String>> = a.replay.as_ref().map(|p| std::fs::read_to_string(p).expect("replay").lines().filter(|l| !l.trim().is_empty()).map(|s| s.to_string()).collect());
    let n = replay_lines.as_ref().map(|v| v.len()).unwrap_or(a.n);
    let base = Rng::new(a.seed);
    for k in 0..n {
        let mut r = base.fork(k as u64);
        let mut st = Store::new();
        let pool = make_pool(&mut st.xot, &mut st.reg, true);
        // one history in eight is about wide elements: they start with a dozen or more entries in each map, and the calls draw
        // their keys from the larger lists too
        let wide = replay_lines.is_none() && r.chance(1, 8);
        let attr_pool: Vec<usize> = if wide { pool.attr_names.iter().chain(pool.extra_attrs.iter()).copied().collect() } else { pool.attr_names.clone() };
        let pf_pool: Vec<usize> = if wide { pool.prefixes.iter().chain(pool.extra_prefixes.iter()).copied().collect() } else { pool.prefixes.clone() };
        let mut ur_pool: Vec<usize> = if wide { pool.uris.iter().chain(pool.extra_uris.iter()).copied().collect() } else { pool.uris.clone() };
        // now and then the xml namespace (registry namespace 1) under an ordinary prefix: a declaration like any other
        if replay_lines.is_none() && r.chance(1, 3) { ur_pool.push(1); }
        // start: a document with two sibling elements e1, e2 carrying 0-4 declarations and 0-4 attributes each
        let (case, start, ops_in): (String, Vec<ANode>, Option<Vec<Op>>) = match &replay_lines {
            Some(v) => {
                let line = &v[k];
                let (case, rest) = line.split_once(' ').unwrap();
                let parts: Vec<&str> = rest.split(" | ").collect();
                let tree_text: String = parts[1].split(' ').skip(1).map(|t| match t.find('@') { None => t.to_string(), Some(i) => { let tail = &t[i..]; if tail.ends_with('(') { format!("{}(", &t[..i]) } else { t[..i].to_string() } } }).collect::<Vec<_>>().join(" ");
                (case.to_string(), xh::treeparse::parse_anodes(&tree_text), Some(parts.get(2).unwrap_or(&"").split(';').filter(|s| !s.is_empty()).map(parse_op).collect()))
            }
            None => {
                let wide_case = wide;
                let mk = |r: &mut Rng| -> ANode {
                    let mut ns = vec![];
                    for _ in 0..r.below(5) {
                        let p = *r.pick(&pool.prefixes);
                        if !ns.iter().any(|(q, _)| *q == p) { ns.push((p, *r.pick(&pool.uris))); }
                    }
                    let mut attrs: Vec<(usize, String)> = vec![];
                    for _ in 0..r.below(5) {
                        let n = *r.pick(&pool.attr_names);
                        if !attrs.iter().any(|(m, _)| *m == n) { attrs.push((n, random_ident(r))); }
                    }
                    if wide_case {
                        // a wide element: 11 … 20 more declarations and attributes (inline buffers and linear-scan limits of
                        // 8 … 16 entries are exceeded)
                        for i in 0..11 + r.below(10) { ns.push((pool.extra_prefixes[i], pool.extra_uris[(i * 5) % 24])); }
                        for i in 0..11 + r.below(10) { attrs.push((pool.extra_attrs[i], format!("w{}", i))); }
                    }
                    let kids = if r.chance(1, 2) { vec![ANode::Text("t".into())] } else { vec![] };
                    ANode::Elem { name: *r.pick(&pool.names), ns, attrs, kids }
                };
                let e1 = mk(&mut r);
                let e2 = mk(&mut r);
                (format!("c{}", k), vec![ANode::Elem { name: pool.names[0], ns: vec![], attrs: vec![], kids: vec![e1, e2] }], None)
            }
        };
        for t in &start {
            let nd = build(&mut st.xot, &st.reg, t);
            st.learn(nd);
        }
        st.refresh();
        let tables = st.reg.tables();
        let init = st.readback();
        let root = st.known[&st.roots()[0]];
        let elems: Vec<Node> = st.xot.children(root).filter(|c| st.xot.is_element(*c)).collect();
        if elems.len() < 2 { continue; }
        let (e1, e2) = (elems[0], elems[1]);
        let (h1, h2) = (handle(e1), handle(e2));
        let mut refs: Vec<(RefMap, RefMap)> = vec![];
        for e in [e1, e2] {
            refs.push((st.xot.attributes(e).iter().map(|(k, v)| (st.reg.name_idx(k), v.clone())).collect(),
                       st.xot.namespaces(e).iter().map(|(k, v)| (st.reg.prefix_idx(k), st.reg.ns_idx(*v).to_string())).collect()));
        }
        let steps = ops_in.as_ref().map(|v| v.len()).unwrap_or(if a.tier == "thorough" { 50 } else { 40 });
        let mut ops: Vec<Op> = vec![];
        let mut obs: Vec<String> = vec![];
        for step in 0..steps {
            let op = match &ops_in {
                Some(v) => v[step].clone(),
                None => {
                    use Op::*;
                    let e = if r.chance(2, 3) { h1 } else { h2 };
                    let other = if e == h1 { h2 } else { h1 };
                    let an = *r.pick(&attr_pool);
                    let pf = *r.pick(&pf_pool);
                    let ur = *r.pick(&ur_pool);
                    let v = random_ident(&mut r);
                    let live = st.live_handles();
                    let attr_nodes: Vec<Handle> = live.iter().copied().filter(|h| st.xot.is_attribute_node(st.known[h])).collect();
                    let ns_nodes: Vec<Handle> = live.iter().copied().filter(|h| st.xot.is_namespace_node(st.known[h])).collect();
                    match r.below(30) {
                        0..=4 => SetAttr(e, an, v),
                        5..=6 => RmAttr(e, an),
                        7..=9 => SetNs(e, pf, ur),
                        10 => RmNs(e, pf),
                        11 => if r.chance(1, 2) { AttrsClear(e) } else { NsClear(e) },
                        12 => AttrsGetMutSet(e, an, v),
                        13 => AttrsEntryOrInsert(e, an, v),
                        14 => AttrsEntryModify(e, an, v),
                        15 => AttrsEntryRemove(e, an),
                        16 => NsGetMutSet(e, pf, ur),
                        17 => NsEntryOrInsert(e, pf, ur),
                        18 => NewAttr(an, v),
                        19 => NewNs(pf, ur),
                        20..=21 => if attr_nodes.is_empty() { NewAttr(an, v) } else { AppendAttrNode(e, *r.pick(&attr_nodes)) },
                        22 => if ns_nodes.is_empty() { NewNs(pf, ur) } else { AppendNsNode(e, *r.pick(&ns_nodes)) },
                        23 => { let all: Vec<Handle> = attr_nodes.iter().chain(ns_nodes.iter()).copied().collect(); if all.is_empty() { NewAttr(an, v) } else { AnyAppend(if r.chance(1, 2) { e } else { other }, *r.pick(&all)) } }
                        24 => { let all: Vec<Handle> = attr_nodes.iter().chain(ns_nodes.iter()).copied().collect(); if all.is_empty() { NewAttr(an, v) } else { Detach(*r.pick(&all)) } }
                        25 => { let all: Vec<Handle> = attr_nodes.iter().chain(ns_nodes.iter()).copied().collect(); if all.is_empty() { NewAttr(an, v) } else { Remove(*r.pick(&all)) } }
                        26 => if attr_nodes.is_empty() { NewAttr(an, v) } else { SetAttrValue(*r.pick(&attr_nodes), v) },
                        27 => if ns_nodes.is_empty() { NewNs(pf, ur) } else { SetNsValue(*r.pick(&ns_nodes), ur) },
                        28 => { let t = NewText("x".into()); t }
                        _ => { let texts: Vec<Handle> = live.iter().copied().filter(|h| st.xot.is_text(st.known[h]) && st.xot.parent(st.known[h]).is_none()).collect(); if texts.is_empty() { NewText("y".into()) } else { Append(e, *r.pick(&texts)) } }
                    }
                }
            };
            // reference update from the state before the call
            let before = snapshot(&st);
            let before_parent: std::collections::BTreeMap<Handle, Option<Handle>> = st.live_handles().into_iter().map(|h| (h, st.xot.parent(st.known[&h]).map(handle))).collect();
            let attached: Vec<(Handle, Option<Handle>)> = before_parent.iter().map(|(a, b)| (*a, *b)).collect();
            let outcome = exec(&mut st, &op);
            st.refresh();
            stats.bump(&format!("op.{}", op_str(&op).split(' ').next().unwrap()));
            if let Outcome::Panic = outcome {
                out.fail(&case, "panic", &format!("step {}: `{}` panicked", step, op_str(&op)));
            }
            // the reference maps: recomputed for node-style moves from the parent links (which C04/C05 check), updated
            // by the ordered-map rules for map-style calls
            // for node-style appends: (is attribute, key, value, old parent, did the target map hold the key already)
            let node_move: Option<(bool, usize, String, Option<Handle>, bool)> = {
                use Op::*;
                match &op {
                    AnyAppend(p, c) | AppendAttrNode(p, c) | AppendNsNode(p, c) => {
                        let body = before.get(c).map(|s| s.split(' ').next().unwrap().to_string()).unwrap_or_default();
                        let is_a = body.starts_with('A');
                        let is_n = body.starts_with('N');
                        let applies = match &op { AppendAttrNode(..) => is_a, AppendNsNode(..) => is_n, _ => is_a || is_n };
                        if !applies { None } else {
                            let (idx, val) = if is_a {
                                let (nid, v) = body[1..].split_once('=').unwrap();
                                (st.reg.names.iter().position(|x| id_num(x.2).to_string() == nid).unwrap(), dec(v))
                            } else {
                                let (pid, nid) = body[1..].split_once(':').unwrap();
                                (st.reg.prefixes.iter().position(|x| id_num(x.1).to_string() == pid).unwrap(), st.reg.nss.iter().position(|x| id_num(x.1).to_string() == nid).unwrap().to_string())
                            };
                            let ti = if *p == h1 { Some(0) } else if *p == h2 { Some(1) } else { None };
                            let had = ti.map(|t| { let m = if is_a { &refs[t].0 } else { &refs[t].1 }; m.iter().any(|x| x.0 == idx) }).unwrap_or(false);
                            Some((is_a, idx, val, before_parent.get(c).copied().flatten(), had))
                        }
                    }
                    _ => None,
                }
            };
            for (i, h) in [h1, h2].iter().enumerate() {
                let pair = &mut refs[i];
                let (ra, rn) = (&mut pair.0, &mut pair.1);
                use Op::*;
                match &op {
                    Detach(c) | Remove(c) => {
                        if before_parent.get(c).copied().flatten() == Some(*h) {
                            // the node's key leaves the map, everything else keeps its order
                            let s = &before[c];
                            let body = s.split(' ').next().unwrap();
                            if let Some(rest) = body.strip_prefix('A') {
                                let nid = rest.split_once('=').unwrap().0;
                                let idx = st.reg.names.iter().position(|x| id_num(x.2).to_string() == nid).unwrap();
                                ra.retain(|x| x.0 != idx);
                            } else if let Some(rest) = body.strip_prefix('N') {
                                let pid = rest.split_once(':').unwrap().0;
                                let idx = st.reg.prefixes.iter().position(|x| id_num(x.1).to_string() == pid).unwrap();
                                rn.retain(|x| x.0 != idx);
                            }
                        }
                    }
                    SetAttrValue(c, v) => {
                        if before_parent.get(c).copied().flatten() == Some(*h) {
                            let s = &before[c];
                            if let Some(rest) = s.split(' ').next().unwrap().strip_prefix('A') {
                                let nid = rest.split_once('=').unwrap().0;
                                let idx = st.reg.names.iter().position(|x| id_num(x.2).to_string() == nid).unwrap();
                                if let Some(x) = ra.iter_mut().find(|x| x.0 == idx) { x.1 = v.clone(); }
                            }
                        }
                    }
                    SetNsValue(c, u) => {
                        if before_parent.get(c).copied().flatten() == Some(*h) {
                            let s = &before[c];
                            if let Some(rest) = s.split(' ').next().unwrap().strip_prefix('N') {
                                let pid = rest.split_once(':').unwrap().0;
                                let idx = st.reg.prefixes.iter().position(|x| id_num(x.1).to_string() == pid).unwrap();
                                if let Some(x) = rn.iter_mut().find(|x| x.0 == idx) { x.1 = u.to_string(); }
                            }
                        }
                    }
                    AnyAppend(p, c) | AppendAttrNode(p, c) | AppendNsNode(p, c) => {
                        if let (Some((is_a, idx, val, from, target_had_key)), Outcome::Ok(_)) = (&node_move, &outcome) {
                            let m: &mut RefMap = if *is_a { ra } else { rn };
                            if p == h {
                                if m.iter().any(|x| x.0 == *idx) {
                                    // the key is there already (in this very node or in another one): its value is
                                    // updated in place, nothing moves
                                    if let Some(x) = m.iter_mut().find(|x| x.0 == *idx) { x.1 = val.clone(); }
                                } else {
                                    m.push((*idx, val.clone()));
                                }
                            } else if *from == Some(*h) && !*target_had_key {
                                // the node really moved away to the other element
                                m.retain(|x| x.0 != *idx);
                            }
                            let _ = c;
                        }
                    }
                    other => {
                        let _ = &attached;
                        apply_ref(other, *h, &st, &before, ra, rn, &before_parent);
                    }
                }
            }
            let mut o = vec![outcome_str(&outcome)];
            for (i, e) in [e1, e2].iter().enumerate() {
                check_reference(&st, *e, &refs[i].0, &refs[i].1, &mut out, &case, step, &op_str(&op));
                o.push(view_obs(&mut st, *e, &mut out, &case, step, &pool));
            }
            ops.push(op);
            obs.push(o.join("/"));
        }
        let ops_text: Vec<String> = ops.iter().map(op_str).collect();
        let ak: Vec<String> = pool.attr_names.iter().map(|x| x.to_string()).collect();
        let pk: Vec<String> = pool.prefixes.iter().map(|x| x.to_string()).collect();
        let line = format!("{} {} | {} | {} | {} {} | {} | {}", case, tables, init, ops_text.join(";"), hs(h1), hs(h2), ak.join(","), pk.join(","));
        out.case(&line);
        stats.case(&line, ops.len() >= 5);
        stats.sample(&line);
        out.imp(&format!("{} {}", case, obs.join(";")));
    }
    out.finish(&stats);
}
