fn main() { xh::c20run::main(); }
