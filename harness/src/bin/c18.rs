fn main() { xh::histrun::main_c18(); }
