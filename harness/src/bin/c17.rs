fn main() { xh::parserun::main_for("C17"); }
