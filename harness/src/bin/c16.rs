//! C16 — token and output-event streams reproduce the string serialisation.
use std::io::Write;
use xh::common::*;
use xh::serobs::*;
use xh::tree::*;
use xot::{Node, Value, Xot};

fn main() {
    quiet_panics();
    let a = args();
    let mut out = Out::new(&a.out);
    let mut stats = Stats::default();
    let replay_lines: Option<Vec<String>> = a.replay.as_ref().map(|p| std::fs::read_to_string(p).expect("replay").lines().filter(|l| !l.trim().is_empty()).map(|s| s.to_string()).collect());
    let n = replay_lines.as_ref().map(|v| v.len()).unwrap_or(a.n);
    let base = Rng::new(a.seed);
    for k in 0..n {
        let mut r = base.fork(k as u64);
        let mut xot = Xot::new();
        let mut reg = Reg::new(&xot);
        let pool = make_pool(&mut xot, &mut reg, true);
        let (case, tree, queries): (String, ANode, Vec<(usize, SerParams)>) = match &replay_lines {
            Some(v) => {
                let (case, rest) = v[k].split_once(' ').unwrap();
                let parts: Vec<&str> = rest.split(" | ").collect();
                let qs = parts[2].split(',').map(|q| { let (i, p) = q.split_once('@').unwrap(); (i.parse().unwrap(), parse_params(p)) }).collect();
                (case.to_string(), xh::treeparse::parse_anode(parts[1]).expect("tree"), qs)
            }
            None => {
                let cfg = GenCfg { max_nodes: 25, max_depth: 5, xml_space: 10, ..GenCfg::default() };
                let mut t = gen_tree(&mut r, &cfg, &pool);
                // one tree in three: text concentrated on ']' and '>' runs (the "]]>" guard of unescaped_gt, CDATA splitting)
                if k % 3 == 1 { xh::rtrun::bracket_text(&mut r, &mut t); }
                declare_missing(&mut r, &mut t, &reg, &pool, 92);
                (format!("c{}", k), t, vec![])
            }
        };
        let root = build(&mut xot, &reg, &tree);
        let (all, index) = preorder(&xot, root);
        let queries = if queries.is_empty() {
            let mut q = vec![(0usize, random_params(&mut r, &pool)), (0usize, SerParams { cdata: vec![], unescaped_gt: false, suppress: vec![] })];
            let normal: Vec<usize> = (0..all.len()).filter(|i| !matches!(xot.value(all[*i]), Value::Attribute(_) | Value::Namespace(_))).collect();
            if !normal.is_empty() { for _ in 0..2 { q.push((*r.pick(&normal), random_params(&mut r, &pool))); } }
            q
        } else { queries };
        let text = print_tree(&xot, &reg, root);
        let qtxt: Vec<String> = queries.iter().map(|(i, p)| format!("{}@{}", i, params_text(p))).collect();
        let line = format!("{} {} | {} | {}", case, reg.tables(), text, qtxt.join(","));
        out.case(&line);
        stats.case(&line, all.len() >= 3);
        stats.sample(&line);
        let mut obs: Vec<String> = vec![];
        for (qi, (ni, p)) in queries.iter().enumerate() {
            let node: Node = all[*ni];
            let o = observe(&xot, &reg, &index, node, p);
            obs.push(obs_text(&o));
            stats.bump(if o.ser.is_ok() { "serialisable" } else { "unserialisable" });
            // ---------- oracle: the streams reproduce the strings
            if let (Ok(s), Ok(toks)) = (&o.ser, &o.tokens) {
                let cat: String = toks.iter().map(|(_, sp, t)| format!("{}{}", if *sp { " " } else { "" }, t)).collect();
                if &cat != s { out.fail(&case, "tokens-differ-from-string", &format!("query {}: concatenated tokens {:?} but serialisation {:?}", qi, cat, s)); }
            }
            if o.ser.is_ok() != o.tokens.is_ok() { out.fail(&case, "tokens-availability", &format!("query {}: string serialisation {:?} but token stream {}", qi, o.ser.as_ref().map(|_| "ok"), if o.tokens.is_ok() { "ok" } else { "panicked" })); }
            if let Ok(toks) = &o.pretty_tokens {
                let deepest = toks.iter().map(|t| t.1).max().unwrap_or(0);
                stats.bump(if deepest >= 16 { "pretty.deepest_indentation_16_or_more" } else if deepest >= 8 { "pretty.deepest_indentation_8_to_15" } else { "pretty.deepest_indentation_below_8" });
            }
            if let (Ok(s), Ok(toks)) = (&o.pretty, &o.pretty_tokens) {
                let cat: String = toks.iter().map(|(_, ind, sp, t, nl)| format!("{}{}{}{}", " ".repeat(ind * 2), if *sp { " " } else { "" }, t, if *nl { "\n" } else { "" })).collect();
                if &cat != s { out.fail(&case, "pretty-tokens-differ-from-string", &format!("query {}: pretty tokens give {:?} but pretty serialisation {:?}", qi, cat, s)); }
            }
            // every token is paired with the (node, event) the output-event stream lists at that position: the token streams
            // list, for each node, exactly its events
            for (what, ev) in [("tokens", &o.tok_events), ("pretty_tokens", &o.ptok_events)] {
                if let Some(ev) = ev {
                    if ev != &o.outputs {
                        let i = ev.iter().zip(o.outputs.iter()).position(|(x, y)| x != y).unwrap_or(ev.len().min(o.outputs.len()));
                        out.fail(&case, "token-events-differ-from-outputs", &format!("query {}: {} pairs position {} with {:?} where outputs() lists {:?} ({} against {} events)", qi, what, i, ev.get(i), o.outputs.get(i), ev.len(), o.outputs.len()));
                    }
                }
            }
            // the Write-based entry points and the *_with_normalizer forms (no-op normaliser) emit the bytes of the string forms,
            // under the same parameters
            for (label, got) in &o.written {
                let want = if label.contains("indented") { &o.pretty } else { &o.ser };
                match (want, got) {
                    (Ok(s), Ok(b)) => if s.as_bytes() != &b[..] { out.fail(&case, "write-differs", &format!("query {}: {} gives {:?} where the string form gives {:?}", qi, label, String::from_utf8_lossy(b), s)); },
                    (Err(_), Err(_)) => {}
                    _ => out.fail(&case, "write-differs", &format!("query {}: {} and the string form disagree on success ({:?} / {:?})", qi, label, got.as_ref().map(|_| "ok"), want.as_ref().map(|_| "ok"))),
                }
            }
            // a normaliser rewrites text and attribute values; a namespace name is an identifier and is written as it is: with
            // a normaliser that upper-cases ASCII letters every name read back is in the namespace it was in
            if qi == 0 && xot.is_element(node) {
                struct Upper;
                impl xot::output::Normalizer for Upper {
                    fn normalize<'a>(&self, content: std::borrow::Cow<'a, str>) -> std::borrow::Cow<'a, str> { content.to_ascii_uppercase().into() }
                }
                if let Ok(Ok(s)) = guard(|| xot.serialize_xml_string_with_normalizer(xot::output::xml::Parameters::default(), node, Upper)) {
                    let mut x2 = Xot::new();
                    if let Ok(Ok(doc)) = guard(|| x2.parse(&s)) {
                        let names = |x: &Xot, top: Node| -> Vec<(String, String)> {
                            let mut v = vec![];
                            for d in x.descendants(top) {
                                if let Some(e) = x.element(d) {
                                    let (l, u) = x.name_ns_str(e.name()); v.push((u.to_string(), l.to_string()));
                                    let mut av: Vec<(String, String)> = x.attributes(d).keys().map(|k| { let (l, u) = x.name_ns_str(k); (u.to_string(), l.to_string()) }).collect();
                                    av.sort();
                                    v.extend(av);
                                }
                            }
                            v
                        };
                        let want = names(&xot, node);
                        let got = names(&x2, x2.document_element(doc).unwrap());
                        stats.bump("normaliser.upper_case_reparsed");
                        if want != got {
                            let i = want.iter().zip(got.iter()).position(|(a, b)| a != b).unwrap_or(want.len().min(got.len()));
                            out.fail(&case, "normaliser-changed-a-name", &format!("query {}: with an upper-casing normaliser the name {:?} is read back as {:?} — written {:?}", qi, want.get(i), got.get(i), s));
                        }
                    }
                }
            }
            // a writer that fails after k bytes: an error, not a panic
            if let Ok(Ok(sr)) = guard(|| xot.to_string(node)) {
                for k in [0usize, 1, sr.len() / 2, sr.len().saturating_sub(1)] {
                    if k >= sr.len() { continue; }
                    let mut fw = FailingWriter { left: k };
                    match guard(|| xot.write(node, &mut fw)) {
                        Ok(Err(_)) => { stats.bump("failing_writer_reported"); }
                        Ok(Ok(())) => out.fail(&case, "failing-writer", &format!("query {}: write() into a writer that fails after {} bytes returned Ok", qi, k)),
                        Err(()) => out.fail(&case, "failing-writer", &format!("query {}: write() into a writer that fails after {} bytes panicked", qi, k)),
                    }
                }
            }
            // Write-based entry point emits the same bytes
            if p.cdata.is_empty() && !p.unescaped_gt {
                let mut buf: Vec<u8> = vec![];
                let w = guard(|| xot.write(node, &mut buf));
                match (&o.ser, w) {
                    (Ok(s), Ok(Ok(()))) => if s.as_bytes() != &buf[..] { out.fail(&case, "write-differs", &format!("query {}: write() bytes differ from to_string()", qi)); },
                    (Err(_), Ok(Err(_))) | (Err(_), Err(())) => {}
                    _ => out.fail(&case, "write-differs", &format!("query {}: write() and to_string() disagree on success", qi)),
                }
                let _ = buf.flush();
            }
            // output events: per node in document order exactly its events
            let mut want: Vec<(usize, String)> = vec![];
            for e in xot.traverse(node) {
                match e {
                    xot::NodeEdge::Start(x) => match xot.value(x) {
                        Value::Element(el) => {
                            want.push((index[&x], format!("so{}", reg.name_idx(el.name()))));
                            let mut px: Vec<(usize, String)> = vec![];
                            if x == node {
                                let no_ns = xot.namespace_for_name(el.name()) == xot.no_namespace();
                                for (pf, ns) in xot.namespaces_in_scope(x) {
                                    if no_ns && pf == xot.empty_prefix() { continue; }
                                    if !xot.namespaces(x).contains_key(pf) { px.push((index[&x], format!("px{}>{}", reg.prefix_idx(pf), reg.ns_idx(ns)))); }
                                }
                            }
                            want.extend(px);
                            for (pf, ns) in xot.namespaces(x).iter() { want.push((index[&x], format!("px{}>{}", reg.prefix_idx(pf), reg.ns_idx(*ns)))); }
                            for (an, av) in xot.attributes(x).iter() { want.push((index[&x], format!("at{}={}", reg.name_idx(an), enc(av)))); }
                            want.push((index[&x], "sc".into()));
                        }
                        Value::Text(t) => want.push((index[&x], format!("tx{}", enc(t.get())))),
                        Value::Comment(c) => want.push((index[&x], format!("cm{}", enc(c.get())))),
                        Value::ProcessingInstruction(pi) => want.push((index[&x], format!("pi{}={}", reg.name_idx(pi.target()), enc_opt(pi.data())))),
                        _ => {}
                    },
                    xot::NodeEdge::End(x) => if let Value::Element(el) = xot.value(x) { want.push((index[&x], format!("et{}", reg.name_idx(el.name())))); },
                }
            }
            if want != o.outputs { out.fail(&case, "output-events", &format!("query {}: output events {:?} but the tree implies {:?}", qi, o.outputs, want)); }
        }
        out.imp(&format!("{} {}", case, obs.join(" || ")));
    }
    out.finish(&stats);
}
