fn main() { xh::histrun::main_c12(); }
