//! C09 — namespace scope queries agree with nearest-declaration-wins scoping.
//!
//! Trees with adversarial declaration layouts; every node is asked for its in-scope bindings, every prefix and
//! every namespace known to the Xot is resolved at every node, and the qualified names reported for elements and
//! attributes are resolved again.  Oracle: an ancestor-walk resolver (outermost first, nearest declaration wins,
//! xmlns="" removes the default binding, xml always bound).
use std::collections::BTreeMap;
use xh::common::*;
use xh::tree::*;
use xot::xmlname::NameStrInfo;
use xot::{Node, Value, Xot};

fn bindings(xot: &Xot, reg: &Reg, n: Node) -> BTreeMap<usize, usize> {
    let mut chain: Vec<Node> = xot.ancestors(n).collect();
    chain.reverse();
    let mut b: BTreeMap<usize, usize> = BTreeMap::new();
    b.insert(1, 1); // xml -> xml namespace
    for a in chain {
        if !xot.is_element(a) { continue; }
        for (p, ns) in xot.namespaces(a).iter() {
            let (pi, ni) = (reg.prefix_idx(p), reg.ns_idx(*ns));
            if pi == 0 && ni == 0 { b.remove(&0); } else { b.insert(pi, ni); }
        }
    }
    b
}

fn main() {
    quiet_panics();
    let a = args();
    let mut out = Out::new(&a.out);
    let mut stats = Stats::default();
    let replay_lines: Option<Vec<String>> = a.replay.as_ref().map(|p| std::fs::read_to_string(p).expect("replay").lines().filter(|l| !l.trim().is_empty()).map(|s| s.to_string()).collect());
    let n = replay_lines.as_ref().map(|v| v.len()).unwrap_or(a.n);
    let base = Rng::new(a.seed);
    for k in 0..n {
        let mut r = base.fork(k as u64);
        let mut xot = Xot::new();
        let mut reg = Reg::new(&xot);
        let pool = make_pool(&mut xot, &mut reg, true);
        let (case, tree): (String, ANode) = match &replay_lines {
            Some(v) => {
                let (case, rest) = v[k].split_once(' ').unwrap();
                let parts: Vec<&str> = rest.split(" | ").collect();
                (case.to_string(), xh::treeparse::parse_anode(parts[1]).expect("tree"))
            }
            None => {
                let cfg = GenCfg { max_nodes: 25, max_depth: 6, special_text: false, ..GenCfg::default() };
                (format!("c{}", k), gen_tree(&mut r, &cfg, &pool))
            }
        };
        let root = build(&mut xot, &reg, &tree);
        let text = print_tree(&xot, &reg, root);
        let line = format!("{} {} | {}", case, reg.tables(), text);
        out.case(&line);
        xh::accessors::name_agreement(&case, &xot, root, &mut out, &mut stats);
        let (all, _) = preorder(&xot, root);
        let ndecl = all.iter().filter(|x| xot.is_namespace_node(**x)).count();
        stats.case(&text, ndecl >= 2);
        stats.sample(&line);
        let np = reg.prefixes.len();
        let nn = reg.nss.len();
        let mut obs: Vec<String> = vec![];
        for (i, x) in all.iter().enumerate() {
            let x = *x;
            let inscope: Vec<(usize, usize)> = xot.namespaces_in_scope(x).map(|(p, ns)| (reg.prefix_idx(p), reg.ns_idx(ns))).collect();
            let nfp: Vec<Option<usize>> = (0..np).map(|p| xot.namespace_for_prefix(x, reg.prefixes[p].1).map(|ns| reg.ns_idx(ns))).collect();
            let pfn: Vec<Option<usize>> = (0..nn).map(|ns| xot.prefix_for_namespace(x, reg.nss[ns].1).map(|p| reg.prefix_idx(p))).collect();
            let ipd: String = (0..np).map(|p| if xot.is_prefix_defined(x, reg.prefixes[p].1) { '1' } else { '0' }).collect();
            let mut inh: Vec<(usize, usize)> = xot.inherited_prefixes(x).iter().map(|(p, ns)| (reg.prefix_idx(*p), reg.ns_idx(*ns))).collect();
            inh.sort();
            let unres: Vec<usize> = xot.unresolved_namespaces(x).iter().map(|ns| reg.ns_idx(*ns)).collect();
            let own_name = xot.node_name(x);
            let fnm: String = match own_name { Some(nm) => match xot.full_name(x, nm) { Ok(s) => enc(&s), Err(_) => "!".into() }, None => "-".into() };
            let nnr: String = match xot.node_name_ref(x) {
                Ok(Some(rn)) => format!("{}/{}", reg.prefix_idx(rn.prefix_id()), enc(&rn.full_name())),
                Ok(None) => "-".into(),
                Err(_) => "!".into(),
            };
            let so = |o: &Option<usize>| o.map(|v| v.to_string()).unwrap_or("-".into());
            obs.push(format!("{}:in={};nfp={};pfn={};ipd={};inh={};un={};fn={};nnr={}", i,
                inscope.iter().map(|(p, n)| format!("{}>{}", p, n)).collect::<Vec<_>>().join(","),
                nfp.iter().map(so).collect::<Vec<_>>().join(","), pfn.iter().map(so).collect::<Vec<_>>().join(","), ipd,
                inh.iter().map(|(p, n)| format!("{}>{}", p, n)).collect::<Vec<_>>().join(","),
                unres.iter().map(|x| x.to_string()).collect::<Vec<_>>().join(","), fnm, nnr));
            // ---------------- oracle
            let b = bindings(&xot, &reg, x);
            let mut got: BTreeMap<usize, usize> = BTreeMap::new();
            for (p, ns) in &inscope {
                if got.insert(*p, *ns).is_some() { out.fail(&case, "in-scope-duplicate-prefix", &format!("node {}: prefix {} reported twice", i, p)); }
            }
            if got != b { out.fail(&case, "in-scope-bindings", &format!("node {}: namespaces_in_scope = {:?}, walking the ancestors gives {:?}", i, got, b)); }
            for p in 0..np {
                if nfp[p] != b.get(&p).copied() { out.fail(&case, "namespace-for-prefix", &format!("node {}: namespace_for_prefix({}) = {:?}, bound to {:?}", i, p, nfp[p], b.get(&p))); }
                // is_prefix_defined: the prefix is bound in the node's scope (xmlns="" is no binding of the empty prefix)
                let declared = b.contains_key(&p);
                if (ipd.as_bytes()[p] == b'1') != declared { out.fail(&case, "is-prefix-defined", &format!("node {}: is_prefix_defined({}) = {}, declared = {}", i, p, ipd.as_bytes()[p] == b'1', declared)); }
            }
            for ns in 1..nn {
                let candidates: Vec<usize> = b.iter().filter(|(_, v)| **v == ns).map(|(p, _)| *p).collect();
                match pfn[ns] {
                    Some(p) => if !candidates.contains(&p) { out.fail(&case, "prefix-for-namespace-unsound", &format!("node {}: prefix_for_namespace({}) = {} which is not bound to it (bindings {:?})", i, ns, p, b)); },
                    None => if !candidates.is_empty() { out.fail(&case, "prefix-for-namespace-incomplete", &format!("node {}: prefix_for_namespace({}) = None although {:?} are bound to it", i, ns, candidates)); },
                }
            }
            // inherited / unresolved consistency
            let parent_scope: BTreeMap<usize, usize> = match xot.parent(x) { Some(p) => bindings(&xot, &reg, p), None => BTreeMap::new() };
            let own_prefixes: Vec<usize> = if xot.is_element(x) { xot.namespaces(x).keys().map(|q| reg.prefix_idx(q)).collect() } else { vec![] };
            let want_inh: Vec<(usize, usize)> = parent_scope.iter().filter(|(p, ns)| unres.contains(ns) && !own_prefixes.contains(p)).map(|(p, ns)| (*p, *ns)).collect();
            if inh != want_inh { out.fail(&case, "inherited-prefixes", &format!("node {}: inherited_prefixes = {:?}, in-scope bindings of the parent for unresolved namespaces = {:?}", i, inh, want_inh)); }
            // a prefix the node itself declares is not inherited; a name in no namespace needs no prefix; the xml prefix is always bound
            if xot.is_element(x) {
                for (p, _) in &inh {
                    if xot.namespaces(x).keys().any(|q| reg.prefix_idx(q) == *p) {
                        out.fail(&case, "inherited-prefixes-lists-a-prefix-the-node-declares", &format!("node {}: inherited_prefixes lists prefix {} which the node declares itself", i, p));
                        break;
                    }
                }
            }
            if unres.contains(&0) { out.fail(&case, "unresolved-namespaces-lists-no-namespace", &format!("node {}: unresolved_namespaces = {:?} lists \"no namespace\"", i, unres)); }
            let xml_ns_idx = reg.ns_idx(xot.xml_namespace());
            if unres.contains(&xml_ns_idx) { out.fail(&case, "unresolved-namespaces-lists-the-xml-namespace", &format!("node {}: unresolved_namespaces = {:?} lists the xml namespace, whose prefix is always bound", i, unres)); }
            for u in &unres {
                if *u == 0 { continue; }
                let used = xot.descendants(x).any(|d| match xot.value(d) {
                    Value::Element(e) => reg.ns_idx(xot.namespace_for_name(e.name())) == *u || xot.attributes(d).keys().any(|kk| reg.ns_idx(xot.namespace_for_name(kk)) == *u),
                    _ => false,
                });
                if !used { out.fail(&case, "unresolved-namespaces", &format!("node {}: namespace {} reported unresolved but no name below uses it", i, u)); }
            }
            // qualified names resolve back to the expanded name
            if let Some(nm) = own_name {
                let is_attr = xot.is_attribute_node(x);
                if xot.is_element(x) || is_attr {
                    let want_ns = reg.ns_idx(xot.namespace_for_name(nm));
                    let check = |what: &str, full: Result<String, ()>, out: &mut Out| {
                        match full {
                            Ok(s) => {
                                let (pfx, local) = match s.split_once(':') { Some((p, l)) => (p.to_string(), l.to_string()), None => (String::new(), s.clone()) };
                                let pi = reg.prefixes.iter().position(|q| q.0 == pfx);
                                let resolved: Option<usize> = if pfx.is_empty() { if is_attr { Some(0) } else { Some(b.get(&0).copied().unwrap_or(0)) } } else { pi.and_then(|p| b.get(&p).copied()) };
                                if local != xot.local_name_str(nm) || resolved != Some(want_ns) {
                                    let class = if !is_attr && want_ns == 0 && b.contains_key(&0) { "no-namespace-element-under-default-namespace" } else { "qualified-name-resolves-wrong" };
                                    out.fail(&case, class, &format!("node {}: {} = {:?} resolves to namespace {:?}, the name is in namespace {}", i, what, s, resolved, want_ns));
                                }
                            }
                            Err(()) => {
                                let usable = b.iter().any(|(p, v)| *v == want_ns && (!is_attr || *p != 0));
                                if usable { out.fail(&case, "missing-prefix-although-bound", &format!("node {}: {} fails although a usable prefix is bound to namespace {}", i, what, want_ns)); }
                            }
                        }
                    };
                    check("full_name", xot.full_name(x, nm).map_err(|_| ()), &mut out);
                    check("node_name_ref", xot.node_name_ref(x).map(|r| r.unwrap().full_name().to_string()).map_err(|_| ()), &mut out);
                    check("name_ref", xot.name_ref(nm, x).map(|r| r.full_name().to_string()).map_err(|_| ()), &mut out);
                }
            }
            stats.bump("node_queries");
        }
        out.imp(&format!("{} {}", case, obs.join("|")));
    }
    out.finish(&stats);
}
