//! C13 — deep_equal is canonical-form equivalence; its variants relax it as documented.
//!
//! Cases are triples of trees in one Xot: a random tree A, a variant B (an equal respelling, or a mutant that
//! differs in exactly one feature) and a third tree C; node pairs of every kind are compared through every
//! comparison entry point, in both directions.  Oracle: an independent canonical form (expanded names, attributes
//! sorted), reflexivity / symmetry / transitivity, and the documented relaxations.
use xh::common::*;
use xh::tree::*;
use xot::{Node, Value, Xot};

#[derive(Clone, Debug, PartialEq, Eq, PartialOrd, Ord)]
enum Canon {
    Doc(Vec<Canon>),
    El((String, String), Vec<((String, String), String)>, Vec<Canon>),
    Text(String),
    Comment(String),
    Pi((String, String), Option<String>),
    Attr((String, String), String),
    Ns(String, String),
}

fn ename(xot: &Xot, n: xot::NameId) -> (String, String) {
    let (l, u) = xot.name_ns_str(n);
    (u.to_string(), l.to_string())
}

/// `drop_cp`: discard comments and PIs below the node; `fold`: applied to text-compared strings
fn canon(xot: &Xot, n: Node, drop_cp: bool, fold: &dyn Fn(&str) -> String, top: bool) -> Option<Canon> {
    let kids = |xot: &Xot| -> Vec<Canon> { xot.children(n).filter_map(|c| canon(xot, c, drop_cp, fold, false)).collect() };
    Some(match xot.value(n) {
        Value::Document => Canon::Doc(kids(xot)),
        Value::Element(e) => {
            let mut attrs: Vec<((String, String), String)> = xot.attributes(n).iter().map(|(k, v)| (ename(xot, k), fold(v))).collect();
            attrs.sort();
            Canon::El(ename(xot, e.name()), attrs, kids(xot))
        }
        Value::Text(t) => Canon::Text(fold(t.get())),
        Value::Comment(c) => { if drop_cp && !top { return None; } Canon::Comment(fold(c.get())) }
        Value::ProcessingInstruction(p) => { if drop_cp && !top { return None; } Canon::Pi(ename(xot, p.target()), p.data().map(|d| fold(d))) }
        Value::Attribute(a) => Canon::Attr(ename(xot, a.name()), fold(a.value())),
        Value::Namespace(ns) => Canon::Ns(xot.prefix_str(ns.prefix()).to_string(), xot.namespace_str(ns.namespace()).to_string()),
    })
}

fn ci(a: &str, b: &str) -> bool { a.to_ascii_lowercase() == b.to_ascii_lowercase() }

// ---------------------------------------------------------------------------------------------- mutants

fn mutate(r: &mut Rng, a: &ANode, pool: &Pool) -> (ANode, &'static str) {
    // collect paths to elements
    fn elems(a: &ANode, path: &mut Vec<usize>, out: &mut Vec<Vec<usize>>) {
        match a {
            ANode::Doc(k) => { for (i, c) in k.iter().enumerate() { path.push(i); elems(c, path, out); path.pop(); } }
            ANode::Elem { kids, .. } => { out.push(path.clone()); for (i, c) in kids.iter().enumerate() { path.push(i); elems(c, path, out); path.pop(); } }
            _ => {}
        }
    }
    fn at<'a>(a: &'a mut ANode, path: &[usize]) -> &'a mut ANode {
        if path.is_empty() { return a; }
        match a {
            ANode::Doc(k) => at(&mut k[path[0]], &path[1..]),
            ANode::Elem { kids, .. } => at(&mut kids[path[0]], &path[1..]),
            _ => a,
        }
    }
    let mut b = a.clone();
    let mut paths = vec![];
    elems(a, &mut vec![], &mut paths);
    if paths.is_empty() {
        return (match a { ANode::Text(s) => ANode::Text(format!("{}x", s)), other => other.clone() }, "leaf");
    }
    let p = r.pick(&paths).clone();
    let kind = r.below(14);
    let e = at(&mut b, &p);
    if let ANode::Elem { name, ns, attrs, kids } = e {
        match kind {
            0 => { let old = *name; *name = *r.pick(&pool.names); return (b, if old == 0 { "name" } else { "name" }); }
            1 => { if let Some(x) = attrs.first_mut() { x.1.push('!'); return (b, "attr-value"); } attrs.push((pool.attr_names[0], "v".into())); return (b, "extra-attr"); }
            2 => { let n = *r.pick(&pool.attr_names); if !attrs.iter().any(|x| x.0 == n) { attrs.push((n, "extra".into())); return (b, "extra-attr"); } return (b, "same"); }
            3 => { for k in kids.iter_mut() { if let ANode::Text(s) = k { s.push('z'); return (b, "text-char"); } } kids.push(ANode::Text("t".into())); return (b, "extra-text"); }
            4 => { kids.push(ANode::Comment("one more".into())); return (b, "extra-comment"); }
            5 => { if kids.len() >= 2 { kids.swap(0, 1); return (b, "child-order"); } return (b, "same"); }
            6 => { attrs.reverse(); return (b, "attr-order-only"); }
            7 => { ns.push((pool.prefixes[r.below(pool.prefixes.len())], pool.uris[1 + r.below(pool.uris.len() - 1)])); let mut seen = vec![]; ns.retain(|x| if seen.contains(&x.0) { false } else { seen.push(x.0); true }); return (b, "declaration-only"); }
            8 => { ns.clear(); return (b, "declaration-only"); }
            9 => { if !attrs.is_empty() { let n = *r.pick(&pool.attr_names); if !attrs_has(attrs_clone(&*attrs), n) { attrs[0].0 = n; return (b, "attr-name"); } } return (b, "same"); }
            10 => { kids.push(ANode::Pi(pool.pi_names[0], Some("d".into()))); return (b, "extra-pi"); }
            11 => { if let Some(k) = kids.iter_mut().find(|k| matches!(k, ANode::Comment(_))) { *k = ANode::Comment("changed".into()); return (b, "comment-text"); } return (b, "same"); }
            // the same content in another case: equal under the case-insensitive comparison, different under the exact one
            12 => {
                for k in kids.iter_mut() {
                    match k {
                        ANode::Comment(s) | ANode::Text(s) if s.chars().any(|c| c.is_ascii_alphabetic()) => { *s = if s.chars().any(|c| c.is_ascii_lowercase()) { s.to_ascii_uppercase() } else { s.to_ascii_lowercase() }; return (b, "content-case-only"); }
                        ANode::Pi(_, Some(s)) if s.chars().any(|c| c.is_ascii_alphabetic()) => { *s = s.to_ascii_uppercase(); return (b, "content-case-only"); }
                        _ => {}
                    }
                }
                kids.push(ANode::Comment("Case".into())); return (b, "extra-comment");
            }
            _ => { if let Some(k) = kids.iter_mut().rev().find(|k| matches!(k, ANode::Comment(_))) { if let ANode::Comment(s) = k { *s = if s.chars().any(|c| c.is_ascii_lowercase()) { s.to_ascii_uppercase() } else { format!("{}a", s).to_ascii_lowercase() }; } return (b, "comment-case-only"); } kids.push(ANode::Comment("c".into())); return (b, "extra-comment"); }
        }
    }
    (b, "same")
}
fn attrs_clone(a: &Vec<(usize, String)>) -> Vec<(usize, String)> { a.clone() }
fn attrs_has(a: Vec<(usize, String)>, n: usize) -> bool { a.iter().any(|x| x.0 == n) }

fn b01(b: bool) -> &'static str { if b { "1" } else { "0" } }

fn main() {
    quiet_panics();
    let a = args();
    let mut out = Out::new(&a.out);
    let mut stats = Stats::default();
    let replay_lines: Option<Vec<String>> = a.replay.as_ref().map(|p| std::fs::read_to_string(p).expect("replay").lines().filter(|l| !l.trim().is_empty()).map(|s| s.to_string()).collect());
    let n = replay_lines.as_ref().map(|v| v.len()).unwrap_or(a.n);
    let base = Rng::new(a.seed);
    for k in 0..n {
        let mut r = base.fork(k as u64);
        let mut xot = Xot::new();
        let mut reg = Reg::new(&xot);
        let pool = make_pool(&mut xot, &mut reg, true);
        let (case, trees, pairs_in): (String, Vec<ANode>, Option<Vec<(usize, usize)>>) = match &replay_lines {
            Some(v) => {
                let line = &v[k];
                let (case, rest) = line.split_once(' ').unwrap();
                let parts: Vec<&str> = rest.split(" | ").collect();
                let trees = xh::treeparse::parse_anodes(parts[1]);
                let pairs = parts[2].split(',').filter(|s| !s.is_empty()).map(|p| { let (x, y) = p.split_once('-').unwrap(); (x.parse().unwrap(), y.parse().unwrap()) }).collect();
                (case.to_string(), trees, Some(pairs))
            }
            None => {
                let cfg = GenCfg { max_nodes: 14, max_depth: 4, adjacent_text: false, ..GenCfg::default() };
                let ta = gen_tree(&mut r, &cfg, &pool);
                let (tb, what) = match r.below(10) {
                    0..=1 => (ta.clone(), "copy"),
                    2 => (gen_tree(&mut r, &cfg, &pool), "independent"),
                    _ => mutate(&mut r, &ta, &pool),
                };
                stats.bump(&format!("variant.{}", what));
                let tc = if r.chance(1, 2) { mutate(&mut r, &tb, &pool).0 } else { tb.clone() };
                (format!("c{}", k), vec![ta, tb, tc], None)
            }
        };
        let roots: Vec<Node> = trees.iter().map(|t| build(&mut xot, &reg, t)).collect();
        // global pre-order numbering over the three trees
        let mut all: Vec<Node> = vec![];
        let mut tree_of: Vec<usize> = vec![];
        for (ti, rt) in roots.iter().enumerate() {
            for d in xot.all_descendants(*rt) { all.push(d); tree_of.push(ti); }
        }
        let offs: Vec<usize> = { let mut o = vec![]; let mut acc = 0; for rt in &roots { o.push(acc); acc += xot.all_descendants(*rt).count(); } o };
        let pairs: Vec<(usize, usize)> = match pairs_in {
            Some(p) => p,
            None => {
                let mut p = vec![(offs[0], offs[1]), (offs[1], offs[2]), (offs[0], offs[2])];
                for _ in 0..6 {
                    // a node of A (or B) and the node at the same position of B (or C) when it exists, else a random one
                    let (ta, tb) = *r.pick(&[(0usize, 1usize), (1, 2), (0, 2)]);
                    let na = xot.all_descendants(roots[ta]).count();
                    let nb = xot.all_descendants(roots[tb]).count();
                    let i = r.below(na);
                    let j = if i < nb && r.chance(3, 4) { i } else { r.below(nb) };
                    p.push((offs[ta] + i, offs[tb] + j));
                }
                // pairs inside ONE tree: a node with itself, with its parent, and every node with its only child (both orders):
                // the comparison functions take any two nodes, also an ancestor and its descendant
                let pos = |n: Node| all.iter().position(|x| *x == n).unwrap();
                let mut inside = 0;
                for (i, n) in all.iter().enumerate() {
                    let kids: Vec<Node> = xot.children(*n).collect();
                    if kids.len() == 1 && inside < 6 { p.push((i, pos(kids[0]))); p.push((pos(kids[0]), i)); inside += 1; }
                }
                for _ in 0..3 {
                    let i = r.below(all.len());
                    p.push((i, i));
                    if let Some(par) = xot.parent(all[i]) { p.push((i, pos(par))); p.push((pos(par), i)); }
                }
                p
            }
        };
        let text: Vec<String> = roots.iter().map(|rt| print_tree(&xot, &reg, *rt)).collect();
        let ptxt: Vec<String> = pairs.iter().map(|(x, y)| format!("{}-{}", x, y)).collect();
        let ignore_lists: Vec<Vec<usize>> = vec![vec![], vec![pool.attr_names[0]], vec![pool.attr_names[0], pool.attr_names[0]], vec![pool.attr_names[1], pool.attr_names[4], pool.attr_names[1]], pool.attr_names.clone()];
        let igtxt: Vec<String> = ignore_lists.iter().map(|l| l.iter().map(|x| x.to_string()).collect::<Vec<_>>().join("+")).collect();
        let line = format!("{} {} | {} | {} | {}", case, reg.tables(), text.join(" "), ptxt.join(","), igtxt.join(","));
        out.case(&line);
        stats.case(&line, all.len() >= 4);
        stats.sample(&line);
        let exact = |s: &str| s.to_string();
        let lower = |s: &str| s.to_ascii_lowercase();
        let mut obs: Vec<String> = vec![];
        let reg_names: Vec<xot::NameId> = reg.names.iter().map(|x| x.2).collect();
        for (pi, (xi, yi)) in pairs.iter().enumerate() {
            let (x, y) = (all[*xi], all[*yi]);
            let de = xot.deep_equal(x, y);
            let de_rev = xot.deep_equal(y, x);
            let dec = xot.deep_equal_children(x, y);
            let dex = xot.deep_equal_xpath(x, y, |a, b| a == b);
            let dex_ci = xot.deep_equal_xpath(x, y, ci);
            let ade_xp = xot.advanced_deep_equal(x, y, |n| xot.is_element(n) || xot.is_text(n), |a, b| a == b);
            let ade_nc = xot.advanced_deep_equal(x, y, |n| !xot.is_comment(n), ci);
            let ade_all = xot.advanced_deep_equal(x, y, |_| true, ci);
            let se = xot.shallow_equal(x, y);
            let mut sei: Vec<&str> = vec![];
            for l in &ignore_lists {
                let ids: Vec<xot::NameId> = l.iter().map(|i| reg_names[*i]).collect();
                match guard(|| xot.shallow_equal_ignore_attributes(x, y, &ids)) {
                    Ok(b) => sei.push(b01(b)),
                    Err(()) => { sei.push("!"); out.fail(&case, "panic", &format!("pair {}: shallow_equal_ignore_attributes panicked with ignore list {:?}", pi, l)); }
                }
            }
            let svx = xot.string_value(x);
            let svy = xot.string_value(y);
            obs.push(format!("{}:de={};rev={};dec={};dex={};dexci={};adexp={};adenc={};adeall={};se={};sei={};svx={};svy={}", pi, b01(de), b01(de_rev), b01(dec), b01(dex), b01(dex_ci), b01(ade_xp), b01(ade_nc), b01(ade_all), b01(se), sei.join(""), enc(&svx), enc(&svy)));
            // ---- oracle
            let cx = canon(&xot, x, false, &exact, true);
            let cy = canon(&xot, y, false, &exact, true);
            if de != (cx == cy) {
                out.fail(&case, "deep-equal-vs-canonical", &format!("pair {} (nodes {} and {}): deep_equal = {} but the canonical forms are {}", pi, xi, yi, de, if cx == cy { "equal" } else { "different" }));
            }
            if de != de_rev { out.fail(&case, "not-symmetric", &format!("pair {}: deep_equal(a,b) = {} but deep_equal(b,a) = {}", pi, de, de_rev)); }
            if !xot.deep_equal(x, x) || !xot.deep_equal(y, y) { out.fail(&case, "not-reflexive", &format!("pair {}: a node is not deep_equal to itself", pi)); }
            // xpath variant: same relation after discarding comments and PIs below, with the text comparison
            let want_dex = match (xot.value(x), xot.value(y)) {
                (Value::Element(_), Value::Element(_)) | (Value::Document, Value::Document) => canon(&xot, x, true, &exact, true) == canon(&xot, y, true, &exact, true),
                _ => { let a = canon(&xot, x, false, &exact, true); let b = canon(&xot, y, false, &exact, true); shallow_canon(&a) == shallow_canon(&b) }
            };
            if dex != want_dex { out.fail(&case, "xpath-variant", &format!("pair {}: deep_equal_xpath = {} but the relation after discarding comments and PIs is {}", pi, dex, want_dex)); }
            let want_dex_ci = match (xot.value(x), xot.value(y)) {
                (Value::Element(_), Value::Element(_)) | (Value::Document, Value::Document) => canon(&xot, x, true, &lower, true) == canon(&xot, y, true, &lower, true),
                _ => { let a = canon(&xot, x, false, &lower, true); let b = canon(&xot, y, false, &lower, true); shallow_canon_ci(&a, &xot, x) == shallow_canon_ci(&b, &xot, y) }
            };
            if dex_ci != want_dex_ci { out.fail(&case, "xpath-variant", &format!("pair {}: case-insensitive deep_equal_xpath = {} expected {}", pi, dex_ci, want_dex_ci)); }
            // the supplied comparison applies to every piece of content: text, attribute values, comments, PI data
            let want_all = canon(&xot, x, false, &lower, true) == canon(&xot, y, false, &lower, true);
            if ade_all != want_all { out.fail(&case, "advanced-variant", &format!("pair {}: advanced_deep_equal with a keep-everything filter and a case-insensitive comparison = {} expected {}", pi, ade_all, want_all)); }
            // children only
            let kx: Vec<Option<Canon>> = xot.children(x).map(|c| canon(&xot, c, false, &exact, true)).collect();
            let ky: Vec<Option<Canon>> = xot.children(y).map(|c| canon(&xot, c, false, &exact, true)).collect();
            if dec != (kx == ky) { out.fail(&case, "children-variant", &format!("pair {}: deep_equal_children = {} but child sequences are {}", pi, dec, if kx == ky { "equal" } else { "different" })); }
            // shallow: the node itself and its attributes
            let want_se = shallow_canon(&cx) == shallow_canon(&cy);
            if se != want_se { out.fail(&case, "shallow", &format!("pair {}: shallow_equal = {} expected {}", pi, se, want_se)); }
            for (li, l) in ignore_lists.iter().enumerate() {
                if let (Some(Canon::El(nx, ax, _)), Some(Canon::El(ny, ay, _))) = (&cx, &cy) {
                    let ign: Vec<(String, String)> = l.iter().map(|i| ename(&xot, reg_names[*i])).collect();
                    let fx: Vec<_> = ax.iter().filter(|a| !ign.contains(&a.0)).collect();
                    let fy: Vec<_> = ay.iter().filter(|a| !ign.contains(&a.0)).collect();
                    let want = nx == ny && fx == fy;
                    let got = sei[li] == "1";
                    if sei[li] != "!" && got != want {
                        out.fail(&case, "shallow-ignore", &format!("pair {}: shallow_equal_ignore_attributes with ignore list {:?} = {} expected {}", pi, l, got, want));
                    }
                }
            }
            // string value
            let want_sv = |n: Node| -> String {
                match xot.value(n) {
                    Value::Document | Value::Element(_) => xot.descendants(n).filter_map(|d| xot.text_str(d)).collect::<Vec<_>>().concat(),
                    Value::Text(t) => t.get().to_string(),
                    Value::Comment(c) => c.get().to_string(),
                    Value::ProcessingInstruction(p) => p.data().unwrap_or("").to_string(),
                    Value::Attribute(a) => a.value().to_string(),
                    Value::Namespace(ns) => xot.namespace_str(ns.namespace()).to_string(),
                }
            };
            if svx != want_sv(x) || svy != want_sv(y) { out.fail(&case, "string-value", &format!("pair {}: string_value differs from the concatenated descendant text", pi)); }
            stats.bump(if de { "pairs.equal" } else { "pairs.different" });
        }
        // transitivity over the three roots
        let (ab, bc, ac) = (xot.deep_equal(roots[0], roots[1]), xot.deep_equal(roots[1], roots[2]), xot.deep_equal(roots[0], roots[2]));
        if ab && bc && !ac { out.fail(&case, "not-transitive", "deep_equal(A,B) and deep_equal(B,C) but not deep_equal(A,C)"); }
        out.imp(&format!("{} {}", case, obs.join("|")));
    }
    out.finish(&stats);
}

/// the node itself and its attributes
fn shallow_canon(c: &Option<Canon>) -> Option<Canon> {
    c.as_ref().map(|c| match c {
        Canon::Doc(_) => Canon::Doc(vec![]),
        Canon::El(n, a, _) => Canon::El(n.clone(), a.clone(), vec![]),
        other => other.clone(),
    })
}
/// comments are compared exactly even under a text comparison
fn shallow_canon_ci(c: &Option<Canon>, xot: &Xot, n: Node) -> Option<Canon> {
    // (comments are compared with the supplied comparison like every other content)
    let _ = (xot, n);
    shallow_canon(c)
}
