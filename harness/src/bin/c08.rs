//! C08 — name / namespace / prefix ids are a stable one-to-one interning.
//!
//! Generates registration / lookup histories, runs them on the real crate, prints the observations in the
//! format the model driver prints, and evaluates the property directly with an oracle built from HashMaps
//! (independent of the model).  Thorough tier: additionally one long history per table (more entries than
//! a 16-bit id can number), oracle only.
use std::collections::HashMap;
use xh::common::*;
use xot::Xot;

#[derive(Clone, Debug)]
enum Op {
    AddNameNs(String, u64),
    AddNamespace(String),
    AddPrefix(String),
    LookupNameNs(String, u64),
    LookupNamespace(String),
    LookupPrefix(String),
    NameStr(u64),
    NamespaceStr(u64),
    PrefixStr(u64),
    Html5,
    Clone,
    Parse(String), // implementation + oracle only (the model stream skips it: see DESIGN C08)
}

fn op_str(o: &Op) -> String {
    match o {
        Op::AddNameNs(s, n) => format!("an {} {}", enc(s), n),
        Op::AddNamespace(s) => format!("ans {}", enc(s)),
        Op::AddPrefix(s) => format!("ap {}", enc(s)),
        Op::LookupNameNs(s, n) => format!("ln {} {}", enc(s), n),
        Op::LookupNamespace(s) => format!("lns {}", enc(s)),
        Op::LookupPrefix(s) => format!("lp {}", enc(s)),
        Op::NameStr(i) => format!("ns {}", i),
        Op::NamespaceStr(i) => format!("nss {}", i),
        Op::PrefixStr(i) => format!("ps {}", i),
        Op::Html5 => "h5".into(),
        Op::Clone => "cl".into(),
        Op::Parse(s) => format!("parse {}", enc(s)),
    }
}

// ids are only reachable through the API as opaque values; keep the real values next to their numbers
struct Ids {
    names: Vec<xot::NameId>,
    nss: Vec<xot::NamespaceId>,
    prefixes: Vec<xot::PrefixId>,
}

impl Ids {
    fn put<T: Copy + std::fmt::Debug>(v: &mut Vec<T>, id: T) -> u64 {
        let n = id_num(id);
        if !v.iter().any(|x| id_num(*x) == n) {
            v.push(id);
        }
        n
    }
    fn get<T: Copy + std::fmt::Debug>(v: &[T], n: u64) -> Option<T> {
        v.iter().copied().find(|x| id_num(*x) == n)
    }
}

/// the reference registry (oracle): what each table must look like
#[derive(Default, Clone)]
struct Oracle {
    ns_by_str: HashMap<String, u64>,
    ns_by_id: HashMap<u64, String>,
    p_by_str: HashMap<String, u64>,
    p_by_id: HashMap<u64, String>,
    n_by_val: HashMap<(String, u64), u64>,
    n_by_id: HashMap<u64, (String, u64)>,
}

fn reg<K: std::hash::Hash + Eq + Clone + std::fmt::Debug>(
    by_val: &mut HashMap<K, u64>,
    by_id: &mut HashMap<u64, K>,
    k: K,
    id: u64,
) -> Result<(), String> {
    if let Some(old) = by_val.get(&k) {
        if *old != id {
            return Err(format!("{:?} registered twice with different ids {} and {}", k, old, id));
        }
    }
    if let Some(oldk) = by_id.get(&id) {
        if *oldk != k {
            return Err(format!("id {} returned for {:?} but already denotes {:?}", id, k, oldk));
        }
    }
    by_val.insert(k.clone(), id);
    by_id.insert(id, k);
    Ok(())
}

fn gen_history(r: &mut Rng, len: usize, with_parse: bool) -> Vec<Op> {
    // ids are referenced symbolically while generating: we only know real numbers when running, so the
    // generator runs the real crate alongside (cheap) purely to learn which ids exist.
    let mut xot = Xot::new();
    let mut ids = Ids { names: vec![], nss: vec![], prefixes: vec![] };
    Ids::put(&mut ids.nss, xot.no_namespace());
    Ids::put(&mut ids.nss, xot.xml_namespace());
    Ids::put(&mut ids.prefixes, xot.empty_prefix());
    Ids::put(&mut ids.prefixes, xot.xml_prefix());
    Ids::put(&mut ids.names, xot.xml_space_name());
    Ids::put(&mut ids.names, xot.xml_id_name());
    let uris = ["", "http://www.w3.org/XML/1998/namespace", "urn:a", "urn:b", "http://www.w3.org/1999/xhtml",
        "https://www.w3.org/1999/xhtml", "http://www.w3.org/2000/svg", "x&y", "urn:A"];
    let mut ops = vec![];
    for _ in 0..len {
        // in the histories that parse, one call in eight is a parse (half of them fail half-way)
        let k = if with_parse && r.chance(1, 8) { 99 } else { r.below(100) };
        // one string in five is a near-duplicate of a built-in or of a pool string: another case, a blank at either end, the
        // same character composed and decomposed — strings that differ must get different ids, whatever they look like
        const NEAR: &[&str] = &["XML", "Xml", "xmL", "xmlns", "XMLNS", "ID", "Id", "SPACE", "Space", "a ", " a", "FOO", "Foo",
            "e\u{301}", "\u{c9}", "N0", "P", "Q", "X", "xml ", " xml", "xml\t"];
        let s = if r.chance(1, 6) { random_text(r, 4) } else if r.chance(1, 5) { r.pick(NEAR).to_string() } else { random_ident(r) };
        let op = match k {
            0..=24 => {
                let ns = *r.pick(&ids.nss);
                Op::AddNameNs(s, id_num(ns))
            }
            25..=36 => Op::AddNamespace(if r.chance(2, 3) { r.pick(&uris).to_string() } else { s }),
            37..=46 => Op::AddPrefix(s),
            47..=56 => {
                let ns = *r.pick(&ids.nss);
                Op::LookupNameNs(s, id_num(ns))
            }
            57..=62 => Op::LookupNamespace(if r.chance(2, 3) { r.pick(&uris).to_string() } else { s }),
            63..=68 => Op::LookupPrefix(s),
            69..=78 => Op::NameStr(id_num(*r.pick(&ids.names))),
            79..=84 => Op::NamespaceStr(id_num(*r.pick(&ids.nss))),
            85..=90 => Op::PrefixStr(id_num(*r.pick(&ids.prefixes))),
            91..=92 => Op::Html5,
            93..=96 => Op::Clone,
            _ if !with_parse => Op::LookupPrefix(s),
            _ => {
                let docs = ["<a/>", "<p:a xmlns:p='urn:a' q='1'><p:b/></p:a>", "<a xmlns='urn:b'><c d='e'/><?pi x?></a>",
                    "<x:y xmlns:x='urn:z' x:k='v'/>"];
                if r.chance(1, 2) {
                    // a parse that FAILS after it has registered strings of its own (from the pool the other calls draw from):
                    // whatever a failed parse leaves behind, ids handed out afterwards must still be one-to-one
                    let (p, l1, l2, l3) = (random_ident(r), random_ident(r), random_ident(r), random_ident(r));
                    let p = if p == "xml" { "pp".to_string() } else { p };
                    Op::Parse(match r.below(4) {
                        0 => format!("<{p}:{l1} xmlns:{p}='urn:{l2}'><{l3}></{l1}>"),
                        1 => format!("<{l1} {l2}='1'><{l3}>"),
                        2 => format!("<{l1}><{p}:{l2}/></{l1}>"),
                        _ => format!("<{l1} xmlns:{p}='{l2}'><{p}:{l3} {p}:{l1}='v'/><{l3}></{l1}>"),
                    })
                } else {
                    Op::Parse(r.pick(&docs).to_string())
                }
            }
        };
        // learn the ids this op creates
        match &op {
            Op::AddNameNs(s, n) => {
                let ns = Ids::get(&ids.nss, *n).unwrap();
                let id = xot.add_name_ns(s, ns);
                Ids::put(&mut ids.names, id);
            }
            Op::AddNamespace(s) => {
                let id = xot.add_namespace(s);
                Ids::put(&mut ids.nss, id);
            }
            Op::AddPrefix(s) => {
                let id = xot.add_prefix(s);
                Ids::put(&mut ids.prefixes, id);
            }
            Op::Html5 => {
                xot.html5();
                for u in ["https://www.w3.org/1999/xhtml", "http://www.w3.org/1999/xhtml", "http://www.w3.org/1998/Math/MathML", "http://www.w3.org/2000/svg"] {
                    if let Some(id) = xot.namespace(u) {
                        Ids::put(&mut ids.nss, id);
                    }
                }
                for n in ["a", "BR", "script", "wbr", "WBR"] {
                    if let Some(id) = xot.name(n) {
                        Ids::put(&mut ids.names, id);
                    }
                }
            }
            Op::Parse(s) => {
                let _ = xot.parse(s);
            }
            _ => {}
        }
        ops.push(op);
    }
    ops
}

fn builtin_obs(xot: &Xot) -> String {
    format!(
        "B {}:{} {}:{} {}:{} {}:{} {}:{} {}:{}",
        id_num(xot.no_namespace()),
        enc(xot.namespace_str(xot.no_namespace())),
        id_num(xot.empty_prefix()),
        enc(xot.prefix_str(xot.empty_prefix())),
        id_num(xot.xml_namespace()),
        enc(xot.namespace_str(xot.xml_namespace())),
        id_num(xot.xml_prefix()),
        enc(xot.prefix_str(xot.xml_prefix())),
        id_num(xot.xml_space_name()),
        enc(xot.local_name_str(xot.xml_space_name())),
        id_num(xot.xml_id_name()),
        enc(xot.local_name_str(xot.xml_id_name()))
    )
}

/// runs one history on the real crate; returns the observation line; reports oracle failures
fn run_history(case: &str, ops: &[Op], out: &mut Out, stats: &mut Stats) -> String {
    let mut xot = Xot::new();
    let mut ids = Ids { names: vec![], nss: vec![], prefixes: vec![] };
    let mut orc = Oracle::default();
    let mut obs: Vec<String> = vec![builtin_obs(&xot)];
    let mut fail = |out: &mut Out, class: &str, t: String| out.fail(case, class, &t);

    // built-ins: distinct, standard strings
    {
        let b = [
            (xot.namespace_str(xot.no_namespace()), ""),
            (xot.prefix_str(xot.empty_prefix()), ""),
            (xot.namespace_str(xot.xml_namespace()), "http://www.w3.org/XML/1998/namespace"),
            (xot.prefix_str(xot.xml_prefix()), "xml"),
            (xot.name_ns_str(xot.xml_space_name()).0, "space"),
            (xot.name_ns_str(xot.xml_id_name()).0, "id"),
            (xot.name_ns_str(xot.xml_space_name()).1, "http://www.w3.org/XML/1998/namespace"),
            (xot.name_ns_str(xot.xml_id_name()).1, "http://www.w3.org/XML/1998/namespace"),
        ];
        for (got, want) in b {
            if got != want {
                fail(out, "builtin-string", format!("built-in resolves to {:?}, expected {:?}", got, want));
            }
        }
        if xot.no_namespace() == xot.xml_namespace() || xot.empty_prefix() == xot.xml_prefix() || xot.xml_space_name() == xot.xml_id_name() {
            fail(out, "builtin-distinct", "built-in ids are not distinct".into());
        }
        let n0 = id_num(xot.no_namespace());
        let n1 = id_num(xot.xml_namespace());
        let _ = reg(&mut orc.ns_by_str, &mut orc.ns_by_id, String::new(), n0);
        let _ = reg(&mut orc.ns_by_str, &mut orc.ns_by_id, "http://www.w3.org/XML/1998/namespace".to_string(), n1);
        let _ = reg(&mut orc.p_by_str, &mut orc.p_by_id, String::new(), id_num(xot.empty_prefix()));
        let _ = reg(&mut orc.p_by_str, &mut orc.p_by_id, "xml".to_string(), id_num(xot.xml_prefix()));
        let _ = reg(&mut orc.n_by_val, &mut orc.n_by_id, ("space".to_string(), n1), id_num(xot.xml_space_name()));
        let _ = reg(&mut orc.n_by_val, &mut orc.n_by_id, ("id".to_string(), n1), id_num(xot.xml_id_name()));
        Ids::put(&mut ids.nss, xot.no_namespace());
        Ids::put(&mut ids.nss, xot.xml_namespace());
        Ids::put(&mut ids.prefixes, xot.empty_prefix());
        Ids::put(&mut ids.prefixes, xot.xml_prefix());
        Ids::put(&mut ids.names, xot.xml_space_name());
        Ids::put(&mut ids.names, xot.xml_id_name());
    }

    for (k, op) in ops.iter().enumerate() {
        stats.bump(&format!("op.{}", op_str(op).split(' ').next().unwrap()));
        let o = match op {
            Op::AddNameNs(s, n) => {
                let ns = Ids::get(&ids.nss, *n).expect("known ns id");
                // a name in no namespace is registered through add_name every other time (the same entry point by contract)
                let plain = ns == xot.no_namespace() && k % 2 == 1;
                match guard(|| if plain { xot.add_name(s) } else { xot.add_name_ns(s, ns) }) {
                    Ok(id) => {
                        let i = Ids::put(&mut ids.names, id);
                        if let Err(e) = reg(&mut orc.n_by_val, &mut orc.n_by_id, (s.clone(), *n), i) {
                            fail(out, "name-alias", format!("step {}: {}", k, e));
                        }
                        let (l, u) = xot.name_ns_str(id);
                        if l != s || Some(u) != orc.ns_by_id.get(n).map(|x| x.as_str()) {
                            fail(out, "name-lookup", format!("step {}: name id {} resolves to ({:?},{:?}), registered ({:?}, ns {})", k, i, l, u, s, n));
                        }
                        format!("i{}", i)
                    }
                    Err(()) => {
                        fail(out, "panic", format!("step {}: add_name_ns panicked", k));
                        "P".into()
                    }
                }
            }
            Op::AddNamespace(s) => match guard(|| xot.add_namespace(s)) {
                Ok(id) => {
                    let i = Ids::put(&mut ids.nss, id);
                    if let Err(e) = reg(&mut orc.ns_by_str, &mut orc.ns_by_id, s.clone(), i) {
                        fail(out, "namespace-alias", format!("step {}: {}", k, e));
                    }
                    if xot.namespace_str(id) != s {
                        fail(out, "namespace-lookup", format!("step {}: namespace id {} resolves to {:?}", k, i, xot.namespace_str(id)));
                    }
                    format!("i{}", i)
                }
                Err(()) => {
                    fail(out, "panic", format!("step {}: add_namespace panicked", k));
                    "P".into()
                }
            },
            Op::AddPrefix(s) => match guard(|| xot.add_prefix(s)) {
                Ok(id) => {
                    let i = Ids::put(&mut ids.prefixes, id);
                    if let Err(e) = reg(&mut orc.p_by_str, &mut orc.p_by_id, s.clone(), i) {
                        fail(out, "prefix-alias", format!("step {}: {}", k, e));
                    }
                    if xot.prefix_str(id) != s {
                        fail(out, "prefix-lookup", format!("step {}: prefix id {} resolves to {:?}", k, i, xot.prefix_str(id)));
                    }
                    format!("i{}", i)
                }
                Err(()) => {
                    fail(out, "panic", format!("step {}: add_prefix panicked", k));
                    "P".into()
                }
            },
            Op::LookupNameNs(s, n) => {
                let ns = Ids::get(&ids.nss, *n).expect("known ns id");
                let got = xot.name_ns(s, ns).map(id_num);
                // the lookup without a namespace argument is the same lookup in no namespace
                if ns == xot.no_namespace() {
                    let plain = xot.name(s).map(id_num);
                    if plain != got {
                        fail(out, "readonly-lookup", format!("step {}: name({:?}) = {:?} but name_ns({:?}, no namespace) = {:?}", k, s, plain, s, got));
                    }
                }
                // Parse / html5 register names the oracle has not seen: learn them (they must not alias)
                let want = orc.n_by_val.get(&(s.clone(), *n)).copied();
                if want.is_some() && got != want {
                    fail(out, "readonly-lookup", format!("step {}: name_ns({:?},{}) = {:?}, registered as {:?}", k, s, n, got, want));
                }
                if let Some(g) = got {
                    if let Err(e) = reg(&mut orc.n_by_val, &mut orc.n_by_id, (s.clone(), *n), g) {
                        fail(out, "name-alias", format!("step {}: {}", k, e));
                    }
                    if let Some(nsid) = Ids::get(&ids.nss, *n) {
                        let _ = nsid;
                    }
                }
                match got {
                    Some(i) => format!("o{}", i),
                    None => "o-".into(),
                }
            }
            Op::LookupNamespace(s) => {
                let got = xot.namespace(s).map(id_num);
                let want = orc.ns_by_str.get(s).copied();
                if want.is_some() && got != want {
                    fail(out, "readonly-lookup", format!("step {}: namespace({:?}) = {:?}, registered as {:?}", k, s, got, want));
                }
                if let Some(g) = got {
                    if let Err(e) = reg(&mut orc.ns_by_str, &mut orc.ns_by_id, s.clone(), g) {
                        fail(out, "namespace-alias", format!("step {}: {}", k, e));
                    }
                    Ids::put(&mut ids.nss, xot.namespace(s).unwrap());
                }
                match got {
                    Some(i) => format!("o{}", i),
                    None => "o-".into(),
                }
            }
            Op::LookupPrefix(s) => {
                let got = xot.prefix(s).map(id_num);
                let want = orc.p_by_str.get(s).copied();
                if want.is_some() && got != want {
                    fail(out, "readonly-lookup", format!("step {}: prefix({:?}) = {:?}, registered as {:?}", k, s, got, want));
                }
                if let Some(g) = got {
                    if let Err(e) = reg(&mut orc.p_by_str, &mut orc.p_by_id, s.clone(), g) {
                        fail(out, "prefix-alias", format!("step {}: {}", k, e));
                    }
                    Ids::put(&mut ids.prefixes, xot.prefix(s).unwrap());
                }
                match got {
                    Some(i) => format!("o{}", i),
                    None => "o-".into(),
                }
            }
            Op::NameStr(i) => match Ids::get(&ids.names, *i) {
                Some(id) => match guard(|| {
                    let (l, u) = xot.name_ns_str(id);
                    (l.to_string(), u.to_string())
                }) {
                    Ok((l, u)) => {
                        if let Some((wl, wn)) = orc.n_by_id.get(i) {
                            if &l != wl || Some(&u) != orc.ns_by_id.get(wn) {
                                fail(out, "name-lookup", format!("step {}: name id {} resolves to ({:?},{:?}), registered ({:?}, ns {})", k, i, l, u, wl, wn));
                            }
                        }
                        format!("n{}/{}", enc(&l), enc(&u))
                    }
                    Err(()) => "n!".into(),
                },
                None => "n!".into(),
            },
            Op::NamespaceStr(i) => match Ids::get(&ids.nss, *i) {
                Some(id) => {
                    let s = xot.namespace_str(id).to_string();
                    if let Some(w) = orc.ns_by_id.get(i) {
                        if &s != w {
                            fail(out, "namespace-lookup", format!("step {}: namespace id {} resolves to {:?}, registered {:?}", k, i, s, w));
                        }
                    }
                    format!("s{}", enc(&s))
                }
                None => "s!".into(),
            },
            Op::PrefixStr(i) => match Ids::get(&ids.prefixes, *i) {
                Some(id) => {
                    let s = xot.prefix_str(id).to_string();
                    if let Some(w) = orc.p_by_id.get(i) {
                        if &s != w {
                            fail(out, "prefix-lookup", format!("step {}: prefix id {} resolves to {:?}, registered {:?}", k, i, s, w));
                        }
                    }
                    format!("s{}", enc(&s))
                }
                None => "s!".into(),
            },
            Op::Html5 => {
                match guard(|| {
                    xot.html5();
                }) {
                    Ok(()) => {
                        // the three namespaces html5() is specified to register
                        let x = xot.namespace("https://www.w3.org/1999/xhtml").or(xot.namespace("http://www.w3.org/1999/xhtml"));
                        let m = xot.namespace("http://www.w3.org/1998/Math/MathML");
                        let s = xot.namespace("http://www.w3.org/2000/svg");
                        for id in [x, m, s].into_iter().flatten() {
                            let i = Ids::put(&mut ids.nss, id);
                            if let Err(e) = reg(&mut orc.ns_by_str, &mut orc.ns_by_id, xot.namespace_str(id).to_string(), i) {
                                fail(out, "namespace-alias", format!("step {}: {}", k, e));
                            }
                        }
                        for n in ["a", "BR", "script", "wbr", "WBR"] {
                            if let Some(id) = xot.name(n) {
                                Ids::put(&mut ids.names, id);
                            }
                        }
                        format!("h{},{},{}", x.map(id_num).unwrap_or(999999), m.map(id_num).unwrap_or(999999), s.map(id_num).unwrap_or(999999))
                    }
                    Err(()) => {
                        fail(out, "panic", format!("step {}: html5() panicked", k));
                        "P".into()
                    }
                }
            }
            Op::Clone => {
                let copy = xot.clone();
                // every id denotes an equal name in both stores
                for (i, s) in &orc.ns_by_id {
                    if let Some(id) = Ids::get(&ids.nss, *i) {
                        if copy.namespace_str(id) != s || xot.namespace_str(id) != s {
                            fail(out, "clone", format!("step {}: namespace id {} differs after clone", k, i));
                        }
                    }
                }
                for (i, s) in &orc.p_by_id {
                    if let Some(id) = Ids::get(&ids.prefixes, *i) {
                        if copy.prefix_str(id) != s || xot.prefix_str(id) != s {
                            fail(out, "clone", format!("step {}: prefix id {} differs after clone", k, i));
                        }
                    }
                }
                for (i, (l, _)) in &orc.n_by_id {
                    if let Some(id) = Ids::get(&ids.names, *i) {
                        if copy.local_name_str(id) != l || xot.name_ns_str(id) != copy.name_ns_str(id) {
                            fail(out, "clone", format!("step {}: name id {} differs after clone", k, i));
                        }
                    }
                }
                xot = copy; // the history continues on the copy
                "u".into()
            }
            Op::Parse(s) => {
                let _ = guard(|| {
                    let _ = xot.parse(s);
                });
                "-".into() // not part of the model stream
            }
        };
        obs.push(o);
    }
    // end of history: every registration the oracle saw still resolves (ids never change meaning)
    for (i, s) in &orc.ns_by_id {
        if let Some(id) = Ids::get(&ids.nss, *i) {
            if xot.namespace_str(id) != s || xot.namespace(s) != Some(id) {
                fail(out, "stability", format!("namespace id {} no longer denotes {:?}", i, s));
            }
        }
    }
    for (i, s) in &orc.p_by_id {
        if let Some(id) = Ids::get(&ids.prefixes, *i) {
            if xot.prefix_str(id) != s || xot.prefix(s) != Some(id) {
                fail(out, "stability", format!("prefix id {} no longer denotes {:?}", i, s));
            }
        }
    }
    for (i, (l, n)) in &orc.n_by_id {
        if let (Some(id), Some(ns)) = (Ids::get(&ids.names, *i), Ids::get(&ids.nss, *n)) {
            if xot.local_name_str(id) != l || xot.namespace_for_name(id) != ns || xot.name_ns(l, ns) != Some(id) {
                fail(out, "stability", format!("name id {} no longer denotes ({:?}, ns {})", i, l, n));
            }
        }
    }
    obs.join(";")
}

/// thorough: more distinct entries than a 16-bit id can number, per table (oracle only; the model proves
/// the law symbolically for every length)
fn long_history(table: &str, n: usize, out: &mut Out, stats: &mut Stats) {
    let case = format!("long-{}", table);
    out.oracle_case(&format!("{} {}", case, n));
    let mut xot = Xot::new();
    let mut seen: HashMap<u64, String> = HashMap::new();
    let r = guard(|| {
        for k in 0..n {
            let s = format!("v{}", k);
            let id = match table {
                "name" => id_num(xot.add_name(&s)),
                "namespace" => id_num(xot.add_namespace(&s)),
                _ => id_num(xot.add_prefix(&s)),
            };
            if let Some(old) = seen.get(&id) {
                return Err(format!("registration #{} ({:?}) received id {}, which already denotes {:?}", k, s, id, old));
            }
            seen.insert(id, s);
        }
        // look every id up again
        for k in 0..n {
            let s = format!("v{}", k);
            let ok = match table {
                "name" => xot.name(&s).map(|i| xot.local_name_str(i) == s),
                "namespace" => xot.namespace(&s).map(|i| xot.namespace_str(i) == s),
                _ => xot.prefix(&s).map(|i| xot.prefix_str(i) == s),
            };
            if ok != Some(true) {
                return Err(format!("entry {:?} does not look up to itself after {} registrations", s, n));
            }
        }
        Ok(())
    });
    stats.add("long.registrations", n as u64);
    match r {
        Ok(Ok(())) => {}
        Ok(Err(e)) => out.fail(&case, "id-width-alias", &e),
        Err(()) => out.fail(&case, "panic", &format!("panicked within {} registrations on table {}", n, table)),
    }
}

fn main() {
    quiet_panics();
    let a = args();
    let mut out = Out::new(&a.out);
    let mut stats = Stats::default();
    if let Some(path) = &a.replay {
        let text = std::fs::read_to_string(path).expect("replay file");
        for line in text.lines().filter(|l| !l.trim().is_empty()) {
            if let Some(rest) = line.strip_prefix("long-") {
                let (table, n) = rest.split_once(' ').unwrap();
                long_history(table, n.parse().unwrap(), &mut out, &mut stats);
                continue;
            }
            let (case, ops) = parse_case(line);
            out.case(line);
            let o = run_history(&case, &ops, &mut out, &mut stats);
            out.imp(&format!("{} {}", case, o));
        }
        out.finish(&stats);
        return;
    }
    let base = Rng::new(a.seed);
    for k in 0..a.n {
        let mut r = base.fork(k as u64);
        let len = if k % 10 == 0 { 120 } else { 5 + r.below(40) };
        // every fifth history also parses documents (implicit registrations); those are checked by the
        // oracle only and are not part of the model stream
        let oracle_only = k % 5 == 4;
        let ops = gen_history(&mut r, len, oracle_only);
        let case = format!("c{}", k);
        let model_ops: Vec<String> = ops.iter().map(op_str).collect();
        let line = format!("{} {}", case, model_ops.join(";"));
        if oracle_only {
            stats.bump("oracle_only_histories");
            let regs = ops.iter().filter(|o| matches!(o, Op::Parse(_))).count();
            stats.case(&line, regs >= 1);
            let mut sink = String::new();
            std::mem::swap(&mut sink, &mut String::new());
            out.oracle_case(&line);
            let _ = run_history(&case, &ops, &mut out, &mut stats);
            continue;
        }
        out.case(&line);
        let regs = ops.iter().filter(|o| matches!(o, Op::AddNameNs(..) | Op::AddNamespace(_) | Op::AddPrefix(_))).count();
        stats.case(&line, regs >= 2);
        stats.sample(&line);
        let o = run_history(&case, &ops, &mut out, &mut stats);
        out.imp(&format!("{} {}", case, o));
    }
    if a.tier == "thorough" {
        for t in ["name", "namespace", "prefix"] {
            long_history(t, 70_000, &mut out, &mut stats);
        }
    } else {
        // quick: still cross the 16-bit boundary on one table (65 600 registrations take ~50 ms)
        long_history("name", 65_600, &mut out, &mut stats);
    }
    out.finish(&stats);
}

fn parse_case(line: &str) -> (String, Vec<Op>) {
    let (case, rest) = line.split_once(' ').unwrap_or((line, ""));
    let mut ops = vec![];
    for o in rest.split(';').filter(|s| !s.is_empty()) {
        let f: Vec<&str> = o.split(' ').collect();
        ops.push(match f[0] {
            "an" => Op::AddNameNs(dec(f[1]), f[2].parse().unwrap()),
            "ans" => Op::AddNamespace(dec(f[1])),
            "ap" => Op::AddPrefix(dec(f[1])),
            "ln" => Op::LookupNameNs(dec(f[1]), f[2].parse().unwrap()),
            "lns" => Op::LookupNamespace(dec(f[1])),
            "lp" => Op::LookupPrefix(dec(f[1])),
            "ns" => Op::NameStr(f[1].parse().unwrap()),
            "nss" => Op::NamespaceStr(f[1].parse().unwrap()),
            "ps" => Op::PrefixStr(f[1].parse().unwrap()),
            "h5" => Op::Html5,
            "cl" => Op::Clone,
            "parse" => Op::Parse(dec(f[1])),
            x => panic!("unknown op {}", x),
        });
    }
    (case.to_string(), ops)
}
