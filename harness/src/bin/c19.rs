//! C19 — HTML5 serialisation follows the HTML rules and never panics.
//!
//! Case line:  <case> <tables> | <tree> | <node>@cd=..;su=..;in=0|1 , ...        Observation per query: ok:<text> | ERR:<kind> | PANIC
use xh::common::*;
use xh::tree::*;
use xot::output::{html5, Indentation};
use xot::{Node, Value, Xot};

const XHTML: &str = "http://www.w3.org/1999/xhtml";
const XHTML_CRATE: &str = "https://www.w3.org/1999/xhtml"; // what src/output/html5elements.rs calls XHTML_NS
const MATHML: &str = "http://www.w3.org/1998/Math/MathML";
const SVG: &str = "http://www.w3.org/2000/svg";
// void elements as XSLT and XQuery Serialization 3.1 (section 7.1, the specification the crate's HTML5 method follows) lists them:
// the HTML5 list (which includes keygen) together with the HTML 4 ones (basefont, frame, isindex)
const VOID: &[&str] = &["area", "base", "br", "col", "embed", "hr", "img", "input", "keygen", "link", "meta", "param", "source", "track", "wbr",
                        "basefont", "frame", "isindex"];

struct HPool { pool: Pool }

fn make_html_pool(xot: &mut Xot, reg: &mut Reg) -> HPool {
    let mut uris = vec![0usize];
    for u in [XHTML, XHTML_CRATE, MATHML, SVG, "urn:foreign?a=1&b=\"2\""] { uris.push(reg.ns(xot, u)); }
    let mut prefixes = vec![0usize];
    for p in ["h", "s", "m", "f"] { prefixes.push(reg.prefix(xot, p)); }
    let mut names = vec![];
    let mut pi_names = vec![];
    for l in ["p", "P", "br", "BR", "Br", "div", "span", "script", "STYLE", "pre", "img", "a", "em", "option", "foo", "li"] {
        let i = reg.name(xot, l, 0);
        names.push(i);
        names.push(reg.name(xot, l, uris[1]));
        if l.len() <= 2 { names.push(reg.name(xot, l, uris[2])); }
        if ["foo", "a", "p"].contains(&l) { names.push(reg.name(xot, l, uris[5])); pi_names.push(i); }
    }
    for l in ["svg", "circle", "g"] { names.push(reg.name(xot, l, uris[4])); names.push(reg.name(xot, l, uris[4])); }
    for l in ["math", "mi"] { names.push(reg.name(xot, l, uris[3])); }
    let mut attr_names = vec![];
    for l in ["selected", "checked", "href", "class", "DISABLED"] { attr_names.push(reg.name(xot, l, 0)); }
    attr_names.push(reg.name(xot, "selected", uris[1]));
    attr_names.push(reg.name(xot, "href", uris[4]));
    attr_names.push(reg.name(xot, "k", uris[5]));
    let (mut extra_prefixes, mut extra_uris, mut extra_attrs) = (vec![], vec![], vec![]);
    for i in 0..24 {
        extra_prefixes.push(reg.prefix(xot, &format!("x{}", i)));
        extra_uris.push(reg.ns(xot, &format!("urn:x{}", i)));
        extra_attrs.push(reg.name(xot, &format!("k{}", i), 0));
    }
    HPool { pool: Pool { uris, prefixes, names, pi_names, attr_names, extra_prefixes, extra_uris, extra_attrs } }
}

#[derive(Clone, Debug)]
struct Q { node: usize, cdata: Vec<usize>, suppress: Vec<usize>, indent: bool }

fn q_text(q: &Q) -> String {
    let l = |v: &Vec<usize>| if v.is_empty() { "-".to_string() } else { v.iter().map(|x| x.to_string()).collect::<Vec<_>>().join("+") };
    format!("{}@cd={};su={};in={}", q.node, l(&q.cdata), l(&q.suppress), if q.indent { 1 } else { 0 })
}
fn parse_q(s: &str) -> Q {
    let (n, p) = s.split_once('@').unwrap();
    let mut q = Q { node: n.parse().unwrap(), cdata: vec![], suppress: vec![], indent: false };
    for f in p.split(';') {
        let (k, v) = f.split_once('=').unwrap();
        let l = |v: &str| -> Vec<usize> { if v == "-" { vec![] } else { v.split('+').map(|x| x.parse().unwrap()).collect() } };
        match k { "cd" => q.cdata = l(v), "su" => q.suppress = l(v), "in" => q.indent = v == "1", _ => {} }
    }
    q
}

#[derive(Debug, Clone, PartialEq)]
enum Ev { Start(String, Vec<(String, Option<String>)>, bool), End(String), Text(String), Comment(String), Pi(String) }

fn raw_text_element(name: &str) -> bool { name.eq_ignore_ascii_case("script") || name.eq_ignore_ascii_case("style") }

/// a small HTML tokenizer for what the serialiser writes
fn scan(s: &str) -> Result<Vec<Ev>, String> {
    let b: Vec<char> = s.chars().collect();
    let mut i = 0;
    let mut out = vec![];
    // the default namespace in force per open element: `script` / `style` hold raw text only as HTML elements, i.e. not under a
    // default-namespace declaration for a foreign namespace (the property speaks of script and style, the HTML elements)
    let mut dflt: Vec<(String, Option<String>)> = vec![];   // (name as written, default namespace in force inside)
    let starts = |i: usize, p: &str| -> bool { let pc: Vec<char> = p.chars().collect(); i + pc.len() <= b.len() && b[i..i + pc.len()] == pc[..] };
    while i < b.len() {
        if starts(i, "<!--") {
            let mut j = i + 4;
            while j < b.len() && !starts(j, "-->") { j += 1; }
            if j >= b.len() { return Err("unterminated comment".into()); }
            out.push(Ev::Comment(b[i + 4..j].iter().collect()));
            i = j + 3;
        } else if starts(i, "<![CDATA[") {
            let mut j = i + 9;
            while j < b.len() && !starts(j, "]]>") { j += 1; }
            if j >= b.len() { return Err("unterminated CDATA".into()); }
            out.push(Ev::Text(format!("\u{1}{}", b[i + 9..j].iter().collect::<String>()))); // \u{1} marks CDATA content (not to be decoded)
            i = j + 3;
        } else if starts(i, "<?") {
            let mut j = i + 2;
            while j < b.len() && b[j] != '>' { j += 1; }
            if j >= b.len() { return Err("unterminated PI".into()); }
            out.push(Ev::Pi(b[i + 2..j].iter().collect()));
            i = j + 1;
        } else if starts(i, "</") {
            let mut j = i + 2;
            while j < b.len() && b[j] != '>' { j += 1; }
            if j >= b.len() { return Err("unterminated end tag".into()); }
            let en: String = b[i + 2..j].iter().collect();
            // void elements have no end tag: close everything down to the element this end tag names
            if let Some(pos) = dflt.iter().rposition(|(n, _)| *n == en) { dflt.truncate(pos); }
            out.push(Ev::End(en));
            i = j + 1;
        } else if b[i] == '<' {
            let mut j = i + 1;
            while j < b.len() && !b[j].is_whitespace() && b[j] != '>' && b[j] != '/' { j += 1; }
            let name: String = b[i + 1..j].iter().collect();
            if name.is_empty() { return Err(format!("stray '<' at {}", i)); }
            let mut attrs = vec![];
            let mut self_closed = false;
            loop {
                while j < b.len() && b[j].is_whitespace() { j += 1; }
                if j >= b.len() { return Err("unterminated tag".into()); }
                if b[j] == '>' { j += 1; break; }
                if b[j] == '/' && j + 1 < b.len() && b[j + 1] == '>' { self_closed = true; j += 2; break; }
                let a0 = j;
                while j < b.len() && !b[j].is_whitespace() && b[j] != '=' && b[j] != '>' && b[j] != '/' { j += 1; }
                let an: String = b[a0..j].iter().collect();
                if an.is_empty() { return Err(format!("malformed tag at {}", j)); }
                if j < b.len() && b[j] == '=' {
                    if j + 1 >= b.len() || b[j + 1] != '"' { return Err("attribute value is not double-quoted".into()); }
                    let v0 = j + 2;
                    let mut k = v0;
                    while k < b.len() && b[k] != '"' { k += 1; }
                    if k >= b.len() { return Err("unterminated attribute value".into()); }
                    attrs.push((an, Some(b[v0..k].iter().collect())));
                    j = k + 1;
                } else {
                    attrs.push((an, None));
                }
            }
            let own: Option<String> = attrs.iter().find(|(a, _)| a == "xmlns").and_then(|(_, v)| v.clone());
            let in_force: Option<String> = own.or_else(|| dflt.last().and_then(|(_, d)| d.clone()));
            let html_scope = match &in_force { None => true, Some(u) => u.is_empty() || u == XHTML || u == XHTML_CRATE };
            let raw = raw_text_element(&name) && !name.contains(':') && html_scope;
            let void_like = self_closed;
            out.push(Ev::Start(name.clone(), attrs, self_closed));
            if !void_like { dflt.push((name.clone(), in_force)); }
            i = j;
            if raw && !self_closed {
                // raw text up to the matching end tag
                let close: Vec<char> = format!("</{}", name).chars().collect();
                let mut k = i;
                while k < b.len() && !(k + close.len() <= b.len() && b[k..k + close.len()].iter().zip(close.iter()).all(|(x, y)| x.eq_ignore_ascii_case(y))) { k += 1; }
                if k > i { out.push(Ev::Text(format!("\u{2}{}", b[i..k].iter().collect::<String>()))); } // \u{2} marks raw text
                i = k;
            }
        } else {
            let mut j = i;
            while j < b.len() && b[j] != '<' { j += 1; }
            out.push(Ev::Text(b[i..j].iter().collect()));
            i = j;
        }
    }
    Ok(out)
}

/// decodes the references the serialiser writes; Err on a raw '&' that starts none of them
fn decode(s: &str) -> Result<String, String> {
    let mut out = String::new();
    let mut rest = s;
    while let Some(i) = rest.find('&') {
        out.push_str(&rest[..i]);
        let tail = &rest[i..];
        let semi = tail.find(';').ok_or_else(|| "raw '&'".to_string())?;
        let ent = &tail[1..semi];
        let c = match ent {
            "amp" => '&', "lt" => '<', "gt" => '>', "quot" => '"', "apos" => '\'', "nbsp" => '\u{a0}',
            _ if ent.starts_with("#x") => char::from_u32(u32::from_str_radix(&ent[2..], 16).map_err(|_| "raw '&'".to_string())?).ok_or("raw '&'")?,
            _ if ent.starts_with('#') => char::from_u32(ent[1..].parse::<u32>().map_err(|_| "raw '&'".to_string())?).ok_or("raw '&'")?,
            _ => return Err("raw '&'".into()),
        };
        out.push(c);
        rest = &tail[semi + 1..];
    }
    out.push_str(rest);
    Ok(out)
}

/// the property, judged on the written text against the source subtree.  Returns (class, text) failures.
fn judge(xot: &Xot, node: Node, q: &Q, cdata: &[xot::NameId], text: &str) -> Vec<(String, String)> {
    let mut bad = vec![];
    let body = match text.strip_prefix("<!DOCTYPE html>") { Some(b) => b, None => { bad.push(("no-doctype".to_string(), format!("output does not start with the HTML doctype: {:?}", text))); return bad; } };
    let evs = match scan(body) { Ok(e) => e, Err(why) => { bad.push(("output-not-html".to_string(), format!("{} in {:?}", why, text))); return bad; } };
    let is_html_ns = |u: &str| u.is_empty() || u == XHTML;
    // expected events of the source, in document order
    let mut k = 0usize;
    let mut default_ns: Vec<Option<String>> = vec![]; // default namespace in force per open element of the OUTPUT
    let skip_ws = |evs: &Vec<Ev>, k: &mut usize| { if q.indent { while *k < evs.len() { if let Ev::Text(t) = &evs[*k] { if t.chars().all(|c| c == ' ' || c == '\n') { *k += 1; continue; } } break; } } };
    let mut open_names: Vec<String> = vec![];
    // one source text node against the run of written text segments
    let text_node = |n: Node, t: &str, evs: &Vec<Ev>, k: &mut usize, bad: &mut Vec<(String, String)>| {
        // the parent of the node that is serialized is not part of the output: a text node written on its own is escaped as
        // HTML text whatever element it sits in in the tree
        let parent = if n == node { None } else { xot.parent(n).and_then(|p| xot.element(p).map(|e| e.name())) };
        let (pl, pu) = match parent { Some(pn) => { let (l, u) = xot.name_ns_str(pn); (l.to_string(), u.to_string()) } None => (String::new(), "-".to_string()) };
        let raw_parent = parent.is_some() && is_html_ns(&pu) && raw_text_element(&pl);
        let cdata_parent = parent.map(|pn| cdata.contains(&pn)).unwrap_or(false);
        let under_xhtml = pu == XHTML;
        let mut raw = String::new();
        let mut decoded = String::new();
        let mut any_cdata = false;
        while *k < evs.len() {
            if let Ev::Text(seg) = &evs[*k] {
                if let Some(c) = seg.strip_prefix('\u{1}') { any_cdata = true; raw.push_str(c); decoded.push_str(c); }
                else if let Some(c) = seg.strip_prefix('\u{2}') { raw.push_str(c); decoded.push_str(c); }
                else {
                    raw.push_str(seg);
                    match decode(seg) { Ok(d) => decoded.push_str(&d), Err(why) => { if !raw_parent { bad.push((if under_xhtml { "xhtml-namespace-not-recognised".to_string() } else { "text-not-escaped".to_string() }, format!("{} in text {:?}", why, seg))); } decoded.push_str(seg); } }
                }
                *k += 1;
            } else { break; }
        }
        if q.indent { return; }
        let cls = |c: &str| if under_xhtml { "xhtml-namespace-not-recognised".to_string() } else { c.to_string() };
        if raw_parent {
            // '<' and '&' appear raw inside script and style
            if raw != t { bad.push((cls("raw-text-differs"), format!("text {:?} of <{}> is written as {:?}", t, pl, raw))); }
        } else {
            if any_cdata && !cdata_parent { bad.push((cls("unrequested-cdata"), format!("text {:?} under {} is written as a CDATA section", t, pl))); }
            if decoded != t { bad.push((cls("text-differs"), format!("character data {:?} is written so that it reads {:?}", t, decoded))); }
        }
    };
    for e in xot.traverse(node) {
        match e {
            xot::NodeEdge::Start(n) => match xot.value(n) {
                Value::Text(t) => { text_node(n, t.get(), &evs, &mut k, &mut bad); }
                Value::Element(el) => {
                    skip_ws(&evs, &mut k);
                    let (local, uri) = xot.name_ns_str(el.name());
                    match evs.get(k) {
                        Some(Ev::Start(name, attrs, self_closed)) => {
                            if *self_closed { bad.push(("self-closed".to_string(), format!("<{}/> is self-closed", name))); }
                            let xmlns = attrs.iter().find(|(a, _)| a == "xmlns").and_then(|(_, v)| v.clone());
                            let inherited = default_ns.last().cloned().flatten();
                            let now = xmlns.clone().or(inherited);
                            if is_html_ns(uri) {
                                if name != local { bad.push((if uri == XHTML { "xhtml-namespace-not-recognised".to_string() } else { "html-element-not-unprefixed".to_string() }, format!("element {{{}}}{} is written as <{}>", uri, local, name))); }
                            } else if uri == MATHML || uri == SVG {
                                if name != local { bad.push(("foreign-element-prefixed".to_string(), format!("element {{{}}}{} is written as <{}>", uri, local, name))); }
                                else if now.as_deref() != Some(uri) { bad.push(("foreign-element-without-default-namespace".to_string(), format!("<{}> in {} is written where the default namespace is {:?}", local, uri, now))); }
                            }
                            // attribute values: no raw '"' (the scanner would have cut there) and '&' only as a reference
                            for (an, av) in attrs {
                                if let Some(v) = av { if let Err(why) = decode(v) { bad.push(("attribute-not-escaped".to_string(), format!("{} in attribute {}={:?}", why, an, v))); } }
                            }
                            for (a, v) in xot.attributes(n).iter() {
                                let (al, au) = xot.name_ns_str(a);
                                let hit = attrs.iter().find(|(x, _)| if au.is_empty() { x == al } else { x.ends_with(&format!(":{}", al)) });
                                match hit {
                                    None => bad.push(("attribute-missing".to_string(), format!("attribute {} of <{}> is not written", al, name))),
                                    Some((_, Some(raw))) => { if let Ok(d) = decode(raw) { if d != *v { bad.push(("attribute-value-differs".to_string(), format!("attribute {}={:?} reads {:?}", al, v, d))); } } }
                                    Some((_, None)) => { if !al.eq_ignore_ascii_case(v) { bad.push(("attribute-value-differs".to_string(), format!("attribute {}={:?} is minimised", al, v))); } }
                                }
                            }
                            default_ns.push(now);
                            open_names.push(name.clone());
                            k += 1;
                        }
                        other => { bad.push(("structure-differs".to_string(), format!("expected the start tag of {}, found {:?}", local, other))); return bad; }
                    }
                }
                Value::Comment(c) => {
                    skip_ws(&evs, &mut k);
                    match evs.get(k) { Some(Ev::Comment(t)) if t == c.get() => k += 1, other => { bad.push(("structure-differs".to_string(), format!("expected comment {:?}, found {:?}", c.get(), other))); return bad; } }
                }
                Value::ProcessingInstruction(_) => {
                    skip_ws(&evs, &mut k);
                    match evs.get(k) { Some(Ev::Pi(_)) => k += 1, other => { bad.push(("structure-differs".to_string(), format!("expected a processing instruction, found {:?}", other))); return bad; } }
                }
                _ => {}
            },
            xot::NodeEdge::End(n) => {
                if let Value::Element(el) = xot.value(n) {
                    skip_ws(&evs, &mut k);
                    let (local, uri) = xot.name_ns_str(el.name());
                    let void = is_html_ns(uri) && VOID.iter().any(|v| v.eq_ignore_ascii_case(local));
                    let html = is_html_ns(uri);
                    let x = uri == XHTML;
                    default_ns.pop();
                    let written = open_names.pop().unwrap_or_default();
                    match evs.get(k) {
                        Some(Ev::End(en)) if *en != written => {
                            // the next end tag belongs to an ancestor: this element has none
                            if !(void || !html) { bad.push((if x { "xhtml-namespace-not-recognised".to_string() } else { "end-tag-missing".to_string() }, format!("element {{{}}}{} has no explicit end tag", uri, local))); return bad; }
                        }
                        Some(Ev::End(_)) if void => { bad.push((if x { "xhtml-namespace-not-recognised".to_string() } else { "void-element-with-end-tag".to_string() }, format!("void element {{{}}}{} has an end tag", uri, local))); k += 1; }
                        Some(Ev::End(_)) => k += 1,
                        other if void || !html => { let _ = other; }
                        other => { bad.push((if x { "xhtml-namespace-not-recognised".to_string() } else { "end-tag-missing".to_string() }, format!("element {{{}}}{} has no explicit end tag (found {:?})", uri, local, other))); return bad; }
                    }
                }
            }
        }
    }
    bad
}

/// HTML shapes only: script / style hold text only, void elements hold nothing
fn sanitize(a: &mut ANode, reg: &Reg) {
    match a {
        ANode::Doc(kids) => { for k in kids.iter_mut() { sanitize(k, reg); } }
        ANode::Elem { name, kids, .. } => {
            let (local, nsi, _) = &reg.names[*name];
            let uri = &reg.nss[*nsi].0;
            let htmlish = uri.is_empty() || uri == XHTML || uri == XHTML_CRATE;
            if htmlish && raw_text_element(local) {
                kids.retain(|k| matches!(k, ANode::Text(_)));
                // adjacent text nodes would be merged by the builder anyway; keep one
                kids.truncate(1);
                // the raw text of script / style cannot contain its own end tag
                for k in kids.iter_mut() { if let ANode::Text(t) = k { *t = t.replace('<', "("); } }
            } else if htmlish && VOID.iter().any(|v| v.eq_ignore_ascii_case(local)) {
                kids.clear();
            } else {
                for k in kids.iter_mut() { sanitize(k, reg); }
            }
        }
        _ => {}
    }
}

const TABLE_DOCS: usize = 30;
const ISLAND_DOCS: usize = 2 * 4 * 4 * 2 * 2 * 2;

/// every string literal of the name arrays in src/output/html5elements.rs (lower-case ASCII names)
fn table_names() -> Vec<String> {
    let repo = std::env::var("VERIF_REPO").unwrap_or_else(|_| "/repo".to_string());
    let src = std::fs::read_to_string(format!("{}/src/output/html5elements.rs", repo)).unwrap_or_default();
    let mut out: Vec<String> = vec![];
    let mut it = src.split('"');
    it.next();
    while let Some(lit) = it.next() {
        if !lit.is_empty() && lit.len() <= 12 && lit.chars().all(|c| c.is_ascii_lowercase() || c.is_ascii_digit()) && !out.iter().any(|x| x == lit) {
            out.push(lit.to_string());
        }
        it.next();
    }
    out
}

fn table_stream_len() -> usize { if table_names().is_empty() { 0 } else { TABLE_DOCS } }

fn spellings(n: &str) -> Vec<String> {
    let cap: String = n.chars().enumerate().map(|(i, c)| if i == 0 { c.to_ascii_uppercase() } else { c }).collect();
    let alt: String = n.chars().enumerate().map(|(i, c)| if i % 2 == 1 { c.to_ascii_uppercase() } else { c }).collect();
    let mut v = vec![n.to_string(), n.to_ascii_uppercase()];
    for s in [cap, alt] { if !v.contains(&s) { v.push(s); } }
    v
}

fn main() {
    quiet_panics();
    let a = args();
    let mut out = Out::new(&a.out);
    let mut stats = Stats::default();
    let replay: Option<Vec<String>> = a.replay.as_ref().map(|p| std::fs::read_to_string(p).expect("replay").lines().filter(|l| !l.trim().is_empty()).map(|s| s.to_string()).collect());
    let n = replay.as_ref().map(|v| v.len()).unwrap_or(a.n);
    let base = Rng::new(a.seed);
    for k in 0..n {
        let mut r = base.fork(k as u64);
        let mut xot = Xot::new();
        let mut reg = Reg::new(&xot);
        let hp = make_html_pool(&mut xot, &mut reg);
        let pool = &hp.pool;
        let (case, tree, queries): (String, ANode, Vec<Q>) = match &replay {
            Some(v) => {
                let (case, rest) = v[k].split_once(' ').unwrap();
                let parts: Vec<&str> = rest.split(" | ").collect();
                (case.to_string(), xh::treeparse::parse_anode(parts[1]).expect("tree"), parts[2].split(',').map(parse_q).collect())
            }
            None if k < table_stream_len() => {
                // table stream: every name of the crate's HTML name tables (read from the source, as the translator does), in three
                // letter-case spellings that are neither all-lower nor all-upper alone, in no namespace and in the namespace the
                // crate calls XHTML_NS, as empty elements under one <div>: void / end-tag, phrasing and formatted decisions per name
                let names = table_names();
                let per = (names.len() + TABLE_DOCS - 1) / TABLE_DOCS;
                let mut kids = vec![];
                for nm in names.iter().skip(k * per).take(per) {
                    for sp in spellings(nm) {
                        for u in [0usize, pool.uris[2]] {
                            let id = reg.name(&mut xot, &sp, u);
                            kids.push(ANode::Elem { name: id, ns: vec![], attrs: vec![], kids: vec![] });
                        }
                        // ... and in a foreign namespace, with markup characters in a text child: there the name means nothing
                        // (end tag, escaped text), whatever its spelling
                        let id = reg.name(&mut xot, &sp, pool.uris[5]);
                        kids.push(ANode::Elem { name: id, ns: vec![], attrs: vec![], kids: vec![ANode::Text("a<b&c".into())] });
                    }
                }
                let div = reg.name(&mut xot, "div", 0);
                let mut t = ANode::Doc(vec![ANode::Elem { name: div, ns: vec![], attrs: vec![], kids }]);
                declare_missing(&mut r, &mut t, &reg, pool, 100);
                (format!("c{}", k), t, vec![Q { node: 0, cdata: vec![], suppress: vec![], indent: false }, Q { node: 0, cdata: vec![], suppress: vec![], indent: true }])
            }
            None if k < table_stream_len() + ISLAND_DOCS => {
                // island stream (exhaustive): <div> declaring prefixes for SVG, MathML and a foreign namespace, with two foreign
                // islands one after the other.  The first is <s:svg> or <m:math> with no declaration of its own / its own
                // namespace as default / another namespace as default / its own prefix again, and no child / a child of its own
                // namespace / a child in the foreign namespace / an HTML child; the second is <s:svg> or <m:math> with nothing
                // or its own default declaration, empty or with a child of its own.  Every island must come out unprefixed under
                // a default declaration of its namespace, whatever the island before it declared.
                let mut j = k - table_stream_len();
                let mut take = |m: usize| -> usize { let v = j % m; j /= m; v };
                let (svg, math, foreign) = (pool.uris[4], pool.uris[3], pool.uris[5]);
                let (ps, pm, pf) = (pool.prefixes[2], pool.prefixes[3], pool.prefixes[4]);
                let nm = |xot: &mut Xot, reg: &mut Reg, l: &str, u: usize| reg.name(xot, l, u);
                let island = |xot: &mut Xot, reg: &mut Reg, is_svg: bool, decl: usize, child: usize| -> ANode {
                    let (u, p, top, inner) = if is_svg { (svg, ps, "svg", "circle") } else { (math, pm, "math", "mi") };
                    let ns = match decl { 0 => vec![], 1 => vec![(0, u)], 2 => vec![(0, foreign)], _ => vec![(p, u)] };
                    let kids = match child {
                        0 => vec![],
                        1 => vec![ANode::Elem { name: nm(xot, reg, inner, u), ns: vec![], attrs: vec![], kids: vec![] }],
                        2 => vec![ANode::Elem { name: nm(xot, reg, "foo", foreign), ns: vec![], attrs: vec![], kids: vec![ANode::Text("t".into())] }],
                        _ => vec![ANode::Elem { name: nm(xot, reg, "p", 0), ns: vec![], attrs: vec![], kids: vec![ANode::Text("t".into())] }],
                    };
                    ANode::Elem { name: nm(xot, reg, top, u), ns, attrs: vec![], kids }
                };
                let (k1, d1, c1) = (take(2) == 1, take(4), take(4));
                let (k2, d2, c2) = (take(2) == 1, take(2), take(2));
                let first = island(&mut xot, &mut reg, k1, d1, c1);
                let second = island(&mut xot, &mut reg, k2, d2, c2);
                let div = reg.name(&mut xot, "div", 0);
                let t = ANode::Doc(vec![ANode::Elem { name: div, ns: vec![(ps, svg), (pm, math), (pf, foreign)], attrs: vec![], kids: vec![first, ANode::Text("x".into()), second] }]);
                (format!("c{}", k), t, vec![Q { node: 0, cdata: vec![], suppress: vec![], indent: false }, Q { node: 1, cdata: vec![], suppress: vec![], indent: false }])
            }
            None => {
                let cfg = GenCfg { max_nodes: 22, max_depth: 5, doc_root: 55, fragment: 45, adjacent_text: false, empty_text: false, ..GenCfg::default() };
                let mut t = gen_tree(&mut r, &cfg, pool);
                make_representable(&mut t);
                sanitize(&mut t, &reg);
                declare_missing(&mut r, &mut t, &reg, pool, 90);
                (format!("c{}", k), t, vec![])
            }
        };
        let root = build(&mut xot, &reg, &tree);
        let (all, _) = preorder(&xot, root);
        let queries = if queries.is_empty() {
            let normal: Vec<usize> = (0..all.len()).filter(|i| !matches!(xot.value(all[*i]), Value::Attribute(_) | Value::Namespace(_))).collect();
            let sub = |r: &mut Rng| -> Vec<usize> { let mut v = vec![]; for nm in &pool.names { if r.chance(1, 10) { v.push(*nm); } } for i in (1..v.len()).rev() { let j = r.below(i + 1); v.swap(i, j); } v };
            let mut q = vec![Q { node: 0, cdata: vec![], suppress: vec![], indent: false }, Q { node: 0, cdata: sub(&mut r), suppress: sub(&mut r), indent: r.chance(1, 2) }];
            if !normal.is_empty() { for _ in 0..2 { q.push(Q { node: *r.pick(&normal), cdata: if r.chance(1, 3) { sub(&mut r) } else { vec![] }, suppress: vec![], indent: r.chance(1, 3) }); } }
            q
        } else { queries };
        let text = print_tree(&xot, &reg, root);
        let line = format!("{} {} | {} | {}", case, reg.tables(), text, queries.iter().map(q_text).collect::<Vec<_>>().join(","));
        out.case(&line);
        stats.case(&line, all.len() >= 3);
        stats.sample(&line);
        let names: Vec<xot::NameId> = reg.names.iter().map(|x| x.2).collect();
        // html5() registers the HTML namespaces and names: after everything the registry knows
        let view = xot.clone(); // Html5 borrows the Xot mutably: the oracle reads the tree through an identical copy
        let html = xot.html5();
        let mut obs = vec![];
        for (qi, q) in queries.iter().enumerate() {
            let node = all[q.node];
            let cd: Vec<xot::NameId> = q.cdata.iter().map(|i| names[*i]).collect();
            let params = html5::Parameters { indentation: if q.indent { Some(Indentation { suppress: q.suppress.iter().map(|i| names[*i]).collect() }) } else { None }, cdata_section_elements: cd.clone() };
            let res = guard(|| html.serialize_string(params.clone(), node));
            // the Write-based entry point and the *_with_normalizer forms (no-op normaliser) give the same bytes / the same refusal
            {
                let mut buf: Vec<u8> = vec![];
                let w = guard(|| html.serialize_write(params.clone(), node, &mut buf));
                let mut buf2: Vec<u8> = vec![];
                let w2 = guard(|| html.serialize_write_with_normalizer(params.clone(), node, &mut buf2, xot::output::NoopNormalizer));
                let s2 = guard(|| html.serialize_string_with_normalizer(params.clone(), node, xot::output::NoopNormalizer));
                let want: Option<&[u8]> = match &res { Ok(Ok(s)) => Some(s.as_bytes()), _ => None };
                for (label, got) in [("serialize_write", match &w { Ok(Ok(())) => Some(&buf[..]), _ => None }),
                                     ("serialize_write_with_normalizer", match &w2 { Ok(Ok(())) => Some(&buf2[..]), _ => None }),
                                     ("serialize_string_with_normalizer", match &s2 { Ok(Ok(s)) => Some(s.as_bytes()), _ => None })] {
                    if got != want { out.fail(&case, "html-write-differs", &format!("query {}: {} gives {:?} where serialize_string gives {:?}", qi, label, got.map(String::from_utf8_lossy), want.map(String::from_utf8_lossy))); }
                }
                // a writer that fails after k bytes: the call returns an error, it does not panic (k runs over a few places
                // of the output, so that the failing write is the doctype, a token, a space, an indentation or a line end)
                if let Some(w) = want {
                    for k in [0usize, 3, 15, 16, w.len() / 2, w.len().saturating_sub(1)] {
                        if k >= w.len() { continue; }
                        let mut fw = xh::common::FailingWriter { left: k };
                        match guard(|| html.serialize_write(params.clone(), node, &mut fw)) {
                            Ok(Err(_)) => { stats.bump("html.failing_writer_reported"); }
                            Ok(Ok(())) => out.fail(&case, "html-failing-writer", &format!("query {}: serialize_write into a writer that fails after {} bytes returned Ok", qi, k)),
                            Err(()) => out.fail(&case, "html-failing-writer", &format!("query {}: serialize_write into a writer that fails after {} bytes panicked", qi, k)),
                        }
                    }
                }
            }
            stats.bump(if q.indent { "params.indent" } else { "params.plain" });
            match res {
                Err(()) => { obs.push("PANIC".to_string()); out.fail(&case, "html-panic", &format!("query {}: HTML5 serialisation panicked", qi)); stats.bump("result.panic"); }
                Ok(Err(e)) => {
                    let kind = match e { xot::Error::MissingPrefix(_) => "MissingPrefix", xot::Error::NamespaceInProcessingInstruction => "NamespaceInPI", xot::Error::ProcessingInstructionGtInHtml(_) => "PIGt", _ => "Other" };
                    obs.push(format!("ERR:{}", kind));
                    stats.bump(&format!("result.err.{}", kind));
                }
                Ok(Ok(s)) => {
                    obs.push(format!("ok:{}", enc(&s)));
                    stats.bump("result.ok");
                    // a processing instruction containing '>' must have been refused
                    let x: &Xot = &view;
                    if x.descendants(node).any(|d| matches!(x.value(d), Value::ProcessingInstruction(p) if p.data().map(|t| t.contains('>')).unwrap_or(false))) {
                        out.fail(&case, "pi-with-gt-emitted", &format!("query {}: a processing instruction containing '>' was written: {:?}", qi, s));
                    }
                    for (cls, why) in judge(x, node, q, &cd, &s) {
                        out.fail(&case, &cls, &format!("query {}: {} — output {:?}", qi, why, s));
                    }
                }
            }
        }
        out.imp(&format!("{} {}", case, obs.join(" || ")));
    }
    out.finish(&stats);
}

