fn main() { xh::nsrun::main_for("C10"); }
