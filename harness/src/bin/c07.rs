//! C07 — axes and traversals obey the XPath document-order laws.
//!
//! For every generated tree and every node of it (attribute and namespace nodes included) every traversal
//! entry point of the real crate is called; the results are printed as lists of raw pre-order indexes in the
//! format the model driver prints.  Oracle: the same lists recomputed from an owned copy of the tree (parent
//! links + raw child order), plus the partition law.
use xh::common::*;
use xh::tree::*;
use xot::{Axis, Node, NodeEdge, Value, Xot};

#[derive(Clone, Copy, PartialEq, Eq, Debug)]
enum Cat {
    Normal,
    Attr,
    Ns,
}

struct Owned {
    cat: Vec<Cat>,
    is_elem: Vec<bool>,
    is_doc: Vec<bool>,
    is_text: Vec<bool>,
    parent: Vec<Option<usize>>,
    kids: Vec<Vec<usize>>, // raw order
    n: usize,
}

fn owned(xot: &Xot, root: Node) -> Owned {
    let (v, m) = preorder(xot, root);
    let n = v.len();
    let mut o = Owned { cat: vec![], is_elem: vec![], is_doc: vec![], is_text: vec![], parent: vec![None; n], kids: vec![vec![]; n], n };
    for node in &v {
        let val = xot.value(*node);
        o.cat.push(match val {
            Value::Attribute(_) => Cat::Attr,
            Value::Namespace(_) => Cat::Ns,
            _ => Cat::Normal,
        });
        o.is_elem.push(matches!(val, Value::Element(_)));
        o.is_doc.push(matches!(val, Value::Document));
        o.is_text.push(matches!(val, Value::Text(_)));
    }
    // structure from the nesting of all_traverse
    let mut stack: Vec<usize> = vec![];
    for e in xot.all_traverse(root) {
        match e {
            NodeEdge::Start(x) => {
                let i = m[&x];
                if let Some(&p) = stack.last() {
                    o.parent[i] = Some(p);
                    o.kids[p].push(i);
                }
                stack.push(i);
            }
            NodeEdge::End(_) => {
                stack.pop();
            }
        }
    }
    o
}

impl Owned {
    fn subtree_end(&self, i: usize) -> usize {
        // one past the last pre-order index of the subtree of i
        let mut e = i + 1;
        let mut stack = vec![i];
        while let Some(x) = stack.pop() {
            for &k in &self.kids[x] {
                e = e.max(k + 1);
                stack.push(k);
            }
        }
        e
    }
    fn ancestors_or_self(&self, i: usize) -> Vec<usize> {
        let mut v = vec![i];
        let mut c = i;
        while let Some(p) = self.parent[c] {
            v.push(p);
            c = p;
        }
        v
    }
    fn normal(&self, i: usize) -> bool {
        self.cat[i] == Cat::Normal
    }
    fn norm(&self, v: Vec<usize>) -> Vec<usize> {
        v.into_iter().filter(|&i| self.normal(i)).collect()
    }
    fn edges(&self, i: usize, out: &mut Vec<(bool, usize)>) {
        out.push((true, i));
        for &k in &self.kids[i] {
            self.edges(k, out);
        }
        out.push((false, i));
    }
}

fn show(v: &[usize]) -> String {
    if v.is_empty() {
        "-".into()
    } else {
        v.iter().map(|x| x.to_string()).collect::<Vec<_>>().join(",")
    }
}
fn show_opt(o: Option<usize>) -> String {
    match o {
        Some(i) => i.to_string(),
        None => "-".into(),
    }
}
fn show_edges(v: &[(bool, usize)]) -> String {
    if v.is_empty() {
        "-".into()
    } else {
        v.iter().map(|(s, i)| format!("{}{}", if *s { "S" } else { "E" }, i)).collect::<Vec<_>>().join(",")
    }
}

const AXES: [(Axis, &str); 12] = [
    (Axis::Child, "axChild"),
    (Axis::Descendant, "axDescendant"),
    (Axis::Parent, "axParent"),
    (Axis::Ancestor, "axAncestor"),
    (Axis::FollowingSibling, "axFollowingSibling"),
    (Axis::PrecedingSibling, "axPrecedingSibling"),
    (Axis::Following, "axFollowing"),
    (Axis::Preceding, "axPreceding"),
    (Axis::Attribute, "axAttribute"),
    (Axis::Self_, "axSelf"),
    (Axis::DescendantOrSelf, "axDescendantOrSelf"),
    (Axis::AncestorOrSelf, "axAncestorOrSelf"),
];

fn run_tree(case: &str, xot: &Xot, root: Node, out: &mut Out, stats: &mut Stats) -> String {
    let (v, m) = preorder(xot, root);
    let o = owned(xot, root);
    let n = v.len();
    let cap = 4 * n + 8;
    let idx = |x: Node| -> usize { *m.get(&x).unwrap_or(&999_999) };
    let mut node_obs: Vec<String> = vec![];
    let mut all_edges = vec![];
    o.edges(0, &mut all_edges);
    for i in 0..n {
        let x = v[i];
        let mut f: Vec<(String, String)> = vec![];
        let mut chk = |name: &str, got: String, want: Option<String>, f: &mut Vec<(String, String)>| {
            if let Some(w) = want {
                if w != got {
                    out.fail(case, &format!("{}-mismatch", name), &format!("node {}: {} = {} but the tree structure implies {}", i, name, got, w));
                }
            }
            f.push((name.to_string(), got));
        };
        let collect = |it: &mut dyn Iterator<Item = Node>| -> Vec<usize> { it.take(cap).map(idx).collect() };
        let cat = o.cat[i];
        let sibs: Vec<usize> = match o.parent[i] {
            Some(p) => o.kids[p].clone(),
            None => vec![i],
        };
        let pos = sibs.iter().position(|&s| s == i).unwrap();
        let end = o.subtree_end(i);
        let anc = o.ancestors_or_self(i);

        // --- single-node accessors
        chk("parent", show_opt(xot.parent(x).map(idx)), Some(show_opt(o.parent[i])), &mut f);
        let normal_kids: Vec<usize> = {
            // normal_children = skip_while(not normal)
            let k = &o.kids[i];
            let start = k.iter().position(|&c| o.normal(c)).unwrap_or(k.len());
            k[start..].to_vec()
        };
        chk("first_child", show_opt(xot.first_child(x).map(idx)), Some(show_opt(normal_kids.first().copied())), &mut f);
        chk("last_child", show_opt(xot.last_child(x).map(idx)), Some(show_opt(o.kids[i].last().copied().filter(|&c| o.normal(c)))), &mut f);
        chk("next_sibling", show_opt(xot.next_sibling(x).map(idx)), Some(show_opt(sibs.get(pos + 1).copied().filter(|&s| o.cat[s] == cat))), &mut f);
        chk("previous_sibling", show_opt(xot.previous_sibling(x).map(idx)),
            Some(show_opt(if pos > 0 { Some(sibs[pos - 1]).filter(|&s| o.cat[s] == cat) } else { None })), &mut f);
        // --- lists
        chk("children", show(&collect(&mut xot.children(x))), Some(show(&normal_kids)), &mut f);
        let mut rk: Vec<usize> = o.kids[i].iter().rev().copied().take_while(|&c| o.normal(c)).collect();
        chk("reverse_children", show(&collect(&mut xot.reverse_children(x))), Some(show(&rk)), &mut f);
        rk.clear();
        chk("ancestors", show(&collect(&mut xot.ancestors(x))), Some(show(&anc)), &mut f);
        let sub: Vec<usize> = (i..end).collect();
        chk("descendants", show(&collect(&mut xot.descendants(x))), Some(show(&o.norm(sub.clone()))), &mut f);
        chk("all_descendants", show(&collect(&mut xot.all_descendants(x))), Some(show(&sub)), &mut f);
        let fs: Vec<usize> = sibs[pos..].iter().copied().filter(|&s| o.cat[s] == cat).collect();
        let ps: Vec<usize> = sibs[..=pos].iter().rev().copied().filter(|&s| o.cat[s] == cat).collect();
        chk("following_siblings", show(&collect(&mut xot.following_siblings(x))), Some(show(&fs)), &mut f);
        chk("preceding_siblings", show(&collect(&mut xot.preceding_siblings(x))), Some(show(&ps)), &mut f);
        let after: Vec<usize> = (end..n).collect();
        chk("following", show(&collect(&mut xot.following(x))), Some(show(&o.norm(after.clone()))), &mut f);
        chk("all_following", show(&collect(&mut xot.all_following(x))), Some(show(&after)), &mut f);
        let before_not_anc: Vec<usize> = (0..i).rev().filter(|b| !anc.contains(b)).collect();
        chk("preceding", show(&collect(&mut xot.preceding(x))), Some(show(&o.norm(before_not_anc.clone()))), &mut f);
        let upto: Vec<usize> = (0..=i).rev().collect();
        chk("reverse_preorder", show(&collect(&mut xot.reverse_preorder(x))), Some(show(&o.norm(upto.clone()))), &mut f);
        chk("all_reverse_preorder", show(&collect(&mut xot.all_reverse_preorder(x))), Some(show(&upto)), &mut f);
        // --- edges
        let ed = |it: &mut dyn Iterator<Item = NodeEdge>| -> Vec<(bool, usize)> {
            it.take(2 * cap).map(|e| match e { NodeEdge::Start(y) => (true, idx(y)), NodeEdge::End(y) => (false, idx(y)) }).collect()
        };
        let mut want_all = vec![];
        o.edges(i, &mut want_all);
        let want_norm: Vec<(bool, usize)> = want_all.iter().copied().filter(|(_, y)| o.normal(*y)).collect();
        chk("traverse", show_edges(&ed(&mut xot.traverse(x))), Some(show_edges(&want_norm)), &mut f);
        chk("all_traverse", show_edges(&ed(&mut xot.all_traverse(x))), Some(show_edges(&want_all)), &mut f);
        let rev_norm: Vec<(bool, usize)> = want_norm.iter().rev().copied().collect();
        let rev_all: Vec<(bool, usize)> = want_all.iter().rev().copied().collect();
        chk("reverse_traverse", show_edges(&ed(&mut xot.reverse_traverse(x))), Some(show_edges(&rev_norm)), &mut f);
        chk("reverse_all_traverse", show_edges(&ed(&mut xot.reverse_all_traverse(x))), Some(show_edges(&rev_all)), &mut f);
        // NodeEdge::next from Start(x) and ::previous from End(x), iterated to the end
        {
            let mut got = vec![];
            let mut cur = Some(NodeEdge::Start(x));
            while let Some(e) = cur {
                got.push(match e { NodeEdge::Start(y) => (true, idx(y)), NodeEdge::End(y) => (false, idx(y)) });
                if got.len() > 2 * cap { break; }
                cur = e.next(xot);
            }
            // for an ordinary start: the suffix of the ordinary traverse of the whole tree from Start(x)
            let want = if cat == Cat::Normal {
                let whole: Vec<(bool, usize)> = all_edges.iter().copied().filter(|(_, y)| o.normal(*y)).collect();
                let p = whole.iter().position(|e| *e == (true, i)).unwrap();
                Some(show_edges(&whole[p..]))
            } else { None };
            chk("edge_next", show_edges(&got), want, &mut f);
            let mut got = vec![];
            let mut cur = Some(NodeEdge::End(x));
            while let Some(e) = cur {
                got.push(match e { NodeEdge::Start(y) => (true, idx(y)), NodeEdge::End(y) => (false, idx(y)) });
                if got.len() > 2 * cap { break; }
                cur = e.previous(xot);
            }
            let want = if cat == Cat::Normal {
                let whole: Vec<(bool, usize)> = all_edges.iter().copied().filter(|(_, y)| o.normal(*y)).collect();
                let p = whole.iter().position(|e| *e == (false, i)).unwrap();
                let mut w: Vec<(bool, usize)> = whole[..=p].to_vec();
                w.reverse();
                Some(show_edges(&w))
            } else { None };
            chk("edge_previous", show_edges(&got), want, &mut f);
        }
        // --- level order
        {
            let got: Vec<String> = xot.level_order(x).take(2 * cap).map(|l| match l { xot::LevelOrder::Node(y) => idx(y).to_string(), xot::LevelOrder::End => "$".into() }).collect();
            // expected: breadth first over ordinary children, End after each sibling group
            let mut want: Vec<String> = vec![];
            let mut level = vec![vec![i]];
            while !level.is_empty() {
                let mut next = vec![];
                for group in &level {
                    for &g in group {
                        want.push(g.to_string());
                        let k: Vec<usize> = { let kk = &o.kids[g]; let s = kk.iter().position(|&c| o.normal(c)).unwrap_or(kk.len()); kk[s..].to_vec() };
                        if !k.is_empty() { next.push(k); }
                    }
                    want.push("$".into());
                }
                level = next;
            }
            chk("level_order", got.join(","), Some(want.join(",")), &mut f);
        }
        // --- axes
        for (ax, name) in AXES.iter() {
            let got = collect(&mut *xot.axis(*ax, x));
            let want: Vec<usize> = match ax {
                Axis::Child => normal_kids.clone(),
                Axis::Descendant => { let d = o.norm(sub.clone()); if d.is_empty() { d } else { d[1..].to_vec() } }
                Axis::Parent => o.parent[i].into_iter().collect(),
                Axis::Ancestor => anc[1..].to_vec(),
                Axis::FollowingSibling => fs[1..].to_vec(),
                Axis::PrecedingSibling => ps[1..].to_vec(),
                Axis::Following => o.norm(after.clone()),
                Axis::Preceding => o.norm(before_not_anc.clone()),
                Axis::Attribute => o.kids[i].iter().copied().skip_while(|&c| o.cat[c] == Cat::Ns).take_while(|&c| o.cat[c] == Cat::Attr).collect(),
                Axis::Self_ => vec![i],
                Axis::DescendantOrSelf => o.norm(sub.clone()),
                Axis::AncestorOrSelf => anc.clone(),
            };
            chk(name, show(&got), Some(show(&want)), &mut f);
        }
        // --- misc
        chk("attribute_nodes", show(&collect(&mut xot.attribute_nodes(x))), None, &mut f);
        let ci_parent = match xot.parent(x) { Some(p) => show_opt(xot.child_index(p, x)), None => "-".into() };
        let want_ci = o.parent[i].and_then(|p| { let k = &o.kids[p]; let s = k.iter().position(|&c| o.normal(c)).unwrap_or(k.len()); k[s..].iter().position(|&c| c == i) });
        chk("child_index_parent", ci_parent, Some(show_opt(want_ci)), &mut f);
        chk("child_index_root", show_opt(xot.child_index(v[0], x)), Some(show_opt(if o.parent[i] == Some(0) { want_ci } else { None })), &mut f);
        chk("root", idx(xot.root(x)).to_string(), Some("0".into()), &mut f);
        let top = guard(|| xot.top_element(x));
        // the outermost element among the node and its ancestors; without one, the document element of the root when the tree
        // is a document that has one; the node itself otherwise
        let want_top = match anc.iter().copied().filter(|&a| o.is_elem[a]).last() {
            Some(e) => e.to_string(),
            None => {
                let root = *anc.last().unwrap_or(&i);
                let first_elem = if o.is_doc[root] { o.kids[root].iter().copied().find(|&c| o.normal(c) && o.is_elem[c]) } else { None };
                first_elem.unwrap_or(i).to_string()
            }
        };
        chk("top_element", match top { Ok(t) => idx(t).to_string(), Err(()) => "!".into() }, Some(want_top), &mut f);
        let de = match xot.document_element(x) { Ok(e) => idx(e).to_string(), Err(xot::Error::NotDocument(_)) => "NotDocument".into(), Err(xot::Error::NoElementAtTopLevel) => "NoElementAtTopLevel".into(), Err(e) => format!("{:?}", e) };
        let want_de = if !o.is_doc[i] { "NotDocument".to_string() } else { normal_kids.iter().copied().find(|&c| o.is_elem[c]).map(|c| c.to_string()).unwrap_or("NoElementAtTopLevel".into()) };
        chk("document_element", de, Some(want_de), &mut f);
        let val = match xot.validate_well_formed_document(x) {
            Ok(()) => "ok".to_string(),
            Err(xot::Error::NotDocument(_)) => "NotDocument".into(),
            Err(xot::Error::TextAtTopLevel(_)) => "TextAtTopLevel".into(),
            Err(xot::Error::IllegalAtTopLevel(_)) => "IllegalAtTopLevel".into(),
            Err(xot::Error::NoElementAtTopLevel) => "NoElementAtTopLevel".into(),
            Err(xot::Error::MultipleElementsAtTopLevel) => "MultipleElementsAtTopLevel".into(),
            Err(e) => format!("{:?}", e),
        };
        chk("validate", val, None, &mut f);

        // --- the partition law for ordinary nodes
        if cat == Cat::Normal {
            let mut all: Vec<usize> = vec![];
            all.extend(collect(&mut xot.ancestors(x)).into_iter().skip(1));
            all.extend(collect(&mut xot.descendants(x)).into_iter().skip(1));
            all.extend(collect(&mut xot.preceding(x)));
            all.extend(collect(&mut xot.following(x)));
            all.push(i);
            let total = all.len();
            all.sort();
            all.dedup();
            let ordinary: Vec<usize> = (0..n).filter(|&k| o.normal(k)).collect();
            if all != ordinary || total != ordinary.len() {
                out.fail(case, "partition", &format!("node {}: ancestors+descendants+preceding+following+self is not a partition of the ordinary nodes", i));
            }
        }
        stats.add("node_checks", f.len() as u64);
        stats.bump(match cat { Cat::Normal => "nodes.normal", Cat::Attr => "nodes.attribute", Cat::Ns => "nodes.namespace" });
        node_obs.push(format!("{}:{}", i, f.iter().map(|(k, v)| format!("{}={}", k, v)).collect::<Vec<_>>().join(";")));
    }
    node_obs.join("|")
}

fn one_case(case: &str, xot: &mut Xot, reg: &Reg, a: &ANode, out: &mut Out, stats: &mut Stats) {
    let root = build(xot, reg, a);
    let text = print_tree(xot, reg, root);
    let line = format!("{} {} | {}", case, reg.tables(), text);
    out.case(&line);
    let n = xot.all_descendants(root).count();
    stats.case(&text, n >= 3);
    stats.sample(&line);
    stats.add("tree_nodes", n as u64);
    let obs = run_tree(case, xot, root, out, stats);
    out.imp(&format!("{} {}", case, obs));
    // the typed predicates and convenience accessors agree with value / parent / children / the map views on every node
    xh::accessors::accessor_agreement(case, xot, root, out, stats);
}

fn main() {
    quiet_panics();
    let a = args();
    let mut out = Out::new(&a.out);
    let mut stats = Stats::default();
    let mut xot = Xot::new();
    let mut reg = Reg::new(&xot);
    let pool = make_pool(&mut xot, &mut reg, true);
    if let Some(path) = &a.replay {
        // a replay file holds case lines `<case> <tables> | <tree>`: rebuild the tree from its text
        let text = std::fs::read_to_string(path).expect("replay file");
        for line in text.lines().filter(|l| !l.trim().is_empty()) {
            let (case, rest) = line.split_once(' ').unwrap();
            let (tables, tree_text) = rest.split_once(" | ").unwrap_or((rest, ""));
            let mut xot = Xot::new();
            let reg = xh::treeparse::reg_from_tables(&mut xot, tables);
            let a = xh::treeparse::parse_anode(tree_text).expect("tree text");
            one_case(case, &mut xot, &reg, &a, &mut out, &mut stats);
        }
        out.finish(&stats);
        return;
    }
    let base = Rng::new(a.seed);
    let cfg = GenCfg::default();
    for k in 0..a.n {
        let mut r = base.fork(k as u64);
        let tree = match k % 25 {
            23 => chain(&pool, 3 + r.below(if a.tier == "thorough" { 60 } else { 25 })),
            24 => fan(&pool, 2 + r.below(if a.tier == "thorough" { 40 } else { 20 })),
            _ => {
                let mut c = cfg.clone();
                if k % 7 == 0 { c.max_nodes = 80; c.max_depth = 7; }
                gen_tree(&mut r, &c, &pool)
            }
        };
        one_case(&format!("c{}", k), &mut xot, &reg, &tree, &mut out, &mut stats);
    }
    // "any shape incl. deep chains and wide fans": one element with very many children, one chain of very many levels — the
    // counts the axes give from the last child / the innermost element (a stack overflow here aborts the run, which the check
    // reports as a failed run)
    {
        let n = if a.tier == "thorough" { 300_000usize } else { 120_000 };
        let mut x = Xot::new();
        let name = x.add_name("w");
        let top = x.new_element(name);
        let mut last = top;
        for _ in 0..n { last = x.new_element(name); x.append(top, last).unwrap(); }
        let first = x.first_child(top).unwrap();
        // on a thread with the 2 MiB stack Rust gives its threads by default (the main thread has more)
        let counts = std::thread::scope(|sc| {
            std::thread::Builder::new().stack_size(2 << 20).spawn_scoped(sc, || {
                (x.preceding(last).count(), x.following(first).count(), x.preceding_siblings(last).count(), x.descendants(top).count(),
                 x.axis(xot::Axis::Preceding, last).count(), x.reverse_preorder(last).count())
            }).unwrap().join().unwrap()
        });
        stats.bump("wide_fan.cases");
        if counts != (n - 1, n - 1, n, n + 1, n - 1, n + 1) {
            out.fail("wide-fan", "wide-fan-axes", &format!("an element with {} children: preceding(last), following(first), preceding_siblings(last), descendants(top), axis(Preceding, last), reverse_preorder(last) count {:?}", n, counts));
        }
        let depth = if a.tier == "thorough" { 100_000usize } else { 40_000 };
        let mut y = Xot::new();
        let name = y.add_name("d");
        let top = y.new_element(name);
        let mut cur = top;
        for _ in 0..depth { let e = y.new_element(name); y.append(cur, e).unwrap(); cur = e; }
        let counts = (y.ancestors(cur).count(), y.descendants(top).count(), y.preceding(cur).count(), y.following(top).count());
        stats.bump("deep_chain.cases");
        if counts != (depth + 1, depth + 1, 0, 0) {
            out.fail("deep-chain", "deep-chain-axes", &format!("a chain of {} levels: ancestors(innermost), descendants(top), preceding(innermost), following(top) count {:?}", depth, counts));
        }
    }
    out.finish(&stats);
}
