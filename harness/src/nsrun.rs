//! Namespace repair histories (C10: create_missing_prefixes, C15: deduplicate_namespaces).
//!
//! A case is a history on one Xot: start trees with arbitrary declaration layouts, then steps that add or move nodes
//! and call the repair function.  After every step the whole store is read back and every root is serialised; both are
//! compared with the model.  The oracles evaluate the property directly on the implementation.
//!
//! Case line (history format): <case> <tables> | <start state> | op;op;...      Observation per step: <outcome>/<read-back>/<serialisations>
use crate::common::*;
use crate::history::*;
use crate::parseobs::{error_text, parse_fresh, tree_text, Parsed};
use crate::rtrun::{canon, compare_exact, is_wf_document, representable};
use crate::tree::*;
use std::collections::BTreeMap;
use xot::{Node, Value, Xot};

fn ser_one(st: &Store, h: Handle) -> Result<String, String> {
    let n = st.known[&h];
    match guard(|| st.xot.to_string(n)) {
        Ok(Ok(s)) => Ok(s),
        Ok(Err(e)) => Err(match e { xot::Error::MissingPrefix(_) => "MissingPrefix".to_string(), xot::Error::NamespaceInProcessingInstruction => "NamespaceInPI".into(), o => format!("{:?}", o).split('(').next().unwrap().to_string() }),
        Err(()) => Err("PANIC".into()),
    }
}

fn ser_all(st: &Store) -> Vec<(Handle, Result<String, String>)> {
    st.roots().iter().map(|r| (*r, ser_one(st, *r))).collect()
}

fn ser_text(v: &[(Handle, Result<String, String>)]) -> String {
    if v.is_empty() { return "-".into(); }
    v.iter().map(|(h, s)| format!("{}:{}", h.0, match s { Ok(s) => format!("ok:{}", enc(s)), Err(k) => format!("ERR:{}", k) })).collect::<Vec<_>>().join(",")
}

/// content of every tree with names as strings and without namespace nodes / slots: what a repair must not change
fn content(st: &Store) -> BTreeMap<Handle, Vec<String>> {
    st.roots().iter().map(|r| (*r, canon(&st.xot, st.known[r]).into_iter().filter(|t| !t.starts_with('N')).collect())).collect()
}

/// the declarations of every element, by handle
fn decls(st: &Store) -> BTreeMap<Handle, Vec<(String, String)>> {
    let mut m = BTreeMap::new();
    for h in st.live_handles() {
        let n = st.known[&h];
        if st.xot.is_element(n) {
            m.insert(h, st.xot.namespaces(n).iter().map(|(p, u)| (st.xot.prefix_str(p).to_string(), st.xot.namespace_str(*u).to_string())).collect());
        }
    }
    m
}

/// along some root-to-node path one prefix is declared twice with different namespaces
fn has_path_shadowing(xot: &Xot, root: Node) -> bool {
    for n in xot.descendants(root) {
        if !xot.is_element(n) { continue; }
        for (p, u) in xot.namespaces(n).iter() {
            let mut a = xot.parent(n);
            while let Some(x) = a {
                if xot.is_element(x) {
                    if let Some(u2) = xot.namespaces(x).get(p) { if *u2 != *u { return true; } }
                }
                a = xot.parent(x);
            }
        }
    }
    false
}

/// some element declares, as its default namespace, a namespace that is already bound in the scope of its parent (a redundant
/// default declaration), and an attribute in that namespace occurs at or below it: the tracker keeps the attribute's prefix
/// declaration only while that default is there, so the first call removes the default and the second call the prefix
fn has_redundant_default_over_attribute(xot: &Xot, root: Node) -> bool {
    for n in xot.descendants(root) {
        if !xot.is_element(n) { continue; }
        let d = match xot.namespaces(n).get(xot.empty_prefix()) { Some(d) if *d != xot.no_namespace() => *d, _ => continue };
        // bound above?
        let mut bound = false;
        let mut a = xot.parent(n);
        while let Some(x) = a {
            if xot.is_element(x) && xot.namespaces(x).iter().any(|(_, u)| *u == d) { bound = true; break; }
            a = xot.parent(x);
        }
        if !bound { continue; }
        for m in xot.descendants(n) {
            if xot.is_element(m) && xot.attributes(m).keys().any(|k| xot.namespace_for_name(k) == d) { return true; }
        }
    }
    false
}

/// text written by to_string must reparse to the same content (expanded names, attributes, values, order)
fn check_faithful(case: &str, k: usize, st: &Store, sers: &[(Handle, Result<String, String>)], out: &mut Out, stats: &mut Stats) { check_faithful_as(case, k, st, sers, false, out, stats) }

/// `subtree`: the serialised node sits inside a tree; the declarations it inherits are written on it, so declarations are not
/// compared, only names, attributes and content
fn check_faithful_as(case: &str, k: usize, st: &Store, sers: &[(Handle, Result<String, String>)], subtree: bool, out: &mut Out, stats: &mut Stats) {
    for (h, s) in sers {
        let root = st.known[h];
        match s {
            Err(kind) if kind == "PANIC" => out.fail(case, "serialise-panic", &format!("step {}: to_string of root {} panicked", k, hs(*h))),
            Err(_) => stats.bump("ser.err"),
            Ok(text) => {
                stats.bump("ser.ok");
                let is_doc = st.xot.is_document(root);
                if !is_doc && !st.xot.is_element(root) { continue; }
                // an element root is judged as the document it would be the only element of
                let probe = if is_doc { root } else { root };
                if is_doc { if representable(&st.xot, root).is_some() { continue; } }
                else {
                    // a subtree is written with the declarations it inherits: they belong to the domain too (a prefix other than
                    // xml bound to the XML namespace, an undeclaration of a non-empty prefix ... cannot be written down)
                    if subtree {
                        let mut bad = false;
                        let mut a = st.xot.parent(root);
                        while let Some(n) = a {
                            if st.xot.is_element(n) {
                                for (p, ns) in st.xot.namespaces(n).iter() {
                                    let ps = st.xot.prefix_str(p);
                                    let us = st.xot.namespace_str(*ns);
                                    if !ps.is_empty() && (us.is_empty() || !crate::rtrun::ncname(ps) || ps == "xmlns" || ps == "xml") { bad = true; }
                                    if !us.chars().all(crate::tree::xml_char) || us == crate::spell::XML_NS { bad = true; }
                                }
                            }
                            a = st.xot.parent(n);
                        }
                        if bad { stats.bump("c10.subtree_outside_domain"); continue; }
                    }
                    // same character-level domain, checked on a throw-away document around a clone
                    let mut tmp = st.xot.clone();
                    let c = tmp.clone_node(root);
                    let d = tmp.new_document();
                    if tmp.append(d, c).is_err() || representable(&tmp, d).is_some() { continue; }
                }
                let frag = is_doc && !is_wf_document(&st.xot, root);
                match parse_fresh(text, frag) {
                    Parsed::Ok { xot: x2, root: r2, .. } => {
                        let why = if is_doc { compare_exact(&st.xot, probe, &x2, r2, true) } else {
                            match x2.document_element(r2) {
                                Ok(e2) if subtree => {
                                    let ca: Vec<String> = canon(&st.xot, probe).into_iter().filter(|t| !t.starts_with('N')).collect();
                                    let cb: Vec<String> = canon(&x2, e2).into_iter().filter(|t| !t.starts_with('N')).collect();
                                    if ca == cb { None } else { let i = ca.iter().zip(cb.iter()).position(|(x, y)| x != y).unwrap_or(ca.len().min(cb.len())); Some(format!("source has {:?} where the reparsed tree has {:?} (position {}, declarations left out)", ca.get(i), cb.get(i), i)) }
                                }
                                Ok(e2) => compare_exact(&st.xot, probe, &x2, e2, true),
                                Err(_) => Some("no document element".into()),
                            }
                        };
                        if let Some(why) = why {
                            out.fail(case, "written-name-means-something-else", &format!("step {}: root {} is written as {:?}, which reads back differently: {}", k, hs(*h), text, why));
                        }
                    }
                    Parsed::Err(e) => out.fail(case, "written-text-rejected", &format!("step {}: root {} is written as {:?}, which is rejected: {}", k, hs(*h), text, error_text(&e))),
                    Parsed::Panic => out.fail(case, "parse-panic", &format!("step {}: reparsing {:?} panicked", k, text)),
                }
            }
        }
    }
}

pub fn main_for(pid: &str) {
    quiet_panics();
    let a = args();
    let mut out = Out::new(&a.out);
    let mut stats = Stats::default();
    let replay: Option<Vec<String>> = a.replay.as_ref().map(|p| std::fs::read_to_string(p).expect("replay").lines().filter(|l| !l.trim().is_empty()).map(|s| s.to_string()).collect());
    let n = replay.as_ref().map(|v| v.len()).unwrap_or(a.n);
    let base = Rng::new(a.seed);
    for k in 0..n {
        let mut r = base.fork(k as u64);
        let mut st = Store::new();
        let pool = make_pool(&mut st.xot, &mut st.reg, true);
        // the prefixes create_missing_prefixes may generate must be known to the registry (read-back prints indexes)
        for i in 0..24 { st.reg.prefix(&mut st.xot, &format!("n{}", i)); }
        let extra_ns = st.reg.ns(&mut st.xot, "urn:late");
        let extra_names: Vec<usize> = ["late", "a"].iter().map(|l| st.reg.name(&mut st.xot, l, extra_ns)).collect();
        let (case, start, ops_in): (String, Vec<ANode>, Option<Vec<Op>>) = match &replay {
            Some(v) => {
                let (case, rest) = v[k].split_once(' ').unwrap();
                let parts: Vec<&str> = rest.split(" | ").collect();
                let tree_text: String = parts[1].split(' ').skip(1).map(|t| match t.find('@') { None => t.to_string(), Some(i) => { let tail = &t[i..]; if tail.ends_with('(') { format!("{}(", &t[..i]) } else { t[..i].to_string() } } }).collect::<Vec<_>>().join(" ");
                (case.to_string(), crate::treeparse::parse_anodes(&tree_text), Some(parts.get(2).unwrap_or(&"").split(';').filter(|s| !s.is_empty()).map(parse_op).collect()))
            }
            None if pid == "C15" && k < c15_enum_len(&a.tier) => {
                let j = c15_enum_index(k, &a.tier, a.seed);
                (format!("c{}", k), vec![c15_enum_tree(j, &pool)], Some(vec![Op::Dedup((0, 0)), Op::Dedup((0, 0))]))
            }
            None => {
                let cfg = GenCfg { max_nodes: 18, max_depth: 5, doc_root: 80, fragment: 35, adjacent_text: false, empty_text: false, xml_space: 15, ..GenCfg::default() };
                let ntrees = 1 + r.below(2);
                let mut v = vec![];
                for _ in 0..ntrees {
                    let mut t = gen_tree(&mut r, &cfg, &pool);
                    make_representable(&mut t);
                    // C10: any subset of the needed declarations present; C15: everything declared, with redundancy
                    let pct = if pid == "C15" { 100 } else { *r.pick(&[0u64, 30, 60, 90, 100]) };
                    declare_missing(&mut r, &mut t, &st.reg, &pool, pct);
                    if pid == "C15" { add_redundant(&mut r, &mut t, &pool, &vec![]); }
                    v.push(t);
                }
                (format!("c{}", k), v, None)
            }
        };
        for t in &start { let n = build(&mut st.xot, &st.reg, t); st.learn(n); }
        st.refresh();
        let tables = st.reg.tables();
        let init = st.readback();
        let mut ops: Vec<Op> = vec![];
        let mut obs: Vec<String> = vec![];
        let nsteps = ops_in.as_ref().map(|v| v.len()).unwrap_or(if a.tier == "thorough" { 10 } else { 8 });
        // the starting trees themselves: serialisation never changes a name's meaning
        check_faithful(&case, 0, &st, &ser_all(&st), &mut out, &mut stats);
        for step in 0..nsteps {
            let live = st.live_handles();
            let kind = |h: &Handle| -> char { match st.xot.value(st.known[h]) { Value::Document => 'D', Value::Element(_) => 'E', Value::Attribute(_) => 'A', Value::Namespace(_) => 'N', _ => 'T' } };
            let pick = |r: &mut Rng, want: &str| -> Handle { let good: Vec<Handle> = live.iter().copied().filter(|h| want.contains(kind(h))).collect(); if good.is_empty() { *r.pick(&live) } else { *r.pick(&good) } };
            let op = match &ops_in {
                Some(v) => v[step].clone(),
                None => {
                    let repair = |h: Handle| if pid == "C15" { Op::Dedup(h) } else { Op::Cmp(h) };
                    match r.below(12) {
                        0..=3 => repair(pick(&mut r, "DE")),
                        4 => repair(pick(&mut r, "DETAN")),
                        5 => Op::NewEl(*r.pick(&extra_names)),
                        6 => Op::NewEl(*r.pick(&pool.names)),
                        7 | 8 => Op::Append(pick(&mut r, "E"), pick(&mut r, "E")),
                        9 => Op::SetAttr(pick(&mut r, "E"), *r.pick(&pool.attr_names), "v".into()),
                        10 => if r.chance(1, 2) { Op::ClonePrefixes(pick(&mut r, "E"), vec![]) } else { Op::CloneNode(pick(&mut r, "E")) },
                        _ => if r.chance(1, 2) { Op::SetNs(pick(&mut r, "E"), *r.pick(&pool.prefixes), *r.pick(&pool.uris)) } else { Op::RmNs(pick(&mut r, "E"), *r.pick(&pool.prefixes)) },
                    }
                }
            };
            // clone_with_prefixes is not part of the model of this stream: replace it by clone_node on replay-safe terms
            let op = if let Op::ClonePrefixes(h, _) = op { Op::CloneNode(h) } else { op };
            let before_content = content(&st);
            let before_decls = decls(&st);
            let before_ser = ser_all(&st);
            let shadow_before: BTreeMap<Handle, bool> = st.roots().iter().map(|h| (*h, has_path_shadowing(&st.xot, st.known[h]))).collect();
            let redundant_default_before: BTreeMap<Handle, bool> = st.roots().iter().map(|h| (*h, has_redundant_default_over_attribute(&st.xot, st.known[h]))).collect();
            let outcome = exec(&mut st, &op);
            st.refresh();
            stats.bump(&format!("op.{}", op_str(&op).split(' ').next().unwrap()));
            stats.bump(match &outcome { Outcome::Ok(_) => "outcome.ok", Outcome::Err(_) => "outcome.err", Outcome::Panic => "outcome.panic" });
            let sers = ser_all(&st);
            if let Outcome::Panic = outcome {
                if !documented_panic(&op) { out.fail(&case, "panic", &format!("step {}: `{}` panicked", step, op_str(&op))); }
            }
            check_faithful(&case, step + 1, &st, &sers, &mut out, &mut stats);
            // elements inside a tree too: a subtree is written with the declarations in scope that its names need, so what
            // is written must read back with the same expanded names (oracle only; not part of the observation)
            {
                let inner: Vec<Handle> = st.live_handles().into_iter().filter(|h| st.xot.is_element(st.known[h]) && st.xot.parent(st.known[h]).is_some()).collect();
                if !inner.is_empty() {
                    let sub: Vec<(Handle, Result<String, String>)> = (0..3).map(|_| { let h = *r.pick(&inner); (h, ser_one(&st, h)) }).collect();
                    stats.add("c10.subtrees_serialised", sub.len() as u64);
                    check_faithful_as(&case, step + 1, &st, &sub, true, &mut out, &mut stats);
                }
            }
            match &op {
                Op::Cmp(h) => {
                    let target = st.known[h];
                    let root_h = { let mut x = target; while let Some(p) = st.xot.parent(x) { x = p; } handle(x) };
                    let is_de = st.xot.is_document(target) || st.xot.is_element(target);
                    if is_de {
                        if !matches!(outcome, Outcome::Ok(_)) { out.fail(&case, "repair-failed", &format!("step {}: `{}` returned {}", step, op_str(&op), outcome_str(&outcome))); }
                        if content(&st) != before_content { out.fail(&case, "repair-changed-content", &format!("step {}: `{}` changed a name, attribute or content", step, op_str(&op))); }
                        let after = decls(&st);
                        for (e, d2) in &after {
                            let d = before_decls.get(e).cloned().unwrap_or_default();
                            for x in d2.iter().filter(|x| !d.contains(x)) {
                                // the XML namespace is bound to the prefix xml and to nothing else (Namespaces in XML, section 3)
                                if x.1 == crate::spell::XML_NS { out.fail(&case, "repair-bound-xml-namespace", &format!("step {}: `{}` declared xmlns:{}=\"{}\" on {}", step, op_str(&op), x.0, x.1, hs(*e))); }
                            }
                        }
                        for (e, d) in &before_decls {
                            if let Some(d2) = after.get(e) {
                                if !d.iter().all(|x| d2.contains(x)) { out.fail(&case, "repair-altered-declaration", &format!("step {}: `{}` removed or altered a declaration of {}", step, op_str(&op), hs(*e))); }
                            }
                        }
                        // the repaired subtree serialises on its own
                        match guard(|| st.xot.to_string(target)) {
                            Ok(Ok(_)) => stats.bump("c10.repaired_serialises"),
                            Ok(Err(e)) => {
                                // PI targets in a namespace can never be written: not a prefix problem.  Nor can an element in
                                // no namespace that declares a default namespace on itself: no prefix can repair that
                                // (counted; such trees cannot come out of the parser)
                                if self_contradictory(&st.xot, target) { stats.bump("c10.unrepairable_self_contradictory"); }
                                else if !matches!(e, xot::Error::NamespaceInProcessingInstruction) {
                                    out.fail(&case, "repaired-tree-does-not-serialise", &format!("step {}: after `{}` to_string fails: {:?}", step, op_str(&op), e));
                                }
                            }
                            Err(()) => out.fail(&case, "serialise-panic", &format!("step {}: to_string panicked after `{}`", step, op_str(&op))),
                        }
                        // a tree that serialised before still does (no binding a name depends on was overridden)
                        if let (Some((_, Ok(_))), Some((_, s2))) = (before_ser.iter().find(|(h2, _)| *h2 == root_h), sers.iter().find(|(h2, _)| *h2 == root_h)) {
                            if s2.is_err() { out.fail(&case, "repair-broke-serialisation", &format!("step {}: root {} serialised before `{}` and no longer does", step, hs(root_h), op_str(&op))); }
                        }
                    }
                }
                Op::Dedup(h) => {
                    let target = st.known[h];
                    let root_h = { let mut x = target; while let Some(p) = st.xot.parent(x) { x = p; } handle(x) };
                    if !matches!(outcome, Outcome::Ok(_)) { out.fail(&case, "dedup-failed", &format!("step {}: `{}` returned {}", step, op_str(&op), outcome_str(&outcome))); }
                    if content(&st) != before_content { out.fail(&case, "dedup-changed-content", &format!("step {}: `{}` changed a name, attribute or content", step, op_str(&op))); }
                    let after = decls(&st);
                    let mut removed = 0;
                    for (e, d2) in &after {
                        let d = before_decls.get(e).cloned().unwrap_or_default();
                        // what is left is a sub-list of what was there
                        let mut it = d.iter();
                        if !d2.iter().all(|x| it.any(|y| y == x)) { out.fail(&case, "dedup-added-or-altered", &format!("step {}: `{}` added, altered or reordered a declaration of {}", step, op_str(&op), hs(*e))); }
                        removed += d.len() - d2.len().min(d.len());
                    }
                    stats.add("c15.declarations_removed", removed as u64);
                    let shadow = *shadow_before.get(&root_h).unwrap_or(&false);
                    if let (Some((_, Ok(s1))), Some((_, s2))) = (before_ser.iter().find(|(h2, _)| *h2 == root_h), sers.iter().find(|(h2, _)| *h2 == root_h)) {
                        stats.bump("c15.serialisable_before");
                        match s2 {
                            Err(kind) => out.fail(&case, if shadow { "dedup-breaks-serialisation-under-shadowing" } else { "dedup-breaks-serialisation" }, &format!("step {}: root {} serialised as {:?} before `{}` and now fails with {}", step, hs(root_h), s1, op_str(&op), kind)),
                            Ok(s2) => {
                                // both texts must denote the same content
                                let root = st.known[&root_h];
                                if st.xot.is_document(root) && representable(&st.xot, root).is_none() {
                                    let frag = !is_wf_document(&st.xot, root);
                                    if let (Parsed::Ok { xot: xa, root: ra, .. }, Parsed::Ok { xot: xb, root: rb, .. }) = (parse_fresh(s1, frag), parse_fresh(s2, frag)) {
                                        let ca: Vec<String> = canon(&xa, ra).into_iter().filter(|t| !t.starts_with('N')).collect();
                                        let cb: Vec<String> = canon(&xb, rb).into_iter().filter(|t| !t.starts_with('N')).collect();
                                        if ca != cb { out.fail(&case, if shadow { "dedup-changes-meaning-under-shadowing" } else { "dedup-changes-meaning" }, &format!("step {}: {:?} and {:?} denote different content", step, s1, s2)); }
                                    }
                                }
                            }
                        }
                    }
                    // a second call removes nothing
                    let mut copy = st.xot.clone();
                    let d1: Vec<usize> = st.live_handles().iter().filter(|h2| st.xot.is_element(st.known[*h2])).map(|h2| copy.namespaces(st.known[h2]).len()).collect();
                    if guard(|| copy.deduplicate_namespaces(target)).is_ok() {
                        let d2: Vec<usize> = st.live_handles().iter().filter(|h2| st.xot.is_element(st.known[*h2])).map(|h2| copy.namespaces(st.known[h2]).len()).collect();
                        let redundant_default = *redundant_default_before.get(&root_h).unwrap_or(&false);
                        if d1 != d2 { out.fail(&case, if shadow { "dedup-not-idempotent-under-shadowing" } else if redundant_default { "dedup-not-idempotent-redundant-default-over-attribute" } else { "dedup-not-idempotent" }, &format!("step {}: a second `{}` removes further declarations", step, op_str(&op))); }
                    }
                }
                _ => {}
            }
            ops.push(op);
            obs.push(format!("{}/{}/{}", outcome_str(&outcome), st.readback(), ser_text(&sers)));
        }
        let ops_text: Vec<String> = ops.iter().map(op_str).collect();
        let line = format!("{} {} | {} | {}", case, tables, init, ops_text.join(";"));
        out.case(&line);
        stats.case(&line, ops.iter().any(|o| matches!(o, Op::Cmp(_) | Op::Dedup(_))));
        stats.sample(&line);
        out.imp(&format!("{} {}", case, obs.join(";")));
        let _ = tree_text;
    }
    out.finish(&stats);
}

/// some element in no namespace declares a non-empty default namespace on itself
fn self_contradictory(xot: &Xot, root: Node) -> bool {
    xot.descendants(root).any(|n| match xot.value(n) {
        Value::Element(e) => xot.namespace_for_name(e.name()) == xot.no_namespace() && xot.namespaces(n).iter().any(|(p, u)| p == xot.empty_prefix() && *u != xot.no_namespace()),
        _ => false,
    })
}

/// redundant declarations: repeat in-scope bindings lower down, under the same or another prefix
/// C15, exhaustive small-scope stream: one namespace u, one prefix p, the tree  r( x  c( d ) )  — two branches, the second two
/// deep.  r declares nothing or xmlns:p=u; each of x, c, d declares nothing / xmlns=u / xmlns:p=u / both and has or has not an
/// attribute in u; c and d are in no namespace or in u.  A declaration a name needs and the scope lacks is added on the element
/// itself, so every tree serialises and no prefix is ever bound to two namespaces (no shadowing): deduplicate_namespaces has to
/// keep every one of these trees serialisable and its names unchanged, and a second call has to remove nothing.
const C15_ENUM_TOTAL: usize = 2 * 8 * 16 * 16;
fn c15_enum_len(tier: &str) -> usize { if tier == "thorough" { C15_ENUM_TOTAL } else { C15_ENUM_TOTAL / 4 } }
fn c15_enum_index(k: usize, tier: &str, seed: u64) -> usize { if tier == "thorough" { k } else { 4 * k + (seed as usize % 4) } }
fn c15_enum_tree(j: usize, pool: &Pool) -> ANode {
    let u = pool.uris[1];
    let p = pool.prefixes[1];
    // pool.names: a, a/u1, a/u2, a/u3, b, b/u1, ...; pool.attr_names: x, x/u1, x/u2, y, ...
    let (n_r, n_x, n_c, n_cu, n_d, n_du) = (pool.names[0], pool.names[4], pool.names[8], pool.names[9], pool.names[12], pool.names[13]);
    let at = pool.attr_names[1];
    let mut j = j;
    let mut take = |m: usize| -> usize { let v = j % m; j /= m; v };
    let decl = |o: usize| -> Vec<(usize, usize)> { match o { 0 => vec![], 1 => vec![(0, u)], 2 => vec![(p, u)], _ => vec![(0, u), (p, u)] } };
    let r_ns = if take(2) == 1 { vec![(p, u)] } else { vec![] };
    let mk = |name: usize, in_u: bool, o: usize, attr: bool, kids: Vec<ANode>, scope_default: bool, scope_p: bool| -> (ANode, bool, bool) {
        let mut ns = decl(o);
        let has_d = scope_default || ns.iter().any(|(q, _)| *q == 0);
        let mut has_p = scope_p || ns.iter().any(|(q, _)| *q == p);
        if attr && !has_p { ns.push((p, u)); has_p = true; }
        let mut has_d2 = has_d;
        if in_u && !has_d && !has_p { ns.insert(0, (0, u)); has_d2 = true; }
        (ANode::Elem { name, ns, attrs: if attr { vec![(at, "v".to_string())] } else { vec![] }, kids }, has_d2, has_p)
    };
    let r_p = !r_ns.is_empty();
    let (xo, xa) = (take(4), take(2) == 1);
    let (co, ca, cu) = (take(4), take(2) == 1, take(2) == 1);
    let (d_o, da, du) = (take(4), take(2) == 1, take(2) == 1);
    let (x, _, _) = mk(n_x, false, xo, xa, vec![], false, r_p);
    // c's scope is needed for d before c is built: compute it the same way
    let c_ns = decl(co);
    let c_p = r_p || c_ns.iter().any(|(q, _)| *q == p) || ca;
    let c_d = c_ns.iter().any(|(q, _)| *q == 0) || (cu && !c_ns.iter().any(|(q, _)| *q == 0) && !c_p);
    let (d, _, _) = mk(if du { n_du } else { n_d }, du, d_o, da, vec![], c_d, c_p);
    let (c, _, _) = mk(if cu { n_cu } else { n_c }, cu, co, ca, vec![d], false, r_p);
    ANode::Elem { name: n_r, ns: r_ns, attrs: vec![], kids: vec![x, c] }
}

fn add_redundant(r: &mut Rng, a: &mut ANode, pool: &Pool, scope: &Vec<(usize, usize)>) {
    match a {
        ANode::Doc(kids) => { for k in kids.iter_mut() { add_redundant(r, k, pool, scope); } }
        ANode::Elem { ns, kids, .. } => {
            if !scope.is_empty() && r.chance(1, 2) {
                let (p, u) = *r.pick(scope);
                let p2 = if r.chance(2, 3) { p } else { *r.pick(&pool.prefixes) };
                if !ns.iter().any(|(q, _)| *q == p2) && !(p2 != 0 && u == 0) { ns.push((p2, u)); }
            }
            let mut sc: Vec<(usize, usize)> = scope.iter().copied().filter(|(p, _)| !ns.iter().any(|(q, _)| q == p)).collect();
            sc.extend(ns.iter().copied());
            for k in kids.iter_mut() { add_redundant(r, k, pool, &sc); }
        }
        _ => {}
    }
}
