//! Agreement of the convenience accessors with the basic ones (C07 "returns exactly what follows from the parent / child
//! structure", C13 "its own content"): for every node of a tree, the typed predicates and accessors against `value`, the
//! shortcuts (`has_document_parent`, `is_document_element`, `get_element_name`, `text_content`, `text_content_str`,
//! `comment_str`, `get_namespace`, `get_attribute`, `prefixes`, `namespace_declarations`) against their definition in terms of
//! `parent`, `children`, `value`, `namespaces`, `attributes`.  Implementation only (each is a few lines of Rust that the model
//! does not have a counterpart for); a disagreement is a failing input by itself.
use crate::common::*;
use xot::{Node, Value, ValueType, Xot};

pub fn accessor_agreement(case: &str, xot: &Xot, root: Node, out: &mut Out, stats: &mut Stats) {
    let nodes: Vec<Node> = xot.all_descendants(root).collect();
    for (i, &n) in nodes.iter().enumerate() {
        stats.bump("accessors.nodes");
        let v = xot.value(n);
        let (d, e, t, c, p, a, ns) = match v {
            Value::Document => (true, false, false, false, false, false, false),
            Value::Element(_) => (false, true, false, false, false, false, false),
            Value::Text(_) => (false, false, true, false, false, false, false),
            Value::Comment(_) => (false, false, false, true, false, false, false),
            Value::ProcessingInstruction(_) => (false, false, false, false, true, false, false),
            Value::Attribute(_) => (false, false, false, false, false, true, false),
            Value::Namespace(_) => (false, false, false, false, false, false, true),
        };
        let want_type = match v {
            Value::Document => ValueType::Document, Value::Element(_) => ValueType::Element, Value::Text(_) => ValueType::Text,
            Value::Comment(_) => ValueType::Comment, Value::ProcessingInstruction(_) => ValueType::ProcessingInstruction,
            Value::Attribute(_) => ValueType::Attribute, Value::Namespace(_) => ValueType::Namespace,
        };
        let mut bad = |what: &str| out.fail(case, &format!("accessor-{}", what), &format!("node {} ({:?}): {} disagrees with value()", i, want_type, what));
        if xot.value_type(n) != want_type { bad("value_type"); }
        if xot.is_document(n) != d { bad("is_document"); }
        if xot.is_element(n) != e { bad("is_element"); }
        if xot.is_text(n) != t { bad("is_text"); }
        if xot.is_comment(n) != c { bad("is_comment"); }
        if xot.is_processing_instruction(n) != p { bad("is_processing_instruction"); }
        if xot.is_attribute_node(n) != a { bad("is_attribute_node"); }
        if xot.is_namespace_node(n) != ns { bad("is_namespace_node"); }
        if xot.element(n).is_some() != e { bad("element"); }
        if xot.text(n).is_some() != t { bad("text"); }
        if xot.comment(n).is_some() != c { bad("comment"); }
        if xot.processing_instruction(n).is_some() != p { bad("processing_instruction"); }
        if xot.attribute_node(n).is_some() != a { bad("attribute_node"); }
        if xot.namespace_node(n).is_some() != ns { bad("namespace_node"); }
        match v {
            Value::Text(x) => { if xot.text_str(n) != Some(x.get()) { bad("text_str"); } if xot.comment_str(n).is_some() { bad("comment_str"); } }
            Value::Comment(x) => { if xot.comment_str(n) != Some(x.get()) { bad("comment_str"); } if xot.text_str(n).is_some() { bad("text_str"); } }
            Value::Element(x) => { if xot.get_element_name(n) != x.name() { bad("get_element_name"); } if xot.text_str(n).is_some() || xot.comment_str(n).is_some() { bad("text_str/comment_str"); } }
            _ => { if xot.text_str(n).is_some() || xot.comment_str(n).is_some() { bad("text_str/comment_str"); } }
        }
        // parent-based shortcuts
        let par_doc = xot.parent(n).map_or(false, |q| matches!(xot.value(q), Value::Document));
        if xot.has_document_parent(n) != par_doc { bad("has_document_parent"); }
        if xot.is_document_element(n) != (par_doc && e) { bad("is_document_element"); }
        // text_content: the single text child, None for no child or for anything else; text_content_str: "" for no child
        let kids: Vec<Node> = xot.children(n).collect();
        let want_tc: Option<&str> = if kids.len() == 1 { xot.text(kids[0]).map(|x| x.get()) } else { None };
        if xot.text_content(n).map(|x| x.get()) != want_tc { bad("text_content"); }
        let want_tcs: Option<&str> = if kids.is_empty() { Some("") } else { want_tc };
        if xot.text_content_str(n) != want_tcs { bad("text_content_str"); }
        // the map shortcuts
        if e {
            let decls: Vec<(xot::PrefixId, xot::NamespaceId)> = xot.namespaces(n).iter().map(|(p, u)| (p, *u)).collect();
            let nd: Vec<(xot::PrefixId, xot::NamespaceId)> = xot.namespace_declarations(n).into_iter().collect();
            if nd != decls { bad("namespace_declarations"); }
            let pf = xot.prefixes(n);
            if pf.len() != decls.len() || decls.iter().any(|(p, u)| pf.get(p) != Some(u)) { bad("prefixes"); }
            for (p, u) in &decls { if xot.get_namespace(n, *p) != Some(*u) { bad("get_namespace"); } }
            let attrs: Vec<(xot::NameId, String)> = xot.attributes(n).iter().map(|(k, v)| (k, v.clone())).collect();
            for (k, v) in &attrs { if xot.get_attribute(n, *k) != Some(v.as_str()) { bad("get_attribute"); } }
            let an: Vec<Node> = xot.attribute_nodes(n).collect();
            if an.len() != attrs.len() { bad("attribute_nodes"); }
            for (node, (k, v)) in an.iter().zip(attrs.iter()) {
                match xot.attribute_node(*node) { Some(x) if x.name() == *k && x.value() == v.as_str() => {} _ => bad("attribute_node value") }
            }
        } else {
            if xot.namespace_declarations(n).into_iter().next().is_some() { bad("namespace_declarations on a non-element"); }
        }
    }
}

/// the name API around a node's name (C09 "the reported qualified name resolves … back to its expanded name", C08 reverse
/// lookups): for every element and attribute node whose name has a usable prefix, the RefName, the OwnedName made from it
/// and the name parsed back from its full name all say the same local name, namespace and prefix
pub fn name_agreement(case: &str, xot: &Xot, root: Node, out: &mut Out, stats: &mut Stats) {
    use xot::xmlname::{NameStrInfo, OwnedName};
    let nodes: Vec<Node> = xot.all_descendants(root).collect();
    for (i, &n) in nodes.iter().enumerate() {
        let name = match xot.node_name(n) { Some(x) if xot.is_element(n) || xot.is_attribute_node(n) => x, _ => continue };
        let rn = match xot.node_name_ref(n) { Ok(Some(r)) => r, _ => continue };
        stats.bump("accessors.names");
        let mut bad = |what: &str, text: String| out.fail(case, &format!("name-api-{}", what), &format!("node {}: {}", i, text));
        let ns_id = xot.namespace_for_name(name);
        let (local, ns) = xot.name_ns_str(name);
        if rn.name_id() != name { bad("name_id", "RefName::name_id is not the node's name".into()); }
        if rn.namespace_id() != ns_id { bad("namespace_id", "RefName::namespace_id is not the namespace of the name".into()); }
        if rn.local_name() != local || rn.local_name() != xot.local_name_str(name) { bad("local_name", format!("{:?} / {:?} / {:?}", rn.local_name(), local, xot.local_name_str(name))); }
        if rn.namespace() != ns || xot.uri_str(name) != ns || xot.namespace_str(ns_id) != ns { bad("namespace", format!("{:?} / {:?} / {:?}", rn.namespace(), xot.uri_str(name), ns)); }
        if rn.prefix() != xot.prefix_str(rn.prefix_id()) { bad("prefix", format!("{:?} / {:?}", rn.prefix(), xot.prefix_str(rn.prefix_id()))); }
        let want_full = if rn.prefix().is_empty() { local.to_string() } else { format!("{}:{}", rn.prefix(), local) };
        if rn.full_name() != want_full { bad("full_name", format!("{:?} where prefix and local name give {:?}", rn.full_name(), want_full)); }
        if rn.has_unprefixed_namespace() != (!ns.is_empty() && rn.prefix().is_empty()) { bad("has_unprefixed_namespace", format!("{} for namespace {:?}, prefix {:?}", rn.has_unprefixed_namespace(), ns, rn.prefix())); }
        let owned = rn.to_owned();
        if owned.local_name() != local || owned.namespace() != ns || owned.prefix() != rn.prefix() { bad("to_owned", format!("{:?}", owned)); }
        if owned.in_default_namespace() != (!ns.is_empty() && rn.prefix().is_empty()) { bad("in_default_namespace", format!("{:?}", owned)); }
        match owned.maybe_to_ref(xot) {
            Some(back) => if back.name_id() != name || back.prefix_id() != rn.prefix_id() { bad("maybe_to_ref", "another name or prefix".into()); },
            None => bad("maybe_to_ref", "None for a registered name".into()),
        }
        let (p0, n0) = (rn.prefix().to_string(), ns.to_string());
        match OwnedName::parse_full_name(&rn.full_name(), |p| if p == p0 { Some(n0.clone()) } else { None }) {
            Ok(parsed) => if parsed != owned || parsed.prefix() != owned.prefix() || parsed.local_name() != local { bad("parse_full_name", format!("{:?} from {:?}, expected {:?}", parsed, rn.full_name(), owned)); },
            Err(e) => bad("parse_full_name", format!("{:?} for {:?}", e, rn.full_name())),
        }
        // the conversions that may register: on a copy of the Xot, where everything is registered already, they must find the same ids
        {
            let mut x2 = xot.clone();
            let ids = { let r2 = owned.to_ref(&mut x2); (r2.name_id(), r2.prefix_id(), r2.namespace_id()) };
            if ids != (name, rn.prefix_id(), ns_id) { bad("to_ref", "another name, prefix or namespace id".into()); }
            if owned.to_create(&mut x2).name_id() != name { bad("to_create", "another name id".into()); }
            let full = rn.full_name().to_string();
            match xot::xmlname::CreateName::parse_full_name(&mut x2, &full, |p| if p == p0 { Some(ns_id) } else { None }) {
                Ok(c) => if c.name_id() != name { bad("CreateName::parse_full_name", format!("{:?} gives another name id", full)); },
                Err(e) => bad("CreateName::parse_full_name", format!("{:?} for {:?}", e, full)),
            }
            let cn = xot::xmlname::CreateNamespace::new(&mut x2, rn.prefix(), ns);
            if cn.prefix_id() != rn.prefix_id() || cn.namespace_id() != ns_id { bad("CreateNamespace::new", "another prefix or namespace id".into()); }
            if xot::xmlname::CreateName::namespaced(&mut x2, local, &cn).name_id() != name { bad("CreateName::namespaced", "another name id".into()); }
            if ns.is_empty() && xot::xmlname::CreateName::name(&mut x2, local).name_id() != name { bad("CreateName::name", "another name id".into()); }
        }
        let sfx = owned.clone().with_suffix();
        if sfx.local_name() != format!("{}*", local) || sfx.namespace() != ns || sfx.prefix() != owned.prefix() { bad("with_suffix", format!("{:?}", sfx)); }
        let dn = owned.clone().with_default_namespace("urn:dflt");
        let unchanged = !owned.prefix().is_empty() || !ns.is_empty();
        if dn.local_name() != local || dn.prefix() != owned.prefix() || dn.namespace() != (if unchanged { ns } else { "urn:dflt" }) { bad("with_default_namespace", format!("{:?}", dn)); }
    }
}
