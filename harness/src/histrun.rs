//! Driver shared by the history properties (C04, C05, C06): generation of operation histories over all live nodes of
//! every kind, execution with read-back after every step, and the oracles.
use crate::common::*;
use crate::history::*;
use crate::tree::*;
use xot::Value;

pub struct HistCfg {
    pub steps: usize,
    pub refusal_bias: u64, // percent of node arguments drawn from ALL live nodes instead of suitable ones
    pub with_clonep: bool,
    pub with_rmws: bool,
    pub rmws_pct: u64, // percent of the steps that are remove_insignificant_whitespace on any live node
    pub clone_pct: u64, // percent of the steps that are clone_node / clone_with_prefixes on a node of any kind
}

fn kind_of(st: &Store, h: Handle) -> char {
    match st.xot.value(st.known[&h]) {
        Value::Document => 'D',
        Value::Element(_) => 'E',
        Value::Text(_) => 'T',
        Value::Comment(_) => 'C',
        Value::ProcessingInstruction(_) => 'P',
        Value::Attribute(_) => 'A',
        Value::Namespace(_) => 'N',
    }
}

fn pick(r: &mut Rng, st: &Store, live: &[Handle], want: &str, bias: u64) -> Handle {
    if !r.chance(bias, 100) {
        let good: Vec<Handle> = live.iter().copied().filter(|h| want.contains(kind_of(st, *h))).collect();
        if !good.is_empty() {
            return *r.pick(&good);
        }
    }
    *r.pick(live)
}

pub fn gen_op(r: &mut Rng, st: &Store, pool: &Pool, cfg: &HistCfg) -> Op {
    use Op::*;
    let live = st.live_handles();
    let b = cfg.refusal_bias;
    // empty strings are frequent on purpose: an empty text node next to another text node is where consolidation
    // shortcuts go wrong
    let text = |r: &mut Rng| -> String { if r.chance(1, 5) { random_text(r, 3) } else { r.pick(&["h", "i", " ", "j k", "", "", ""]).to_string() } };
    if live.is_empty() {
        return NewEl(*r.pick(&pool.names));
    }
    let name = *r.pick(&pool.names);
    let aname = *r.pick(&pool.attr_names);
    let pfx = *r.pick(&pool.prefixes);
    let uri = *r.pick(&pool.uris);
    if cfg.clone_pct > 0 && r.chance(cfg.clone_pct, 100) {
        let h = pick(r, st, &live, "DEETCPAN", 0);
        return if cfg.with_clonep && r.chance(1, 2) { ClonePrefixes(h, vec![]) } else { CloneNode(h) };
    }
    if cfg.with_rmws && r.chance(cfg.rmws_pct, 100) {
        // one call in three is made on the root of a tree: the whole depth of the tree is then below the node the call names
        let roots = st.roots();
        if r.chance(1, 3) && !roots.is_empty() { return RemoveWs(*r.pick(&roots)); }
        return RemoveWs(pick(r, st, &live, "DET", 35));
    }
    match r.below(100) {
        0..=3 => NewEl(name),
        4..=7 => NewText(text(r)),
        8 => NewComment(text(r).replace('-', "_")),
        9 => NewPi(*r.pick(&pool.pi_names), match r.below(5) { 0 | 1 => None, 2 => Some(String::new()), _ => Some("d".into()) }),
        10..=11 => NewAttr(aname, text(r)),
        12 => NewNs(pfx, uri),
        13 => NewDoc,
        14..=25 => Append(pick(r, st, &live, "DE", b), pick(r, st, &live, "ETCP", b)),
        26..=31 => Prepend(pick(r, st, &live, "DE", b), pick(r, st, &live, "ETCP", b)),
        32..=39 => InsertAfter(pick(r, st, &live, "ETCP", b), pick(r, st, &live, "ETCP", b)),
        40..=47 => InsertBefore(pick(r, st, &live, "ETCP", b), pick(r, st, &live, "ETCP", b)),
        48..=50 => AnyAppend(pick(r, st, &live, "E", b), pick(r, st, &live, "ANETC", b)),
        51 => AppendAttrNode(pick(r, st, &live, "E", b), pick(r, st, &live, "A", b)),
        52 => AppendNsNode(pick(r, st, &live, "E", b), pick(r, st, &live, "N", b)),
        53..=56 => Detach(pick(r, st, &live, "ETCPAN", b)),
        57..=61 => Remove(pick(r, st, &live, "ETCPAN", b)),
        62..=67 => Replace(pick(r, st, &live, "ETCP", b), pick(r, st, &live, "ETCP", b)),
        68..=71 => Wrap(pick(r, st, &live, "ETCP", b), name),
        72..=75 => Unwrap(pick(r, st, &live, "E", b)),
        76..=78 => CloneNode(pick(r, st, &live, "DETCPAN", b)),
        79 => if cfg.with_clonep { ClonePrefixes(pick(r, st, &live, "DE", b), vec![]) } else { CloneNode(pick(r, st, &live, "DE", b)) },
        80 => SetName(pick(r, st, &live, "E", b / 4), name),
        81..=82 => SetAttr(pick(r, st, &live, "E", b / 4), aname, text(r)),
        83 => RmAttr(pick(r, st, &live, "E", b / 4), aname),
        84 => SetNs(pick(r, st, &live, "E", b / 4), pfx, uri),
        85 => RmNs(pick(r, st, &live, "E", b / 4), pfx),
        86 => if r.chance(1, 2) { AttrsClear(pick(r, st, &live, "E", b / 4)) } else { NsClear(pick(r, st, &live, "E", b / 4)) },
        87 => match r.below(4) {
            0 => AttrsGetMutSet(pick(r, st, &live, "E", b / 4), aname, text(r)),
            1 => AttrsEntryOrInsert(pick(r, st, &live, "E", b / 4), aname, text(r)),
            2 => AttrsEntryModify(pick(r, st, &live, "E", b / 4), aname, text(r)),
            _ => AttrsEntryRemove(pick(r, st, &live, "E", b / 4), aname),
        },
        88 => if r.chance(1, 2) { NsGetMutSet(pick(r, st, &live, "E", b / 4), pfx, uri) } else { NsEntryOrInsert(pick(r, st, &live, "E", b / 4), pfx, uri) },
        89..=90 => SetText(pick(r, st, &live, "T", b), text(r)),
        91 => SetComment(pick(r, st, &live, "C", b), r.pick(&["c", "a--b", "-", "a-", "-a", "a-b-", "--", "", "\u{e9}-", "->", "a--", "--a"]).to_string()),
        92 => SetPiData(pick(r, st, &live, "P", b), if r.chance(1, 2) { Some(text(r)) } else { None }),
        93 => SetAttrValue(pick(r, st, &live, "A", b), text(r)),
        94 => SetNsValue(pick(r, st, &live, "N", b), uri),
        95..=96 => TextContentMut(pick(r, st, &live, "E", b), text(r)),
        97 => Cons(r.chance(1, 2)),
        98 => NewDocWith(pick(r, st, &live, "E", b)),
        _ => if cfg.with_rmws {
            // half of the calls are made on the root of a tree (the whole depth of the tree is then below the node the call names)
            let roots = st.roots();
            if r.chance(1, 2) && !roots.is_empty() { RemoveWs(*r.pick(&roots)) } else { RemoveWs(pick(r, st, &live, "DE", b)) }
        } else { Detach(pick(r, st, &live, "ETCP", b)) },
    }
}

fn serialisations(st: &Store) -> Vec<String> {
    st.roots().iter().map(|r| match guard(|| st.xot.to_string(st.known[r])) { Ok(Ok(s)) => s, Ok(Err(_)) => "<error>".into(), Err(()) => "<panic>".into() }).collect()
}

/// runs one history; `ops` None = generate while running.  Returns (ops, observation line).
thread_local! {
    /// the start forest is built with consolidation switched off (so that text nodes written next to each other stay apart) and
    /// consolidation is switched on again before the first call: the regime in which text nodes touch while consolidation is on
    pub static BUILD_UNCONSOLIDATED: std::cell::Cell<bool> = std::cell::Cell::new(false);
}

pub fn run_history(case: &str, pid: &str, seed_rng: &mut Rng, start: &[ANode], ops_in: Option<Vec<Op>>, cfg: &HistCfg,
                   out: &mut Out, stats: &mut Stats, init_cons: bool) -> (String, String, Vec<Op>, String) {
    let mut st = Store::new();
    let pool = make_pool(&mut st.xot, &mut st.reg, true);
    // (a start forest that writes two text nodes next to each other can only be built that way, also when it is replayed)
    fn adjacent_text(a: &ANode) -> bool {
        let kids: &[ANode] = match a { ANode::Doc(k) => k, ANode::Elem { kids, .. } => kids, _ => return false };
        kids.windows(2).any(|w| matches!((&w[0], &w[1]), (ANode::Text(_), ANode::Text(_)))) || kids.iter().any(adjacent_text)
    }
    let unconsolidated = BUILD_UNCONSOLIDATED.with(|f| f.get()) || start.iter().any(adjacent_text);
    if unconsolidated { st.set_cons(false); }
    for a in start {
        let n = build(&mut st.xot, &st.reg, a);
        st.learn(n);
    }
    if unconsolidated { st.set_cons(true); }
    st.refresh();
    if !init_cons {
        st.set_cons(false);
    }
    let tables = st.reg.tables();
    let init = st.readback();
    let mut ops: Vec<Op> = vec![];
    let mut obs: Vec<String> = vec![];
    let mut removed_seen: std::collections::BTreeSet<Handle> = Default::default();
    let nsteps = ops_in.as_ref().map(|v| v.len()).unwrap_or(cfg.steps);
    // C06 "a refused call changes NOTHING": besides the comparison of the store before and after the refused call, a copy of the
    // Xot taken before the call (which never sees the refused call) goes through the following calls too: whatever the refusal
    // left behind inside the Xot (a switch, a cache) would make the two stores part ways
    let mut shadow: Option<(Store, usize, String)> = None;
    let copy_store = |st: &Store| Store { xot: st.xot.clone(), reg: Reg { nss: st.reg.nss.clone(), prefixes: st.reg.prefixes.clone(), names: st.reg.names.clone() }, known: st.known.clone(), ever_unconsolidated: st.ever_unconsolidated, cons_off: st.cons_off };
    let plain = |t: String| -> String { t.split(' ').map(strip_handle).collect::<Vec<_>>().join(" ") };
    for k in 0..nsteps {
        let op = match &ops_in {
            Some(v) => v[k].clone(),
            None => gen_op(seed_rng, &st, &pool, cfg),
        };
        // a given sequence ends where it names a node an earlier call of it has destroyed (or that was never there)
        if ops_in.is_some() && op_nodes(&op).iter().any(|h| !st.known.contains_key(h) || !st.live(*h)) { break; }
        let pre_copy = if (pid == "C06" || pid == "ALL") && shadow.is_none() { Some(copy_store(&st)) } else { None };
        let before = snapshot(&st);
        let before_forest = if pid == "C05" || pid == "ALL" { Some(oforest(&st)) } else { None };
        let c18_before = if pid == "C18" { Some(oforest(&st)) } else { None };
        let c12_before = if pid == "C12" { Some((oforest(&st), root_texts(&st), in_place_serialises(&st, &op))) } else { None };
        let before_ser = serialisations(&st);
        let before_roots = st.roots();
        let live_before = st.live_handles();
        let outcome = exec(&mut st, &op);
        st.refresh();
        let op = match (&op, &outcome) {
            (Op::ClonePrefixes(h, _), Outcome::Ok(Some(c))) => Op::ClonePrefixes(*h, added_prefix_order(&st, *h, *c)),
            _ => op,
        };
        let after = snapshot(&st);
        // the copy that never saw the refused call follows
        if let Some((sh, since, refused)) = shadow.as_mut() {
            if op_nodes(&op).iter().all(|h| sh.known.contains_key(h)) && k <= *since + 8 {
                let o2 = exec(sh, &op);
                sh.refresh();
                stats.bump("c06.shadow_steps");
                if outcome_str(&o2).split(':').next() != outcome_str(&outcome).split(':').next() || plain(sh.readback()) != plain(st.readback()) {
                    out.fail(case, "refused-call-left-a-trace", &format!("step {}: `{}` behaves differently after the refused call of step {} (`{}`) than in a copy of the Xot that never saw that call: {} / {}", k, op_str(&op), since, refused, plain(st.readback()), plain(sh.readback())));
                    shadow = None;
                }
            } else {
                shadow = None;
            }
        }
        if let (Outcome::Err(_), Some(c)) = (&outcome, pre_copy) {
            if shadow.is_none() { shadow = Some((c, k, op_str(&op))); stats.bump("c06.shadows_started"); }
        }
        stats.bump(&format!("op.{}", op_str(&op).split(' ').next().unwrap()));
        stats.bump(match &outcome { Outcome::Ok(_) => "outcome.ok", Outcome::Err(_) => "outcome.err", Outcome::Panic => "outcome.panic" });
        // ---- C06: a refusal changes nothing; no panic apart from the documented ones
        if pid == "C06" || pid == "ALL" {
            match &outcome {
                Outcome::Panic => {
                    let args = op_nodes(&op);
                    let non_element = args.first().map(|h| kind_of_before(&before, *h) != 'E').unwrap_or(false);
                    if !(documented_panic(&op) && non_element) {
                        out.fail(case, "panic", &format!("step {}: `{}` panicked", k, op_str(&op)));
                    }
                }
                Outcome::Err(_) => {
                    if before != after {
                        let diff = first_diff(&before, &after);
                        out.fail(case, "refusal-changed-state", &format!("step {}: `{}` returned an error but {}", k, op_str(&op), diff));
                    } else if before_ser != serialisations(&st) || before_roots != st.roots() {
                        out.fail(case, "refusal-changed-state", &format!("step {}: `{}` returned an error but a tree serialises differently", k, op_str(&op)));
                    }
                    for h in &live_before {
                        if !st.live(*h) {
                            out.fail(case, "refusal-changed-state", &format!("step {}: `{}` returned an error but handle {} is no longer live", k, op_str(&op), hs(*h)));
                        }
                    }
                }
                _ => {}
            }
        }
        // ---- C05: the effect of a successful call is what the ordered-tree model predicts
        if let Some(bf) = &before_forest {
            match predict(bf, &op) {
                Some(want) => {
                    stats.bump("c05.predicted");
                    let old: std::collections::BTreeSet<Handle> = bf.nodes.keys().copied().collect();
                    match &outcome {
                        Outcome::Ok(_) => {
                            let got = oforest(&st);
                            // remove / detach / element_unwrap only ever merge the later text node into the earlier one:
                            // there the surviving handle is part of the prediction
                            let text_ids = matches!(op, Op::Remove(_) | Op::Detach(_) | Op::Unwrap(_));
                            if want.canon_with(&old, text_ids) != got.canon_with(&old, text_ids) {
                                out.fail(case, "effect-mismatch", &format!("step {}: `{}` left the store as {:?} but the ordered-tree model predicts {:?}", k, op_str(&op), got.canon_with(&old, text_ids), want.canon_with(&old, text_ids)));
                            }
                        }
                        other => out.fail(case, "precondition-met-but-refused", &format!("step {}: `{}` satisfies the documented preconditions but returned {}", k, op_str(&op), outcome_str(other))),
                    }
                }
                None => stats.bump("c05.unpredicted"),
            }
        }
        // ---- C05, in every store (also one with adjacent text nodes left over from a time when consolidation was off, where the
        //      ordered-tree model does not predict which pairs a call merges): a move neither makes nor loses character data
        if let Some(bf) = &before_forest {
            if matches!(op, Op::Append(..) | Op::Prepend(..) | Op::InsertAfter(..) | Op::InsertBefore(..) | Op::AnyAppend(..) | Op::Detach(_) | Op::Wrap(..) | Op::Unwrap(_)) {
                if let Outcome::Ok(_) = &outcome {
                    let chars = |f: &OForest| -> Vec<char> {
                        let mut v: Vec<char> = f.nodes.values().filter_map(|n| match &n.val { OVal::Text(t) => Some(t.clone()), _ => None }).flat_map(|t| t.chars().collect::<Vec<char>>()).collect();
                        v.sort();
                        v
                    };
                    let (b, a) = (chars(bf), chars(&oforest(&st)));
                    if b != a {
                        out.fail(case, "move-changed-character-data", &format!("step {}: `{}` succeeded and the text nodes of the store hold {} characters where they held {}", k, op_str(&op), a.len(), b.len()));
                    }
                }
            }
        }
        // ---- C12: a clone is equal to its source, made of new nodes, and shares nothing; every call leaves alone the trees
        //      none of its arguments lives in
        if let Some((bf, texts, in_place)) = &c12_before {
            c12_oracle(case, k, &op, &outcome, bf, texts, *in_place, &st, out, stats);
        }
        // ---- C18: remove_insignificant_whitespace removes exactly the insignificant whitespace; a second call changes nothing
        if pid == "C18" {
            if let Op::RemoveWs(h) = &op {
                c18_oracle(case, k, *h, &op, &outcome, c18_before.as_ref().unwrap(), &mut st, out, stats);
            }
        }
        // ---- C04: validity, handle stability, is_removed for ever
        if pid == "C04" || pid == "ALL" {
            if outcome != Outcome::Panic {
                for (cls, text) in validity(&st) {
                    out.fail(case, &cls, &format!("after step {} `{}`: {}", k, op_str(&op), text));
                }
            }
            for h in &live_before {
                if !st.live(*h) { removed_seen.insert(*h); }
            }
            for h in &removed_seen {
                if st.known.contains_key(h) && !st.xot.is_removed(st.known[h]) {
                    out.fail(case, "is-removed-not-forever", &format!("after step {} `{}`: is_removed({}) is false again", k, op_str(&op), hs(*h)));
                }
            }
            // a handle denotes the same node with the same value unless the operation names it or merges into it
            if let Outcome::Ok(_) = outcome {
                let touched = op_nodes(&op);
                for (h, v) in &before {
                    if let Some(v2) = after.get(h) {
                        let val1 = v.split(' ').next().unwrap();
                        let val2 = v2.split(' ').next().unwrap();
                        if val1 != val2 && !touched.contains(h) && !val1.starts_with('T') && !may_change_value(&op, &st, *h) {
                            out.fail(case, "handle-value-changed", &format!("step {} `{}`: value of untouched node {} changed from {} to {}", k, op_str(&op), hs(*h), val1, val2));
                        }
                    }
                }
            }
        }
        ops.push(op);
        obs.push(format!("{}/{}", outcome_str(&outcome), st.readback()));
    }
    (tables, init, ops, obs.join(";"))
}

fn kind_of_before(before: &std::collections::BTreeMap<Handle, String>, h: Handle) -> char {
    before.get(&h).and_then(|s| s.chars().next()).unwrap_or('?')
}

fn first_diff(a: &std::collections::BTreeMap<Handle, String>, b: &std::collections::BTreeMap<Handle, String>) -> String {
    for (h, v) in a {
        match b.get(h) {
            None => return format!("node {} disappeared", hs(*h)),
            Some(w) if w != v => return format!("node {} changed from [{}] to [{}]", hs(*h), v, w),
            _ => {}
        }
    }
    for h in b.keys() {
        if !a.contains_key(h) {
            return format!("node {} appeared", hs(*h));
        }
    }
    "nothing?".into()
}

/// operations that legitimately change the value of nodes they do not name: the attribute / namespace map calls
/// (they name the element, the value that changes is the attribute node's), text_content_mut (the text child)
fn may_change_value(op: &Op, st: &Store, h: Handle) -> bool {
    use Op::*;
    match op {
        SetAttr(e, ..) | AttrsGetMutSet(e, ..) | AttrsEntryOrInsert(e, ..) | AttrsEntryModify(e, ..) | SetNs(e, ..) | NsGetMutSet(e, ..)
        | NsEntryOrInsert(e, ..) | TextContentMut(e, _) | AnyAppend(e, _) | AppendAttrNode(e, _) | AppendNsNode(e, _) => {
            st.known.get(&h).map(|n| st.xot.parent(*n).map(|p| handle(p)) == Some(*e)).unwrap_or(false)
        }
        _ => false,
    }
}

pub fn main_for(pid: &str) {
    quiet_panics();
    let a = args();
    let mut out = Out::new(&a.out);
    let mut stats = Stats::default();
    if let Some(path) = &a.replay {
        let text = std::fs::read_to_string(path).expect("replay file");
        for line in text.lines().filter(|l| !l.trim().is_empty()) {
            replay_line(pid, line, &mut out, &mut stats);
        }
        out.finish(&stats);
        return;
    }
    let base = Rng::new(a.seed);
    let steps = if a.tier == "thorough" { 40 } else { 30 };
    for k in 0..a.n {
        let mut r = base.fork(k as u64);
        let gcfg = GenCfg { max_nodes: 10, max_depth: 3, max_fanout: 3, adjacent_text: false, empty_text: k % 3 == 0, doc_root: 50, ..GenCfg::default() };
        // the start forests: 1-3 trees in one Xot
        let mut tmp = Store::new();
        let pool = make_pool(&mut tmp.xot, &mut tmp.reg, true);
        let ntrees = 1 + r.below(3);
        let start: Vec<ANode> = (0..ntrees).map(|_| gen_tree(&mut r, &gcfg, &pool)).collect();
        let cfg = HistCfg { steps, refusal_bias: if pid == "C06" { 45 } else { 25 }, with_clonep: false, with_rmws: false, rmws_pct: 0, clone_pct: 0 };
        let case = format!("c{}", k);
        let init_cons = k % 6 != 5;
        let (tables, init, ops, obs) = run_history(&case, pid, &mut r, &start, None, &cfg, &mut out, &mut stats, init_cons);
        let ops_text: Vec<String> = ops.iter().map(op_str).collect();
        let line = format!("{} {} | {} | {}", case, tables, init, ops_text.join(";"));
        out.case(&line);
        stats.case(&line, ops.len() >= 5);
        stats.sample(&line);
        out.imp(&format!("{} {}", case, obs));
    }
    // ---- exhaustive small-scope stream: every structural call with every argument tuple over ALL live nodes (of every kind, in
    // every tree) of every small start forest: a document whose element (with one attribute) has up to 2 (thorough: 3) children
    // drawn from { text, empty element, element holding one text }, next to a parentless text and a parentless element with text.
    // One call per case, so that a disagreement names the call directly.
    {
        let mut tmp = Store::new();
        let pool = make_pool(&mut tmp.xot, &mut tmp.reg, true);
        let max_kids = if a.tier == "thorough" { 3 } else { 2 };
        let cfg = HistCfg { steps: 1, refusal_bias: 0, with_clonep: false, with_rmws: false, rmws_pct: 0, clone_pct: 0 };
        let mut r = base.fork(u64::MAX);
        let mut idx = 0usize;
        // the quick tier takes the forests with three children too, but there only with the element and its three children as
        // arguments (the seams: a node moved, replaced, wrapped or removed between two others)
        for start in small_forests(&pool, 3) {
            let nkids = match &start[0] { ANode::Doc(d) => match &d[0] { ANode::Elem { kids, .. } => kids.len(), _ => 0 }, _ => 0 };
            let mut probe = Store::new();
            let _ = make_pool(&mut probe.xot, &mut probe.reg, true);
            for t in &start { let n = build(&mut probe.xot, &probe.reg, t); probe.learn(n); }
            probe.refresh();
            let mut hs = probe.live_handles();
            if nkids > max_kids {
                let doc = probe.roots().into_iter().find(|h| probe.xot.is_document(probe.known[h])).map(|h| probe.known[&h]);
                let el = doc.and_then(|d| probe.xot.first_child(d));
                hs.retain(|h| { let n = probe.known[h]; Some(n) == el || (probe.xot.parent(n) == el && !probe.xot.is_attribute_node(n) && !probe.xot.is_namespace_node(n)) });
            }
            for op in small_ops(&hs, pool.names[1 % pool.names.len()]) {
                let case = format!("x{}", idx);
                idx += 1;
                let (tables, init, ops, obs) = run_history(&case, pid, &mut r, &start, Some(vec![op]), &cfg, &mut out, &mut stats, true);
                let ops_text: Vec<String> = ops.iter().map(op_str).collect();
                let line = format!("{} {} | {} | {}", case, tables, init, ops_text.join(";"));
                out.case(&line);
                stats.case(&line, true);
                stats.bump("stream.exhaustive_small_scope");
                out.imp(&format!("{} {}", case, obs));
            }
        }
    }
    // ---- the same, in the regime in which text nodes touch although consolidation is on (the start forest is built with
    // consolidation switched off, then it is switched on): an element whose children are three text nodes and an element, in the
    // four orders that put the element first, last and in between; every structural call with every argument pair over the
    // element and its children.  The ordered-tree model does not predict which pairs a call merges here; the oracle is that a
    // move neither makes nor loses character data, and the correspondence compares the whole store.
    {
        let mut tmp = Store::new();
        let pool = make_pool(&mut tmp.xot, &mut tmp.reg, true);
        let cfg = HistCfg { steps: 1, refusal_bias: 0, with_clonep: false, with_rmws: false, rmws_pct: 0, clone_pct: 0 };
        let mut r = base.fork(u64::MAX - 7);
        let name = pool.names[0];
        let txt = |s: &str| ANode::Text(s.into());
        let el = || ANode::Elem { name, ns: vec![], attrs: vec![], kids: vec![] };
        let orders: Vec<Vec<ANode>> = vec![
            vec![txt("a"), txt("b"), txt("c"), el()], vec![el(), txt("a"), txt("b"), txt("c")],
            vec![txt("a"), el(), txt("b"), txt("c")], vec![txt("a"), txt("b"), txt("c")],
        ];
        let mut idx = 0usize;
        BUILD_UNCONSOLIDATED.with(|f| f.set(true));
        for kids in orders {
            let start = vec![ANode::Doc(vec![ANode::Elem { name, ns: vec![], attrs: vec![], kids }]), ANode::Text("d".into())];
            let mut probe = Store::new();
            let _ = make_pool(&mut probe.xot, &mut probe.reg, true);
            probe.set_cons(false);
            for t in &start { let n = build(&mut probe.xot, &probe.reg, t); probe.learn(n); }
            probe.set_cons(true);
            probe.refresh();
            let hs: Vec<Handle> = probe.live_handles().into_iter().filter(|h| !probe.xot.is_document(probe.known[h])).collect();
            for op in small_ops(&hs, pool.names[1 % pool.names.len()]) {
                if a.tier != "thorough" && !matches!(op, Op::Append(..) | Op::Prepend(..) | Op::InsertAfter(..) | Op::InsertBefore(..) | Op::AnyAppend(..) | Op::Detach(_) | Op::Remove(_) | Op::Replace(..)) { continue; }
                let case = format!("j{}", idx);
                idx += 1;
                let (tables, init, ops, obs) = run_history(&case, pid, &mut r, &start, Some(vec![op]), &cfg, &mut out, &mut stats, true);
                let ops_text: Vec<String> = ops.iter().map(op_str).collect();
                let line = format!("{} {} | {} | {}", case, tables, init, ops_text.join(";"));
                out.case(&line);
                stats.case(&line, true);
                stats.bump("stream.adjacent_text_regime");
                out.imp(&format!("{} {}", case, obs));
            }
        }
        BUILD_UNCONSOLIDATED.with(|f| f.set(false));
    }
    // ---- exhaustive three-call histories on one small forest (state that persists inside the Xot between calls — a cache, a
    // switch, a remembered insertion point — shows only in a SEQUENCE of calls): an element with a declaration, an attribute, an
    // element child and a text child, next to a parentless element, a parentless attribute node and a parentless text; twenty
    // calls around that element (prepend / append / insert of the parentless nodes and of its own children, detach / remove /
    // any_append of its attribute and namespace nodes, map inserts, replace, wrap, the consolidation switch), every sequence of
    // three of them: 8000 histories, all in the thorough tier, a quarter (chosen by the seed) in the quick tier
    {
        let mut tmp = Store::new();
        let pool = make_pool(&mut tmp.xot, &mut tmp.reg, true);
        let name = pool.names[0];
        let start = vec![
            ANode::Doc(vec![ANode::Elem { name, ns: vec![(pool.prefixes[1], pool.uris[1])], attrs: vec![(pool.attr_names[0], "v".into())],
                                          kids: vec![ANode::Elem { name, ns: vec![], attrs: vec![], kids: vec![] }, ANode::Text("t".into())] }]),
            ANode::Elem { name, ns: vec![], attrs: vec![], kids: vec![] },
            ANode::Attr(pool.attr_names[3], "y".into()),
            ANode::Text("u".into()),
        ];
        let mut probe = Store::new();
        let _ = make_pool(&mut probe.xot, &mut probe.reg, true);
        let roots: Vec<xot::Node> = start.iter().map(|t| { let n = build(&mut probe.xot, &probe.reg, t); probe.learn(n); n }).collect();
        probe.refresh();
        let x = &probe.xot;
        let e = x.first_child(roots[0]).unwrap();
        let (a1, n1) = (x.attribute_nodes(e).next().unwrap(), x.namespaces(e).nodes().next().unwrap());
        let c1 = x.first_child(e).unwrap();
        let t1 = x.next_sibling(c1).unwrap();
        let (e, a1, n1, c1, t1, w, ra, rt) = (handle(e), handle(a1), handle(n1), handle(c1), handle(t1), handle(roots[1]), handle(roots[2]), handle(roots[3]));
        let calls: Vec<Op> = vec![
            Op::Prepend(e, w), Op::Prepend(e, rt), Op::Append(e, w), Op::Append(e, rt), Op::InsertBefore(c1, w), Op::InsertAfter(t1, w),
            Op::Detach(a1), Op::Detach(n1), Op::Detach(c1), Op::Detach(t1), Op::Remove(a1), Op::Remove(c1),
            Op::AnyAppend(e, ra), Op::AnyAppend(w, a1), Op::AppendAttrNode(e, a1), Op::SetAttr(e, pool.attr_names[6], "z".into()),
            Op::SetNs(e, pool.prefixes[2], pool.uris[2]), Op::Replace(c1, w), Op::Wrap(t1, name), Op::Cons(false),
        ];
        let n_calls = calls.len();
        let cfg = HistCfg { steps: 3, refusal_bias: 0, with_clonep: false, with_rmws: false, rmws_pct: 0, clone_pct: 0 };
        let mut r = base.fork(u64::MAX - 2);
        let quarter = (a.seed % 4) as usize;
        for idx in 0..n_calls * n_calls * n_calls {
            if a.tier != "thorough" && idx % 4 != quarter { continue; }
            let seq = vec![calls[idx / (n_calls * n_calls)].clone(), calls[(idx / n_calls) % n_calls].clone(), calls[idx % n_calls].clone()];
            // a call on a node an earlier call of the sequence has destroyed cannot be made: such sequences end there
            let case = format!("y{}", idx);
            let (tables, init, ops, obs) = run_history(&case, pid, &mut r, &start, Some(seq), &cfg, &mut out, &mut stats, true);
            let ops_text: Vec<String> = ops.iter().map(op_str).collect();
            let line = format!("{} {} | {} | {}", case, tables, init, ops_text.join(";"));
            out.case(&line);
            stats.case(&line, true);
            stats.bump("stream.exhaustive_three_calls");
            out.imp(&format!("{} {}", case, obs));
        }
    }
    // ---- value setters, exhaustively on one forest that has every kind of node: Comment::set with bodies around the refused
    // "--" (a hyphen at either end, the empty body), ProcessingInstruction::set_data (None, empty, data), Text::set, each on
    // every node (a setter called through the wrong *_mut accessor is a no-op).  One call per case.
    {
        let mut tmp = Store::new();
        let pool = make_pool(&mut tmp.xot, &mut tmp.reg, true);
        let name = pool.names[0];
        let start = vec![
            ANode::Doc(vec![ANode::Comment("k".into()),
                            ANode::Elem { name, ns: vec![], attrs: vec![(pool.attr_names[0], "v".into())],
                                          kids: vec![ANode::Text("t".into()), ANode::Comment("c".into()), ANode::Pi(pool.pi_names[0], Some("d".into())), ANode::Pi(pool.pi_names[0], None)] }]),
            ANode::Comment("r".into()),
        ];
        let mut probe = Store::new();
        let _ = make_pool(&mut probe.xot, &mut probe.reg, true);
        for t in &start { let n = build(&mut probe.xot, &probe.reg, t); probe.learn(n); }
        probe.refresh();
        let hs = probe.live_handles();
        let cfg = HistCfg { steps: 1, refusal_bias: 0, with_clonep: false, with_rmws: false, rmws_pct: 0, clone_pct: 0 };
        let mut r = base.fork(u64::MAX - 1);
        let mut idx = 0usize;
        let mut calls: Vec<Op> = vec![];
        for a in &hs {
            for t in ["-", "a-", "-a", "a--b", "", "c", "--", "a-b-", "\u{e9}-"] { calls.push(Op::SetComment(*a, t.to_string())); }
            calls.push(Op::SetPiData(*a, None));
            calls.push(Op::SetPiData(*a, Some(String::new())));
            calls.push(Op::SetPiData(*a, Some("e".into())));
            calls.push(Op::SetText(*a, "s".into()));
            calls.push(Op::SetText(*a, String::new()));
            calls.push(Op::SetAttrValue(*a, "w".into()));
        }
        for first in calls {
            // the call, then the same call again: a refused call that changed something shows on the second one as well
            let case = format!("v{}", idx);
            idx += 1;
            let (tables, init, ops, obs) = run_history(&case, pid, &mut r, &start, Some(vec![first.clone(), first]), &cfg, &mut out, &mut stats, true);
            let ops_text: Vec<String> = ops.iter().map(op_str).collect();
            let line = format!("{} {} | {} | {}", case, tables, init, ops_text.join(";"));
            out.case(&line);
            stats.case(&line, true);
            stats.bump("stream.value_setters");
            out.imp(&format!("{} {}", case, obs));
        }
    }
    // ---- xml:id stream (C04, "no accessor hands out a removed node"): the start document is PARSED, so that the parser's
    // xml:id index is filled; after every call xml_id_node is asked for every id and the answers are part of the observation
    if pid == "C04" || pid == "ALL" {
        let n_id = if a.tier == "thorough" { 1500 } else { 120 };
        for k in 0..n_id {
            let mut r = base.fork(0x1D00_0000 + k as u64);
            if let Some((line, obs)) = run_id_history(&format!("i{}", k), &mut r, None, None, if a.tier == "thorough" { 24 } else { 16 }, &mut out, &mut stats) {
                out.case(&line);
                stats.case(&line, true);
                stats.bump("stream.xml_id_index");
                out.imp(&obs);
            }
        }
    }
    out.finish(&stats);
}

/// one history on a parsed document with xml:id attributes.  `xml` / `ops_in` Some = replay.
fn run_id_history(case: &str, r: &mut Rng, xml: Option<String>, ops_in: Option<Vec<Op>>, steps: usize, out: &mut Out, stats: &mut Stats) -> Option<(String, String)> {
    let mut st = Store::new();
    let pool = make_pool(&mut st.xot, &mut st.reg, true);
    let _ = st.reg.prefix(&mut st.xot, "dx");   // the second prefix some start documents bind to the XML namespace name
    let text = match xml {
        Some(t) => t,
        None => {
            // a random well-formed document, some of whose elements carry xml:id (name index 1 of the registry)
            let gcfg = GenCfg { max_nodes: 12, max_depth: 4, max_fanout: 3, adjacent_text: false, empty_text: false, doc_root: 100, fragment: 0, ..GenCfg::default() };
            let mut t = gen_tree(r, &gcfg, &pool);
            make_representable(&mut t);
            let mut counter = 0usize;
            fn sprinkle(r: &mut Rng, a: &mut ANode, counter: &mut usize) {
                match a {
                    ANode::Doc(kids) => { for k in kids.iter_mut() { sprinkle(r, k, counter); } }
                    ANode::Elem { attrs, kids, .. } => {
                        attrs.retain(|(n, _)| *n != 1);
                        if r.chance(2, 3) { attrs.push((1, format!("i{}", *counter))); *counter += 1; }
                        for k in kids.iter_mut() { sprinkle(r, k, counter); }
                    }
                    _ => {}
                }
            }
            sprinkle(r, &mut t, &mut counter);
            declare_missing(r, &mut t, &st.reg, &pool, 100);
            let mut tmp = Store::new();
            let _ = make_pool(&mut tmp.xot, &mut tmp.reg, true);
            let root = build(&mut tmp.xot, &tmp.reg, &t);
            let s = match guard(|| tmp.xot.to_string(root)) { Ok(Ok(s)) => s, _ => { stats.bump("idstream.unserialisable_start"); return None; } };
            // one start document in four reaches the name xml:id through a second prefix bound to the XML namespace name
            // (the parser accepts such a binding): alone — the attribute is an xml:id like any other — or next to a real xml:id
            // on the same element, which is one expanded name twice and must be refused (unique attribute names, C04 / C03)
            const XMLNS: &str = "http://www.w3.org/XML/1998/namespace";
            match (r.below(8), s.find(" xml:id=\"")) {
                (0, Some(at)) => { stats.bump("idstream.second_xml_prefix_alone"); format!("{} xmlns:dx=\"{}\" dx:id=\"{}", &s[..at], XMLNS, &s[at + 9..]) }
                (1, Some(at)) => { stats.bump("idstream.second_xml_prefix_twice"); format!("{} xmlns:dx=\"{}\" dx:id=\"zz\"{}", &s[..at], XMLNS, &s[at..]) }
                _ => s,
            }
        }
    };
    let doc = match guard(|| st.xot.parse(&text)) { Ok(Ok(n)) => n, _ => { stats.bump("idstream.unparsable_start"); return None; } };
    let doc_h = st.learn(doc);
    st.refresh();
    for (class, what) in validity(&st) {
        out.fail(case, &format!("parsed-{}", class), &format!("the document parsed from {:?} is not valid: {}", text, what));
    }
    // the index as the crate reports it right after parsing
    let mut ids: Vec<(String, Handle)> = vec![];
    for n in st.xot.descendants(doc).collect::<Vec<_>>() {
        if let Some(v) = st.xot.get_attribute(n, st.xot.xml_id_name()) {
            let v = v.to_string();
            if let Some(found) = st.xot.xml_id_node(doc, &v) { ids.push((v, handle(found))); }
        }
    }
    let tables = st.reg.tables();
    let init = st.readback();
    let cfg = HistCfg { steps, refusal_bias: 15, with_clonep: false, with_rmws: false, rmws_pct: 0, clone_pct: 0 };
    let nsteps = ops_in.as_ref().map(|v| v.len()).unwrap_or(steps);
    let mut ops: Vec<Op> = vec![];
    let mut obs: Vec<String> = vec![];
    for k in 0..nsteps {
        // (every third history starts by cloning the parsed document itself: the index belongs to the parsed document, a clone
        // has none of its own and must never answer with nodes of another tree)
        let op = match &ops_in { Some(v) => v[k].clone(), None => if k == 0 && r.chance(1, 3) { Op::CloneNode(doc_h) } else { gen_op(r, &st, &pool, &cfg) } };
        let outcome = exec(&mut st, &op);
        st.refresh();
        stats.bump(&format!("op.{}", op_str(&op).split(' ').next().unwrap()));
        // oracle only: whatever document node the index is asked through, an answer is a node of that document
        for rh in st.roots() {
            let rn = st.known[&rh];
            if rh == doc_h || !st.xot.is_document(rn) { continue; }
            for (id, _) in &ids {
                if let Ok(Some(n)) = guard(|| st.xot.xml_id_node(rn, id)) {
                    stats.bump("idstream.answer_through_other_document");
                    let mut top = n;
                    while let Some(p) = st.xot.parent(top) { top = p; }
                    if top != rn {
                        out.fail(case, "xml-id-answer-outside-document", &format!("after step {} `{}`: xml_id_node({}, {:?}) returned {}, a node of another tree", k, op_str(&op), hs(rh), id, hs(handle(n))));
                    }
                }
            }
        }
        let mut answers: Vec<String> = vec![];
        for (id, h0) in &ids {
            let doc_node = st.known[&doc_h];
            match guard(|| st.xot.xml_id_node(doc_node, id)) {
                Ok(Some(n)) => {
                    let h = handle(n);
                    answers.push(hs(h));
                    stats.bump("idstream.answer_some");
                    if st.xot.is_removed(n) || !st.live_handles().contains(&h) {
                        out.fail(case, "accessor-returned-removed-node", &format!("after step {} `{}`: xml_id_node({:?}) returned {} which has been removed", k, op_str(&op), id, hs(h)));
                    } else if h != *h0 {
                        out.fail(case, "xml-id-answer-changed", &format!("after step {} `{}`: xml_id_node({:?}) returned {} but the parser recorded {}", k, op_str(&op), id, hs(h), hs(*h0)));
                    }
                }
                Ok(None) => { answers.push("-".into()); stats.bump("idstream.answer_none"); }
                Err(()) => { answers.push("PANIC".into()); out.fail(case, "panic", &format!("after step {} `{}`: xml_id_node({:?}) panicked", k, op_str(&op), id)); }
            }
        }
        ops.push(op);
        obs.push(format!("{}/{}#{}", outcome_str(&outcome), st.readback(), answers.join(",")));
    }
    let ops_text: Vec<String> = ops.iter().map(op_str).collect();
    let idx: Vec<String> = ids.iter().map(|(id, h)| format!("{}:{}", enc(id), hs(*h))).collect();
    let line = format!("{} {} | {} | {} | idx={} | xml={}", case, tables, init, ops_text.join(";"), idx.join(","), enc(&text));
    Some((line, format!("{} {}", case, obs.join(";"))))
}

fn small_forests(pool: &Pool, max_kids: usize) -> Vec<Vec<ANode>> {
    let name = pool.names[0];
    let leaf = |k: usize| -> ANode {
        match k {
            0 => ANode::Text("t".into()),
            1 => ANode::Elem { name, ns: vec![], attrs: vec![], kids: vec![] },
            _ => ANode::Elem { name, ns: vec![], attrs: vec![], kids: vec![ANode::Text("w".into())] },
        }
    };
    let mut out = vec![];
    for len in 0..=max_kids {
        let total = 3usize.pow(len as u32);
        'seq: for mut i in 0..total {
            let mut ks = vec![];
            for _ in 0..len { ks.push(i % 3); i /= 3; }
            for w in ks.windows(2) { if w[0] == 0 && w[1] == 0 { continue 'seq; } }   // adjacent text is not a reachable start state
            let kids: Vec<ANode> = ks.iter().map(|k| leaf(*k)).collect();
            let root = ANode::Elem { name, ns: vec![], attrs: vec![(pool.attr_names[0], "v".into())], kids };
            out.push(vec![
                ANode::Doc(vec![root]),
                ANode::Text("d".into()),
                ANode::Elem { name, ns: vec![], attrs: vec![], kids: vec![ANode::Text("u".into())] },
            ]);
        }
    }
    out
}

fn small_ops(hs: &[Handle], name: usize) -> Vec<Op> {
    let mut v = vec![];
    for a in hs {
        v.push(Op::Detach(*a));
        v.push(Op::Remove(*a));
        v.push(Op::Unwrap(*a));
        v.push(Op::Wrap(*a, name));
        v.push(Op::CloneNode(*a));
        v.push(Op::TextContentMut(*a, "m".into()));
        v.push(Op::NewDocWith(*a));
        for b in hs {
            v.push(Op::Append(*a, *b));
            v.push(Op::Prepend(*a, *b));
            v.push(Op::InsertAfter(*a, *b));
            v.push(Op::InsertBefore(*a, *b));
            v.push(Op::Replace(*a, *b));
            v.push(Op::AnyAppend(*a, *b));
        }
    }
    v
}

/// a replayed case line carries its start forest as a read-back text; the forest is rebuilt node by node so that the
/// handles come out the same (slots are allocated in increasing order in a fresh Xot)
fn replay_line(pid: &str, line: &str, out: &mut Out, stats: &mut Stats) {
    let (case, rest) = line.split_once(' ').unwrap();
    let parts: Vec<&str> = rest.split(" | ").collect();
    if let Some(x) = parts.iter().find(|p| p.starts_with("xml=")) {
        // a history of the xml:id stream: the start document is parsed again from its text
        let ops: Vec<Op> = parts.get(2).unwrap_or(&"").split(';').filter(|s| !s.is_empty()).map(parse_op).collect();
        let mut r = Rng::new(0);
        if let Some((l, obs)) = run_id_history(case, &mut r, Some(dec(&x[4..])), Some(ops), 0, out, stats) {
            out.case(&l);
            out.imp(&obs);
        }
        return;
    }
    let init = parts[1];
    let ops: Vec<Op> = parts.get(2).unwrap_or(&"").split(';').filter(|s| !s.is_empty()).map(parse_op).collect();
    // rebuild the start trees from the init text (handles stripped)
    let cons = init.starts_with("c1");
    let tree_text: String = init.split(' ').skip(1).map(|t| strip_handle(t)).collect::<Vec<_>>().join(" ");
    let start = crate::treeparse::parse_anodes(&tree_text);
    let mut r = Rng::new(0);
    let cfg = HistCfg { steps: ops.len(), refusal_bias: 0, with_clonep: false, with_rmws: false, rmws_pct: 0, clone_pct: 0 };
    let (tables, init2, ops2, obs) = run_history(case, pid, &mut r, &start, Some(ops), &cfg, out, stats, cons);
    if init2 != init {
        // the rebuilt start state does not have the recorded handles: the replay is not faithful
        out.fail(case, "replay-mismatch", &format!("rebuilt start state {} differs from the recorded one {}", init2, init));
    }
    let ops_text: Vec<String> = ops2.iter().map(op_str).collect();
    out.case(&format!("{} {} | {} | {}", case, tables, init2, ops_text.join(";")));
    out.imp(&format!("{} {}", case, obs));
}

fn strip_handle(tok: &str) -> String {
    // E2@5.0(  ->  E2(    T104@3.0 -> T104
    match tok.find('@') {
        None => tok.to_string(),
        Some(i) => {
            let tail = &tok[i..];
            if tail.ends_with('(') { format!("{}(", &tok[..i]) } else { tok[..i].to_string() }
        }
    }
}

// ------------------------------------------------------------------------------------------------------------
// C18 oracle: the property evaluated directly on the read-back, independent of the Coq model.

fn xml_ws_only(s: &str) -> bool {
    s.chars().all(|c| c == ' ' || c == '\t' || c == '\r' || c == '\n')
}

/// the text nodes the property says must go when the call is made on `target`
fn c18_expected(f: &OForest, target: Handle) -> Vec<Handle> {
    fn preserve_at(f: &OForest, mut n: Option<Handle>) -> bool {
        // the innermost xml:space attribute on the ancestors-or-self decides (name index 0 = xml:space)
        while let Some(h) = n {
            for k in &f.nodes[&h].kids {
                if let OVal::Attr(0, v) = &f.nodes[k].val {
                    return v == "preserve";
                }
            }
            n = f.nodes[&h].parent;
        }
        false
    }
    let mut out = vec![];
    let mut stack = vec![target];
    while let Some(h) = stack.pop() {
        let n = &f.nodes[&h];
        if let OVal::Text(t) = &n.val {
            let sibs: Vec<Handle> = match n.parent { Some(p) => f.nodes[&p].kids.clone(), None => vec![h] };
            let other_content = sibs.iter().any(|s| *s != h && matches!(&f.nodes[s].val, OVal::Text(x) if !xml_ws_only(x)));
            if xml_ws_only(t) && !other_content && !preserve_at(f, n.parent) {
                out.push(h);
            }
        }
        for k in n.kids.iter().rev() {
            stack.push(*k);
        }
    }
    out
}

#[allow(clippy::too_many_arguments)]
fn c18_oracle(case: &str, k: usize, target: Handle, op: &Op, outcome: &Outcome, before: &OForest, st: &mut Store, out: &mut Out, stats: &mut Stats) {
    if !matches!(outcome, Outcome::Ok(_)) {
        out.fail(case, "rmws-failed", &format!("step {}: `{}` returned {}", k, op_str(op), outcome_str(outcome)));
        return;
    }
    let gone = c18_expected(before, target);
    stats.add("c18.removed_expected", gone.len() as u64);
    stats.bump(if gone.is_empty() { "c18.call_removing_nothing" } else { "c18.call_removing_something" });
    let mut want = before.clone();
    for h in &gone {
        if let Some(p) = want.nodes[h].parent {
            want.nodes.get_mut(&p).unwrap().kids.retain(|x| x != h);
        }
        want.nodes.remove(h);
    }
    let got = oforest(st);
    // every node keeps its handle here (text nodes too): nothing may be merged or recreated
    let all: std::collections::BTreeSet<Handle> = before.nodes.keys().copied().collect();
    let exact = |f: &OForest| -> Vec<String> {
        let mut v: Vec<String> = f.nodes.iter().map(|(h, n)| format!("{}:{:?}:{:?}:{:?}", hs(*h), n.val, n.parent.map(hs), n.kids.iter().map(|x| hs(*x)).collect::<Vec<_>>())).collect();
        v.sort();
        v
    };
    let _ = all;
    // With consolidation on, removing a node from between two text nodes merges them (the documented contract of
    // `remove`, C05).  Such neighbours only exist when consolidation was off earlier; then the comparison is made on the
    // character data: adjacent text nodes merged on both sides, text nodes anonymous.
    let merged = |f: &OForest| -> Vec<String> {
        fn node(f: &OForest, h: Handle) -> String {
            let n = &f.nodes[&h];
            let mut kids: Vec<String> = vec![];
            let mut run: Option<String> = None;
            for k in &n.kids {
                if let OVal::Text(t) = &f.nodes[k].val {
                    run = Some(run.unwrap_or_default() + t);
                } else {
                    if let Some(t) = run.take() { kids.push(format!("T{:?}", t)); }
                    kids.push(node(f, *k));
                }
            }
            if let Some(t) = run.take() { kids.push(format!("T{:?}", t)); }
            let tag = if matches!(n.val, OVal::Text(_)) { "*".to_string() } else { hs(h) };
            format!("({:?}@{} {})", n.val, tag, kids.join(" "))
        }
        let mut v: Vec<String> = f.nodes.iter().filter(|(_, n)| n.parent.is_none()).map(|(h, _)| node(f, *h)).collect();
        v.sort();
        v
    };
    let lenient = before.cons && want.any_adjacent_text();
    if lenient { stats.bump("c18.compared_modulo_text_merge"); }
    let differs = if lenient { merged(&want) != merged(&got) } else { exact(&want) != exact(&got) };
    if differs {
        let a = exact(&want);
        let b = exact(&got);
        let d = a.iter().find(|x| !b.contains(x)).cloned().or_else(|| b.iter().find(|x| !a.contains(x)).cloned()).unwrap_or_default();
        out.fail(case, "rmws-wrong-set", &format!("step {}: `{}` should remove exactly {:?}; first difference at {}", k, op_str(op), gone.iter().map(|h| hs(*h)).collect::<Vec<_>>(), d));
        return;
    }
    // a second call changes nothing (checked on a clone of the whole Xot so that the history itself is not disturbed)
    let mut copy = st.xot.clone();
    let node = st.known[&target];
    if !gone.contains(&target) {
        let before2: Vec<String> = st.roots().iter().map(|r| tree_dump(&copy, st.known[r])).collect();
        let r = guard(|| copy.remove_insignificant_whitespace(node));
        let after2: Vec<String> = st.roots().iter().map(|r| tree_dump(&copy, st.known[r])).collect();
        if r.is_err() || before2 != after2 {
            out.fail(case, "rmws-not-idempotent", &format!("step {}: a second `{}` changed the tree again", k, op_str(op)));
        }
    }
}

fn tree_dump(xot: &xot::Xot, root: xot::Node) -> String {
    let mut out = String::new();
    for e in xot.all_traverse(root) {
        match e {
            xot::NodeEdge::Start(n) => { out.push_str(&format!("({}:{:?}", hs(handle(n)), xot.value(n))); }
            xot::NodeEdge::End(_) => out.push(')'),
        }
    }
    out
}

/// C18: histories dominated by remove_insignificant_whitespace calls on trees full of white-space-only text, Unicode
/// spaces and xml:space attributes
pub fn main_c18() {
    quiet_panics();
    let a = args();
    let mut out = Out::new(&a.out);
    let mut stats = Stats::default();
    if let Some(path) = &a.replay {
        let text = std::fs::read_to_string(path).expect("replay file");
        for line in text.lines().filter(|l| !l.trim().is_empty()) {
            replay_line("C18", line, &mut out, &mut stats);
        }
        out.finish(&stats);
        return;
    }
    let base = Rng::new(a.seed);
    let steps = if a.tier == "thorough" { 14 } else { 10 };
    for k in 0..a.n {
        let mut r = base.fork(k as u64);
        let gcfg = GenCfg { max_nodes: 24, max_depth: 5, max_fanout: 4, adjacent_text: k % 3 == 0, empty_text: k % 4 == 0, doc_root: 50, xml_space: 22, ws_text: 55, ..GenCfg::default() };
        let mut tmp = Store::new();
        let pool = make_pool(&mut tmp.xot, &mut tmp.reg, true);
        let ntrees = 1 + r.below(2);
        let start: Vec<ANode> = (0..ntrees).map(|_| gen_tree(&mut r, &gcfg, &pool)).collect();
        let cfg = HistCfg { steps, refusal_bias: 10, with_clonep: false, with_rmws: true, rmws_pct: 55, clone_pct: 0 };
        let case = format!("c{}", k);
        let init_cons = k % 5 != 4;
        let (tables, init, ops, obs) = run_history(&case, "C18", &mut r, &start, None, &cfg, &mut out, &mut stats, init_cons);
        let ops_text: Vec<String> = ops.iter().map(op_str).collect();
        let line = format!("{} {} | {} | {}", case, tables, init, ops_text.join(";"));
        out.case(&line);
        stats.case(&line, ops.iter().any(|o| matches!(o, Op::RemoveWs(_))));
        stats.sample(&line);
        out.imp(&format!("{} {}", case, obs));
    }
    out.finish(&stats);
}

// ------------------------------------------------------------------------------------------------------------
// C12 oracles

/// every tree as text with handles, keyed by its root
fn root_texts(st: &Store) -> std::collections::BTreeMap<Handle, String> {
    st.roots().iter().map(|r| (*r, st.tree_text(st.known[r]))).collect()
}

fn root_of(f: &OForest, mut h: Handle) -> Handle {
    while let Some(p) = f.nodes[&h].parent { h = p; }
    h
}

/// does the argument of a clone_with_prefixes call serialise where it is?
fn in_place_serialises(st: &Store, op: &Op) -> bool {
    match op {
        Op::ClonePrefixes(h, _) => matches!(guard(|| st.xot.to_string(st.known[h])), Ok(Ok(_))),
        _ => false,
    }
}

#[allow(clippy::too_many_arguments)]
fn c12_oracle(case: &str, k: usize, op: &Op, outcome: &Outcome, before: &OForest, texts: &std::collections::BTreeMap<Handle, String>, in_place: bool,
              st: &Store, out: &mut Out, stats: &mut Stats) {
    // frame: a tree that contains no argument of the call is untouched (same nodes, handles, values, order)
    let arg_roots: Vec<Handle> = op_nodes(op).iter().filter(|h| before.nodes.contains_key(h)).map(|h| root_of(before, *h)).collect();
    let now = root_texts(st);
    if !matches!(outcome, Outcome::Panic) {
        for (r, t) in texts {
            if arg_roots.contains(r) { continue; }
            match now.get(r) {
                Some(t2) if t2 == t => {}
                _ => out.fail(case, "unrelated-tree-changed", &format!("step {}: `{}` changed the tree rooted at {} although none of its arguments lives there", k, op_str(op), hs(*r))),
            }
        }
    }
    let (src, with_prefixes) = match op { Op::CloneNode(h) => (*h, false), Op::ClonePrefixes(h, _) => (*h, true), _ => return };
    let clone = match outcome {
        Outcome::Ok(Some(c)) => *c,
        other => { out.fail(case, "clone-failed", &format!("step {}: `{}` returned {}", k, op_str(op), outcome_str(other))); return; }
    };
    stats.bump(if with_prefixes { "c12.clone_with_prefixes" } else { "c12.clone_node" });
    let after = oforest(st);
    // the source tree is unchanged
    let sr = root_of(before, src);
    if texts.get(&sr) != now.get(&sr) {
        out.fail(case, "clone-changed-source", &format!("step {}: `{}` changed the tree of its source", k, op_str(op)));
    }
    // unattached, and made of new nodes only
    if after.nodes[&clone].parent.is_some() { out.fail(case, "clone-attached", &format!("step {}: the clone has a parent", k)); }
    let mut stack = vec![clone];
    let mut n_nodes = 0;
    while let Some(h) = stack.pop() {
        n_nodes += 1;
        if before.nodes.contains_key(&h) { out.fail(case, "clone-shares-node", &format!("step {}: node {} of the clone existed before the call", k, hs(h))); }
        stack.extend(after.nodes[&h].kids.iter().copied());
    }
    stats.add("c12.cloned_nodes", n_nodes);
    // equal to the source up to merging of adjacent text (consolidation on), declarations and attribute order included;
    // clone_with_prefixes may add declarations after the source's own
    fn shape(f: &OForest, h: Handle, merge: bool, top_extra_ns: Option<usize>) -> String {
        let n = &f.nodes[&h];
        let mut kids: Vec<String> = vec![];
        let mut run: Option<String> = None;
        let mut ns_seen = 0;
        for k in &n.kids {
            if let OVal::Ns(..) = f.nodes[k].val {
                ns_seen += 1;
                if let Some(keep) = top_extra_ns { if ns_seen > keep { continue; } }
            }
            if let (true, OVal::Text(t)) = (merge, &f.nodes[k].val) {
                run = Some(run.unwrap_or_default() + t);
            } else {
                if let Some(t) = run.take() { kids.push(format!("T{:?}", t)); }
                kids.push(shape(f, *k, merge, None));
            }
        }
        if let Some(t) = run.take() { kids.push(format!("T{:?}", t)); }
        format!("({:?} {})", n.val, kids.join(" "))
    }
    let merge = before.cons;
    let own_ns = before.nodes[&src].kids.iter().filter(|k| matches!(before.nodes[k].val, OVal::Ns(..))).count();
    let a = shape(before, src, merge, None);
    let b = shape(&after, clone, merge, if with_prefixes { Some(own_ns) } else { None });
    if a != b {
        out.fail(case, "clone-differs-from-source", &format!("step {}: `{}`: source {} but clone {}", k, op_str(op), a, b));
    }
    if merge && after.any_adjacent_text_under(clone) {
        out.fail(case, "clone-has-adjacent-text", &format!("step {}: the clone has adjacent text nodes although consolidation is on", k));
    }
    // clone_with_prefixes: what it adds to the clone's top are bindings IN SCOPE at the source (nearest declaration wins) —
    // never a binding that a closer ancestor has re-declared or undeclared
    if with_prefixes {
        let mut outer: Vec<(usize, usize)> = vec![];
        let mut cur = before.nodes[&src].parent;
        while let Some(a) = cur {
            for kk in &before.nodes[&a].kids {
                if let OVal::Ns(p, n) = before.nodes[kk].val { if !outer.iter().any(|(q, _)| *q == p) { outer.push((p, n)); } }
            }
            cur = before.nodes[&a].parent;
        }
        let added: Vec<(usize, usize)> = after.nodes[&clone].kids.iter().filter_map(|kk| if let OVal::Ns(p, n) = after.nodes[kk].val { Some((p, n)) } else { None }).skip(own_ns).collect();
        for (p, n) in added {
            if !outer.contains(&(p, n)) {
                out.fail(case, "clone-declares-binding-not-in-scope", &format!("step {}: `{}`: the clone declares prefix {} for namespace {}, which is not the binding of that prefix in scope at the source ({:?})", k, op_str(op), p, n, outer.iter().find(|(q, _)| *q == p)));
            }
        }
    }
    // clone_with_prefixes: serialises on its own whenever the source serialised in place
    if with_prefixes && in_place {
        stats.bump("c12.source_serialised_in_place");
        if !matches!(guard(|| st.xot.to_string(st.known[&clone])), Ok(Ok(_))) {
            // known mechanism: the cloned element is in no namespace (so it cannot carry a default-namespace declaration) and an
            // element below it is in a namespace that the scope it is cloned out of binds only as the default namespace
            // second known mechanism: as above, but the scope also binds that namespace to prefixes, every one of which the cloned
            // element re-declares itself for another namespace (so there is still nothing the clone's top can copy)
            let cls = match c12_default_only_below_no_namespace_top(st, before, src) {
                Some(false) => "clone-out-of-default-namespace-under-no-namespace-top",
                Some(true) => "clone-out-of-default-namespace-top-redeclares-the-prefix",
                None => "clone-with-prefixes-does-not-serialise",
            };
            let src_text = guard(|| st.xot.to_string(st.known[&src])).ok().and_then(|r| r.ok()).unwrap_or_default();
            let err_text = match guard(|| st.xot.to_string(st.known[&clone])) { Ok(Err(e)) => format!("{:?}", e), Ok(Ok(_)) => "-".into(), Err(()) => "panic".into() };
            out.fail(case, cls, &format!("step {}: `{}`: the source serialises in place (as {:?}) but the clone does not serialise on its own ({})", k, op_str(op), src_text, err_text));
        }
    }
}

/// class predicate of the C12 known finding (syntactic, on the store before the call)
/// Some(false): an element below the no-namespace source is in a namespace that the scope of the source's parent binds to
/// the empty prefix and to no other prefix; Some(true): it binds it to the empty prefix and to other prefixes, every one of
/// which the source element declares itself for another namespace; None: neither
fn c12_default_only_below_no_namespace_top(st: &Store, f: &OForest, src: Handle) -> Option<bool> {
    let ns_of = |name: usize| st.reg.names[name].1;
    match &f.nodes[&src].val { OVal::El(n) if ns_of(*n) == 0 => {} _ => return None }
    let own: Vec<(usize, usize)> = f.nodes[&src].kids.iter().filter_map(|k| if let OVal::Ns(p, n) = f.nodes[k].val { Some((p, n)) } else { None }).collect();
    // bindings in force at the parent of the source, nearest declaration wins
    let mut outer: Vec<(usize, usize)> = vec![];
    let mut cur = f.nodes[&src].parent;
    while let Some(a) = cur {
        for k in &f.nodes[&a].kids {
            if let OVal::Ns(p, n) = f.nodes[k].val { if !outer.iter().any(|(q, _)| *q == p) { outer.push((p, n)); } }
        }
        cur = f.nodes[&a].parent;
    }
    let mut stack: Vec<Handle> = f.nodes[&src].kids.clone();
    let mut shadowed = false;
    while let Some(h) = stack.pop() {
        if let OVal::El(n) = &f.nodes[&h].val {
            let u = ns_of(*n);
            if u != 0 && outer.iter().any(|(p, m)| *p == 0 && *m == u) {
                if !outer.iter().any(|(p, m)| *p != 0 && *m == u) { return Some(false); }
                if outer.iter().filter(|(p, m)| *p != 0 && *m == u).all(|(p, _)| own.iter().any(|(q, w)| q == p && *w != u)) { shadowed = true; }
            }
        }
        stack.extend(f.nodes[&h].kids.iter().copied());
    }
    if shadowed { Some(true) } else { None }
}

/// C12: clone-heavy histories; every node kind as source; mutation of either side afterwards; plus Xot::clone
pub fn main_c12() {
    quiet_panics();
    let a = args();
    let mut out = Out::new(&a.out);
    let mut stats = Stats::default();
    if let Some(path) = &a.replay {
        let text = std::fs::read_to_string(path).expect("replay file");
        for line in text.lines().filter(|l| !l.trim().is_empty()) {
            replay_line("C12", line, &mut out, &mut stats);
        }
        out.finish(&stats);
        return;
    }
    let base = Rng::new(a.seed);
    let steps = if a.tier == "thorough" { 30 } else { 22 };
    for k in 0..a.n {
        let mut r = base.fork(k as u64);
        let gcfg = GenCfg { max_nodes: 14, max_depth: 4, max_fanout: 3, adjacent_text: k % 3 == 0, empty_text: false, doc_root: 50, ..GenCfg::default() };
        let mut tmp = Store::new();
        let pool = make_pool(&mut tmp.xot, &mut tmp.reg, true);
        let ntrees = 1 + r.below(2);
        let start: Vec<ANode> = (0..ntrees).map(|_| { let mut t = gen_tree(&mut r, &gcfg, &pool); declare_missing(&mut r, &mut t, &tmp.reg, &pool, 70); t }).collect();
        let cfg = HistCfg { steps, refusal_bias: 12, with_clonep: true, with_rmws: false, rmws_pct: 0, clone_pct: 22 };
        let case = format!("c{}", k);
        let init_cons = k % 4 != 3;
        let (tables, init, ops, obs) = run_history(&case, "C12", &mut r, &start, None, &cfg, &mut out, &mut stats, init_cons);
        let ops_text: Vec<String> = ops.iter().map(op_str).collect();
        let line = format!("{} {} | {} | {}", case, tables, init, ops_text.join(";"));
        out.case(&line);
        stats.case(&line, ops.iter().any(|o| matches!(o, Op::CloneNode(_) | Op::ClonePrefixes(..))));
        stats.sample(&line);
        out.imp(&format!("{} {}", case, obs));
        // Xot::clone: an independent store in which every handle denotes an equal node
        xot_clone_check(&case, &mut r, &start, &pool, &mut out, &mut stats);
        // a clone of a PARSED document (which has an xml:id index): the index must never lead from the clone into the source
        // (oracle only: the model of this stream has no parser)
        if k % 3 == 0 {
            let mut r2 = base.fork(0x1D00_0000 + k as u64);
            if let Some((line, _)) = run_id_history(&format!("c{}i", k), &mut r2, None, None, 8, &mut out, &mut stats) {
                out.oracle_case(&line);
                stats.bump("c12.parsed_document_clone_probes");
            }
        }
    }
    out.finish(&stats);
}

fn xot_clone_check(case: &str, r: &mut Rng, start: &[ANode], pool: &Pool, out: &mut Out, stats: &mut Stats) {
    let mut st = Store::new();
    let _ = make_pool(&mut st.xot, &mut st.reg, true);
    for a in start { let n = build(&mut st.xot, &st.reg, a); st.learn(n); }
    st.refresh();
    let cfg = HistCfg { steps: 6, refusal_bias: 10, with_clonep: false, with_rmws: false, rmws_pct: 0, clone_pct: 10 };
    // the store that is copied has, one time in three, consolidation switched off: the copy has to be a store in the same mode
    if r.chance(1, 3) { let _ = exec(&mut st, &Op::Cons(false)); st.refresh(); }
    for _ in 0..4 { let op = gen_op(r, &st, pool, &cfg); let _ = exec(&mut st, &op); st.refresh(); }
    let snapshot_text = st.readback();
    let names_before: Vec<(String, String)> = st.reg.names.iter().map(|(_, _, id)| { let (l, u) = st.xot.name_ns_str(*id); (l.to_string(), u.to_string()) }).collect();
    let mk_copy = |st: &Store| Store { xot: st.xot.clone(), reg: Reg { nss: st.reg.nss.clone(), prefixes: st.reg.prefixes.clone(), names: st.reg.names.clone() }, known: st.known.clone(), ever_unconsolidated: st.ever_unconsolidated, cons_off: st.cons_off };
    // the copy reads back as the original, handle for handle, id for id
    let copy_store = mk_copy(&st);
    if copy_store.readback() != snapshot_text { out.fail(case, "xot-clone-differs", "the cloned Xot reads back differently from the original"); }
    // a second copy goes through the same calls as the original from here on: an equal store reacts equally
    let mut twin = mk_copy(&st);
    // mutate the original; the first copy must not notice
    for step in 0..8 {
        let op = gen_op(r, &st, pool, &cfg);
        let a = exec(&mut st, &op); st.refresh();
        let b = exec(&mut twin, &op); twin.refresh();
        if outcome_str(&a) != outcome_str(&b) || st.readback() != twin.readback() {
            out.fail(case, "xot-clone-reacts-differently", &format!("after the Xot was cloned, call {} (`{}`) has another effect in the copy than in the original", step, op_str(&op)));
            break;
        }
    }
    if copy_store.readback() != snapshot_text { out.fail(case, "xot-clone-not-independent", "mutating the original Xot changed the clone"); }
    let names_after: Vec<(String, String)> = copy_store.reg.names.iter().map(|(_, _, id)| { let (l, u) = copy_store.xot.name_ns_str(*id); (l.to_string(), u.to_string()) }).collect();
    if names_before != names_after { out.fail(case, "xot-clone-ids-differ", "a name id denotes another name in the cloned Xot"); }
    stats.bump("c12.xot_clone_checked");
}
