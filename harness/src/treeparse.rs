//! Parsing the text form of tables and trees back into the harness types (used for replays and corpus cases).
use crate::common::*;
use crate::tree::*;
use xot::Xot;

/// register the tables of a case line in a fresh Xot so that every index of the text is valid again
pub fn reg_from_tables(xot: &mut Xot, tables: &str) -> Reg {
    let mut reg = Reg::new(xot);
    for part in tables.split(';') {
        let (k, v) = part.split_once('=').unwrap_or((part, ""));
        for (i, item) in v.split(',').filter(|s| !s.is_empty()).enumerate() {
            match k {
                "ns" => assert_eq!(reg.ns(xot, &dec(item)), i),
                "pf" => assert_eq!(reg.prefix(xot, &dec(item)), i),
                "nm" => {
                    let (l, n) = item.split_once('/').unwrap();
                    assert_eq!(reg.name(xot, &dec(l), n.parse().unwrap()), i)
                }
                _ => {}
            }
        }
    }
    reg
}

/// one tree (the first top-level node of the text)
pub fn parse_anode(text: &str) -> Option<ANode> {
    parse_anodes(text).into_iter().next()
}

pub fn parse_anodes(text: &str) -> Vec<ANode> {
    let toks: Vec<&str> = text.split(' ').filter(|s| !s.is_empty()).collect();
    let mut pos = 0;
    let v = siblings(&toks, &mut pos);
    assert_eq!(pos, toks.len(), "trailing tokens in tree text");
    v
}

fn siblings(toks: &[&str], pos: &mut usize) -> Vec<ANode> {
    let mut out = vec![];
    while *pos < toks.len() && toks[*pos] != ")" {
        let t = toks[*pos];
        *pos += 1;
        let rest = &t[1..];
        let node = match t.as_bytes()[0] {
            b'D' => {
                let k = siblings(toks, pos);
                assert_eq!(toks[*pos], ")");
                *pos += 1;
                ANode::Doc(k)
            }
            b'E' => {
                let name: usize = rest[..rest.len() - 1].parse().unwrap();
                let k = siblings(toks, pos);
                assert_eq!(toks[*pos], ")");
                *pos += 1;
                let mut ns = vec![];
                let mut attrs = vec![];
                let mut kids = vec![];
                for c in k {
                    match c {
                        ANode::Ns(p, n) if attrs.is_empty() && kids.is_empty() => ns.push((p, n)),
                        ANode::Attr(n, v) if kids.is_empty() => attrs.push((n, v)),
                        other => kids.push(other),
                    }
                }
                ANode::Elem { name, ns, attrs, kids }
            }
            b'T' => ANode::Text(dec(rest)),
            b'C' => ANode::Comment(dec(rest)),
            b'P' => {
                let (n, d) = rest.split_once('=').unwrap();
                ANode::Pi(n.parse().unwrap(), if d == "~" { None } else { Some(dec(d)) })
            }
            b'A' => {
                let (n, d) = rest.split_once('=').unwrap();
                ANode::Attr(n.parse().unwrap(), dec(d))
            }
            b'N' => {
                let (p, n) = rest.split_once(':').unwrap();
                ANode::Ns(p.parse().unwrap(), n.parse().unwrap())
            }
            _ => panic!("unknown token {}", t),
        };
        out.push(node);
    }
    out
}
