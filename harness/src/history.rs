//! Operation histories on one `Xot` (C04, C05, C06, C11, C12, C18, C20): text form of the operations, execution on the
//! real crate through the public API only, full read-back of the store after every step, and the
//! model-independent oracles (structural validity, refusal atomicity, handle stability).
//!
//! Nodes are named by their handle `<slot>.<stamp>` (slot = arena index0, stamp = indextree NodeStamp), both read
//! from the `Debug` output of `Node`.
use crate::common::*;
use crate::tree::*;
use std::collections::{BTreeMap, BTreeSet, HashMap};
use xot::{Node, Value, Xot};

pub type Handle = (u64, i64);

pub fn handle(n: Node) -> Handle {
    // Node(NodeId { index1: 1, stamp: NodeStamp(0) })
    let s = format!("{:?}", n);
    let i = s.find("index1: ").expect("index1") + 8;
    let rest = &s[i..];
    let e = rest.find(',').unwrap();
    let index1: u64 = rest[..e].trim().parse().unwrap();
    let j = s.find("NodeStamp(").expect("stamp") + 10;
    let rest = &s[j..];
    let e = rest.find(')').unwrap();
    let stamp: i64 = rest[..e].trim().parse().unwrap();
    (index1 - 1, stamp)
}

pub fn hs(h: Handle) -> String {
    format!("{}.{}", h.0, h.1)
}

#[derive(Clone, Debug, PartialEq)]
pub enum Op {
    NewDoc,
    NewEl(usize),
    NewText(String),
    NewComment(String),
    NewPi(usize, Option<String>),
    NewAttr(usize, String),
    NewNs(usize, usize),
    Append(Handle, Handle),
    Prepend(Handle, Handle),
    InsertAfter(Handle, Handle),
    InsertBefore(Handle, Handle),
    AnyAppend(Handle, Handle),
    AppendAttrNode(Handle, Handle),
    AppendNsNode(Handle, Handle),
    Detach(Handle),
    Remove(Handle),
    Replace(Handle, Handle),
    Wrap(Handle, usize),
    Unwrap(Handle),
    CloneNode(Handle),
    ClonePrefixes(Handle, Vec<usize>), // the order in which the inherited prefixes were added (read back after the call)
    SetName(Handle, usize),
    SetAttr(Handle, usize, String),
    RmAttr(Handle, usize),
    SetNs(Handle, usize, usize),
    RmNs(Handle, usize),
    AttrsClear(Handle),
    NsClear(Handle),
    AttrsGetMutSet(Handle, usize, String),
    AttrsEntryOrInsert(Handle, usize, String),
    AttrsEntryModify(Handle, usize, String),
    AttrsEntryRemove(Handle, usize),
    NsGetMutSet(Handle, usize, usize),
    NsEntryOrInsert(Handle, usize, usize),
    SetText(Handle, String),
    SetComment(Handle, String),
    SetPiData(Handle, Option<String>),
    SetAttrValue(Handle, String),
    SetNsValue(Handle, usize),
    TextContentMut(Handle, String),
    Cons(bool),
    NewDocWith(Handle),
    RemoveWs(Handle),
    Cmp(Handle),
    Dedup(Handle),
}

pub fn op_str(o: &Op) -> String {
    use Op::*;
    match o {
        NewDoc => "new_doc".into(),
        NewEl(n) => format!("new_el {}", n),
        NewText(s) => format!("new_text {}", enc(s)),
        NewComment(s) => format!("new_comment {}", enc(s)),
        NewPi(n, d) => format!("new_pi {} {}", n, enc_opt(d.as_deref())),
        NewAttr(n, v) => format!("new_attr {} {}", n, enc(v)),
        NewNs(p, n) => format!("new_ns {} {}", p, n),
        Append(a, b) => format!("append {} {}", hs(*a), hs(*b)),
        Prepend(a, b) => format!("prepend {} {}", hs(*a), hs(*b)),
        InsertAfter(a, b) => format!("ia {} {}", hs(*a), hs(*b)),
        InsertBefore(a, b) => format!("ib {} {}", hs(*a), hs(*b)),
        AnyAppend(a, b) => format!("any_append {} {}", hs(*a), hs(*b)),
        AppendAttrNode(a, b) => format!("append_attr {} {}", hs(*a), hs(*b)),
        AppendNsNode(a, b) => format!("append_ns {} {}", hs(*a), hs(*b)),
        Detach(a) => format!("detach {}", hs(*a)),
        Remove(a) => format!("remove {}", hs(*a)),
        Replace(a, b) => format!("replace {} {}", hs(*a), hs(*b)),
        Wrap(a, n) => format!("wrap {} {}", hs(*a), n),
        Unwrap(a) => format!("unwrap {}", hs(*a)),
        CloneNode(a) => format!("clone {}", hs(*a)),
        ClonePrefixes(a, ord) => format!("clonep {} {}", hs(*a), if ord.is_empty() { "-".to_string() } else { ord.iter().map(|x| x.to_string()).collect::<Vec<_>>().join("+") }),
        SetName(a, n) => format!("set_name {} {}", hs(*a), n),
        SetAttr(a, n, v) => format!("set_attr {} {} {}", hs(*a), n, enc(v)),
        RmAttr(a, n) => format!("rm_attr {} {}", hs(*a), n),
        SetNs(a, p, n) => format!("set_ns {} {} {}", hs(*a), p, n),
        RmNs(a, p) => format!("rm_ns {} {}", hs(*a), p),
        AttrsClear(a) => format!("attrs_clear {}", hs(*a)),
        NsClear(a) => format!("ns_clear {}", hs(*a)),
        AttrsGetMutSet(a, n, v) => format!("attrs_getmut {} {} {}", hs(*a), n, enc(v)),
        AttrsEntryOrInsert(a, n, v) => format!("attrs_or_insert {} {} {}", hs(*a), n, enc(v)),
        AttrsEntryModify(a, n, v) => format!("attrs_modify {} {} {}", hs(*a), n, enc(v)),
        AttrsEntryRemove(a, n) => format!("attrs_entry_remove {} {}", hs(*a), n),
        NsGetMutSet(a, p, n) => format!("ns_getmut {} {} {}", hs(*a), p, n),
        NsEntryOrInsert(a, p, n) => format!("ns_or_insert {} {} {}", hs(*a), p, n),
        SetText(a, s) => format!("set_text {} {}", hs(*a), enc(s)),
        SetComment(a, s) => format!("set_comment {} {}", hs(*a), enc(s)),
        SetPiData(a, d) => format!("set_pi_data {} {}", hs(*a), enc_opt(d.as_deref())),
        SetAttrValue(a, s) => format!("set_attr_value {} {}", hs(*a), enc(s)),
        SetNsValue(a, n) => format!("set_ns_value {} {}", hs(*a), n),
        TextContentMut(a, s) => format!("tcm {} {}", hs(*a), enc(s)),
        Cons(b) => format!("cons {}", if *b { 1 } else { 0 }),
        NewDocWith(a) => format!("new_doc_with {}", hs(*a)),
        RemoveWs(a) => format!("rmws {}", hs(*a)),
        Cmp(a) => format!("cmp {}", hs(*a)),
        Dedup(a) => format!("dedup {}", hs(*a)),
    }
}

fn ph(s: &str) -> Handle {
    let (a, b) = s.split_once('.').expect("handle");
    (a.parse().unwrap(), b.parse().unwrap())
}
fn popt(s: &str) -> Option<String> {
    if s == "~" { None } else { Some(dec(s)) }
}

pub fn parse_op(s: &str) -> Op {
    use Op::*;
    let f: Vec<&str> = s.split(' ').collect();
    let u = |i: usize| -> usize { f[i].parse().unwrap() };
    match f[0] {
        "new_doc" => NewDoc,
        "new_el" => NewEl(u(1)),
        "new_text" => NewText(dec(f[1])),
        "new_comment" => NewComment(dec(f[1])),
        "new_pi" => NewPi(u(1), popt(f[2])),
        "new_attr" => NewAttr(u(1), dec(f[2])),
        "new_ns" => NewNs(u(1), u(2)),
        "append" => Append(ph(f[1]), ph(f[2])),
        "prepend" => Prepend(ph(f[1]), ph(f[2])),
        "ia" => InsertAfter(ph(f[1]), ph(f[2])),
        "ib" => InsertBefore(ph(f[1]), ph(f[2])),
        "any_append" => AnyAppend(ph(f[1]), ph(f[2])),
        "append_attr" => AppendAttrNode(ph(f[1]), ph(f[2])),
        "append_ns" => AppendNsNode(ph(f[1]), ph(f[2])),
        "detach" => Detach(ph(f[1])),
        "remove" => Remove(ph(f[1])),
        "replace" => Replace(ph(f[1]), ph(f[2])),
        "wrap" => Wrap(ph(f[1]), u(2)),
        "unwrap" => Unwrap(ph(f[1])),
        "clone" => CloneNode(ph(f[1])),
        "clonep" => ClonePrefixes(ph(f[1]), if f.len() < 3 || f[2] == "-" { vec![] } else { f[2].split('+').map(|x| x.parse().unwrap()).collect() }),
        "set_name" => SetName(ph(f[1]), u(2)),
        "set_attr" => SetAttr(ph(f[1]), u(2), dec(f[3])),
        "rm_attr" => RmAttr(ph(f[1]), u(2)),
        "set_ns" => SetNs(ph(f[1]), u(2), u(3)),
        "rm_ns" => RmNs(ph(f[1]), u(2)),
        "attrs_clear" => AttrsClear(ph(f[1])),
        "ns_clear" => NsClear(ph(f[1])),
        "attrs_getmut" => AttrsGetMutSet(ph(f[1]), u(2), dec(f[3])),
        "attrs_or_insert" => AttrsEntryOrInsert(ph(f[1]), u(2), dec(f[3])),
        "attrs_modify" => AttrsEntryModify(ph(f[1]), u(2), dec(f[3])),
        "attrs_entry_remove" => AttrsEntryRemove(ph(f[1]), u(2)),
        "ns_getmut" => NsGetMutSet(ph(f[1]), u(2), u(3)),
        "ns_or_insert" => NsEntryOrInsert(ph(f[1]), u(2), u(3)),
        "set_text" => SetText(ph(f[1]), dec(f[2])),
        "set_comment" => SetComment(ph(f[1]), dec(f[2])),
        "set_pi_data" => SetPiData(ph(f[1]), popt(f[2])),
        "set_attr_value" => SetAttrValue(ph(f[1]), dec(f[2])),
        "set_ns_value" => SetNsValue(ph(f[1]), u(2)),
        "tcm" => TextContentMut(ph(f[1]), dec(f[2])),
        "cons" => Cons(f[1] == "1"),
        "new_doc_with" => NewDocWith(ph(f[1])),
        "rmws" => RemoveWs(ph(f[1])),
        "cmp" => Cmp(ph(f[1])),
        "dedup" => Dedup(ph(f[1])),
        x => panic!("unknown op {}", x),
    }
}

/// the node arguments of an operation
pub fn op_nodes(o: &Op) -> Vec<Handle> {
    use Op::*;
    match o {
        Append(a, b) | Prepend(a, b) | InsertAfter(a, b) | InsertBefore(a, b) | AnyAppend(a, b) | AppendAttrNode(a, b)
        | AppendNsNode(a, b) | Replace(a, b) => vec![*a, *b],
        Detach(a) | Remove(a) | Wrap(a, _) | Unwrap(a) | CloneNode(a) | ClonePrefixes(a, _) | SetName(a, _) | SetAttr(a, _, _)
        | RmAttr(a, _) | SetNs(a, _, _) | RmNs(a, _) | AttrsClear(a) | NsClear(a) | AttrsGetMutSet(a, _, _)
        | AttrsEntryOrInsert(a, _, _) | AttrsEntryModify(a, _, _) | AttrsEntryRemove(a, _) | NsGetMutSet(a, _, _)
        | NsEntryOrInsert(a, _, _) | SetText(a, _) | SetComment(a, _) | SetPiData(a, _) | SetAttrValue(a, _)
        | SetNsValue(a, _) | TextContentMut(a, _) | NewDocWith(a) | RemoveWs(a) | Cmp(a) | Dedup(a) => vec![*a],
        _ => vec![],
    }
}

/// element-only accessors whose panic on a non-element is documented
pub fn documented_panic(o: &Op) -> bool {
    use Op::*;
    matches!(o, SetName(..) | SetAttr(..) | RmAttr(..) | SetNs(..) | RmNs(..) | AttrsClear(..) | NsClear(..) | AttrsGetMutSet(..)
        | AttrsEntryOrInsert(..) | AttrsEntryModify(..) | AttrsEntryRemove(..) | NsGetMutSet(..) | NsEntryOrInsert(..))
}

#[derive(Clone, Debug, PartialEq)]
pub enum Outcome {
    Ok(Option<Handle>),
    Err(String),
    Panic,
}

pub fn outcome_str(o: &Outcome) -> String {
    match o {
        Outcome::Ok(None) => "OK".into(),
        Outcome::Ok(Some(h)) => format!("OK:{}", hs(*h)),
        Outcome::Err(k) => format!("ERR:{}", k),
        Outcome::Panic => "PANIC".into(),
    }
}

fn err_kind(e: &xot::Error) -> String {
    match e {
        xot::Error::InvalidOperation(_) => "InvalidOperation".into(),
        xot::Error::NodeError(_) => "NodeError".into(),
        xot::Error::InvalidComment(_) => "InvalidComment".into(),
        xot::Error::NotElement(_) => "NotElement".into(),
        other => format!("{:?}", other).split('(').next().unwrap().to_string(),
    }
}

/// One store under test: the Xot, everything registered, and every handle ever seen.
pub struct Store {
    pub xot: Xot,
    pub reg: Reg,
    pub known: BTreeMap<Handle, Node>,
    pub ever_unconsolidated: bool,
    pub cons_off: bool,
}

impl Store {
    pub fn new() -> Store {
        let xot = Xot::new();
        let reg = Reg::new(&xot);
        Store { xot, reg, known: BTreeMap::new(), ever_unconsolidated: false, cons_off: false }
    }
    pub fn node(&self, h: Handle) -> Node {
        *self.known.get(&h).unwrap_or_else(|| panic!("unknown handle {:?}", h))
    }
    pub fn learn(&mut self, n: Node) -> Handle {
        let h = handle(n);
        self.known.insert(h, n);
        h
    }
    pub fn live(&self, h: Handle) -> bool {
        !self.xot.is_removed(self.known[&h])
    }
    /// every live known handle, plus everything reachable from them (new nodes created inside calls)
    pub fn refresh(&mut self) {
        let live: Vec<Node> = self.known.values().copied().filter(|n| !self.xot.is_removed(*n)).collect();
        let mut budget = 200_000usize;
        for n in live {
            // climb to the root (bounded: a cycle would never end)
            let mut r = n;
            let mut steps = 0;
            while let Some(p) = self.xot.parent(r) {
                r = p;
                steps += 1;
                if steps > 10_000 { break; }
            }
            for d in self.xot.all_descendants(r) {
                if budget == 0 { break; }
                budget -= 1;
                let h = handle(d);
                self.known.entry(h).or_insert(d);
            }
        }
    }
    pub fn live_handles(&self) -> Vec<Handle> {
        self.known.iter().filter(|(_, n)| !self.xot.is_removed(**n)).map(|(h, _)| *h).collect()
    }
    pub fn roots(&self) -> Vec<Handle> {
        self.live_handles().into_iter().filter(|h| self.xot.parent(self.known[h]).is_none()).collect()
    }
    /// full read-back: every live tree in raw arena order with handles, roots sorted by slot
    pub fn readback(&self) -> String {
        let mut out: Vec<String> = vec![];
        for r in self.roots() {
            out.push(self.tree_text(self.known[&r]));
        }
        format!("c{} {}", if self.xot_consolidation() { 1 } else { 0 }, out.join(" ")).trim_end().to_string()
    }
    fn xot_consolidation(&self) -> bool {
        !self.cons_off
    }
    pub fn tree_text(&self, root: Node) -> String {
        let xot = &self.xot;
        let reg = &self.reg;
        let mut out: Vec<String> = vec![];
        let mut count = 0;
        for e in xot.all_traverse(root) {
            count += 1;
            if count > 100_000 { out.push("...".into()); break; }
            match e {
                xot::NodeEdge::Start(n) => {
                    let h = hs(handle(n));
                    match xot.value(n) {
                        Value::Document => out.push(format!("D@{}(", h)),
                        Value::Element(e) => out.push(format!("E{}@{}(", reg.name_idx(e.name()), h)),
                        Value::Text(t) => out.push(format!("T{}@{}", enc(t.get()), h)),
                        Value::Comment(c) => out.push(format!("C{}@{}", enc(c.get()), h)),
                        Value::ProcessingInstruction(p) => out.push(format!("P{}={}@{}", reg.name_idx(p.target()), enc_opt(p.data()), h)),
                        Value::Attribute(a) => out.push(format!("A{}={}@{}", reg.name_idx(a.name()), enc(a.value()), h)),
                        Value::Namespace(ns) => out.push(format!("N{}:{}@{}", reg.prefix_idx(ns.prefix()), reg.ns_idx(ns.namespace()), h)),
                    }
                }
                xot::NodeEdge::End(n) => match xot.value(n) {
                    Value::Document | Value::Element(_) => out.push(")".into()),
                    _ => {}
                },
            }
        }
        out.join(" ")
    }
}

/// after clone_with_prefixes: the prefixes that were added to the clone, in the order of their namespace nodes
pub fn added_prefix_order(st: &Store, source: Handle, clone: Handle) -> Vec<usize> {
    let s = st.known[&source];
    let c = st.known[&clone];
    if !st.xot.is_element(c) { return vec![]; }
    let own: Vec<xot::PrefixId> = st.xot.namespaces(s).keys().collect();
    st.xot.namespaces(c).keys().filter(|p| !own.contains(p)).map(|p| st.reg.prefix_idx(p)).collect()
}

// the consolidation flag is not readable through the API: the store tracks what it set
impl Store {
    pub fn set_cons(&mut self, b: bool) {
        self.xot.set_text_consolidation(b);
        self.cons_off = !b;
        if !b {
            self.ever_unconsolidated = true;
        }
    }
}

/// executes one operation on the real crate
pub fn exec(st: &mut Store, op: &Op) -> Outcome {
    use Op::*;
    let op = op.clone();
    // resolve handles first (outside the guard: unknown handles are harness bugs)
    let nodes: Vec<Node> = op_nodes(&op).iter().map(|h| st.node(*h)).collect();
    let reg_names: Vec<xot::NameId> = st.reg.names.iter().map(|x| x.2).collect();
    let reg_pfx: Vec<xot::PrefixId> = st.reg.prefixes.iter().map(|x| x.1).collect();
    let reg_ns: Vec<xot::NamespaceId> = st.reg.nss.iter().map(|x| x.1).collect();
    if let Cons(b) = op {
        st.set_cons(b);
        return Outcome::Ok(None);
    }
    let xot = &mut st.xot;
    let r: Result<Result<Option<Node>, xot::Error>, ()> = guard(move || -> Result<Option<Node>, xot::Error> {
        let a = nodes.first().copied();
        let b = nodes.get(1).copied();
        Ok(match op {
            NewDoc => Some(xot.new_document()),
            NewEl(n) => Some(xot.new_element(reg_names[n])),
            NewText(s) => Some(xot.new_text(&s)),
            NewComment(s) => Some(xot.new_comment(&s)),
            NewPi(n, d) => Some(xot.new_processing_instruction(reg_names[n], d.as_deref())),
            NewAttr(n, v) => Some(xot.new_attribute_node(reg_names[n], v)),
            NewNs(p, n) => Some(xot.new_namespace_node(reg_pfx[p], reg_ns[n])),
            Append(..) => { xot.append(a.unwrap(), b.unwrap())?; None }
            Prepend(..) => { xot.prepend(a.unwrap(), b.unwrap())?; None }
            InsertAfter(..) => { xot.insert_after(a.unwrap(), b.unwrap())?; None }
            InsertBefore(..) => { xot.insert_before(a.unwrap(), b.unwrap())?; None }
            AnyAppend(..) => Some(xot.any_append(a.unwrap(), b.unwrap())?),
            AppendAttrNode(..) => Some(xot.append_attribute_node(a.unwrap(), b.unwrap())?),
            AppendNsNode(..) => Some(xot.append_namespace_node(a.unwrap(), b.unwrap())?),
            Detach(_) => { xot.detach(a.unwrap())?; None }
            Remove(_) => { xot.remove(a.unwrap())?; None }
            Replace(..) => { xot.replace(a.unwrap(), b.unwrap())?; None }
            Wrap(_, n) => Some(xot.element_wrap(a.unwrap(), reg_names[n])?),
            Unwrap(_) => { xot.element_unwrap(a.unwrap())?; None }
            CloneNode(_) => Some(xot.clone_node(a.unwrap())),
            ClonePrefixes(..) => Some(xot.clone_with_prefixes(a.unwrap())),
            SetName(_, n) => { xot.set_element_name(a.unwrap(), reg_names[n]); None }
            SetAttr(_, n, v) => { xot.set_attribute(a.unwrap(), reg_names[n], v); None }
            RmAttr(_, n) => { xot.remove_attribute(a.unwrap(), reg_names[n]); None }
            SetNs(_, p, n) => { xot.set_namespace(a.unwrap(), reg_pfx[p], reg_ns[n]); None }
            RmNs(_, p) => { xot.remove_namespace(a.unwrap(), reg_pfx[p]); None }
            AttrsClear(_) => { xot.attributes_mut(a.unwrap()).clear(); None }
            NsClear(_) => { xot.namespaces_mut(a.unwrap()).clear(); None }
            AttrsGetMutSet(_, n, v) => { if let Some(x) = xot.attributes_mut(a.unwrap()).get_mut(reg_names[n]) { *x = v; } None }
            // the equivalent spellings of the entry API take turns (chosen by the length of the value, so that a replay makes the
            // same choice): or_insert / or_insert_with / VacantEntry::insert, and and_modify / OccupiedEntry::get_mut, into_mut, insert
            AttrsEntryOrInsert(_, n, v) => {
                let mut m = xot.attributes_mut(a.unwrap());
                match v.chars().count() % 3 {
                    0 => { m.entry(reg_names[n]).or_insert(v); }
                    1 => { m.entry(reg_names[n]).or_insert_with(|| v); }
                    _ => match m.entry(reg_names[n]) { xot::Entry::Vacant(e) => { e.insert(v); } xot::Entry::Occupied(e) => { let _ = e.get().len(); } },
                }
                None
            }
            AttrsEntryModify(_, n, v) => {
                let mut m = xot.attributes_mut(a.unwrap());
                let v2 = v.clone();
                match v.chars().count() % 4 {
                    0 => { m.entry(reg_names[n]).and_modify(|e| *e = v2).or_insert(format!("new:{}", v)); }
                    1 => match m.entry(reg_names[n]) { xot::Entry::Occupied(mut e) => { *e.get_mut() = v2; } xot::Entry::Vacant(e) => { e.insert(format!("new:{}", v)); } },
                    2 => match m.entry(reg_names[n]) { xot::Entry::Occupied(e) => { *e.into_mut() = v2; } xot::Entry::Vacant(e) => { e.insert(format!("new:{}", v)); } },
                    _ => match m.entry(reg_names[n]) { xot::Entry::Occupied(mut e) => { let _old = e.insert(v2); } xot::Entry::Vacant(e) => { e.insert(format!("new:{}", v)); } },
                }
                None
            }
            AttrsEntryRemove(_, n) => { let mut m = xot.attributes_mut(a.unwrap()); if let xot::Entry::Occupied(e) = m.entry(reg_names[n]) { e.remove(); } None }
            NsGetMutSet(_, p, n) => { if let Some(x) = xot.namespaces_mut(a.unwrap()).get_mut(reg_pfx[p]) { *x = reg_ns[n]; } None }
            NsEntryOrInsert(_, p, n) => { let mut m = xot.namespaces_mut(a.unwrap()); m.entry(reg_pfx[p]).or_insert(reg_ns[n]); None }
            SetText(_, s) => { if let Some(t) = xot.text_mut(a.unwrap()) { t.set(s); } None }
            SetComment(_, s) => { if let Some(c) = xot.comment_mut(a.unwrap()) { c.set(s)?; } None }
            SetPiData(_, d) => { if let Some(p) = xot.processing_instruction_mut(a.unwrap()) { p.set_data(d); } None }
            SetAttrValue(_, s) => { if let Some(x) = xot.attribute_node_mut(a.unwrap()) { x.set_value(s); } None }
            SetNsValue(_, n) => { if let Some(x) = xot.namespace_node_mut(a.unwrap()) { x.set_namespace(reg_ns[n]); } None }
            TextContentMut(_, s) => { if let Some(t) = xot.text_content_mut(a.unwrap()) { t.set(s); } None }
            NewDocWith(_) => Some(xot.new_document_with_element(a.unwrap())?),
            RemoveWs(_) => { xot.remove_insignificant_whitespace(a.unwrap()); None }
            Cmp(_) => { xot.create_missing_prefixes(a.unwrap())?; None }
            Dedup(_) => { xot.deduplicate_namespaces(a.unwrap()); None }
            Cons(_) => unreachable!(),
        })
    });
    match r {
        Err(()) => Outcome::Panic,
        Ok(Err(e)) => Outcome::Err(err_kind(&e)),
        Ok(Ok(None)) => Outcome::Ok(None),
        Ok(Ok(Some(n))) => Outcome::Ok(Some(st.learn(n))),
    }
}

// -------------------------------------------------------------------------------------- oracles

/// C04: structural validity of every live tree, observed through the public API only.
/// Returns a list of (class, text).
pub fn validity(st: &Store) -> Vec<(String, String)> {
    let xot = &st.xot;
    let mut bad: Vec<(String, String)> = vec![];
    let mut seen: BTreeSet<Handle> = BTreeSet::new();
    for r in st.roots() {
        let root = st.known[&r];
        if xot.next_sibling(root).is_some() || xot.previous_sibling(root).is_some() || xot.following_siblings(root).count() > 1 || xot.preceding_siblings(root).count() > 1 {
            bad.push(("parentless-sibling".into(), format!("node {} has no parent but has siblings", hs(r))));
        }
        let mut count = 0usize;
        for n in xot.all_descendants(root) {
            count += 1;
            if count > 50_000 { bad.push(("cycle".into(), format!("traversal from {} does not end", hs(r)))); break; }
            let h = handle(n);
            if !seen.insert(h) {
                bad.push(("shared-node".into(), format!("node {} reached twice", hs(h))));
                continue;
            }
            if xot.is_removed(n) {
                bad.push(("removed-reachable".into(), format!("removed node {} reachable from {}", hs(h), hs(r))));
                continue;
            }
            // acyclic: bounded ancestor walk
            let mut c = n;
            let mut steps = 0;
            while let Some(p) = xot.parent(c) {
                c = p;
                steps += 1;
                if steps > 10_000 { bad.push(("cycle".into(), format!("ancestor chain of {} does not end", hs(h)))); break; }
            }
            // children: raw list from all_traverse nesting is not needed; use the category views
            let v = xot.value(n);
            let is_elem = matches!(v, Value::Element(_));
            let is_doc = matches!(v, Value::Document);
            // raw children in arena order: namespaces, attributes, children must cover exactly the direct children
            let raw: Vec<Node> = xot.all_descendants(n).filter(|d| xot.parent(*d) == Some(n)).collect();
            let mut ordered: Vec<Node> = vec![];
            if is_elem {
                ordered.extend(xot.namespaces(n).nodes());
                ordered.extend(xot.attribute_nodes(n));
            }
            ordered.extend(xot.children(n));
            if raw != ordered {
                bad.push(("category-order".into(), format!("children of {} are not namespaces, attributes, ordinary children in that order", hs(h))));
            }
            if !is_elem && !is_doc && !raw.is_empty() {
                bad.push(("leaf-with-children".into(), format!("node {} is not an element or document but has children", hs(h))));
            }
            // sibling links agree with the child list
            let kids: Vec<Node> = xot.children(n).collect();
            for (i, k) in kids.iter().enumerate() {
                if xot.parent(*k) != Some(n) { bad.push(("parent-link".into(), format!("child {} of {} has another parent", hs(handle(*k)), hs(h)))); }
                let want_next = kids.get(i + 1).copied();
                let want_prev = if i > 0 { Some(kids[i - 1]) } else { None };
                if xot.next_sibling(*k) != want_next || xot.previous_sibling(*k) != want_prev {
                    bad.push(("sibling-link".into(), format!("sibling links of {} disagree with the child list of {}", hs(handle(*k)), hs(h))));
                }
                match xot.value(*k) {
                    Value::Document => bad.push(("document-not-root".into(), format!("document node {} has a parent", hs(handle(*k))))),
                    Value::Attribute(_) | Value::Namespace(_) => bad.push(("abnormal-as-child".into(), format!("attribute/namespace node {} among ordinary children", hs(handle(*k))))),
                    _ => {}
                }
            }
            if xot.first_child(n) != kids.first().copied() || xot.last_child(n) != kids.last().copied() {
                bad.push(("first-last".into(), format!("first_child/last_child of {} disagree with children()", hs(h))));
            }
            if is_elem {
                let names: Vec<_> = xot.attributes(n).keys().collect();
                let mut d = names.clone(); d.sort(); d.dedup();
                if d.len() != names.len() { bad.push(("duplicate-attribute".into(), format!("element {} has two attribute nodes with one name", hs(h)))); }
                let ps: Vec<_> = xot.namespaces(n).keys().collect();
                let mut d = ps.clone(); d.sort(); d.dedup();
                if d.len() != ps.len() { bad.push(("duplicate-prefix".into(), format!("element {} declares one prefix twice", hs(h)))); }
            } else if raw.iter().any(|c| !xot.value(*c).is_normal_pub()) {
                bad.push(("abnormal-under-non-element".into(), format!("attribute/namespace node under non-element {}", hs(h))));
            }
            if !st.ever_unconsolidated {
                for w in kids.windows(2) {
                    if xot.is_text(w[0]) && xot.is_text(w[1]) {
                        bad.push(("adjacent-text".into(), format!("text nodes {} and {} are adjacent although consolidation was never switched off", hs(handle(w[0])), hs(handle(w[1])))));
                    }
                }
            }
        }
    }
    bad
}

pub trait NormalPub {
    fn is_normal_pub(&self) -> bool;
}
impl NormalPub for Value {
    fn is_normal_pub(&self) -> bool {
        !matches!(self, Value::Attribute(_) | Value::Namespace(_))
    }
}

/// snapshot used by the refusal-atomicity and handle-stability oracles: per live handle its value, parent, and position
pub fn snapshot(st: &Store) -> BTreeMap<Handle, String> {
    let mut m = BTreeMap::new();
    for h in st.live_handles() {
        let n = st.known[&h];
        let v = match st.xot.value(n) {
            Value::Document => "D".to_string(),
            Value::Element(e) => format!("E{}", id_num(e.name())),
            Value::Text(t) => format!("T{}", enc(t.get())),
            Value::Comment(c) => format!("C{}", enc(c.get())),
            Value::ProcessingInstruction(p) => format!("P{}={}", id_num(p.target()), enc_opt(p.data())),
            Value::Attribute(a) => format!("A{}={}", id_num(a.name()), enc(a.value())),
            Value::Namespace(ns) => format!("N{}:{}", id_num(ns.prefix()), id_num(ns.namespace())),
        };
        let p = st.xot.parent(n).map(|p| hs(handle(p))).unwrap_or("-".into());
        let prev = st.xot.previous_sibling(n).map(|p| hs(handle(p))).unwrap_or("-".into());
        let next = st.xot.next_sibling(n).map(|p| hs(handle(p))).unwrap_or("-".into());
        m.insert(h, format!("{} parent={} prev={} next={}", v, p, prev, next));
    }
    m
}

pub fn _unused(_: &HashMap<u8, u8>) {}

// ------------------------------------------------------------------------------------------------------------
// C05 oracle: a plain ordered-tree model (Vec of children per node), independent of the Coq model.  It predicts
// the store after a successful call from the store before it, and is compared with the read-back by canonical
// text in which nodes that existed before keep their handle and new nodes / text nodes are anonymous (which of
// two merged text nodes survives is not part of the contract, the character data and its position is).

#[derive(Clone, Debug)]
pub struct ONode {
    pub val: OVal,
    pub kids: Vec<Handle>,
    pub parent: Option<Handle>,
}

#[derive(Clone, Debug, PartialEq)]
pub enum OVal {
    Doc,
    El(usize),
    Text(String),
    Comment(String),
    Pi(usize, Option<String>),
    Attr(usize, String),
    Ns(usize, usize),
}

impl OVal {
    fn cat(&self) -> u8 {
        match self { OVal::Ns(..) => 0, OVal::Attr(..) => 1, _ => 2 }
    }
    fn is_text(&self) -> bool { matches!(self, OVal::Text(_)) }
}

#[derive(Clone)]
pub struct OForest {
    pub nodes: BTreeMap<Handle, ONode>,
    pub cons: bool,
    next_new: u64,
}

pub fn oforest(st: &Store) -> OForest {
    let mut nodes: BTreeMap<Handle, ONode> = BTreeMap::new();
    for h in st.live_handles() {
        let n = st.known[&h];
        let val = match st.xot.value(n) {
            Value::Document => OVal::Doc,
            Value::Element(e) => OVal::El(st.reg.name_idx(e.name())),
            Value::Text(t) => OVal::Text(t.get().to_string()),
            Value::Comment(c) => OVal::Comment(c.get().to_string()),
            Value::ProcessingInstruction(p) => OVal::Pi(st.reg.name_idx(p.target()), p.data().map(|s| s.to_string())),
            Value::Attribute(a) => OVal::Attr(st.reg.name_idx(a.name()), a.value().to_string()),
            Value::Namespace(ns) => OVal::Ns(st.reg.prefix_idx(ns.prefix()), st.reg.ns_idx(ns.namespace())),
        };
        nodes.insert(h, ONode { val, kids: vec![], parent: st.xot.parent(n).map(handle) });
    }
    // child lists in arena order
    for r in st.roots() {
        let mut stack: Vec<Handle> = vec![];
        for e in st.xot.all_traverse(st.known[&r]) {
            match e {
                xot::NodeEdge::Start(x) => {
                    let h = handle(x);
                    if let Some(p) = stack.last() {
                        nodes.get_mut(p).unwrap().kids.push(h);
                    }
                    stack.push(h);
                }
                xot::NodeEdge::End(_) => { stack.pop(); }
            }
        }
    }
    OForest { nodes, cons: !st.cons_off, next_new: 1_000_000 }
}

impl OForest {
    fn fresh(&mut self, val: OVal) -> Handle {
        self.next_new += 1;
        let h = (self.next_new, -7);
        self.nodes.insert(h, ONode { val, kids: vec![], parent: None });
        h
    }
    pub fn is_text(&self, h: Handle) -> bool { self.nodes[&h].val.is_text() }
    fn normal(&self, h: Handle) -> bool { self.nodes[&h].val.cat() == 2 }
    /// merge kids[i+1] into kids[i] of `p` when both are text and consolidation is on
    fn merge_at(&mut self, p: Handle, i: usize) {
        if !self.cons { return; }
        let kids = self.nodes[&p].kids.clone();
        if i + 1 >= kids.len() { return; }
        let (a, b) = (kids[i], kids[i + 1]);
        if self.is_text(a) && self.is_text(b) {
            let tb = if let OVal::Text(t) = &self.nodes[&b].val { t.clone() } else { unreachable!() };
            if let OVal::Text(t) = &mut self.nodes.get_mut(&a).unwrap().val { t.push_str(&tb); }
            self.nodes.get_mut(&p).unwrap().kids.remove(i + 1);
            self.nodes.remove(&b);
        }
    }
    /// take `n` out of its parent's child list (consolidating the gap); it becomes a root
    fn cut(&mut self, n: Handle, consolidate: bool) {
        if let Some(p) = self.nodes[&n].parent {
            let pos = self.nodes[&p].kids.iter().position(|k| *k == n).unwrap();
            self.nodes.get_mut(&p).unwrap().kids.remove(pos);
            self.nodes.get_mut(&n).unwrap().parent = None;
            if consolidate && pos > 0 { self.merge_at(p, pos - 1); }
        }
    }
    /// insert root `n` into `p`'s child list at index `at`, then consolidate around it
    fn insert(&mut self, p: Handle, at: usize, n: Handle) {
        self.nodes.get_mut(&p).unwrap().kids.insert(at, n);
        self.nodes.get_mut(&n).unwrap().parent = Some(p);
        // later one merges into the earlier one: first with the left neighbour, then the right
        if at > 0 {
            let before = self.nodes[&p].kids.len();
            self.merge_at(p, at - 1);
            if self.nodes[&p].kids.len() < before { return; }
        }
        self.merge_at(p, at);
    }
    fn first_normal_index(&self, p: Handle) -> usize {
        let k = &self.nodes[&p].kids;
        k.iter().position(|c| self.normal(*c)).unwrap_or(k.len())
    }
    fn destroy(&mut self, n: Handle) {
        let kids = self.nodes[&n].kids.clone();
        for k in kids { self.destroy(k); }
        self.nodes.remove(&n);
    }
    fn is_ancestor_or_self(&self, a: Handle, of: Handle) -> bool {
        let mut c = Some(of);
        while let Some(x) = c {
            if x == a { return true; }
            c = self.nodes[&x].parent;
        }
        false
    }
    fn index_in_parent(&self, n: Handle) -> Option<(Handle, usize)> {
        let p = self.nodes[&n].parent?;
        Some((p, self.nodes[&p].kids.iter().position(|k| *k == n).unwrap()))
    }
    /// canonical text: nodes of `old` keep their handle unless they are text; everything else is anonymous
    pub fn canon(&self, old: &BTreeSet<Handle>) -> Vec<String> { self.canon_with(old, false) }
    /// `text_ids`: text nodes keep their handles too (for the calls whose only merges are "the later text node into the
    /// earlier one": remove, detach, element_unwrap); otherwise text nodes are anonymous, because an insertion merges
    /// the inserted node into whichever neighbour is text
    pub fn canon_with(&self, old: &BTreeSet<Handle>, text_ids: bool) -> Vec<String> {
        let mut roots: Vec<String> = self.nodes.iter().filter(|(_, n)| n.parent.is_none()).map(|(h, _)| self.canon_node(*h, old, text_ids)).collect();
        roots.sort();
        roots
    }
    fn canon_node(&self, h: Handle, old: &BTreeSet<Handle>, text_ids: bool) -> String {
        let n = &self.nodes[&h];
        let tag = if old.contains(&h) && (text_ids || !n.val.is_text()) { hs(h) } else { "*".to_string() };
        let kids: Vec<String> = n.kids.iter().map(|k| self.canon_node(*k, old, text_ids)).collect();
        format!("({:?}@{} {})", n.val, tag, kids.join(" "))
    }
    fn copy_subtree(&mut self, n: Handle) -> Handle {
        let val = self.nodes[&n].val.clone();
        let c = self.fresh(val);
        let kids = self.nodes[&n].kids.clone();
        for k in kids {
            let kc = self.copy_subtree(k);
            self.nodes.get_mut(&kc).unwrap().parent = Some(c);
            self.nodes.get_mut(&c).unwrap().kids.push(kc);
        }
        c
    }
    fn consolidate_all_under(&mut self, n: Handle) {
        // clone_node replays appends with consolidation: adjacent text of the source is merged in the copy
        let mut i = 0;
        while i + 1 < self.nodes[&n].kids.len() {
            let before = self.nodes[&n].kids.len();
            self.merge_at(n, i);
            if self.nodes[&n].kids.len() == before { i += 1; }
        }
        for k in self.nodes[&n].kids.clone() { self.consolidate_all_under(k); }
    }
}

impl OForest {
    pub fn any_adjacent_text_under(&self, root: Handle) -> bool {
        let mut stack = vec![root];
        while let Some(h) = stack.pop() {
            let n = &self.nodes[&h];
            if n.kids.windows(2).any(|w| self.is_text(w[0]) && self.is_text(w[1])) { return true; }
            stack.extend(n.kids.iter().copied());
        }
        false
    }
    pub fn any_adjacent_text(&self) -> bool {
        self.nodes.values().any(|n| n.kids.windows(2).any(|w| self.is_text(w[0]) && self.is_text(w[1])))
    }
    /// merge every pair of adjacent text children of `p` (only called when no such pair existed before the call)
    fn normalize(&mut self, p: Handle) {
        if !self.nodes.contains_key(&p) { return; }
        let mut i = 0;
        while i + 1 < self.nodes[&p].kids.len() {
            let before = self.nodes[&p].kids.len();
            self.merge_at(p, i);
            if self.nodes[&p].kids.len() == before { i += 1; }
        }
    }
}

/// Does the call satisfy the documented preconditions (so that it must succeed), and what must the store look like
/// afterwards?  None = the oracle does not predict this call (refusals are C06's business).
pub fn predict(before: &OForest, op: &Op) -> Option<OForest> {
    use Op::*;
    let mut f = before.clone();
    if f.cons && f.any_adjacent_text() {
        // adjacent text nodes left over from a time when consolidation was off: which pairs a later call merges is
        // not part of the contract
        return None;
    }
    let kind_ok_child = |f: &OForest, c: Handle| f.normal(c) && f.nodes[&c].val != OVal::Doc;
    let parent_ok = |f: &OForest, p: Handle| matches!(f.nodes[&p].val, OVal::Doc | OVal::El(_));
    match op {
        Append(p, c) | Prepend(p, c) => {
            if !parent_ok(&f, *p) || !kind_ok_child(&f, *c) || f.is_ancestor_or_self(*c, *p) { return None; }
            let old_parent = f.nodes[c].parent;
            f.cut(*c, false);
            let at = if matches!(op, Append(..)) { f.nodes[p].kids.len() } else { f.first_normal_index(*p) };
            f.nodes.get_mut(p).unwrap().kids.insert(at, *c);
            f.nodes.get_mut(c).unwrap().parent = Some(*p);
            if let Some(op_) = old_parent { f.normalize(op_); }
            f.normalize(*p);
            Some(f)
        }
        InsertAfter(r, n) | InsertBefore(r, n) => {
            let p = f.nodes[r].parent?;
            if r == n || !f.normal(*r) || !parent_ok(&f, p) || !kind_ok_child(&f, *n) || f.is_ancestor_or_self(*n, p) { return None; }
            let old_parent = f.nodes[n].parent;
            f.cut(*n, false);
            let ri = f.nodes[&p].kids.iter().position(|k| k == r).unwrap();
            let at = if matches!(op, InsertAfter(..)) { ri + 1 } else { ri };
            f.nodes.get_mut(&p).unwrap().kids.insert(at, *n);
            f.nodes.get_mut(n).unwrap().parent = Some(p);
            if let Some(op_) = old_parent { f.normalize(op_); }
            f.normalize(p);
            Some(f)
        }
        Detach(n) => { let op_ = f.nodes[n].parent; f.cut(*n, false); if let Some(x) = op_ { f.normalize(x); } Some(f) }
        Remove(n) => { let op_ = f.nodes[n].parent; f.cut(*n, false); f.destroy(*n); if let Some(x) = op_ { f.normalize(x); } Some(f) }
        Replace(a, b) => {
            let p = f.nodes[a].parent?;
            if f.nodes[a].val == OVal::Doc || !f.normal(*a) || !kind_ok_child(&f, *b) || f.is_ancestor_or_self(*b, p) { return None; }
            if a == b { return Some(f); }
            let old_parent = f.nodes[b].parent;
            f.cut(*b, false);
            let ai = f.nodes[&p].kids.iter().position(|k| k == a).unwrap();
            f.nodes.get_mut(&p).unwrap().kids[ai] = *b;
            f.nodes.get_mut(b).unwrap().parent = Some(p);
            f.nodes.get_mut(a).unwrap().parent = None;
            f.destroy(*a);
            if let Some(op_) = old_parent { f.normalize(op_); }
            f.normalize(p);
            Some(f)
        }
        Wrap(n, name) => {
            if f.nodes[n].val == OVal::Doc || !f.normal(*n) { return None; }
            if let Some(p) = f.nodes[n].parent {
                if f.nodes[&p].val == OVal::Doc && !matches!(f.nodes[n].val, OVal::El(_)) { return None; }
                let (_, i) = f.index_in_parent(*n).unwrap();
                let w = f.fresh(OVal::El(*name));
                f.nodes.get_mut(&p).unwrap().kids[i] = w;
                f.nodes.get_mut(&w).unwrap().parent = Some(p);
                f.nodes.get_mut(&w).unwrap().kids.push(*n);
                f.nodes.get_mut(n).unwrap().parent = Some(w);
            } else {
                let w = f.fresh(OVal::El(*name));
                f.nodes.get_mut(&w).unwrap().kids.push(*n);
                f.nodes.get_mut(n).unwrap().parent = Some(w);
            }
            Some(f)
        }
        Unwrap(n) => {
            if !matches!(f.nodes[n].val, OVal::El(_)) { return None; }
            let normal_kids: Vec<Handle> = f.nodes[n].kids.iter().copied().filter(|k| f.normal(*k)).collect();
            let abnormal: Vec<Handle> = f.nodes[n].kids.iter().copied().filter(|k| !f.normal(*k)).collect();
            match f.nodes[n].parent {
                None => {
                    if normal_kids.len() > 1 { return None; }
                    for a in abnormal { f.destroy(a); }
                    for k in &normal_kids { f.nodes.get_mut(k).unwrap().parent = None; }
                    f.nodes.remove(n);
                }
                Some(p) => {
                    let (_, i) = f.index_in_parent(*n).unwrap();
                    for a in abnormal { f.destroy(a); }
                    f.nodes.get_mut(&p).unwrap().kids.remove(i);
                    for (j, k) in normal_kids.iter().enumerate() {
                        f.nodes.get_mut(&p).unwrap().kids.insert(i + j, *k);
                        f.nodes.get_mut(k).unwrap().parent = Some(p);
                    }
                    f.nodes.remove(n);
                    f.normalize(p);
                }
            }
            Some(f)
        }
        CloneNode(n) => {
            let c = f.copy_subtree(*n);
            f.consolidate_all_under(c);
            Some(f)
        }
        SetAttr(e, name, v) | AttrsEntryModify(e, name, v) | AttrsEntryOrInsert(e, name, v) | AttrsGetMutSet(e, name, v) => {
            if !matches!(f.nodes[e].val, OVal::El(_)) { return None; }
            let existing = f.nodes[e].kids.iter().copied().find(|k| matches!(&f.nodes[k].val, OVal::Attr(n, _) if n == name));
            match (existing, op) {
                (Some(a), SetAttr(..)) | (Some(a), AttrsEntryModify(..)) | (Some(a), AttrsGetMutSet(..)) => { f.nodes.get_mut(&a).unwrap().val = OVal::Attr(*name, v.clone()); }
                (Some(_), _) => {}
                (None, AttrsGetMutSet(..)) => {}
                (None, _) => {
                    let val = if matches!(op, AttrsEntryModify(..)) { format!("new:{}", v) } else { v.clone() };
                    let a = f.fresh(OVal::Attr(*name, val));
                    let at = f.first_normal_index(*e);
                    f.nodes.get_mut(e).unwrap().kids.insert(at, a);
                    f.nodes.get_mut(&a).unwrap().parent = Some(*e);
                }
            }
            Some(f)
        }
        RmAttr(e, name) | AttrsEntryRemove(e, name) => {
            if !matches!(f.nodes[e].val, OVal::El(_)) { return None; }
            if let Some(a) = f.nodes[e].kids.iter().copied().find(|k| matches!(&f.nodes[k].val, OVal::Attr(n, _) if n == name)) {
                f.cut(a, false);
                f.destroy(a);
            }
            Some(f)
        }
        SetNs(e, p, n) | NsEntryOrInsert(e, p, n) | NsGetMutSet(e, p, n) => {
            if !matches!(f.nodes[e].val, OVal::El(_)) { return None; }
            let existing = f.nodes[e].kids.iter().copied().find(|k| matches!(&f.nodes[k].val, OVal::Ns(q, _) if q == p));
            match (existing, op) {
                (Some(a), SetNs(..)) | (Some(a), NsGetMutSet(..)) => { f.nodes.get_mut(&a).unwrap().val = OVal::Ns(*p, *n); }
                (Some(_), _) => {}
                (None, NsGetMutSet(..)) => {}
                (None, _) => {
                    let a = f.fresh(OVal::Ns(*p, *n));
                    let at = f.nodes[e].kids.iter().position(|k| f.nodes[k].val.cat() != 0).unwrap_or(f.nodes[e].kids.len());
                    f.nodes.get_mut(e).unwrap().kids.insert(at, a);
                    f.nodes.get_mut(&a).unwrap().parent = Some(*e);
                }
            }
            Some(f)
        }
        RmNs(e, p) => {
            if !matches!(f.nodes[e].val, OVal::El(_)) { return None; }
            if let Some(a) = f.nodes[e].kids.iter().copied().find(|k| matches!(&f.nodes[k].val, OVal::Ns(q, _) if q == p)) {
                f.cut(a, false);
                f.destroy(a);
            }
            Some(f)
        }
        AttrsClear(e) | NsClear(e) => {
            if !matches!(f.nodes[e].val, OVal::El(_)) { return None; }
            let want = if matches!(op, AttrsClear(_)) { 1 } else { 0 };
            for k in f.nodes[e].kids.clone() {
                if f.nodes[&k].val.cat() == want { f.cut(k, false); f.destroy(k); }
            }
            Some(f)
        }
        SetName(e, name) => {
            if !matches!(f.nodes[e].val, OVal::El(_)) { return None; }
            f.nodes.get_mut(e).unwrap().val = OVal::El(*name);
            Some(f)
        }
        SetText(n, s) => { if f.is_text(*n) { f.nodes.get_mut(n).unwrap().val = OVal::Text(s.clone()); } Some(f) }
        SetAttrValue(n, s) => { if let OVal::Attr(a, _) = f.nodes[n].val.clone() { f.nodes.get_mut(n).unwrap().val = OVal::Attr(a, s.clone()); } Some(f) }
        SetNsValue(n, u) => { if let OVal::Ns(p, _) = f.nodes[n].val.clone() { f.nodes.get_mut(n).unwrap().val = OVal::Ns(p, *u); } Some(f) }
        SetPiData(n, d) => {
            if let OVal::Pi(t, _) = f.nodes[n].val.clone() {
                let d = d.clone().filter(|s| !s.is_empty());
                f.nodes.get_mut(n).unwrap().val = OVal::Pi(t, d);
            }
            Some(f)
        }
        NewDoc => { f.fresh(OVal::Doc); Some(f) }
        NewEl(n) => { f.fresh(OVal::El(*n)); Some(f) }
        NewText(s) => { f.fresh(OVal::Text(s.clone())); Some(f) }
        NewComment(s) => { f.fresh(OVal::Comment(s.clone())); Some(f) }
        NewPi(n, d) => { f.fresh(OVal::Pi(*n, d.clone().filter(|x| !x.is_empty()))); Some(f) }   // empty data is no data
        NewAttr(n, v) => { f.fresh(OVal::Attr(*n, v.clone())); Some(f) }
        NewNs(p, n) => { f.fresh(OVal::Ns(*p, *n)); Some(f) }
        _ => None,
    }
}
