//! Shared helpers for the correspondence harness binaries (one binary per property).
//!
//! Conventions (see /verif/DESIGN.md section 4):
//!  * every random choice comes from one splitmix64 state seeded from the seed given on the command line;
//!  * strings are printed as dot-separated decimal code points, `_` for the empty string;
//!  * every call into xot that may panic is wrapped in `guard`;
//!  * a harness writes `cases.txt` (input of the model driver), `impl.txt` (observations of the real
//!    crate, one line per case, same format as the model driver prints), `oracle.txt` (one line per
//!    oracle failure: `FAIL <case> <class-key> <text>`) and `stats.json`.

use std::collections::BTreeMap;
use std::fmt::Write as _;
use std::io::Write as _;
use std::panic::{catch_unwind, AssertUnwindSafe};

#[derive(Clone)]
pub struct Rng(pub u64);

impl Rng {
    pub fn new(seed: u64) -> Self {
        Rng(seed.wrapping_mul(0x9E3779B97F4A7C15) ^ 0xD1B54A32D192ED03)
    }
    pub fn next(&mut self) -> u64 {
        self.0 = self.0.wrapping_add(0x9E3779B97F4A7C15);
        let mut z = self.0;
        z = (z ^ (z >> 30)).wrapping_mul(0xBF58476D1CE4E5B9);
        z = (z ^ (z >> 27)).wrapping_mul(0x94D049BB133111EB);
        z ^ (z >> 31)
    }
    /// uniform in 0..n (n > 0)
    pub fn below(&mut self, n: usize) -> usize {
        (self.next() % (n as u64)) as usize
    }
    pub fn chance(&mut self, num: u64, den: u64) -> bool {
        self.next() % den < num
    }
    pub fn pick<'a, T>(&mut self, v: &'a [T]) -> &'a T {
        &v[self.below(v.len())]
    }
    /// derive an independent generator for case `k`
    pub fn fork(&self, k: u64) -> Rng {
        Rng::new(self.0 ^ k.wrapping_mul(0xA24BAED4963EE407))
    }
}

/// `a.b.c` encoding of a string (decimal scalar values), `_` when empty
pub fn enc(s: &str) -> String {
    if s.is_empty() {
        return "_".to_string();
    }
    let mut out = String::new();
    for (i, c) in s.chars().enumerate() {
        if i > 0 {
            out.push('.');
        }
        write!(out, "{}", c as u32).unwrap();
    }
    out
}

pub fn dec(s: &str) -> String {
    if s == "_" {
        return String::new();
    }
    s.split('.')
        .map(|p| char::from_u32(p.parse::<u32>().expect("code point")).expect("scalar value"))
        .collect()
}

pub fn enc_opt(s: Option<&str>) -> String {
    match s {
        Some(s) => enc(s),
        None => "~".to_string(),
    }
}

/// run `f`, turning an unwinding panic into `Err(())`
pub fn guard<T>(f: impl FnOnce() -> T) -> Result<T, ()> {
    IN_GUARD.with(|g| g.set(g.get() + 1));
    let r = catch_unwind(AssertUnwindSafe(f)).map_err(|_| ());
    IN_GUARD.with(|g| g.set(g.get() - 1));
    r
}

thread_local! {
    static IN_GUARD: std::cell::Cell<u32> = std::cell::Cell::new(0);
}

/// silence the panic message of panics inside `guard` (they are expected and reported); a panic of the harness
/// itself is still printed
pub fn quiet_panics() {
    std::panic::set_hook(Box::new(|info| {
        if IN_GUARD.with(|g| g.get()) == 0 {
            eprintln!("harness panic: {}", info);
        }
    }));
}

/// numeric payload of `NameId(3)`, `PrefixId(0)`, ... via Debug
pub fn id_num<T: std::fmt::Debug>(id: T) -> u64 {
    let s = format!("{:?}", id);
    let digits: String = s.chars().filter(|c| c.is_ascii_digit()).collect();
    digits.parse().unwrap()
}

#[derive(Default)]
pub struct Stats {
    pub counters: BTreeMap<String, u64>,
    pub samples: Vec<String>,
    pub distinct: std::collections::BTreeSet<u64>,
    pub nontrivial: u64,
}

impl Stats {
    pub fn bump(&mut self, k: &str) {
        *self.counters.entry(k.to_string()).or_insert(0) += 1;
    }
    pub fn add(&mut self, k: &str, n: u64) {
        *self.counters.entry(k.to_string()).or_insert(0) += n;
    }
    pub fn sample(&mut self, s: &str) {
        if self.samples.len() < 5 {
            let mut t = s.to_string();
            if t.len() > 600 {
                t.truncate(600);
                t.push_str("...");
            }
            self.samples.push(t);
        }
    }
    /// record a case: `key` identifies it for distinctness, `nontrivial` by the property's rule
    pub fn case(&mut self, key: &str, nontrivial: bool) {
        let h = fnv(key);
        if nontrivial && self.distinct.insert(h) {
            self.nontrivial += 1;
        }
        self.bump("cases");
    }
    pub fn write(&self, path: &str) {
        let mut s = String::from("{\n \"counters\": {");
        let mut first = true;
        for (k, v) in &self.counters {
            if !first {
                s.push(',');
            }
            first = false;
            write!(s, "\n  {}: {}", json_str(k), v).unwrap();
        }
        s.push_str("\n },\n \"distinct_nontrivial\": ");
        write!(s, "{}", self.nontrivial).unwrap();
        s.push_str(",\n \"samples\": [");
        for (i, x) in self.samples.iter().enumerate() {
            if i > 0 {
                s.push(',');
            }
            write!(s, "\n  {}", json_str(x)).unwrap();
        }
        s.push_str("\n ]\n}\n");
        std::fs::write(path, s).unwrap();
    }
}

pub fn fnv(s: &str) -> u64 {
    let mut h: u64 = 0xcbf29ce484222325;
    for b in s.bytes() {
        h ^= b as u64;
        h = h.wrapping_mul(0x100000001b3);
    }
    h
}

pub fn json_str(s: &str) -> String {
    let mut o = String::from("\"");
    for c in s.chars() {
        match c {
            '"' => o.push_str("\\\""),
            '\\' => o.push_str("\\\\"),
            '\n' => o.push_str("\\n"),
            '\r' => o.push_str("\\r"),
            '\t' => o.push_str("\\t"),
            c if (c as u32) < 0x20 => write!(o, "\\u{:04x}", c as u32).unwrap(),
            c => o.push(c),
        }
    }
    o.push('"');
    o
}

/// Output files of one harness run.
pub struct Out {
    pub cases: std::io::BufWriter<std::fs::File>,
    pub imp: std::io::BufWriter<std::fs::File>,
    pub oracle: std::io::BufWriter<std::fs::File>,
    pub ocases: std::io::BufWriter<std::fs::File>,
    pub dir: String,
    pub fails: u64,
}

impl Out {
    pub fn new(dir: &str) -> Out {
        std::fs::create_dir_all(dir).unwrap();
        let f = |n: &str| std::io::BufWriter::new(std::fs::File::create(format!("{}/{}", dir, n)).unwrap());
        Out {
            cases: f("cases.txt"),
            imp: f("impl.txt"),
            oracle: f("oracle.txt"),
            ocases: f("oracle_cases.txt"),
            dir: dir.to_string(),
            fails: 0,
        }
    }
    pub fn case(&mut self, line: &str) {
        writeln!(self.cases, "{}", line).unwrap();
    }
    /// a case that only the oracle sees (not part of the model stream); kept so that it can be replayed
    pub fn oracle_case(&mut self, line: &str) {
        writeln!(self.ocases, "{}", line).unwrap();
    }
    pub fn imp(&mut self, line: &str) {
        writeln!(self.imp, "{}", line).unwrap();
    }
    /// an oracle failure: the property, evaluated directly on the implementation, does not hold
    pub fn fail(&mut self, case: &str, class: &str, text: &str) {
        self.fails += 1;
        writeln!(self.oracle, "FAIL {} {} {}", case, class, text.replace('\n', "\\n")).unwrap();
    }
    pub fn finish(mut self, stats: &Stats) {
        self.cases.flush().unwrap();
        self.imp.flush().unwrap();
        self.oracle.flush().unwrap();
        self.ocases.flush().unwrap();
        stats.write(&format!("{}/stats.json", self.dir));
    }
}

/// Command line shared by all harness binaries:
///   <bin> --out DIR --seed S --n N [--tier quick|thorough] [--replay FILE]
pub struct Args {
    pub out: String,
    pub seed: u64,
    pub n: usize,
    pub tier: String,
    pub replay: Option<String>,
    pub extra: Vec<String>,
}

pub fn args() -> Args {
    let mut a = Args {
        out: "work".into(),
        seed: 1,
        n: 100,
        tier: "quick".into(),
        replay: None,
        extra: vec![],
    };
    let v: Vec<String> = std::env::args().skip(1).collect();
    let mut i = 0;
    while i < v.len() {
        match v[i].as_str() {
            "--out" => {
                a.out = v[i + 1].clone();
                i += 1
            }
            "--seed" => {
                a.seed = v[i + 1].parse().unwrap();
                i += 1
            }
            "--n" => {
                a.n = v[i + 1].parse().unwrap();
                i += 1
            }
            "--tier" => {
                a.tier = v[i + 1].clone();
                i += 1
            }
            "--replay" => {
                a.replay = Some(v[i + 1].clone());
                i += 1
            }
            x => a.extra.push(x.to_string()),
        }
        i += 1;
    }
    a
}

/// The weighted character alphabet used for text / attribute / name-ish content.
pub const SPECIAL_CHARS: &[char] = &[
    '<', '&', '>', '"', '\'', ']', '\t', '\n', '\r', ' ', '\u{a0}', '\u{85}', '\u{2028}', 'a', 'b', 'x', 'é',
    '\u{4e2d}', '\u{1F600}', '-', '?', ';', '#',
];

pub fn random_text(r: &mut Rng, maxlen: usize) -> String {
    let n = r.below(maxlen + 1);
    let mut s = String::new();
    for _ in 0..n {
        s.push(*r.pick(SPECIAL_CHARS));
    }
    s
}

pub fn random_ident(r: &mut Rng) -> String {
    const POOL: &[&str] = &["a", "b", "c", "d", "A", "x", "y", "id", "space", "xml", "n0", "n1", "p", "q", "foo", "é"];
    if r.chance(4, 5) {
        r.pick(POOL).to_string()
    } else {
        let n = 1 + r.below(4);
        (0..n).map(|_| *r.pick(&['a', 'b', 'Z', '_', 'k', '\u{4e2d}'])).collect()
    }
}


/// A writer that accepts `left` bytes and fails from then on.
pub struct FailingWriter { pub left: usize }
impl std::io::Write for FailingWriter {
    fn write(&mut self, buf: &[u8]) -> std::io::Result<usize> {
        if self.left == 0 { return Err(std::io::Error::new(std::io::ErrorKind::Other, "writer full")); }
        let n = buf.len().min(self.left);
        self.left -= n;
        Ok(n)
    }
    fn flush(&mut self) -> std::io::Result<()> { Ok(()) }
}
