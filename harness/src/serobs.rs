//! Observation of the XML serialisation entry points (shared by C16, C14, C10, C01, C15): string, token stream,
//! pretty string, pretty token stream, output events, in the text form the model driver prints.
use crate::common::*;
use crate::tree::*;
use std::collections::HashMap;
use xot::output::{xml, Indentation, NoopNormalizer, Output, TokenSerializeParameters};
use xot::{Node, Xot};

#[derive(Clone, Debug)]
pub struct SerParams {
    pub cdata: Vec<usize>,    // element names (registry indexes)
    pub unescaped_gt: bool,
    pub suppress: Vec<usize>,
}

pub fn params_text(p: &SerParams) -> String {
    let l = |v: &Vec<usize>| if v.is_empty() { "-".to_string() } else { v.iter().map(|x| x.to_string()).collect::<Vec<_>>().join("+") };
    format!("cd={};gt={};su={}", l(&p.cdata), if p.unescaped_gt { 1 } else { 0 }, l(&p.suppress))
}

pub fn parse_params(s: &str) -> SerParams {
    let mut p = SerParams { cdata: vec![], unescaped_gt: false, suppress: vec![] };
    for f in s.split(';') {
        let (k, v) = f.split_once('=').unwrap();
        let l = |v: &str| -> Vec<usize> { if v == "-" { vec![] } else { v.split('+').map(|x| x.parse().unwrap()).collect() } };
        match k { "cd" => p.cdata = l(v), "gt" => p.unescaped_gt = v == "1", "su" => p.suppress = l(v), _ => {} }
    }
    p
}

pub fn random_params(r: &mut Rng, pool: &Pool) -> SerParams {
    // a name list is given in any order (not the order the names were interned in) and may name an element twice
    let sub = |r: &mut Rng| -> Vec<usize> {
        let mut v = vec![];
        for n in &pool.names { if r.chance(1, 6) { v.push(*n); } }
        if !v.is_empty() && r.chance(1, 6) { let d = *r.pick(&v); v.push(d); }
        for i in (1..v.len()).rev() { let j = r.below(i + 1); v.swap(i, j); }
        v
    };
    SerParams { cdata: if r.chance(1, 2) { sub(r) } else { vec![] }, unescaped_gt: r.chance(1, 2), suppress: if r.chance(1, 2) { sub(r) } else { vec![] } }
}

fn err_kind(e: &xot::Error) -> String {
    match e {
        xot::Error::MissingPrefix(_) => "MissingPrefix".into(),
        xot::Error::NamespaceInProcessingInstruction => "NamespaceInPI".into(),
        other => format!("{:?}", other).split('(').next().unwrap().to_string(),
    }
}

pub struct SerObs {
    pub ser: Result<String, String>,
    pub tokens: Result<Vec<(usize, bool, String)>, ()>,       // node index, space, text;  Err = panicked
    pub pretty: Result<String, String>,
    pub pretty_tokens: Result<Vec<(usize, usize, bool, String, bool)>, ()>,
    pub outputs: Vec<(usize, String)>,
    /// serialize_xml_write with the same parameters (plain, indented) and the *_with_normalizer forms with the no-op normaliser
    pub written: Vec<(String, Result<Vec<u8>, String>)>,
    pub tok_events: Option<Vec<(usize, String)>>,     // the (node, event) each token / pretty token is paired with
    pub ptok_events: Option<Vec<(usize, String)>>,
}

pub fn output_text(reg: &Reg, o: &Output) -> String {
    match o {
        Output::StartTagOpen(e) => format!("so{}", reg.name_idx(e.name())),
        Output::StartTagClose => "sc".into(),
        Output::EndTag(e) => format!("et{}", reg.name_idx(e.name())),
        Output::Prefix(p, n) => format!("px{}>{}", reg.prefix_idx(*p), reg.ns_idx(*n)),
        Output::Attribute(n, v) => format!("at{}={}", reg.name_idx(*n), enc(v)),
        Output::Text(t) => format!("tx{}", enc(t)),
        Output::Comment(t) => format!("cm{}", enc(t)),
        Output::ProcessingInstruction(t, d) => format!("pi{}={}", reg.name_idx(*t), enc_opt(*d)),
    }
}

/// every serialisation entry point on `node`; node indexes are positions in `index` (raw pre-order of the tree)
pub fn observe(xot: &Xot, reg: &Reg, index: &HashMap<Node, usize>, node: Node, p: &SerParams) -> SerObs {
    let names: Vec<xot::NameId> = reg.names.iter().map(|x| x.2).collect();
    let cdata: Vec<xot::NameId> = p.cdata.iter().map(|i| names[*i]).collect();
    let suppress: Vec<xot::NameId> = p.suppress.iter().map(|i| names[*i]).collect();
    let idx = |n: Node| -> usize { *index.get(&n).unwrap_or(&999_999) };
    let xp = xml::Parameters { cdata_section_elements: cdata.clone(), unescaped_gt: p.unescaped_gt, ..Default::default() };
    let ser = match guard(|| xot.serialize_xml_string(xp.clone(), node)) { Ok(Ok(s)) => Ok(s), Ok(Err(e)) => Err(err_kind(&e)), Err(()) => Err("PANIC".into()) };
    let xpp = xml::Parameters { indentation: Some(Indentation { suppress: suppress.clone() }), ..xp.clone() };
    let pretty = match guard(|| xot.serialize_xml_string(xpp, node)) { Ok(Ok(s)) => Ok(s), Ok(Err(e)) => Err(err_kind(&e)), Err(()) => Err("PANIC".into()) };
    let tp = || TokenSerializeParameters { cdata_section_elements: cdata.clone(), unescaped_gt: p.unescaped_gt };
    let tokens = guard(|| xot.tokens(node, tp(), NoopNormalizer).map(|(n, _, t)| (idx(n), t.space, t.text)).collect::<Vec<_>>());
    let pretty_tokens = guard(|| xot.pretty_tokens(node, tp(), &suppress, NoopNormalizer).map(|(n, _, t)| (idx(n), t.indentation, t.space, t.text, t.newline)).collect::<Vec<_>>());
    let outputs = xot.outputs(node).map(|(n, o)| (idx(n), output_text(reg, &o))).collect();
    let tok_events = guard(|| xot.tokens(node, tp(), NoopNormalizer).map(|(n, o, _)| (idx(n), output_text(reg, &o))).collect::<Vec<_>>()).ok();
    let ptok_events = guard(|| xot.pretty_tokens(node, tp(), &suppress, NoopNormalizer).map(|(n, o, _)| (idx(n), output_text(reg, &o))).collect::<Vec<_>>()).ok();
    let mut written: Vec<(String, Result<Vec<u8>, String>)> = vec![];
    for (label, params) in [("serialize_xml_write", xp.clone()), ("serialize_xml_write(indented)", xml::Parameters { indentation: Some(Indentation { suppress: suppress.clone() }), ..xp.clone() })] {
        let mut buf: Vec<u8> = vec![];
        let r = match guard(|| xot.serialize_xml_write(params.clone(), node, &mut buf)) { Ok(Ok(())) => Ok(buf.clone()), Ok(Err(e)) => Err(err_kind(&e)), Err(()) => Err("PANIC".into()) };
        written.push((label.to_string(), r));
        let mut buf2: Vec<u8> = vec![];
        let r2 = match guard(|| xot.serialize_xml_write_with_normalizer(params.clone(), node, &mut buf2, NoopNormalizer)) { Ok(Ok(())) => Ok(buf2.clone()), Ok(Err(e)) => Err(err_kind(&e)), Err(()) => Err("PANIC".into()) };
        written.push((format!("{}_with_normalizer", label), r2));
        let r3 = match guard(|| xot.serialize_xml_string_with_normalizer(params.clone(), node, NoopNormalizer)) { Ok(Ok(s)) => Ok(s.into_bytes()), Ok(Err(e)) => Err(err_kind(&e)), Err(()) => Err("PANIC".into()) };
        written.push((format!("{}: serialize_xml_string_with_normalizer", label), r3));
    }
    SerObs { ser, tokens, pretty, pretty_tokens, outputs, written, tok_events, ptok_events }
}

pub fn obs_text(o: &SerObs) -> String {
    let r = |x: &Result<String, String>| match x { Ok(s) => format!("ok:{}", enc(s)), Err(k) => format!("ERR:{}", k) };
    let toks = match &o.tokens {
        Ok(v) => v.iter().map(|(n, sp, t)| format!("{}:{}:{}", n, if *sp { 1 } else { 0 }, enc(t))).collect::<Vec<_>>().join(","),
        Err(()) => "PANIC".into(),
    };
    let ptoks = match &o.pretty_tokens {
        Ok(v) => v.iter().map(|(n, i, sp, t, nl)| format!("{}:{}:{}:{}:{}", n, i, if *sp { 1 } else { 0 }, enc(t), if *nl { 1 } else { 0 })).collect::<Vec<_>>().join(","),
        Err(()) => "PANIC".into(),
    };
    let outs = o.outputs.iter().map(|(n, t)| format!("{}:{}", n, t)).collect::<Vec<_>>().join(",");
    format!("ser={} tok={} pty={} ptok={} out={}", r(&o.ser), toks, r(&o.pretty), ptoks, outs)
}
