//! Abstract trees: generation, construction in a real `Xot`, and the text form shared with the model driver.
//!
//! Text form (tokens separated by one space), raw arena order:
//!   D( ... )            document node
//!   E<name>( ... )      element; inside: N<prefix>:<ns> namespace nodes, A<name>=<str> attribute nodes, children
//!   T<str>  C<str>  P<name>=<optstr>     text, comment, processing instruction (`~` = no data)
//! Top-level nodes are the roots of separate trees of one store.  Nodes are numbered by their position in this
//! text (= pre-order over all trees, namespace and attribute nodes included).
//! Tables: `ns=<str>,..;pf=<str>,..;nm=<local>/<ns>,..` list every entry of the three interning tables in id order.
use crate::common::*;
use std::collections::HashMap;
use xot::{NameId, NamespaceId, Node, PrefixId, Value, Xot};

/// everything that has been registered in the Xot, in id order (the harness registers through this wrapper only)
#[derive(Clone)]
pub struct Reg {
    pub nss: Vec<(String, NamespaceId)>,
    pub prefixes: Vec<(String, PrefixId)>,
    pub names: Vec<(String, usize, NameId)>, // local, index into nss
}

impl Reg {
    pub fn new(xot: &Xot) -> Reg {
        let xmlns = "http://www.w3.org/XML/1998/namespace";
        Reg {
            nss: vec![("".into(), xot.no_namespace()), (xmlns.into(), xot.xml_namespace())],
            prefixes: vec![("".into(), xot.empty_prefix()), ("xml".into(), xot.xml_prefix())],
            names: vec![("space".into(), 1, xot.xml_space_name()), ("id".into(), 1, xot.xml_id_name())],
        }
    }
    pub fn ns(&mut self, xot: &mut Xot, s: &str) -> usize {
        if let Some(i) = self.nss.iter().position(|(x, _)| x == s) {
            return i;
        }
        let id = xot.add_namespace(s);
        self.nss.push((s.to_string(), id));
        assert_eq!(id_num(id) as usize, self.nss.len() - 1, "namespace ids are expected to be dense");
        self.nss.len() - 1
    }
    pub fn prefix(&mut self, xot: &mut Xot, s: &str) -> usize {
        if let Some(i) = self.prefixes.iter().position(|(x, _)| x == s) {
            return i;
        }
        let id = xot.add_prefix(s);
        self.prefixes.push((s.to_string(), id));
        assert_eq!(id_num(id) as usize, self.prefixes.len() - 1, "prefix ids are expected to be dense");
        self.prefixes.len() - 1
    }
    pub fn name(&mut self, xot: &mut Xot, local: &str, ns: usize) -> usize {
        if let Some(i) = self.names.iter().position(|(l, n, _)| l == local && *n == ns) {
            return i;
        }
        let id = xot.add_name_ns(local, self.nss[ns].1);
        self.names.push((local.to_string(), ns, id));
        assert_eq!(id_num(id) as usize, self.names.len() - 1, "name ids are expected to be dense");
        self.names.len() - 1
    }
    pub fn name_idx(&self, id: NameId) -> usize {
        self.names.iter().position(|(_, _, i)| *i == id).expect("name registered through Reg")
    }
    pub fn ns_idx(&self, id: NamespaceId) -> usize {
        self.nss.iter().position(|(_, i)| *i == id).expect("namespace registered through Reg")
    }
    pub fn prefix_idx(&self, id: PrefixId) -> usize {
        self.prefixes.iter().position(|(_, i)| *i == id).expect("prefix registered through Reg")
    }
    pub fn tables(&self) -> String {
        let ns: Vec<String> = self.nss.iter().map(|(s, _)| enc(s)).collect();
        let pf: Vec<String> = self.prefixes.iter().map(|(s, _)| enc(s)).collect();
        let nm: Vec<String> = self.names.iter().map(|(l, n, _)| format!("{}/{}", enc(l), n)).collect();
        format!("ns={};pf={};nm={}", ns.join(","), pf.join(","), nm.join(","))
    }
}

#[derive(Clone, Debug)]
pub enum ANode {
    Doc(Vec<ANode>),
    Elem { name: usize, ns: Vec<(usize, usize)>, attrs: Vec<(usize, String)>, kids: Vec<ANode> },
    Text(String),
    Comment(String),
    Pi(usize, Option<String>),
    Attr(usize, String),
    Ns(usize, usize),
}

/// builds the abstract tree with the creation API; text consolidation is switched off while building so that
/// empty and adjacent text nodes can be represented, and restored afterwards
pub fn build(xot: &mut Xot, reg: &Reg, a: &ANode) -> Node {
    xot.set_text_consolidation(false);
    let n = build_rec(xot, reg, a);
    xot.set_text_consolidation(true);
    n
}

fn build_rec(xot: &mut Xot, reg: &Reg, a: &ANode) -> Node {
    match a {
        ANode::Doc(kids) => {
            let d = xot.new_document();
            for k in kids {
                let c = build_rec(xot, reg, k);
                xot.append(d, c).expect("append under document");
            }
            d
        }
        ANode::Elem { name, ns, attrs, kids } => {
            let e = xot.new_element(reg.names[*name].2);
            for (p, n) in ns {
                xot.namespaces_mut(e).insert(reg.prefixes[*p].1, reg.nss[*n].1);
            }
            for (n, v) in attrs {
                xot.attributes_mut(e).insert(reg.names[*n].2, v.clone());
            }
            for k in kids {
                let c = build_rec(xot, reg, k);
                xot.append(e, c).expect("append under element");
            }
            e
        }
        ANode::Text(s) => xot.new_text(s),
        ANode::Comment(s) => xot.new_comment(s),
        ANode::Pi(t, d) => xot.new_processing_instruction(reg.names[*t].2, d.as_deref()),
        ANode::Attr(n, v) => xot.new_attribute_node(reg.names[*n].2, v.clone()),
        ANode::Ns(p, n) => xot.new_namespace_node(reg.prefixes[*p].1, reg.nss[*n].1),
    }
}

/// the text form of the tree rooted at `root`, read back from the real arena in raw order
pub fn print_tree(xot: &Xot, reg: &Reg, root: Node) -> String {
    let mut out: Vec<String> = vec![];
    for e in xot.all_traverse(root) {
        match e {
            xot::NodeEdge::Start(n) => match xot.value(n) {
                Value::Document => out.push("D(".into()),
                Value::Element(e) => out.push(format!("E{}(", reg.name_idx(e.name()))),
                Value::Text(t) => out.push(format!("T{}", enc(t.get()))),
                Value::Comment(c) => out.push(format!("C{}", enc(c.get()))),
                Value::ProcessingInstruction(p) => out.push(format!("P{}={}", reg.name_idx(p.target()), enc_opt(p.data()))),
                Value::Attribute(a) => out.push(format!("A{}={}", reg.name_idx(a.name()), enc(a.value()))),
                Value::Namespace(ns) => out.push(format!("N{}:{}", reg.prefix_idx(ns.prefix()), reg.ns_idx(ns.namespace()))),
            },
            xot::NodeEdge::End(n) => match xot.value(n) {
                Value::Document | Value::Element(_) => out.push(")".into()),
                _ => {}
            },
        }
    }
    out.join(" ")
}

/// raw pre-order list of the tree (namespace and attribute nodes included) and the inverse map
pub fn preorder(xot: &Xot, root: Node) -> (Vec<Node>, HashMap<Node, usize>) {
    let v: Vec<Node> = xot.all_descendants(root).collect();
    let m = v.iter().enumerate().map(|(i, n)| (*n, i)).collect();
    (v, m)
}

// ------------------------------------------------------------------------------------------ generation

#[derive(Clone)]
pub struct GenCfg {
    pub max_depth: usize,
    pub max_fanout: usize,
    pub max_nodes: usize,
    pub doc_root: u64,            // percent: root is a document node
    pub fragment: u64,            // percent of documents that are fragments (any top-level content)
    pub adjacent_text: bool,      // allow adjacent text nodes
    pub empty_text: bool,         // allow empty text nodes
    pub decls: bool,              // generate namespace declarations
    pub attrs: bool,
    pub special_text: bool,       // draw text from the special alphabet (else plain letters)
    pub ns_names: bool,           // use names in namespaces
    pub xml_space: u64,           // percent of elements that get an xml:space attribute
    pub ws_text: u64,             // percent of text nodes that are whitespace only
}

impl Default for GenCfg {
    fn default() -> Self {
        GenCfg {
            max_depth: 5, max_fanout: 4, max_nodes: 40, doc_root: 60, fragment: 30, adjacent_text: true, empty_text: true,
            decls: true, attrs: true, special_text: true, ns_names: true, xml_space: 0, ws_text: 10,
        }
    }
}

pub struct Pool {
    pub uris: Vec<usize>,     // indices into reg.nss (0 = no namespace, 1 = xml)
    pub prefixes: Vec<usize>, // indices into reg.prefixes
    pub names: Vec<usize>,    // element / attribute names
    pub pi_names: Vec<usize>, // no-namespace names for PI targets
    pub attr_names: Vec<usize>,
    /// twenty-four more prefixes, namespaces and no-namespace attribute names, drawn only by the large shapes of [gen_big]
    pub extra_prefixes: Vec<usize>,
    pub extra_uris: Vec<usize>,
    pub extra_attrs: Vec<usize>,
}

pub fn make_pool(xot: &mut Xot, reg: &mut Reg, ns_names: bool) -> Pool {
    let mut uris = vec![0usize];
    for u in ["urn:a", "urn:b", "urn:c"] {
        uris.push(reg.ns(xot, u));
    }
    let mut prefixes = vec![0usize];
    for p in ["p", "q", "n0", "r"] {
        prefixes.push(reg.prefix(xot, p));
    }
    let mut names = vec![];
    let mut attr_names = vec![];
    let mut pi_names = vec![];
    for l in ["a", "b", "c", "em"] {
        let i = reg.name(xot, l, 0);
        names.push(i);
        pi_names.push(i);
        if ns_names {
            for u in 1..uris.len() {
                names.push(reg.name(xot, l, uris[u]));
            }
        }
    }
    for l in ["x", "y", "id"] {
        attr_names.push(reg.name(xot, l, 0));
        if ns_names {
            attr_names.push(reg.name(xot, l, uris[1]));
            attr_names.push(reg.name(xot, l, uris[2]));
        }
    }
    let (mut extra_prefixes, mut extra_uris, mut extra_attrs) = (vec![], vec![], vec![]);
    for i in 0..24 {
        extra_prefixes.push(reg.prefix(xot, &format!("x{}", i)));
        extra_uris.push(reg.ns(xot, &format!("urn:x{}", i)));
        extra_attrs.push(reg.name(xot, &format!("k{}", i), 0));
    }
    Pool { uris, prefixes, names, pi_names, attr_names, extra_prefixes, extra_uris, extra_attrs }
}

pub fn gen_text(r: &mut Rng, cfg: &GenCfg) -> String {
    if r.chance(cfg.ws_text, 100) {
        let n = 1 + r.below(3);
        return (0..n).map(|_| *r.pick(&[' ', '\n', '\t', '\r'])).collect();
    }
    let s = if cfg.special_text { random_text(r, 5) } else { (0..1 + r.below(3)).map(|_| *r.pick(&['h', 'i', 'j'])).collect() };
    if s.is_empty() && !cfg.empty_text {
        "t".to_string()
    } else {
        s
    }
}

pub fn gen_tree(r: &mut Rng, cfg: &GenCfg, pool: &Pool) -> ANode {
    // one tree in ten is LARGE in one dimension (depth, width, attributes and declarations per element, prefixes in scope,
    // length of a text or attribute value): inline buffers, depth caps and batch sizes of 8 … 64 are then exceeded
    if r.chance(1, 10) {
        return gen_big(r, cfg, pool);
    }
    let mut budget = 2 + r.below(cfg.max_nodes);
    if r.chance(cfg.doc_root, 100) {
        let fragment = r.chance(cfg.fragment, 100);
        let mut kids = vec![];
        if fragment {
            let n = r.below(cfg.max_fanout + 1);
            gen_children(r, cfg, pool, 1, n, &mut budget, &mut kids, true);
        } else {
            // well-formed document: comments / PIs around exactly one element
            for _ in 0..r.below(2) {
                kids.push(gen_leaf(r, cfg, pool, false));
            }
            kids.push(gen_elem(r, cfg, pool, 1, &mut budget));
            for _ in 0..r.below(2) {
                kids.push(gen_leaf(r, cfg, pool, false));
            }
        }
        ANode::Doc(kids)
    } else {
        match r.below(20) {
            0 => ANode::Text(gen_text(r, cfg)),
            1 => ANode::Comment(random_ident(r)),
            2 => ANode::Pi(*r.pick(&pool.pi_names), if r.chance(1, 2) { Some(random_ident(r)) } else { None }),
            3 => ANode::Attr(*r.pick(&pool.attr_names), gen_text(r, cfg)),
            4 => ANode::Ns(*r.pick(&pool.prefixes), *r.pick(&pool.uris)),
            _ => gen_elem(r, cfg, pool, 0, &mut budget),
        }
    }
}

fn gen_leaf(r: &mut Rng, cfg: &GenCfg, pool: &Pool, text_ok: bool) -> ANode {
    match r.below(if text_ok { 3 } else { 2 }) {
        0 => ANode::Comment(if r.chance(1, 2) { random_ident(r) } else { "c d".into() }),
        1 => ANode::Pi(*r.pick(&pool.pi_names), if r.chance(1, 2) { Some(random_ident(r)) } else { None }),
        _ => ANode::Text(gen_text(r, cfg)),
    }
}

fn gen_children(r: &mut Rng, cfg: &GenCfg, pool: &Pool, depth: usize, n: usize, budget: &mut usize, kids: &mut Vec<ANode>, _top: bool) {
    for _ in 0..n {
        if *budget == 0 {
            break;
        }
        *budget -= 1;
        let k = r.below(10);
        let prev_text = matches!(kids.last(), Some(ANode::Text(_)));
        let node = if k < 5 && depth < cfg.max_depth {
            gen_elem(r, cfg, pool, depth + 1, budget)
        } else if k < 8 {
            if prev_text && !cfg.adjacent_text {
                ANode::Comment("sep".into())
            } else {
                ANode::Text(gen_text(r, cfg))
            }
        } else {
            gen_leaf(r, cfg, pool, false)
        };
        kids.push(node);
    }
}

fn gen_elem(r: &mut Rng, cfg: &GenCfg, pool: &Pool, depth: usize, budget: &mut usize) -> ANode {
    let name = *r.pick(&pool.names);
    let mut ns = vec![];
    if cfg.decls {
        let n = match r.below(10) {
            0..=4 => 0,
            5..=7 => 1,
            8 => 2,
            _ => 3,
        };
        for _ in 0..n {
            let p = *r.pick(&pool.prefixes);
            if ns.iter().any(|(q, _)| *q == p) {
                continue;
            }
            // prefix 0 (empty) may be bound to "" (undeclaration); other prefixes only to real namespaces
            let u = if p == 0 { *r.pick(&pool.uris) } else { pool.uris[1 + r.below(pool.uris.len() - 1)] };
            ns.push((p, u));
        }
    }
    let mut attrs: Vec<(usize, String)> = vec![];
    if cfg.attrs {
        for _ in 0..r.below(3) {
            let a = *r.pick(&pool.attr_names);
            if attrs.iter().any(|(b, _)| *b == a) {
                continue;
            }
            attrs.push((a, gen_text(r, cfg)));
        }
    }
    if cfg.xml_space > 0 && r.chance(cfg.xml_space, 100) {
        attrs.push((0, r.pick(&["preserve", "default", "other"]).to_string())); // name 0 = xml:space
    }
    let mut kids = vec![];
    if depth < cfg.max_depth {
        let fan = match r.below(10) {
            0..=2 => 0,
            3..=8 => 1 + r.below(cfg.max_fanout),
            _ => cfg.max_fanout + r.below(4),
        };
        gen_children(r, cfg, pool, depth, fan, budget, &mut kids, false);
    }
    ANode::Elem { name, ns, attrs, kids }
}


/// a tree that is large in one dimension; respects the switches of [cfg] (declarations, attributes, adjacent / empty text,
/// xml:space, names in namespaces), always a document around one element when cfg.doc_root > 0, else the element
pub fn gen_big(r: &mut Rng, cfg: &GenCfg, pool: &Pool) -> ANode {
    let plain = |i: usize| pool.names[(i * 4) % pool.names.len().max(1)];   // a no-namespace element name (every fourth when ns_names)
    // (mostly names in no namespace: a name in a namespace needs a declaration, and the callers leave one in ten undeclared)
    let name_at = |r: &mut Rng, i: usize| if cfg.ns_names && cfg.decls && r.chance(1, 5) { *r.pick(&pool.names) } else { plain(i) };
    let long_text = |r: &mut Rng, n: usize| -> String {
        let alphabet: &[char] = if cfg.special_text { &['a', '&', '<', '>', '"', '\'', '\r', '\n', '\t', ']', '\u{e9}', 'b'] } else { &['h', 'i', 'j', ' '] };
        let mut s: String = (0..n).map(|_| *r.pick(alphabet)).collect();
        if cfg.special_text && r.chance(1, 2) { let at = s.char_indices().nth(n / 2).map(|x| x.0).unwrap_or(0); s.insert_str(at, "\r\n"); }
        if s.trim().is_empty() { s.push('t'); }
        s
    };
    let el = match r.below(6) {
        0 | 5 => {
            // deep: 18 … 30 levels; text (and white space, when the configuration draws it) at every level; xml:space here and there;
            // with declarations on, every level declares another prefix and one of the outermost levels re-declares an inner one
            let depth = 18 + r.below(13);
            // half of the deep trees have element-only content above the innermost level (what a pretty printer indents)
            let textual = r.chance(1, 2);
            let mut n = ANode::Elem { name: plain(0), ns: vec![], attrs: vec![], kids: vec![ANode::Text("x".into())] };
            for i in 0..depth {
                let mut ns = vec![];
                let mut attrs = vec![];
                if cfg.decls {
                    ns.push((pool.extra_prefixes[i % 24], pool.extra_uris[i % 24]));
                    if i + 3 >= depth && r.chance(1, 2) { ns.push((pool.extra_prefixes[r.below(12)], pool.extra_uris[12 + r.below(12)])); }
                    if ns.len() == 2 && ns[0].0 == ns[1].0 { ns.pop(); }
                }
                if cfg.xml_space > 0 && textual && r.chance(1, 3) { attrs.push((0, r.pick(&["preserve", "default"]).to_string())); }
                let mut kids = vec![];
                if cfg.ws_text > 0 && textual && r.chance(1, 2) { kids.push(ANode::Text(" \n".into())); } else if textual && r.chance(1, 3) { kids.push(ANode::Text("l".into())); }
                kids.push(n);
                if cfg.ws_text > 0 && textual && r.chance(1, 2) { kids.push(ANode::Text("\n ".into())); } else if textual && r.chance(1, 3) { kids.push(ANode::Text("r".into())); }
                if r.chance(1, 6) { kids.push(ANode::Elem { name: plain(i), ns: vec![], attrs: vec![], kids: vec![] }); }
                n = ANode::Elem { name: if textual { name_at(r, i) } else { plain(i) }, ns, attrs, kids };
            }
            n
        }
        1 => {
            // wide: 20 … 48 children; elements with a child of their own, text, comments, processing instructions
            let width = 20 + r.below(29);
            let mut kids: Vec<ANode> = vec![];
            for i in 0..width {
                let prev_text = matches!(kids.last(), Some(ANode::Text(_)));
                kids.push(match r.below(4) {
                    0 if !prev_text || cfg.adjacent_text => ANode::Text(format!("t{}", i)),
                    1 => ANode::Elem { name: name_at(r, i), ns: vec![], attrs: vec![], kids: vec![ANode::Elem { name: plain(i), ns: vec![], attrs: vec![], kids: vec![] }, ANode::Text("x".into())] },
                    2 => ANode::Comment(format!("c{}", i)),
                    _ => ANode::Elem { name: plain(i), ns: vec![], attrs: vec![], kids: vec![] },
                });
            }
            ANode::Elem { name: plain(0), ns: vec![], attrs: if cfg.attrs { vec![(pool.attr_names[0], "v".into())] } else { vec![] }, kids }
        }
        2 => {
            // many attributes and declarations on one element (13 … 24 of each), and on its child
            let n_attr = if cfg.attrs { 13 + r.below(12) } else { 0 };
            let n_ns = if cfg.decls { 13 + r.below(12) } else { 0 };
            let attrs: Vec<(usize, String)> = (0..n_attr).map(|i| (pool.extra_attrs[i], format!("v{}", i))).collect();
            let ns: Vec<(usize, usize)> = (0..n_ns).map(|i| (pool.extra_prefixes[i], pool.extra_uris[(i * 7) % 24])).collect();
            let inner = ANode::Elem { name: name_at(r, 1), ns: if cfg.decls { vec![(pool.extra_prefixes[r.below(12)], pool.extra_uris[3])] } else { vec![] },
                                      attrs: attrs.iter().rev().cloned().collect(), kids: vec![ANode::Text("x".into())] };
            ANode::Elem { name: name_at(r, 0), ns, attrs, kids: vec![inner, ANode::Elem { name: plain(2), ns: vec![], attrs: vec![], kids: vec![] }] }
        }
        3 => {
            // long character data: a text of 40 … 200 characters and an attribute value of 40 … 120, escapable characters included
            let (nt, na) = (40 + r.below(161), 40 + r.below(81));
            let t = long_text(r, nt);
            let a = long_text(r, na);
            ANode::Elem { name: plain(0), ns: vec![], attrs: if cfg.attrs { vec![(pool.attr_names[0], a)] } else { vec![] },
                          kids: vec![ANode::Text(t), ANode::Elem { name: plain(1), ns: vec![], attrs: vec![], kids: vec![] }, ANode::Text(long_text(r, 30))] }
        }
        _ => {
            // many text descendants: 17 … 40 pieces of text separated by empty elements and comments, on two levels
            let n = 17 + r.below(24);
            let mut kids: Vec<ANode> = vec![];
            for i in 0..n {
                kids.push(ANode::Text(format!("p{} ", i)));
                kids.push(if i % 5 == 4 { ANode::Elem { name: plain(i), ns: vec![], attrs: vec![], kids: vec![ANode::Text(format!("q{}", i))] } }
                          else if i % 2 == 0 { ANode::Elem { name: plain(i), ns: vec![], attrs: vec![], kids: vec![] } } else { ANode::Comment("s".into()) });
            }
            ANode::Elem { name: plain(0), ns: vec![], attrs: vec![], kids }
        }
    };
    if cfg.doc_root > 0 { ANode::Doc(vec![el]) } else { el }
}

/// a deep chain and a wide fan, for the shapes random drawing rarely produces
pub fn chain(pool: &Pool, depth: usize) -> ANode {
    let mut n = ANode::Elem { name: pool.names[0], ns: vec![], attrs: vec![], kids: vec![ANode::Text("x".into())] };
    for i in 0..depth {
        n = ANode::Elem { name: pool.names[i % pool.names.len()], ns: vec![], attrs: vec![], kids: vec![n] };
    }
    ANode::Doc(vec![n])
}

pub fn fan(pool: &Pool, width: usize) -> ANode {
    let kids = (0..width)
        .map(|i| if i % 3 == 2 { ANode::Comment("k".into()) } else { ANode::Elem { name: pool.names[i % pool.names.len()], ns: vec![], attrs: vec![], kids: vec![] } })
        .collect();
    ANode::Elem { name: pool.names[0], ns: vec![], attrs: vec![(pool.attr_names[0], "v".into())], kids }
}

/// Adds declarations so that (with probability `percent` per missing binding) every namespaced element / attribute
/// name has a usable prefix in scope: the XML-representable domain of the serialisation properties.
pub fn declare_missing(r: &mut Rng, a: &mut ANode, reg: &Reg, pool: &Pool, percent: u64) {
    fn walk(r: &mut Rng, a: &mut ANode, reg: &Reg, pool: &Pool, percent: u64, scope: &Vec<(usize, usize)>) {
        match a {
            ANode::Doc(kids) => { for k in kids.iter_mut() { walk(r, k, reg, pool, percent, scope); } }
            ANode::Elem { name, ns, attrs, kids } => {
                let mut sc: Vec<(usize, usize)> = scope.iter().copied().filter(|(p, _)| !ns.iter().any(|(q, _)| q == p)).collect();
                sc.extend(ns.iter().copied());
                let ens = reg.names[*name].1;
                let mut need: Vec<(usize, bool)> = vec![]; // (namespace, needs non-empty prefix)
                if ens != 0 && !sc.iter().any(|(_, n)| *n == ens) { need.push((ens, false)); }
                for (an, _) in attrs.iter() {
                    let ans = reg.names[*an].1;
                    if ans != 0 && ans != 1 && !sc.iter().any(|(p, n)| *n == ans && *p != 0) { need.push((ans, true)); }
                }
                for (n, non_empty) in need {
                    if !r.chance(percent, 100) { continue; }
                    // a prefix this element does not declare yet
                    let cands: Vec<usize> = pool.prefixes.iter().copied().filter(|p| !ns.iter().any(|(q, _)| q == p) && !(non_empty && *p == 0)).collect();
                    if cands.is_empty() { continue; }
                    let p = *r.pick(&cands);
                    // binding the empty prefix changes the meaning of an unprefixed element name: only when the element is in n
                    if p == 0 && ens != n { continue; }
                    ns.push((p, n));
                    sc.retain(|(q, _)| *q != p);
                    sc.push((p, n));
                }
                // the one legal declaration of the XML namespace, xmlns:xml="http://www.w3.org/XML/1998/namespace" (registry prefix 1,
                // namespace 1): now and then, also as the only declaration of an element
                if r.chance(1, 12) && !ns.iter().any(|(p, _)| *p == 1) { ns.push((1, 1)); }
                for k in kids.iter_mut() { walk(r, k, reg, pool, percent, &sc); }
            }
            _ => {}
        }
    }
    walk(r, a, reg, pool, percent, &vec![(1, 1)]);
}

/// makes comments / PIs / text XML-representable: no "--", no trailing "-", PI data without "?>" and not starting with
/// white space, no empty text, only XML characters
pub fn make_representable(a: &mut ANode) {
    match a {
        ANode::Doc(kids) => { for k in kids.iter_mut() { make_representable(k); } }
        ANode::Elem { kids, attrs, .. } => {
            for (_, v) in attrs.iter_mut() { *v = v.chars().filter(|c| xml_char(*c)).collect(); }
            for k in kids.iter_mut() { make_representable(k); }
        }
        ANode::Text(s) => { *s = s.chars().filter(|c| xml_char(*c)).collect(); if s.is_empty() { *s = "t".into(); } }
        ANode::Comment(s) => { *s = s.replace("--", "- -").chars().filter(|c| xml_char(*c)).collect(); if s.ends_with('-') { s.push(' '); } }
        ANode::Pi(_, d) => { if let Some(x) = d { let t: String = x.replace("?>", "? >").trim_start().chars().filter(|c| xml_char(*c)).collect(); *d = if t.is_empty() { None } else { Some(t) }; } }
        _ => {}
    }
}

pub fn xml_char(c: char) -> bool {
    matches!(c, '\u{9}' | '\u{A}' | '\u{D}' | '\u{20}'..='\u{D7FF}' | '\u{E000}'..='\u{FFFD}' | '\u{10000}'..='\u{10FFFF}')
}
