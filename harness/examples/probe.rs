// scratch probe: run with `cargo run --offline --example probe`
fn main() {}
