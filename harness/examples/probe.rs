use xot::Xot;
fn main() {
    let mut xot = Xot::new();
    for t in ["<a xmlns:p=\"\" p:x=\"1\"/>", "<a xmlns:p=\"\" p:x=\"1\" x=\"2\"/>", "<a xmlns:p=\"\" x=\"1\" p:x=\"2\"/>", "<a xmlns:p=\"\"><p:b/></a>"] {
        match xot.parse(t) { Ok(d) => println!("{} => OK {:?}", t, xot.to_string(d)), Err(e) => println!("{} => ERR {:?}", t, e) }
    }
}
