use xh::common::*;
use xh::tree::*;
use xot::Xot;
fn main() {
    let base = Rng::new(1);
    let mut count = [0usize; 6];
    for k in 0..400u64 {
        let mut r = base.fork(k);
        let mut xot = Xot::new();
        let mut reg = Reg::new(&xot);
        let pool = make_pool(&mut xot, &mut reg, true);
        let cfg = GenCfg { max_nodes: 25, max_depth: 5, xml_space: 10, ..GenCfg::default() };
        let t = gen_tree(&mut r, &cfg, &pool);
        fn depth(a: &ANode) -> usize { match a { ANode::Doc(k) => 1 + k.iter().map(depth).max().unwrap_or(0), ANode::Elem { kids, .. } => 1 + kids.iter().map(depth).max().unwrap_or(0), _ => 1 } }
        let d = depth(&t);
        count[(d / 8).min(5)] += 1;
        if d > 16 {
            let root = build(&mut xot, &reg, &t);
            let s = xot.serialize_xml_string(xot::output::xml::Parameters { indentation: Some(Default::default()), ..Default::default() }, root);
            println!("case {} depth {} pretty {:?}", k, d, s.map(|x| x.lines().map(|l| l.len() - l.trim_start().len()).max()));
        }
    }
    println!("{:?}", count);
}
