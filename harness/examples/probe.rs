use xot::Xot;
fn main() {
    let mut xot = Xot::new();
    let u = xot.add_namespace("U");
    let v = xot.add_namespace("V");
    let q = xot.add_prefix("q");
    let e = xot.empty_prefix();
    let rn = xot.add_name_ns("r", u);
    let cn = xot.add_name_ns("c", u);
    let an = xot.add_name("a");
    let r = xot.new_element(rn);
    let a = xot.new_element(an);
    let c = xot.new_element(cn);
    xot.append(r, a).unwrap();
    xot.append(a, c).unwrap();
    xot.namespaces_mut(r).insert(e, u);
    xot.namespaces_mut(r).insert(q, u);
    xot.namespaces_mut(a).insert(q, v);
    println!("root: {:?}", xot.to_string(r));
    println!("a in place: {:?}", xot.to_string(a));
    let cl = xot.clone_with_prefixes(a);
    println!("clone: {:?}", xot.to_string(cl));
}
