(* Extraction of the history model (C04, C05, C06, C11, C12): Model/Store.v, Model/Manip.v (ExtrOcamlBasic only). *)
From Coq Require Extraction ExtrOcamlBasic.
From XotV Require Import Model.Base Model.Interning Model.InternOps Model.Zipper Model.Access Model.Store Model.Manip Model.Unpretty Model.Hist.
Extraction Language OCaml.
Separate Extraction InternOps.x_new InternOps.x_add_namespace InternOps.x_add_prefix InternOps.x_add_name_ns
  Manip.mrun Manip.mstep Hist.hrun Hist.hstep Hist.xml_id_answers Store.stamp_of Zipper.locate Access.store_cursors
  Access.attribute_nodes Access.namespace_nodes Access.children.
