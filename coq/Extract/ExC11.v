(* Extraction of the C11 model: history model + the read accessors of the node maps (ExtrOcamlBasic only). *)
From Coq Require Extraction ExtrOcamlBasic.
From XotV Require Import Model.Base Model.Interning Model.InternOps Model.Zipper Model.Access Model.Store Model.Manip Model.NodeMapRead.
Extraction Language OCaml.
Separate Extraction InternOps.x_new InternOps.x_add_namespace InternOps.x_add_prefix InternOps.x_add_name_ns
  Manip.mrun Manip.mstep Store.stamp_of
  NodeMapRead.view NodeMapRead.v_len NodeMapRead.v_is_empty NodeMapRead.v_keys NodeMapRead.v_nodes NodeMapRead.v_values
  NodeMapRead.v_get_node NodeMapRead.v_get NodeMapRead.v_contains_key.
