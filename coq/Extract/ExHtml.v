(* Extraction of the HTML5 serialiser model (C19): ExtrOcamlBasic only. *)
From Coq Require Extraction ExtrOcamlBasic.
From XotV Require Import Model.Base Model.Interning Model.InternOps Model.Zipper Model.Access Model.Fullname Model.Scope Model.Entity Model.XmlSer Model.HtmlSer.
Extraction Language OCaml.
Separate Extraction InternOps.x_new InternOps.x_add_namespace InternOps.x_add_prefix InternOps.x_add_name_ns InternOps.x_html5
  Interning.namespace_for_name Interning.prefix_str Interning.local_name_str Interning.namespace_str
  Zipper.locate Access.store_cursors XmlSer.gen_outputs XmlSer.serialize_write XmlSer.tokens XmlSer.pretty_tokens XmlSer.serialize_pretty_write
  HtmlSer.html5_serialize.
