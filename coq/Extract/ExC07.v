(* Extraction of the C07 model (ExtrOcamlBasic only). *)
From Coq Require Extraction ExtrOcamlBasic.
From XotV Require Import Model.Base Model.Interning Model.InternOps Model.Zipper Model.Access.
Extraction Language OCaml.
Separate Extraction InternOps.x_new InternOps.x_add_namespace InternOps.x_add_prefix InternOps.x_add_name_ns
  Zipper.locate Access.store_cursors
  Access.parent Access.first_child Access.last_child Access.next_sibling Access.previous_sibling
  Access.children Access.reverse_children Access.ancestors Access.descendants Access.all_descendants
  Access.following_siblings Access.preceding_siblings Access.following Access.all_following Access.preceding
  Access.reverse_preorder Access.all_reverse_preorder Access.traverse Access.all_traverse Access.reverse_traverse
  Access.reverse_all_traverse Access.edge_next_walk Access.edge_previous_walk Access.level_order Access.axis_nodes
  Access.attribute_nodes Access.child_index Access.root Access.top_element Access.document_element
  Access.validate_well_formed_document.
