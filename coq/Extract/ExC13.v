(* Extraction of the C13 model (ExtrOcamlBasic only). *)
From Coq Require Extraction ExtrOcamlBasic.
From XotV Require Import Model.Base Model.Interning Model.InternOps Model.Compare.
Extraction Language OCaml.
Separate Extraction InternOps.x_new InternOps.x_add_namespace InternOps.x_add_prefix InternOps.x_add_name_ns
  Interning.namespace_str Base.find
  Compare.deep_equal Compare.deep_equal_children Compare.deep_equal_xpath Compare.advanced_deep_equal
  Compare.shallow_equal Compare.shallow_equal_ignore Compare.string_value Compare.keep_xpath Base.str_eqb.
