(* Extraction of the C09 model (ExtrOcamlBasic only). *)
From Coq Require Extraction ExtrOcamlBasic.
From XotV Require Import Model.Base Model.Interning Model.InternOps Model.Zipper Model.Access Model.Fullname Model.Scope.
Extraction Language OCaml.
Separate Extraction InternOps.x_new InternOps.x_add_namespace InternOps.x_add_prefix InternOps.x_add_name_ns
  Interning.namespace_for_name Interning.prefix_str Interning.local_name_str Access.store_cursors
  Scope.namespaces_in_scope Scope.namespace_for_prefix Scope.prefix_for_namespace Scope.is_prefix_defined
  Scope.inherited_prefixes Scope.unresolved_namespaces Scope.full_name_prefix Scope.name_ref_prefix Scope.node_name.
