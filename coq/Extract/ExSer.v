(* Extraction of the serialisation model (C16, C14, C10, C01, C15): Model/XmlSer.v and what it uses (ExtrOcamlBasic only). *)
From Coq Require Extraction ExtrOcamlBasic.
From XotV Require Import Model.Base Model.Interning Model.InternOps Model.Zipper Model.Access Model.Fullname Model.Scope Model.Entity Model.XmlSer.
Extraction Language OCaml.
Separate Extraction InternOps.x_new InternOps.x_add_namespace InternOps.x_add_prefix InternOps.x_add_name_ns
  Interning.namespace_for_name Interning.prefix_str Interning.local_name_str Interning.namespace_str
  Zipper.locate Access.store_cursors
  XmlSer.gen_outputs XmlSer.tokens XmlSer.serialize XmlSer.pretty_tokens XmlSer.serialize_pretty XmlSer.token_text XmlSer.serialize_write XmlSer.serialize_pretty_write.
