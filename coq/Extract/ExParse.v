(* Extraction of the parser model (C02, C03, C17 and the reparse leg of C01 / C14): Model/Builder.v (ExtrOcamlBasic only). *)
From Coq Require Extraction ExtrOcamlBasic.
From XotV Require Import Model.Base Model.Interning Model.InternOps Model.Fullname Model.Entity Model.Builder Model.Encoding.
Extraction Language OCaml.
Separate Extraction InternOps.x_new InternOps.x_add_namespace InternOps.x_add_prefix InternOps.x_add_name_ns
  Interning.name_ns_str Interning.prefix_str Interning.namespace_str
  Encoding.chosen_label Builder.parse_document_at Builder.parse_document Builder.parse_fragment Builder.stream_shape Builder.span_get Builder.xml_id_lookup Builder.perror_span.
