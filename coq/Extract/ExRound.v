(* Extraction of serialisation + parser models together (C01, C14, C10, C15): ExtrOcamlBasic only. *)
From Coq Require Extraction ExtrOcamlBasic.
From XotV Require Import Model.Base Model.Interning Model.InternOps Model.Zipper Model.Access Model.Fullname Model.Scope Model.Entity Model.XmlSer Model.Builder.
Extraction Language OCaml.
Separate Extraction InternOps.x_new InternOps.x_add_namespace InternOps.x_add_prefix InternOps.x_add_name_ns
  Interning.namespace_for_name Interning.prefix_str Interning.local_name_str Interning.namespace_str Interning.name_ns_str
  Zipper.locate Access.store_cursors
  XmlSer.gen_outputs XmlSer.tokens XmlSer.serialize XmlSer.pretty_tokens XmlSer.serialize_pretty XmlSer.token_text XmlSer.serialize_write XmlSer.serialize_pretty_write
  XmlSer.serialize_xml
  Builder.parse_document_at Builder.parse_document Builder.parse_fragment Builder.span_get Builder.xml_id_lookup Builder.perror_span.
