(* Extraction of the C08 model (ExtrOcamlBasic only; no Extract Constant / Extract Inductive of our own). *)
From Coq Require Extraction ExtrOcamlBasic.
From XotV Require Import Model.Base Model.Interning Model.InternOps.
Extraction Language OCaml.
Separate Extraction InternOps.irun InternOps.x_new InternOps.builtin_obs.
