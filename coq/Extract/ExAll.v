(* Extraction for C20 (three construction routes): histories, the parser and fixed::xotify together (ExtrOcamlBasic only). *)
From Coq Require Extraction ExtrOcamlBasic.
From XotV Require Import Model.Base Model.Interning Model.InternOps Model.Zipper Model.Access Model.Store Model.Manip Model.Unpretty
                         Model.Fullname Model.Scope Model.Entity Model.XmlSer Model.NsTools Model.Hist Model.Builder Model.Fixed.
Extraction Language OCaml.
Separate Extraction InternOps.x_new InternOps.x_add_namespace InternOps.x_add_prefix InternOps.x_add_name_ns
  Interning.namespace_for_name Interning.prefix_str Interning.local_name_str Interning.namespace_str Interning.name_ns_str
  Manip.mrun Manip.mstep Hist.hrun Hist.hstep Hist.trun Hist.tstep Store.stamp_of Zipper.locate Access.store_cursors
  XmlSer.serialize_write XmlSer.gen_outputs XmlSer.tokens XmlSer.pretty_tokens XmlSer.serialize_pretty_write
  Builder.parse_document_at Builder.parse_document Builder.parse_fragment Builder.span_get Builder.xml_id_lookup Builder.perror_span
  Fixed.xotify_document Fixed.xotify_element.
