(* DetachEffect.v — what detach and remove do (C05): the node (with its subtree) leaves its sibling list; if the two siblings it
   stood between are both text nodes and consolidation is on, the second goes into the first; nothing else changes. *)
From Coq Require Import List NArith ZArith Bool Lia Permutation Arith.
From XotV Require Import Model.Base Model.Zipper Model.Access Model.Store Model.Manip Spec.DocOrder Spec.Paths Spec.Shape Spec.NoAdj
                         Proofs.ZipperProofs Proofs.AccessProofs Proofs.StoreProofs Proofs.ForestFacts Proofs.InvProofs Proofs.Canon
                         Proofs.ShapeProofs Proofs.KeysProofs Proofs.InvSteps Proofs.InvOps Proofs.PathFacts Proofs.Levels Proofs.NoAdjFacts
                         Proofs.NoAdjOps Proofs.Atomic Proofs.NoPanic Proofs.CloneShape Proofs.WrapEffect Proofs.UnwrapEffect.
Import ListNotations.
Open Scope N_scope.

(* the sibling list  rev before ++ after  once the node between them is gone *)
Definition seam (c : bool) (before after : forest) : forest :=
  match before, after with
  | FCons p (VText tp) kp b', FCons nx (VText tn) kn a' =>
      if c then frev_app b' (FCons p (VText (tp ++ tn)) kp a') else frev_app before after
  | _, _ => frev_app before after
  end.

(* the consolidation after the cut, in a store [A1 ++ (cut level) ++ B] *)
Lemma rc_after_cut st st1 n z A B A1 : Good st -> cur st n = Some z -> store st = fapp A (fapp (plug z) B) ->
  z_ups z <> [] -> is_normal (z_val z) = true ->
  Good st1 -> cons st1 = cons st -> store st1 = fapp A1 (fapp (plug_ups (frev_app (z_before z) (z_after z)) (z_ups z)) B) ->
  store (fst (remove_consolidate st1 (q_prev st n) (q_next st n)))
  = fapp A1 (fapp (plug_ups (seam (cons st) (z_before z) (z_after z)) (z_ups z)) B).
Proof.
  intros G Hc E Hne Hnv G1 C1 E1. pose proof (Good_WF _ G) as W. pose proof (Good_WF _ G1) as W1.
  destruct (zview _ _ _ Hc) as [Htc _].
  destruct (level_sorted st n z W Hc Hne Hnv) as [_ Haft].
  assert (q_prev st n = oslot (previous_sibling z)) as -> by (unfold q_prev; rewrite Hc; reflexivity).
  assert (q_next st n = oslot (next_sibling z)) as -> by (unfold q_next; rewrite Hc; reflexivity).
  unfold previous_sibling, next_sibling, left, right, zcat.
  assert (value_category (z_val z) = CNormal) as Hcat by (destruct (z_val z); try discriminate; reflexivity). rewrite Hcat.
  destruct (z_before z) as [|p vp kp b'] eqn:Eb.
  - cbn [oslot seam]. rewrite (proj1 (rc_none st1 _)). exact E1.
  - destruct (z_after z) as [|nx vn kn a'] eqn:Ea.
    + cbn [oslot]. rewrite (proj2 (rc_none st1 _)). cbn [fst]. rewrite E1. destruct vp; reflexivity.
    + cbn [z_val]. assert (is_normal vn = true) as Hnn by (apply Haft; left; reflexivity).
      assert (vcat_eqb CNormal (value_category vn) = true) as -> by (destruct vn; try discriminate; reflexivity). cbn [oslot z_slot].
      destruct (vcat_eqb CNormal (value_category vp)) eqn:Ecp; cbn [oslot z_slot].
      2:{ rewrite (proj1 (rc_none st1 _)). cbn [fst]. rewrite E1. destruct vp; try discriminate; reflexivity. }
      destruct (z_ups z) as [|fr ups] eqn:Eu; [congruence|].
      set (zp := mkz p vp kp b' (FCons nx vn kn a') (fr :: ups)).
      assert (top_clean zp) as Htcp by (unfold top_clean in *; rewrite Eu in Htc; exact Htc).
      assert (store st1 = fapp A1 (fapp (plug zp) B)) as E1' by exact E1.
      pose proof (cur_of_view st1 zp A1 B W1 Htcp E1') as Hp1. cbn [zp mkz z_slot] in Hp1.
      assert (cur st1 nx = Some (mkz nx vn kn (FCons p vp kp b') a' (fr :: ups))) as Hn1.
      { refine (cur_move st1 p zp (mkz nx _ _ _ _ _) (proj1 W1) Hp1 _). left. reflexivity. }
      destruct (cons st && is_text_val vp && is_text_val vn) eqn:Em.
      * apply andb_true_iff in Em as [Em Et2]. apply andb_true_iff in Em as [Econs Et1].
        destruct (text_value _ Et1) as [tp ->]. destruct (text_value _ Et2) as [tn ->].
        assert (kn = FNil) as -> by exact (text_leaf st1 nx _ W1 Hn1 eq_refl).
        destruct (rc_adjacent st1 zp A1 B nx tn a' tp W1 ltac:(congruence) Htcp E1' eq_refl eq_refl) as (st' & Hrc & Hst' & _).
        cbn [zp mkz z_slot] in Hrc. rewrite Hrc. cbn [fst seam]. rewrite Econs. exact Hst'.
      * assert (remove_consolidate st1 (Some p) (Some nx) = (st1, false)) as ->.
        { destruct (cons st) eqn:Econs.
          - apply rc_other. rewrite (val_of_cur _ _ _ Hp1), (val_of_cur _ _ _ Hn1). cbn [mkz z_val zp].
            cbn [andb] in Em. apply andb_false_iff in Em as [Em|Em]; [left|right]; intros s Hs; inversion Hs; subst; discriminate.
          - unfold remove_consolidate. rewrite C1. reflexivity. }
        cbn [fst]. rewrite E1. unfold seam.
        destruct vp; try reflexivity. destruct vn; try reflexivity. destruct (cons st); [discriminate Em|reflexivity].
Qed.

Theorem detach_effect st n z A B : Good st -> cur st n = Some z -> store st = fapp A (fapp (plug z) B) ->
  z_ups z <> [] -> is_normal (z_val z) = true ->
  store (fst (m_detach st n))
  = FCons n (z_val z) (z_kids z) (fapp A (fapp (plug_ups (seam (cons st) (z_before z) (z_after z)) (z_ups z)) B)).
Proof.
  intros G Hc E Hne Hnv. pose proof (Good_WF _ G) as W. unfold m_detach. cbn [fst].
  pose proof (ext_good _ _ (Ext_detach_raw st n G)) as G1.
  assert (store (detach_raw st n) = fapp (FCons n (z_val z) (z_kids z) FNil) (fapp A (fapp (plug_ups (frev_app (z_before z) (z_after z)) (z_ups z)) B))) as E1.
  { unfold detach_raw. rewrite (fcut_view st n z A B W Hc E). unfold cut_store. destruct (z_ups z); [congruence|reflexivity]. }
  assert (fapp (FCons n (z_val z) (z_kids z) FNil) (fapp A (fapp (plug_ups (frev_app (z_before z) (z_after z)) (z_ups z)) B))
          = fapp (FCons n (z_val z) (z_kids z) A) (fapp (plug_ups (frev_app (z_before z) (z_after z)) (z_ups z)) B)) as Eq by reflexivity.
  rewrite Eq in E1.
  rewrite (rc_after_cut st (detach_raw st n) n z A B (FCons n (z_val z) (z_kids z) A) G Hc E Hne Hnv G1 (cons_detach_raw st n) E1).
  reflexivity.
Qed.

Theorem remove_effect st n z A B : Good st -> cur st n = Some z -> store st = fapp A (fapp (plug z) B) ->
  z_ups z <> [] -> is_normal (z_val z) = true ->
  store (fst (m_remove st n)) = fapp A (fapp (plug_ups (seam (cons st) (z_before z) (z_after z)) (z_ups z)) B).
Proof.
  intros G Hc E Hne Hnv. pose proof (Good_WF _ G) as W. unfold m_remove. cbn [fst].
  pose proof (ext_good _ _ (Ext_remove_subtree_raw st n G)) as G1.
  assert (store (remove_subtree_raw st n) = fapp A (fapp (plug_ups (frev_app (z_before z) (z_after z)) (z_ups z)) B)) as E1.
  { unfold remove_subtree_raw. rewrite (fcut_view st n z A B W Hc E). unfold cut_store. destruct (z_ups z); [congruence|reflexivity]. }
  exact (rc_after_cut st (remove_subtree_raw st n) n z A B A G Hc E Hne Hnv G1 (cons_remove_subtree_raw st n) E1).
Qed.
