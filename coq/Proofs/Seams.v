(* Seams.v — the no-adjacent-text clause with tolerated pairs: [nab S f] is [na f] except that a pair of adjacent text nodes
   whose slots are listed in [S] is let through.  Cutting a node out of a forest without adjacent text nodes creates at most one
   such pair: the two neighbours of the node. *)
From Coq Require Import List NArith ZArith Bool Lia Permutation Arith.
From XotV Require Import Model.Base Model.Zipper Model.Access Model.Store Model.Manip Spec.DocOrder Spec.Paths Spec.Shape Spec.NoAdj
                         Proofs.ZipperProofs Proofs.AccessProofs Proofs.StoreProofs Proofs.ForestFacts Proofs.InvProofs Proofs.Canon
                         Proofs.ShapeProofs Proofs.KeysProofs Proofs.InvSteps Proofs.InvOps Proofs.PathFacts Proofs.Levels Proofs.NoAdjFacts
                         Proofs.NoAdjOps Proofs.Atomic Proofs.NoPanic Proofs.CloneShape Proofs.WrapEffect Proofs.PlainFacts.
Import ListNotations.
Open Scope N_scope.

Definition pair_in (x : N) (y : option N) (S : list (N * N)) : bool :=
  match y with Some y' => existsb (fun p => N.eqb (fst p) x && N.eqb (snd p) y') S | None => false end.

Fixpoint nab_list (S : list (N * N)) (f : forest) : bool :=
  match f with
  | FNil => true
  | FCons i v _ r => (negb (is_text_val v && head_text r) || pair_in i (hd_slot r) S) && nab_list S r
  end.

Fixpoint nab (S : list (N * N)) (f : forest) : bool :=
  match f with
  | FNil => true
  | FCons _ _ k r => nab_list S k && nab S k && nab S r
  end.

Lemma nab_nil_list f : nab_list [] f = na_list f.
Proof. induction f as [|i v k _ r IH]; [reflexivity|]. cbn [nab_list na_list pair_in]. destruct (hd_slot r); cbn [existsb]; rewrite orb_false_r, IH; reflexivity. Qed.

Lemma nab_nil f : nab [] f = na f.
Proof. induction f as [|i v k IHk r IHr]; [reflexivity|]. cbn [nab na]. rewrite nab_nil_list, IHk, IHr. reflexivity. Qed.

Lemma nab_list_weaken S S' f : (forall x y, pair_in x y S = true -> pair_in x y S' = true) -> nab_list S f = true -> nab_list S' f = true.
Proof.
  intros H. induction f as [|i v k _ r IH]; [reflexivity|]. cbn [nab_list]. intros E. apply andb_true_iff in E as [E1 E2].
  rewrite (IH E2), andb_true_r. apply orb_true_iff in E1 as [E1|E1]; [rewrite E1; reflexivity|]. rewrite (H _ _ E1). apply orb_true_r.
Qed.

Lemma nab_weaken S S' f : (forall x y, pair_in x y S = true -> pair_in x y S' = true) -> nab S f = true -> nab S' f = true.
Proof.
  intros H. induction f as [|i v k IHk r IHr]; [reflexivity|]. cbn [nab]. intros E.
  apply andb_true_iff in E as [E E3]. apply andb_true_iff in E as [E1 E2].
  rewrite (nab_list_weaken S S' k H E1), (IHk E2), (IHr E3). reflexivity.
Qed.

Lemma na_nab S f : na f = true -> nab S f = true.
Proof. intros H. apply (nab_weaken [] S); [intros x y E; destruct y; discriminate|]. rewrite nab_nil. exact H. Qed.

Lemma na_list_nab S f : na_list f = true -> nab_list S f = true.
Proof. intros H. apply (nab_list_weaken [] S); [intros x y E; destruct y; discriminate|]. rewrite nab_nil_list. exact H. Qed.

(* ---------- cutting a node out ---------- *)

(* the pair of neighbours that come to touch when [c] is deleted: the node before it and the node after it in its list *)
Fixpoint seam (prev : option N) (c : N) (f : forest) : list (N * N) :=
  match f with
  | FNil => []
  | FCons i v k r =>
      if N.eqb i c then match prev, hd_slot r with Some p, Some n => [(p, n)] | _, _ => [] end
      else seam None c k ++ seam (Some i) c r
  end.

Lemma pair_in_app x y S1 S2 : pair_in x y (S1 ++ S2) = pair_in x y S1 || pair_in x y S2.
Proof. destruct y; cbn [pair_in]; [apply existsb_app|reflexivity]. Qed.

Lemma hd_fdel_other c r : (forall j v k r', r = FCons j v k r' -> j <> c) -> hd_slot (fdel c r) = hd_slot r /\ head_text (fdel c r) = head_text r.
Proof.
  destruct r as [|j v k r']; [split; reflexivity|]. intros H. specialize (H j v k r' eq_refl). cbn [fdel].
  apply N.eqb_neq in H. rewrite H. split; reflexivity.
Qed.

Lemma nab_list_fdel S c : forall l prev, NoDup (ids l) -> nab_list S l = true -> nab_list (seam prev c l ++ S) (fdel c l) = true.
Proof.
  assert (forall S1 x y, pair_in x y S = true -> pair_in x y (S1 ++ S) = true) as Hkeep by (intros S1 x y E; rewrite pair_in_app, E; apply orb_true_r).
  induction l as [|i v k _ r IH]; intros prev Hnd Hna; [reflexivity|].
  cbn [ids] in Hnd. apply NoDup_cons_app_inv in Hnd as (Hik & Hir & Hk & Hr & Hkr).
  cbn [nab_list] in Hna. apply andb_true_iff in Hna as [Hh Hna].
  cbn [fdel seam]. destruct (N.eqb_spec i c) as [Eic|Hic].
  - subst i. rewrite (fdel_absent c r Hir). apply (nab_list_weaken S); [apply Hkeep|exact Hna].
  - cbn [nab_list]. apply andb_true_iff. split.
    + destruct r as [|j w kj r2]; [cbn [fdel head_text]; rewrite andb_false_r; reflexivity|].
      destruct (N.eqb_spec j c) as [Ejc|Hjc].
      * subst j. cbn [fdel]. rewrite N.eqb_refl.
        cbn [ids] in Hr. apply NoDup_cons_app_inv in Hr as (_ & Hcr2 & _). rewrite (fdel_absent c r2 Hcr2).
        destruct r2 as [|j2 w2 k2 r3]; [cbn [head_text]; rewrite andb_false_r; reflexivity|].
        apply orb_true_iff. right. rewrite !pair_in_app. apply orb_true_iff. left. apply orb_true_iff. right.
        cbn [seam]. rewrite N.eqb_refl. cbn [hd_slot pair_in existsb fst snd]. rewrite !N.eqb_refl. reflexivity.
      * cbn [fdel]. apply N.eqb_neq in Hjc. rewrite Hjc. cbn [head_text hd_slot]. cbn [head_text hd_slot] in Hh.
        apply orb_true_iff in Hh as [Hh|Hh]; [rewrite Hh; reflexivity|]. rewrite (Hkeep _ _ _ Hh). apply orb_true_r.
    + apply (nab_list_weaken (seam (Some i) c r ++ S)); [|apply IH; assumption].
      intros x y E. rewrite pair_in_app in E. rewrite !pair_in_app. apply orb_true_iff in E as [E|E]; rewrite E; [rewrite orb_true_r; reflexivity|apply orb_true_r].
Qed.

Lemma nab_fdel S c : forall f prev, NoDup (ids f) -> nab S f = true -> nab (seam prev c f ++ S) (fdel c f) = true.
Proof.
  assert (forall S1 x y, pair_in x y S = true -> pair_in x y (S1 ++ S) = true) as Hkeep by (intros S1 x y E; rewrite pair_in_app, E; apply orb_true_r).
  induction f as [|i v k IHk r IHr]; intros prev Hnd Hna; [reflexivity|].
  cbn [ids] in Hnd. apply NoDup_cons_app_inv in Hnd as (Hik & Hir & Hk & Hr & Hkr).
  cbn [nab] in Hna. apply andb_true_iff in Hna as [Hna Hnr]. apply andb_true_iff in Hna as [Hlk Hnk].
  cbn [fdel seam]. destruct (N.eqb_spec i c) as [Eic|Hic].
  - subst i. rewrite (fdel_absent c r Hir). apply (nab_weaken S); [apply Hkeep|exact Hnr].
  - cbn [nab]. apply andb_true_iff. split; [apply andb_true_iff; split|].
    + apply (nab_list_weaken (seam None c k ++ S)); [|apply nab_list_fdel; assumption].
      intros x y E. rewrite pair_in_app in E. rewrite !pair_in_app. apply orb_true_iff in E as [E|E]; rewrite E; [reflexivity|apply orb_true_r].
    + apply (nab_weaken (seam None c k ++ S)); [|apply IHk; assumption].
      intros x y E. rewrite pair_in_app in E. rewrite !pair_in_app. apply orb_true_iff in E as [E|E]; rewrite E; [reflexivity|apply orb_true_r].
    + apply (nab_weaken (seam (Some i) c r ++ S)); [|apply IHr; assumption].
      intros x y E. rewrite pair_in_app in E. rewrite !pair_in_app. apply orb_true_iff in E as [E|E]; rewrite E; [rewrite orb_true_r; reflexivity|apply orb_true_r].
Qed.

(* ---------- values keep their text-ness, a leaf is deleted ---------- *)

Lemma hd_fset_val p g r : hd_slot (fset_val p g r) = hd_slot r.
Proof. apply hd_slot_fset_val. Qed.

Lemma head_text_fset_val p g r : (forall v, is_text_val (g v) = is_text_val v) -> head_text (fset_val p g r) = head_text r.
Proof. intros Hg. destruct r as [|i v k r']; [reflexivity|]. cbn. destruct (N.eqb i p); cbn; rewrite ?Hg; reflexivity. Qed.

Lemma nab_list_fset_val S p g l : (forall v, is_text_val (g v) = is_text_val v) -> nab_list S (fset_val p g l) = nab_list S l.
Proof.
  intros Hg. induction l as [|i v k _ r IH]; [reflexivity|]. cbn [fset_val]. destruct (N.eqb i p); cbn [nab_list].
  - rewrite Hg. reflexivity.
  - rewrite IH, head_text_fset_val, hd_fset_val by exact Hg. reflexivity.
Qed.

Lemma nab_fset_val S p g f : (forall v, is_text_val (g v) = is_text_val v) -> nab S (fset_val p g f) = nab S f.
Proof.
  intros Hg. induction f as [|i v k IHk r IHr]; [reflexivity|]. cbn [fset_val]. destruct (N.eqb i p); cbn [nab]; [reflexivity|].
  rewrite nab_list_fset_val, IHk, IHr by exact Hg. reflexivity.
Qed.

(* ---------- deleting a text node that no tolerated pair starts with: what follows it is no text node, so nothing new touches ---------- *)

Lemma nab_list_del_text S n : (forall y, pair_in n y S = false) -> forall l, NoDup (ids l) ->
  (forall v, In (n, v) (nodes l) -> is_text_val v = true) -> nab_list S l = true -> nab_list S (fdel n l) = true.
Proof.
  intros HS. induction l as [|i v k _ r IH]; intros Hnd Hv H; [reflexivity|].
  cbn [ids] in Hnd. apply NoDup_cons_app_inv in Hnd as (Hik & Hir & Hk & Hr & Hkr).
  cbn [nab_list] in H. apply andb_true_iff in H as [Hh H].
  assert (forall w, In (n, w) (nodes r) -> is_text_val w = true) as Hvr by (intros w Hw; apply Hv; right; apply in_or_app; right; exact Hw).
  cbn [fdel]. destruct (N.eqb_spec i n) as [Ein|Hin].
  - subst i. rewrite (fdel_absent n r Hir). exact H.
  - cbn [nab_list]. rewrite (IH Hr Hvr H), andb_true_r.
    destruct r as [|j w kj r2]; [cbn [fdel head_text]; rewrite andb_false_r; reflexivity|].
    destruct (N.eqb_spec j n) as [Ejn|Hjn].
    + subst j. cbn [fdel]. rewrite N.eqb_refl.
      cbn [ids] in Hr. apply NoDup_cons_app_inv in Hr as (_ & Hnr2 & _). rewrite (fdel_absent n r2 Hnr2).
      (* n is a text node and (n, _) is not tolerated: what follows n is no text node *)
      cbn [nab_list] in H. apply andb_true_iff in H as [Hn _]. rewrite HS, orb_false_r in Hn.
      rewrite (Hvr w ltac:(left; reflexivity)) in Hn. cbn [andb] in Hn. apply negb_true_iff in Hn. rewrite Hn, andb_false_r. reflexivity.
    + cbn [fdel]. apply N.eqb_neq in Hjn. rewrite Hjn. exact Hh.
Qed.

Lemma nab_del_text S n : (forall y, pair_in n y S = false) -> forall f, NoDup (ids f) ->
  (forall v, In (n, v) (nodes f) -> is_text_val v = true) -> nab S f = true -> nab S (fdel n f) = true.
Proof.
  intros HS. induction f as [|i v k IHk r IHr]; intros Hnd Hv H; [reflexivity|].
  cbn [ids] in Hnd. apply NoDup_cons_app_inv in Hnd as (Hik & Hir & Hk & Hr & Hkr).
  cbn [nab] in H. apply andb_true_iff in H as [H H3]. apply andb_true_iff in H as [H1 H2].
  assert (forall w, In (n, w) (nodes k) -> is_text_val w = true) as Hvk by (intros w Hw; apply Hv; right; apply in_or_app; left; exact Hw).
  assert (forall w, In (n, w) (nodes r) -> is_text_val w = true) as Hvr by (intros w Hw; apply Hv; right; apply in_or_app; right; exact Hw).
  cbn [fdel]. destruct (N.eqb i n); [apply IHr; assumption|]. cbn [nab].
  rewrite (nab_list_del_text S n HS k Hk Hvk H1), (IHk Hk Hvk H2), (IHr Hr Hvr H3). reflexivity.
Qed.

(* ---------- putting a tree whose root is no text node after a node ---------- *)

Lemma head_text_finsert_after ref T r : head_text (finsert_after ref T r) = head_text r.
Proof. destruct r as [|i v k r']; [reflexivity|]. cbn. destruct (N.eqb i ref); reflexivity. Qed.

Lemma hd_slot_finsert_after_eq ref T r : hd_slot (finsert_after ref T r) = hd_slot r.
Proof. destruct r as [|i v k r']; [reflexivity|]. cbn. destruct (N.eqb i ref); reflexivity. Qed.

Lemma nab_list_ins_after S ref b vb kb : is_text_val vb = false -> nab_list S kb = true -> forall l,
  nab_list S l = true -> nab_list S (finsert_after ref (FCons b vb kb FNil) l) = true.
Proof.
  intros Hvb Hkb. induction l as [|i v k _ r IH]; intros H; [reflexivity|].
  cbn [nab_list] in H. apply andb_true_iff in H as [Hh H]. cbn [finsert_after]. destruct (N.eqb i ref); cbn [nab_list fapp head_text hd_slot].
  - rewrite Hvb, andb_false_r. cbn [negb orb andb]. exact H.
  - rewrite head_text_finsert_after, hd_slot_finsert_after_eq, Hh, (IH H). reflexivity.
Qed.

Lemma nab_ins_after S ref b vb kb : is_text_val vb = false -> nab_list S kb = true -> nab S kb = true -> forall f,
  nab S f = true -> nab S (finsert_after ref (FCons b vb kb FNil) f) = true.
Proof.
  intros Hvb Hlk Hnk. induction f as [|i v k IHk r IHr]; intros H; [reflexivity|].
  cbn [nab] in H. apply andb_true_iff in H as [H H3]. apply andb_true_iff in H as [H1 H2].
  cbn [finsert_after]. destruct (N.eqb i ref); cbn [nab fapp].
  - rewrite H1, H2, Hlk, Hnk, H3. reflexivity.
  - rewrite (nab_list_ins_after S ref b vb kb Hvb Hlk k H1), (IHk H2), (IHr H3). reflexivity.
Qed.

(* ---------- closing: tolerated pairs that are no longer there ---------- *)

Definition text_at (x : N) (f : forest) : Prop := exists t, In (x, VText t) (nodes f).

Lemma nab_list_close S l : nab_list S l = true ->
  (forall x y, pair_in x (Some y) S = true -> follb false x y l -> text_at x l -> text_at y l -> False) -> na_list l = true.
Proof.
  induction l as [|i v k _ r IH]; intros H HS; [reflexivity|]. cbn [nab_list] in H. apply andb_true_iff in H as [Hh H].
  cbn [na_list]. rewrite IH; [|exact H|].
  2:{ intros x y E F (t1 & T1) (t2 & T2). apply (HS x y E); [cbn [follb]; right; right; exact F| |];
      [exists t1|exists t2]; right; apply in_or_app; right; assumption. }
  rewrite andb_true_r. apply orb_true_iff in Hh as [Hh|Hh]; [exact Hh|].
  destruct (is_text_val v && head_text r) eqn:E; [|reflexivity]. exfalso.
  apply andb_true_iff in E as [Ev Er]. destruct r as [|j w kj r2]; [discriminate|]. cbn [hd_slot] in Hh. cbn [head_text] in Er.
  destruct (text_value _ Ev) as [t1 ->]. destruct (text_value _ Er) as [t2 ->].
  apply (HS i j Hh).
  - cbn [follb]. left. auto.
  - exists t1. left. reflexivity.
  - exists t2. right. apply in_or_app. right. left. reflexivity.
Qed.

Lemma nab_close S f : forall top, nab S f = true ->
  (forall x y, pair_in x (Some y) S = true -> follb top x y f -> text_at x f -> text_at y f -> False) -> na f = true.
Proof.
  induction f as [|i v k IHk r IHr]; intros top H HS; [reflexivity|].
  cbn [nab] in H. apply andb_true_iff in H as [H H3]. apply andb_true_iff in H as [H1 H2]. cbn [na].
  rewrite (nab_list_close S k H1), (IHk false H2), (IHr top H3); [reflexivity| | |].
  - intros x y E F (t1 & T1) (t2 & T2). apply (HS x y E); [cbn [follb]; right; right; exact F| |]; [exists t1|exists t2]; right; apply in_or_app; right; assumption.
  - intros x y E F (t1 & T1) (t2 & T2). apply (HS x y E); [cbn [follb]; right; left; exact F| |]; [exists t1|exists t2]; right; apply in_or_app; left; assumption.
  - intros x y E F (t1 & T1) (t2 & T2). apply (HS x y E); [cbn [follb]; right; left; exact F| |]; [exists t1|exists t2]; right; apply in_or_app; left; assumption.
Qed.

(* a pair of adjacent text nodes is a tolerated one *)
Lemma nab_follb S x y f : forall top, NoDup (ids f) -> (top = false -> nab_list S f = true) -> nab S f = true -> follb top x y f ->
  (forall v, In (x, v) (nodes f) -> is_text_val v = true) -> (forall v, In (y, v) (nodes f) -> is_text_val v = true) ->
  pair_in x (Some y) S = true.
Proof.
  induction f as [|i v k IHk r IHr]; intros top Hnd Hl Hd F Hx Hy; [destruct F|].
  cbn [ids] in Hnd. apply NoDup_cons_app_inv in Hnd as (Hik & Hir & Hk & Hr & Hkr).
  cbn [nab] in Hd. apply andb_true_iff in Hd as [Hd Hd3]. apply andb_true_iff in Hd as [Hd1 Hd2].
  cbn [follb] in F. destruct F as [(Et & Ei & _ & Ey)|[F|F]].
  - subst i. specialize (Hl Et). cbn [nab_list] in Hl. apply andb_true_iff in Hl as [Hh _].
    destruct r as [|j w kj r2]; [discriminate|]. cbn [hd_slot] in Ey. inversion Ey; subst j.
    rewrite (Hx v ltac:(left; reflexivity)) in Hh. cbn [head_text] in Hh.
    rewrite (Hy w ltac:(right; apply in_or_app; right; left; reflexivity)) in Hh. cbn in Hh. exact Hh.
  - apply (IHk false Hk (fun _ => Hd1) Hd2 F); intros w Hw; [apply Hx|apply Hy]; right; apply in_or_app; left; exact Hw.
  - apply (IHr top Hr); [|exact Hd3|exact F| |].
    + intros Et. specialize (Hl Et). cbn [nab_list] in Hl. apply andb_true_iff in Hl. tauto.
    + intros w Hw. apply Hx. right. apply in_or_app. right. exact Hw.
    + intros w Hw. apply Hy. right. apply in_or_app. right. exact Hw.
Qed.

(* a node is followed by one node only *)
Lemma follb_functional x f : forall top y1 y2, NoDup (ids f) -> follb top x y1 f -> follb top x y2 f -> y1 = y2.
Proof.
  induction f as [|i v k IHk r IHr]; intros top y1 y2 Hnd F1 F2; [destruct F1|].
  cbn [ids] in Hnd. apply NoDup_cons_app_inv in Hnd as (Hik & Hir & Hk & Hr & Hkr).
  cbn [follb] in F1, F2.
  destruct F1 as [(_ & E1 & _ & H1)|[F1|F1]]; destruct F2 as [(_ & E2 & _ & H2)|[F2|F2]]; try subst i.
  - congruence.
  - exfalso. apply Hik. exact (proj1 (follb_in _ _ _ _ F2)).
  - exfalso. apply Hir. exact (proj1 (follb_in _ _ _ _ F2)).
  - exfalso. apply Hik. exact (proj1 (follb_in _ _ _ _ F1)).
  - eapply IHk; eauto.
  - exfalso. eapply NoDup_app_not_in; [exact Hkr|exact (proj1 (follb_in _ _ _ _ F1))|exact (proj1 (follb_in _ _ _ _ F2))].
  - exfalso. apply Hir. exact (proj1 (follb_in _ _ _ _ F1)).
  - exfalso. eapply NoDup_app_not_in; [exact Hkr|exact (proj1 (follb_in _ _ _ _ F2))|exact (proj1 (follb_in _ _ _ _ F1))].
  - eapply IHr; eauto.
Qed.

(* ---------- the seam of a node that stands between two others ---------- *)

Lemma seam_absent c f : forall prev, ~ In c (ids f) -> seam prev c f = [].
Proof.
  induction f as [|i v k IHk r IHr]; intros prev H; [reflexivity|]. cbn [seam ids] in *.
  destruct (N.eqb_spec i c) as [->|Hne]; [exfalso; apply H; left; reflexivity|].
  rewrite IHk, IHr; [reflexivity| |]; intros X; apply H; right; apply in_or_app; auto.
Qed.

Lemma seam_follb p c n f : forall top prev, NoDup (ids f) -> follb top p c f -> follb top c n f -> seam prev c f = [(p, n)].
Proof.
  induction f as [|i v k IHk r IHr]; intros top prev Hnd Fp Fn; [destruct Fp|].
  cbn [ids] in Hnd. pose proof Hnd as Hnd0. apply NoDup_cons_app_inv in Hnd as (Hik & Hir & Hk & Hr & Hkr).
  cbn [follb] in Fp. cbn [seam].
  destruct Fp as [(Et & Ei & _ & Eh)|[Fp|Fp]].
  - subst i. destruct r as [|j w kj r2]; [discriminate|]. cbn [hd_slot] in Eh. inversion Eh; subst j.
    assert (p <> c) as Hpc by (intros ->; apply Hir; left; reflexivity). apply N.eqb_neq in Hpc. rewrite Hpc.
    rewrite (seam_absent c k) by (intros Hx; eapply NoDup_app_not_in; [exact Hkr|exact Hx|left; reflexivity]).
    cbn [app seam]. rewrite N.eqb_refl.
    (* what follows c *)
    cbn [follb] in Fn. destruct Fn as [(_ & Ec & _)|[Fn|Fn]].
    + exfalso. apply N.eqb_neq in Hpc. congruence.
    + exfalso. pose proof (proj1 (follb_in _ _ _ _ Fn)) as Hx.
      eapply NoDup_app_not_in; [exact Hkr|exact Hx|left; reflexivity].
    + cbn [follb] in Fn. destruct Fn as [(_ & _ & _ & En)|[Fn|Fn]].
      * rewrite En. reflexivity.
      * exfalso. cbn [ids] in Hr. apply NoDup_cons_app_inv in Hr as (Hck & _). apply Hck. exact (proj1 (follb_in _ _ _ _ Fn)).
      * exfalso. cbn [ids] in Hr. apply NoDup_cons_app_inv in Hr as (_ & Hcr & _). apply Hcr. exact (proj1 (follb_in _ _ _ _ Fn)).
  - destruct (follb_in _ _ _ _ Fp) as [Hpk Hck].
    assert (i <> c) as Hic by (intros ->; contradiction). apply N.eqb_neq in Hic. rewrite Hic.
    rewrite (seam_absent c r) by (intros Hx; eapply NoDup_app_not_in; [exact Hkr|exact Hck|exact Hx]). rewrite app_nil_r.
    cbn [follb] in Fn. destruct Fn as [(_ & Ec & _)|[Fn|Fn]].
    + exfalso. apply N.eqb_neq in Hic. congruence.
    + eapply IHk; eauto.
    + exfalso. eapply NoDup_app_not_in; [exact Hkr|exact Hck|exact (proj1 (follb_in _ _ _ _ Fn))].
  - destruct (follb_in _ _ _ _ Fp) as [Hpr Hcr].
    assert (i <> c) as Hic by (intros ->; contradiction). apply N.eqb_neq in Hic. rewrite Hic.
    rewrite (seam_absent c k) by (intros Hx; eapply NoDup_app_not_in; [exact Hkr|exact Hx|exact Hcr]). cbn [app].
    cbn [follb] in Fn. destruct Fn as [(_ & Ec & _)|[Fn|Fn]].
    + exfalso. apply N.eqb_neq in Hic. congruence.
    + exfalso. eapply NoDup_app_not_in; [exact Hkr|exact (proj1 (follb_in _ _ _ _ Fn))|exact Hcr].
    + eapply IHr; eauto.
Qed.

(* ---------- from adjacency in the forest back to the cursor ---------- *)

Lemma locate_in_follb x y l : forall ups before z, NoDup (ids l) -> locate_in ups before x l = Some z -> follb false x y l ->
  hd_slot (z_after z) = Some y.
Proof.
  induction l as [|i v k IHk r IHr]; intros ups before z Hnd; [discriminate|].
  cbn [ids] in Hnd. apply NoDup_cons_app_inv in Hnd as (Hik & Hir & Hk & Hr & Hkr).
  cbn [locate_in follb]. destruct (N.eqb_spec i x) as [Eix|Hix].
  - subst i. intros E. inversion E; subst z. cbn [z_after]. intros [(_ & _ & _ & Hh)|[F|F]]; [exact Hh| |]; exfalso.
    + apply Hik. exact (proj1 (follb_in _ _ _ _ F)).
    + apply Hir. exact (proj1 (follb_in _ _ _ _ F)).
  - destruct (locate_in _ FNil x k) as [z1|] eqn:Ek.
    + intros E. inversion E; subst z1. intros [(_ & Ei & _)|[F|F]]; [congruence|exact (IHk _ _ z Hk Ek F)|].
      exfalso. apply locate_in_slot in Ek as [_ Hx]. eapply NoDup_app_not_in; [exact Hkr|exact Hx|exact (proj1 (follb_in _ _ _ _ F))].
    + intros E [(_ & Ei & _)|[F|F]]; [congruence| |exact (IHr _ _ z Hr E F)].
      exfalso. apply locate_in_none in Ek. apply Ek. exact (proj1 (follb_in _ _ _ _ F)).
Qed.

Lemma locate_follb x y f : forall z, NoDup (ids f) -> locate x f = Some z -> follb true x y f -> hd_slot (z_after z) = Some y.
Proof.
  induction f as [|i v k _ r IHr]; intros z Hnd; [discriminate|].
  cbn [ids] in Hnd. apply NoDup_cons_app_inv in Hnd as (Hik & Hir & Hk & Hr & Hkr).
  cbn [locate follb]. cbn [locate_in]. destruct (N.eqb_spec i x) as [Eix|Hix].
  - subst i. intros _ [(Et & _)|[F|F]]; [discriminate| |]; exfalso.
    + apply Hik. exact (proj1 (follb_in _ _ _ _ F)).
    + apply Hir. exact (proj1 (follb_in _ _ _ _ F)).
  - destruct (locate_in _ FNil x k) as [z1|] eqn:Ek.
    + intros E. inversion E; subst z1. intros [(Et & _)|[F|F]]; [discriminate|exact (locate_in_follb x y k _ _ z Hk Ek F)|].
      exfalso. apply locate_in_slot in Ek as [_ Hx]. eapply NoDup_app_not_in; [exact Hkr|exact Hx|exact (proj1 (follb_in _ _ _ _ F))].
    + cbn [locate_in]. intros E [(Et & _)|[F|F]]; [discriminate| |exact (IHr z Hr E F)].
      exfalso. apply locate_in_none in Ek. apply Ek. exact (proj1 (follb_in _ _ _ _ F)).
Qed.

Lemma follb_normal x y f : forall top, follb top x y f -> exists v, In (x, v) (nodes f) /\ is_normal v = true.
Proof.
  induction f as [|i v k IHk r IHr]; intros top F; [destruct F|]. cbn [follb] in F. cbn [nodes].
  destruct F as [(_ & Ei & Hv & _)|[F|F]].
  - subst i. exists v. split; [left; reflexivity|exact Hv].
  - destruct (IHk _ F) as (w & Hw & Hn). exists w. split; [right; apply in_or_app; left; exact Hw|exact Hn].
  - destruct (IHr _ F) as (w & Hw & Hn). exists w. split; [right; apply in_or_app; right; exact Hw|exact Hn].
Qed.

Lemma follb_q_next st x y vy : Good st -> follb true x y (store st) -> val st y = Some vy -> is_normal vy = true ->
  q_next st x = Some y.
Proof.
  intros G F Hy Hn. pose proof (Good_nodup _ G) as Hnd.
  destruct (follb_in _ _ _ _ F) as [Hx _]. destruct (locate_found _ _ Hx) as [z Hz].
  pose proof (locate_follb x y _ z Hnd Hz F) as Hh.
  unfold q_next, cur. rewrite Hz. unfold next_sibling, Zipper.right. destruct (z_after z) as [|j w kj r2] eqn:Ea; [discriminate|].
  cbn [hd_slot] in Hh. inversion Hh; subst j.
  assert (cur st y = Some (mkz y w kj (FCons (z_slot z) (z_val z) (z_kids z) (z_before z)) r2 (z_ups z))) as Hcy.
  { assert (Zipper.right z = Some (mkz y w kj (FCons (z_slot z) (z_val z) (z_kids z) (z_before z)) r2 (z_ups z))) as Hr by (unfold Zipper.right; rewrite Ea; reflexivity).
    exact (cur_move st x z _ Hnd Hz (or_introl Hr)). }
  rewrite (val_of_cur _ _ _ Hcy) in Hy. cbn [mkz z_val] in Hy. inversion Hy; subst w.
  (* x is an ordinary node (it is followed by y in the sense of follb), y is one *)
  unfold zcat. cbn [z_val].
  assert (is_normal (z_val z) = true) as Hxn.
  { destruct (follb_normal _ _ _ _ F) as (w & Hw & Hwn). apply (nodes_val st x w Hnd) in Hw.
    assert (cur st x = Some z) as Hcx by exact Hz. rewrite (val_of_cur _ _ _ Hcx) in Hw. inversion Hw as [Hzw]. rewrite Hzw. exact Hwn. }
  assert (value_category (z_val z) = CNormal) as -> by (destruct (z_val z); try discriminate; reflexivity).
  assert (value_category vy = CNormal) as -> by (destruct vy; try discriminate; reflexivity).
  reflexivity.
Qed.
