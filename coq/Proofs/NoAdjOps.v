(* NoAdjOps.v — with text consolidation on, no call of the node-level API leaves two text nodes adjacent (C04). *)
From Coq Require Import List NArith ZArith Bool Lia Permutation Arith.
From XotV Require Import Model.Base Model.Zipper Model.Access Model.Store Model.Manip Spec.DocOrder Spec.Paths Spec.Shape Spec.NoAdj
                         Proofs.ZipperProofs Proofs.AccessProofs Proofs.StoreProofs Proofs.ForestFacts Proofs.InvProofs Proofs.Canon
                         Proofs.ShapeProofs Proofs.InvSteps Proofs.InvOps Proofs.PathFacts Proofs.Levels Proofs.NoAdjFacts.
Import ListNotations.
Open Scope N_scope.

(* ---------- cursors of a well-formed store ---------- *)

(* what the cursor lemmas need of a state (it also holds of the stores in the middle of a move, where the slot table and
   the forest disagree for a moment) *)
Definition WF (st : xstate) : Prop := NoDup (ids (store st)) /\ shape_store (store st) = true.

Lemma Good_WF st : Good st -> WF st.
Proof. intros G. split; [apply Good_nodup; exact G|apply Good_shape; exact G]. Qed.

Lemma zview st n z : cur st n = Some z -> top_clean z /\ exists A B, store st = fapp A (fapp (plug z) B).
Proof. intros H. apply (locate_zroot (store st) n z H). Qed.

Lemma cur_of_view st z A B : WF st -> top_clean z -> store st = fapp A (fapp (plug z) B) -> cur st (z_slot z) = Some z.
Proof. intros G Hc E. unfold cur. apply zroot_locate; [exact (proj1 G)|]. split; [exact Hc|eauto]. Qed.

Lemma find_of_cur st n z : cur st n = Some z -> find n (store st) = Some (z_val z, z_kids z).
Proof. apply locate_find. Qed.

Lemma cur_slot st n z : cur st n = Some z -> z_slot z = n.
Proof. intros H. apply locate_slot in H. tauto. Qed.

Lemma val_of_cur st n z : cur st n = Some z -> val st n = Some (z_val z).
Proof. intros H. unfold val. rewrite H. reflexivity. Qed.

(* the level of a cursor below a root is the child list of an element or of a document *)
Lemma level_shape st n z : WF st -> cur st n = Some z -> z_ups z <> [] ->
  exists c, c <> CRoot /\ shape c 0 (z_level z) = true.
Proof.
  intros G Hc Hne. destruct (z_ups z) as [|fr ups] eqn:Eu; [congruence|].
  assert (up z = Some {| z_slot := fr_slot fr; z_val := fr_val fr; z_kids := z_level z;
                         z_before := fr_before fr; z_after := fr_after fr; z_ups := ups |}) as Hup by (unfold up; rewrite Eu; reflexivity).
  pose proof (cur_move st n z _ (proj1 G) Hc (or_intror (or_intror (or_introl Hup)))) as Hp. cbn [z_slot] in Hp.
  apply find_of_cur in Hp. cbn [z_val z_kids] in Hp.
  pose proof (shape_find _ _ _ _ _ _ (proj2 G) Hp) as Hk.
  destruct (fr_val fr); cbn [kids_ok] in Hk;
    try (exfalso; unfold z_level in Hk; destruct (frev_app (z_before z) _) eqn:E; [|discriminate Hk];
         apply (f_equal fsize) in E; rewrite fsize_frev_app in E; cbn in E; lia).
  - exists CDoc. split; [discriminate|exact Hk].
  - exists CElem. split; [discriminate|exact Hk].
Qed.

Lemma text_leaf st n z : WF st -> cur st n = Some z -> is_text_val (z_val z) = true -> z_kids z = FNil.
Proof.
  intros G Hc Ht. apply find_of_cur in Hc. pose proof (shape_find _ _ _ _ _ _ (proj2 G) Hc) as Hk.
  destruct (z_val z); try discriminate. cbn in Hk. destruct (z_kids z); [reflexivity|discriminate].
Qed.

(* in a shaped child list, what stands before an attribute or namespace node is no text; a suffix is shaped too *)
Lemma shape_suffix c b : forall X lo, shape c lo (frev_app b X) = true -> exists lo', shape c lo' X = true.
Proof.
  induction b as [|i v k _ r IH]; intros X lo; cbn [frev_app]; [eauto|]. intros H.
  destruct (IH _ _ H) as [lo' H']. rewrite shape_cons in H'. apply andb_true_iff in H' as [_ H']. eauto.
Qed.

Lemma is_text_normal v : is_text_val v = true -> is_normal v = true.
Proof. destruct v; try discriminate; reflexivity. Qed.

Lemma shape_before_abnormal c b i v k a lo : c <> CRoot -> shape c lo (frev_app b (FCons i v k a)) = true ->
  is_normal v = false -> head_text b = false.
Proof.
  intros Hc H Hv. destruct b as [|p vp kp b']; [reflexivity|]. cbn [frev_app] in H.
  destruct (shape_suffix _ _ _ _ H) as [lo' H']. rewrite !shape_cons in H'.
  apply andb_true_iff in H' as [H1 H2]. apply andb_true_iff in H2 as [H2 _]. apply andb_true_iff in H2 as [H2 _].
  cbn [head_text]. destruct (is_text_val vp) eqn:Et; [|reflexivity]. exfalso.
  apply is_text_normal in Et. destruct c; [congruence| |]; cbn [node_ok next_lo] in H2.
  - apply andb_true_iff in H2 as [H2 _]. congruence.
  - apply andb_true_iff in H2 as [_ H2]. apply Nat.leb_le in H2. apply vrank_normal in Et.
    assert (vrank v = 2%nat) as Hr by (pose proof (vrank_le2 v); lia). apply vrank_normal in Hr. congruence.
Qed.

(* the text-ness of the neighbours, as the model's queries see it *)
Definition tprev (st : xstate) (n : N) : bool := match q_prev st n with Some p => is_type st p TText | None => false end.
Definition tnext (st : xstate) (n : N) : bool := match q_next st n with Some p => is_type st p TText | None => false end.

Lemma is_type_text_val st n v : val st n = Some v -> is_type st n TText = is_text_val v.
Proof. intros H. unfold is_type. rewrite H. destruct v; reflexivity. Qed.

Lemma vcat_eqb_refl c : vcat_eqb c c = true.
Proof. destruct c; reflexivity. Qed.

Lemma text_cat v : is_text_val v = true -> value_category v = CNormal.
Proof. destruct v; try discriminate; reflexivity. Qed.

Lemma tprev_spec st n z : WF st -> cur st n = Some z -> z_ups z <> [] -> is_normal (z_val z) = true ->
  tprev st n = head_text (z_before z)
  /\ (head_text (z_before z) = true -> q_prev st n = hd_error (ids (z_before z))).
Proof.
  intros G Hc Hne Hn. unfold tprev, q_prev. rewrite Hc. unfold previous_sibling, left.
  destruct (z_before z) as [|p vp kp b'] eqn:Eb; [cbn; auto|].
  assert (cur st p = Some {| z_slot := p; z_val := vp; z_kids := kp; z_before := b';
                             z_after := FCons (z_slot z) (z_val z) (z_kids z) (z_after z); z_ups := z_ups z |}) as Hp.
  { refine (cur_move st n z {| z_slot := p |} (proj1 G) Hc _). right. left. unfold left. rewrite Eb. reflexivity. }
  unfold zcat. cbn [z_val z_slot head_text ids hd_error].
  assert (value_category (z_val z) = CNormal) as Hcat by (destruct (z_val z); try discriminate; reflexivity).
  rewrite Hcat. destruct (is_text_val vp) eqn:Et.
  - rewrite (text_cat _ Et). cbn. rewrite (is_type_text_val _ _ _ (val_of_cur _ _ _ Hp)). cbn. auto.
  - split; [|discriminate]. destruct (vcat_eqb CNormal (value_category vp)); [|reflexivity]. cbn.
    rewrite (is_type_text_val _ _ _ (val_of_cur _ _ _ Hp)). exact Et.
Qed.

Lemma tnext_spec st n z : WF st -> cur st n = Some z -> z_ups z <> [] -> is_normal (z_val z) = true ->
  tnext st n = head_text (z_after z)
  /\ (head_text (z_after z) = true -> q_next st n = hd_error (ids (z_after z))).
Proof.
  intros G Hc Hne Hn. unfold tnext, q_next. rewrite Hc. unfold next_sibling, right.
  destruct (z_after z) as [|p vp kp b'] eqn:Eb; [cbn; auto|].
  assert (cur st p = Some {| z_slot := p; z_val := vp; z_kids := kp; z_before := FCons (z_slot z) (z_val z) (z_kids z) (z_before z);
                             z_after := b'; z_ups := z_ups z |}) as Hp.
  { refine (cur_move st n z {| z_slot := p |} (proj1 G) Hc _). left. unfold right. rewrite Eb. reflexivity. }
  unfold zcat. cbn [z_val z_slot head_text ids hd_error].
  assert (value_category (z_val z) = CNormal) as Hcat by (destruct (z_val z); try discriminate; reflexivity).
  rewrite Hcat. destruct (is_text_val vp) eqn:Et.
  - rewrite (text_cat _ Et). cbn. rewrite (is_type_text_val _ _ _ (val_of_cur _ _ _ Hp)). cbn. auto.
  - split; [|discriminate]. destruct (vcat_eqb CNormal (value_category vp)); [|reflexivity]. cbn.
    rewrite (is_type_text_val _ _ _ (val_of_cur _ _ _ Hp)). exact Et.
Qed.

(* ---------- na of a store given through a level ---------- *)

Lemma na_store A B L ups : na (fapp A (fapp (plug_ups L ups) B)) = na A && (lev ups L && na L && na_ctx ups) && na B.
Proof. rewrite !na_fapp, na_plug_ups. destruct (na A), (na B); cbn; rewrite ?andb_true_r, ?andb_false_r; reflexivity. Qed.

Lemma lev_inner ups L : ups <> [] -> lev ups L = na_list L.
Proof. destruct ups; [congruence|reflexivity]. Qed.

Definition hd_slot (f : forest) : option N := match f with FCons i _ _ _ => Some i | FNil => None end.

Lemma hd_slot_ids f : hd_error (ids f) = hd_slot f.
Proof. destruct f; reflexivity. Qed.

Lemma head_text_slot f : head_text f = true -> hd_slot f <> None.
Proof. destruct f; [discriminate|discriminate]. Qed.

Lemma top_clean_inner i v k b a ups : ups <> [] -> top_clean (mkz i v k b a ups) <-> (exists b0 a0, outer_of b0 a0 ups = (FNil, FNil)).
Proof.
  unfold top_clean, mkz. cbn. destruct ups as [|fr ups]; [congruence|]. intros _. cbn. split; [eauto|intros (_ & _ & H); exact H].
Qed.

Lemma store_ids_fset_val st n g : ids (fset_val n g (store st)) = ids (store st).
Proof. apply nodes_fset_val_ids. Qed.

(* remove_consolidate at a junction: [bf] (nearest first) and [af] are the two sides of one level below a root *)
Lemma rc_level st A B ups bf af prev next :
  WF st -> cons st = true -> ups <> [] -> (exists b0 a0, outer_of b0 a0 ups = (FNil, FNil)) ->
  store st = fapp A (fapp (plug_ups (frev_app bf af) ups) B) ->
  na A = true -> na B = true -> na_ctx ups = true -> na bf = true -> na af = true -> na_list bf = true -> na_list af = true ->
  (head_text bf && head_text af = true -> prev = hd_slot bf /\ next = hd_slot af) ->
  (forall p x, prev = Some p -> next = Some x -> hd_slot bf = Some p /\ hd_slot af = Some x) ->
  na (store (fst (remove_consolidate st prev next))) = true.
Proof.
  intros G Hcons Hne Hout E HA HB Hctx Hbf Haf Hlbf Hlaf Hboth Hadj.
  assert (head_text bf && head_text af = false -> na (store st) = true) as Hsame.
  { intros Hj. rewrite E, na_store, (lev_inner _ _ Hne), na_list_frev_app, na_frev_app, HA, HB, Hctx, Hbf, Haf, Hlbf, Hlaf, Hj. reflexivity. }
  unfold remove_consolidate. rewrite Hcons. cbn [negb].
  destruct prev as [p|].
  2:{ apply Hsame. destruct (head_text bf && head_text af) eqn:Hj; [|reflexivity]. destruct (Hboth eq_refl) as [X _].
      apply andb_true_iff in Hj as [Hj _]. apply head_text_slot in Hj. congruence. }
  destruct next as [x|].
  2:{ apply Hsame. destruct (head_text bf && head_text af) eqn:Hj; [|reflexivity]. destruct (Hboth eq_refl) as [_ X].
      apply andb_true_iff in Hj as [_ Hj]. apply head_text_slot in Hj. congruence. }
  destruct (Hadj p x eq_refl eq_refl) as [Hp Hx].
  destruct bf as [|p' vp kp bf']; [discriminate|]. destruct af as [|x' vx kx af']; [discriminate|].
  cbn in Hp, Hx. inversion Hp; subst p'. inversion Hx; subst x'. clear Hp Hx.
  (* the cursors of the two nodes *)
  set (zx := mkz x vx kx (FCons p vp kp bf') af' ups).
  assert (top_clean zx) as Hcx by (apply top_clean_inner; assumption).
  assert (plug zx = plug_ups (frev_app (FCons p vp kp bf') (FCons x vx kx af')) ups) as Hplx by reflexivity.
  assert (cur st x = Some zx) as Hcurx by (apply (cur_of_view st zx A B G Hcx); rewrite Hplx; exact E).
  assert (cur st p = Some (mkz p vp kp bf' (FCons x vx kx af') ups)) as Hcurp.
  { refine (cur_move st x zx (mkz p vp kp bf' (FCons x vx kx af') ups) (proj1 G) Hcurx _). right. left. reflexivity. }
  rewrite (val_of_cur _ _ _ Hcurp), (val_of_cur _ _ _ Hcurx). unfold zx. cbn [z_val mkz].
  destruct vp as [| | tp | | | |]; try (apply Hsame; reflexivity).
  destruct vx as [| | tx | | | |]; try (apply Hsame; cbn; rewrite ?andb_false_r; reflexivity).
  (* both are text: the later one goes *)
  assert (kx = FNil) as -> by (apply (text_leaf st x zx G Hcurx); reflexivity).
  cbn [fst remove_single_raw free_slots with_store store].
  set (g := append_text_to tx).
  (* the value update, seen from p *)
  set (zp := mkz p (VText tp) kp bf' (FCons x (VText tx) FNil af') ups).
  assert (top_clean zp) as Hcp by (apply top_clean_inner; assumption).
  assert (fset_val p g (store st) = fapp A (fapp (plug_ups (frev_app bf' (FCons p (g (VText tp)) kp (FCons x (VText tx) FNil af'))) ups) B)) as E1.
  { rewrite fset_val_fact. apply (fact_inner (a_val g) (store st) zp A B (proj1 G) Hcp Hne). exact E. }
  (* the removal, seen from x *)
  set (zx1 := mkz x (VText tx) FNil (FCons p (g (VText tp)) kp bf') af' ups).
  assert (top_clean zx1) as Hcx1 by (apply top_clean_inner; assumption).
  assert (NoDup (ids (fset_val p g (store st)))) as Hnd1 by (rewrite store_ids_fset_val; exact (proj1 G)).
  pose proof (fact_inner a_splice _ zx1 A B Hnd1 Hcx1 Hne E1) as E2. unfold zx1 in E2.
  cbn [z_before z_val z_kids z_after z_slot z_ups mkz a_splice fapp] in E2. rewrite fsplice_fact, E2.
  rewrite na_store, (lev_inner _ _ Hne), na_list_frev_app, na_frev_app, HA, HB, Hctx.
  cbn [na_list na head_text is_text_val g append_text_to] in *.
  apply andb_true_iff in Hlaf as [Hj Hlaf]. rewrite Hlaf. cbn [negb andb] in Hj.
  assert (head_text af' = false) as Hh by (destruct (head_text af'); [discriminate|reflexivity]).
  rewrite Hh, Hlbf, Hbf. cbn in Haf. rewrite Haf. reflexivity.
Qed.

(* ---------- cutting a subtree out, seen from its cursor ---------- *)

Definition cut_store (z : zipper) (A B : forest) : forest :=
  match z_ups z with
  | [] => fapp A B
  | _ => fapp A (fapp (plug_ups (frev_app (z_before z) (z_after z)) (z_ups z)) B)
  end.

Lemma fcut_view st n z A B : WF st -> cur st n = Some z -> store st = fapp A (fapp (plug z) B) ->
  fcut n (store st) = Some (cut_store z A B, (n, z_val z, z_kids z)).
Proof.
  intros G Hc E. pose proof (proj1 G) as Hnd. destruct (zview _ _ _ Hc) as [Htc _].
  pose proof (cur_slot _ _ _ Hc) as Hs.
  assert (In n (ids (store st))) as Hin by (apply locate_slot in Hc; tauto).
  destruct (fcut_some _ _ Hin) as (f' & [[i v] k] & Hcut).
  pose proof (fcut_slot _ _ _ _ _ _ Hcut) as ->. pose proof (fcut_find _ _ _ _ _ _ Hcut) as Hf.
  rewrite (find_of_cur _ _ _ Hc) in Hf. inversion Hf; subst v k.
  rewrite Hcut. f_equal. f_equal. rewrite (fcut_fact _ _ _ _ Hnd Hcut). unfold cut_store.
  destruct (z_ups z) as [|fr ups] eqn:Eu.
  - rewrite (plug_root z Htc Eu) in E. cbn [fapp] in E. rewrite <- Hs. apply (fact_root a_drop _ _ _ _ _ _ Hnd E).
  - rewrite <- Hs, <- Eu. apply (fact_inner a_drop _ z A B Hnd Htc); [rewrite Eu; discriminate|exact E].
Qed.

Lemma q_prev_hd st n z p : cur st n = Some z -> q_prev st n = Some p -> hd_slot (z_before z) = Some p.
Proof.
  intros Hc. unfold q_prev. rewrite Hc. unfold previous_sibling, left. destruct (z_before z); [discriminate|].
  destruct (vcat_eqb _ _); [|discriminate]. cbn. auto.
Qed.

Lemma q_next_hd st n z p : cur st n = Some z -> q_next st n = Some p -> hd_slot (z_after z) = Some p.
Proof.
  intros Hc. unfold q_next. rewrite Hc. unfold next_sibling, right. destruct (z_after z); [discriminate|].
  destruct (vcat_eqb _ _); [|discriminate]. cbn. auto.
Qed.

Lemma q_prev_root st n z : cur st n = Some z -> z_ups z = [] -> q_prev st n = None /\ q_next st n = None.
Proof.
  intros Hc Eu. destruct (zview _ _ _ Hc) as [Htc _]. destruct (top_clean_root z Htc Eu) as [Hb Ha].
  unfold q_prev, q_next. rewrite Hc. unfold previous_sibling, next_sibling, left, right. rewrite Hb, Ha. auto.
Qed.

(* the pieces of [na] around a cursor *)
Lemma na_parts st z A B : store st = fapp A (fapp (plug z) B) -> na (store st) = true ->
  na A = true /\ na B = true /\ na_ctx (z_ups z) = true /\ na (z_before z) = true /\ na (z_after z) = true
  /\ na_list (z_kids z) = true /\ na (z_kids z) = true
  /\ (z_ups z <> [] -> na_list (z_before z) = true /\ na_list (z_after z) = true
                      /\ negb (is_text_val (z_val z) && head_text (z_before z)) = true
                      /\ negb (is_text_val (z_val z) && head_text (z_after z)) = true).
Proof.
  intros E H. rewrite E in H. unfold plug, z_level in H. rewrite na_store, na_frev_app in H. cbn [na] in H.
  apply andb_true_iff in H as [H HB]. apply andb_true_iff in H as [HA H]. apply andb_true_iff in H as [H Hctx].
  apply andb_true_iff in H as [Hlev H]. apply andb_true_iff in H as [Hbf H]. apply andb_true_iff in H as [H Haf].
  apply andb_true_iff in H as [Hk1 Hk2].
  split; [exact HA|]. split; [exact HB|]. split; [exact Hctx|]. split; [exact Hbf|]. split; [exact Haf|].
  split; [exact Hk1|]. split; [exact Hk2|].
  intros Hne. rewrite (lev_inner _ _ Hne), na_list_frev_app in Hlev. cbn [na_list head_text] in Hlev.
  destruct (na_list (z_before z)), (na_list (z_after z)), (is_text_val (z_val z)), (head_text (z_before z)), (head_text (z_after z));
    cbn in Hlev; try discriminate; auto.
Qed.

Lemma not_live_queries st n : cur st n = None -> q_prev st n = None /\ q_next st n = None /\ fcut n (store st) = None.
Proof.
  intros H. unfold q_prev, q_next. rewrite H. split; [reflexivity|]. split; [reflexivity|].
  destruct (fcut n (store st)) as [[f' [[i v] k]]|] eqn:E; [|reflexivity]. exfalso.
  apply fcut_find in E. assert (In n (ids (store st))) as Hin by (apply find_incl in E; apply E; left; reflexivity).
  destruct (locate_found _ _ Hin) as [z Hz]. unfold cur in H. congruence.
Qed.

Lemma rc_none st x : remove_consolidate st None x = (st, false) /\ remove_consolidate st x None = (st, false).
Proof. unfold remove_consolidate. destruct (negb (cons st)); [auto|]. destruct x; auto. Qed.

(* what is left when the subtree of [n] has been cut out, and the junction the cut leaves *)
Lemma cut_then_rc st st1 n z A B A1 : WF st -> cons st = true -> noadj st -> cur st n = Some z ->
  store st = fapp A (fapp (plug z) B) ->
  WF st1 -> cons st1 = true -> store st1 = fapp A1 (cut_store z A B) -> na A1 = true ->
  na (store (fst (remove_consolidate st1 (q_prev st n) (q_next st n)))) = true.
Proof.
  intros G Hcons Hna Hc E G1 Hcons1 E1 HA1.
  destruct (na_parts st z A B E Hna) as (HA & HB & Hctx & Hbf & Haf & _ & _ & Hin).
  destruct (zview _ _ _ Hc) as [Htc _]. unfold cut_store in E1.
  destruct (z_ups z) as [|fr ups] eqn:Eu.
  - destruct (q_prev_root _ _ _ Hc Eu) as [-> ->]. rewrite (proj1 (rc_none st1 None)). cbn [fst].
    rewrite E1, !na_fapp, HA1, HA, HB. reflexivity.
  - rewrite <- Eu in *. assert (z_ups z <> []) as Hne by (rewrite Eu; discriminate).
    destruct (Hin Hne) as (Hlb & Hla & Hjb & Hja).
    assert (store st1 = fapp (fapp A1 A) (fapp (plug_ups (frev_app (z_before z) (z_after z)) (z_ups z)) B)) as E1'.
    { rewrite E1. clear. induction A1 as [|i v k _ r IH]; cbn [fapp]; [reflexivity|]. rewrite IH. reflexivity. }
    apply (rc_level st1 (fapp A1 A) B (z_ups z) (z_before z) (z_after z)); try assumption.
    + unfold top_clean in Htc. eauto.
    + rewrite na_fapp, HA1, HA. reflexivity.
    + (* both sides text: then both are the siblings the queries found *)
      intros Hj. apply andb_true_iff in Hj as [Hj1 Hj2].
      destruct (is_normal (z_val z)) eqn:Hn.
      * destruct (tprev_spec st n z G Hc Hne Hn) as [_ Hp]. destruct (tnext_spec st n z G Hc Hne Hn) as [_ Hx].
        rewrite (Hp Hj1), (Hx Hj2), !hd_slot_ids. auto.
      * exfalso. destruct (level_shape st n z G Hc Hne) as (c & Hcr & Hsh). unfold z_level in Hsh.
        rewrite (shape_before_abnormal c _ _ _ _ _ _ Hcr Hsh Hn) in Hj1. discriminate.
    + intros p x Hp Hx. split; [eapply q_prev_hd; eauto|eapply q_next_hd; eauto].
Qed.

Lemma noadj_m_detach st n : Good st -> cons st = true -> noadj st -> noadj (fst (m_detach st n)).
Proof.
  intros G Hcons Hna. unfold m_detach, noadj. cbn [fst].
  destruct (cur st n) as [z|] eqn:Hc.
  - destruct (zview _ _ _ Hc) as [Htc (A & B & E)].
    pose proof (Good_WF _ (ext_good _ _ (Ext_detach_raw st n G))) as G1. pose proof (Good_WF _ G) as W.
    assert (store (detach_raw st n) = fapp (FCons n (z_val z) (z_kids z) FNil) (cut_store z A B)) as E1.
    { unfold detach_raw. rewrite (fcut_view st n z A B W Hc E). reflexivity. }
    destruct (na_parts st z A B E Hna) as (_ & _ & _ & _ & _ & Hk1 & Hk2 & _).
    apply (cut_then_rc st (detach_raw st n) n z A B (FCons n (z_val z) (z_kids z) FNil) W Hcons Hna Hc E G1); [|exact E1|].
    + unfold detach_raw. destruct (fcut n (store st)) as [[f' t]|]; exact Hcons.
    + cbn [na]. rewrite Hk1, Hk2. reflexivity.
  - destruct (not_live_queries _ _ Hc) as (-> & -> & Hcut). unfold detach_raw. rewrite Hcut.
    rewrite (proj1 (rc_none st None)). exact Hna.
Qed.

Lemma noadj_m_remove st n : Good st -> cons st = true -> noadj st -> noadj (fst (m_remove st n)).
Proof.
  intros G Hcons Hna. unfold m_remove, noadj. cbn [fst].
  destruct (cur st n) as [z|] eqn:Hc.
  - destruct (zview _ _ _ Hc) as [Htc (A & B & E)].
    pose proof (Good_WF _ (ext_good _ _ (Ext_remove_subtree_raw st n G))) as G1. pose proof (Good_WF _ G) as W.
    assert (store (remove_subtree_raw st n) = fapp FNil (cut_store z A B)) as E1.
    { unfold remove_subtree_raw. rewrite (fcut_view st n z A B W Hc E). reflexivity. }
    apply (cut_then_rc st (remove_subtree_raw st n) n z A B FNil W Hcons Hna Hc E G1); [|exact E1|reflexivity].
    unfold remove_subtree_raw. destruct (fcut n (store st)) as [[f' [[i v] k]]|]; exact Hcons.
  - destruct (not_live_queries _ _ Hc) as (-> & -> & Hcut). unfold remove_subtree_raw. rewrite Hcut.
    rewrite (proj1 (rc_none st None)). exact Hna.
Qed.

(* ---------- merging: a text value grows, a text node goes ---------- *)

Lemma na_drop_text st c z : WF st -> noadj st -> cur st c = Some z -> is_text_val (z_val z) = true ->
  na (fsplice c (store st)) = true.
Proof.
  intros W Hna Hc Ht. destruct (zview _ _ _ Hc) as [Htc (A & B & E)].
  pose proof (text_leaf st c z W Hc Ht) as Hk. pose proof (cur_slot _ _ _ Hc) as Hs.
  destruct (na_parts st z A B E Hna) as (HA & HB & Hctx & Hbf & Haf & _ & _ & Hin).
  rewrite fsplice_fact. destruct (z_ups z) as [|fr ups] eqn:Eu.
  - rewrite (plug_root z Htc Eu) in E. cbn [fapp] in E. rewrite Hs in E.
    rewrite (fact_root a_splice _ _ _ _ _ _ (proj1 W) E). unfold a_splice. rewrite Hk. cbn [fapp]. rewrite na_fapp, HA, HB. reflexivity.
  - rewrite <- Eu in *. assert (z_ups z <> []) as Hne by (rewrite Eu; discriminate).
    rewrite <- Hs, (fact_inner a_splice _ z A B (proj1 W) Htc Hne E). unfold a_splice. rewrite Hk. cbn [fapp].
    destruct (Hin Hne) as (Hlb & Hla & Hjb & Hja). rewrite Ht in Hjb, Hja. cbn in Hjb, Hja.
    apply negb_true_iff in Hjb, Hja.
    rewrite na_store, (lev_inner _ _ Hne), na_list_frev_app, na_frev_app, HA, HB, Hctx, Hbf, Haf, Hlb, Hla, Hjb. reflexivity.
Qed.

Lemma text_after_fset_val n g f c v : NoDup (ids f) -> In (c, v) (nodes f) -> is_text_val v = true ->
  (forall w, is_text_val (g w) = is_text_val w) -> exists v', In (c, v') (nodes (fset_val n g f)) /\ is_text_val v' = true.
Proof.
  intros Hnd Hin Ht Hg. destruct (in_dec N.eq_dec n (ids f)) as [Hn|Hn].
  - destruct (nodes_fset_val n g f Hnd Hn) as (w & l1 & l2 & E1 & E2). rewrite E2. rewrite E1 in Hin.
    apply in_app_or in Hin as [Hin|[Hin|Hin]].
    + exists v. split; [apply in_or_app; left; exact Hin|exact Ht].
    + inversion Hin; subst. exists (g v). split; [apply in_or_app; right; left; reflexivity|rewrite Hg; exact Ht].
    + exists v. split; [apply in_or_app; right; right; exact Hin|exact Ht].
  - rewrite fset_val_fact, fact_absent by exact Hn. eauto.
Qed.

Definition merged_text (st st1 : xstate) (gone : N) : Prop :=
  exists t g s, val st gone = Some (VText s) /\ (forall v, is_text_val (g v) = is_text_val v)
                /\ (forall v, same_class v (g v)) /\ (forall v, is_text_val v = false -> g v = v)
                /\ st1 = remove_single_raw (with_store st (fset_val t g (store st))) gone.

Lemma merged_text_into st st1 gone : merged_text st st1 gone -> merged_into st st1 gone.
Proof. intros (t & g & s & H1 & _ & H3 & H4 & H5). exists t, g, s. auto. Qed.

Lemma append_text_text s v : is_text_val (append_text_to s v) = is_text_val v.
Proof. destruct v; reflexivity. Qed.
Lemma prepend_text_text s v : is_text_val (prepend_text_to s v) = is_text_val v.
Proof. destruct v; reflexivity. Qed.

Lemma rc_cases st a b st1 m :
  remove_consolidate st a b = (st1, m) ->
  (m = false /\ st1 = st) \/ (m = true /\ exists n, b = Some n /\ merged_text st st1 n).
Proof.
  unfold remove_consolidate. destruct (negb (cons st)); [intros H; inversion H; auto|].
  destruct a as [p|]; [|intros H; inversion H; auto]. destruct b as [n|]; [|intros H; inversion H; auto].
  destruct (val st p) as [[]|] eqn:Ep; try (intros H; inversion H; auto; fail).
  destruct (val st n) as [[]|] eqn:En; try (intros H; inversion H; auto; fail).
  intros H. inversion H; subst. right. split; [reflexivity|]. exists n. split; [reflexivity|].
  eexists p, _, _. split; [exact En|]. split; [apply append_text_text|]. split; [apply append_text_class|].
  split; [intros w Hw; destruct w; try reflexivity; discriminate|reflexivity].
Qed.

Lemma ac_cases st node prev next st1 m :
  add_consolidate st node prev next = (st1, m) ->
  (m = false /\ st1 = st) \/ (m = true /\ merged_text st st1 node).
Proof.
  unfold add_consolidate. destruct (negb (cons st)); [intros H; inversion H; auto|].
  destruct (val st node) as [[]|] eqn:En; try (intros H; inversion H; auto; fail).
  assert (forall st1 m,
    match next with
    | Some n => match val st n with
                | Some (VText _) => (remove_single_raw (with_store st (fset_val n (prepend_text_to s) (store st))) node, true)
                | _ => (st, false)
                end
    | None => (st, false)
    end = (st1, m) -> (m = false /\ st1 = st) \/ (m = true /\ merged_text st st1 node)) as Hnext.
  { intros st2 m2. destruct next as [n|]; [|intros H; inversion H; auto].
    destruct (val st n) as [[]|] eqn:Et; try (intros H; inversion H; auto; fail).
    intros H. inversion H; subst. right. split; [reflexivity|].
    eexists n, _, _. split; [exact En|]. split; [apply prepend_text_text|]. split; [apply prepend_text_class|].
    split; [intros w Hw; destruct w; try reflexivity; discriminate|reflexivity]. }
  destruct prev as [p|]; [|apply Hnext].
  destruct (val st p) as [[]|] eqn:Ep; try apply Hnext.
  intros H. inversion H; subst. right. split; [reflexivity|].
  eexists p, _, _. split; [exact En|]. split; [apply append_text_text|]. split; [apply append_text_class|].
  split; [intros w Hw; destruct w; try reflexivity; discriminate|reflexivity].
Qed.

Lemma Good_set_text_preserving st t g : Good st -> (forall v, same_class v (g v)) -> (forall v, is_text_val v = false -> g v = v) ->
  Good (with_store st (fset_val t g (store st))).
Proof.
  intros G Hg Hid. refine (ext_good _ _ (Ext_set_value st t g G _)).
  intros v _. split; [apply Hg|]. destruct (is_text_val v) eqn:Et; [|rewrite (Hid v Et); apply same_key_refl].
  apply same_class_same_key_normal; [apply Hg|destruct v; try discriminate; reflexivity].
Qed.

(* in a store without adjacent text nodes a merge leaves none either *)
Lemma noadj_merged st st1 gone : Good st -> noadj st -> merged_text st st1 gone -> noadj st1 /\ cons st1 = cons st.
Proof.
  intros G Hna (t & g & s & Hv & Hg & Hc & Hid & ->). split; [|reflexivity].
  unfold noadj. cbn [remove_single_raw free_slots with_store store].
  set (s1 := with_store st (fset_val t g (store st))).
  pose proof (Good_set_text_preserving st t g G Hc Hid) as G1. fold s1 in G1.
  assert (noadj s1) as Hna1.
  { unfold noadj, s1. cbn [store with_store]. destruct (na_fset_val t g (store st)) as (_ & H & _); [intros; apply Hg|apply Good_nodup; exact G|].
    rewrite H. exact Hna. }
  destruct (text_after_fset_val t g (store st) gone (VText s) (Good_nodup _ G) (val_nodes _ _ _ Hv) eq_refl Hg) as (v' & Hin & Ht).
  assert (val s1 gone = Some v') as Hv1 by (apply nodes_val; [apply Good_nodup; exact G1|exact Hin]).
  unfold val in Hv1. destruct (cur s1 gone) as [z|] eqn:Hcur; [|discriminate]. inversion Hv1 as [Hz].
  change (fset_val t g (store st)) with (store s1).
  apply (na_drop_text s1 gone z (Good_WF _ G1) Hna1 Hcur). rewrite Hz. exact Ht.
Qed.

(* ---------- step 1 of the insertion calls: the consolidation at the old place, the node still there ---------- *)

Lemma cons_remove_single st n : cons (remove_single_raw st n) = cons st.
Proof. reflexivity. Qed.

Lemma step1_view st c z A B st1 m : Good st -> cons st = true -> noadj st -> cur st c = Some z ->
  store st = fapp A (fapp (plug z) B) -> is_normal (z_val z) = true ->
  remove_consolidate st (q_prev st c) (q_next st c) = (st1, m) ->
  Good st1 /\ cons st1 = true /\ noadj st1 /\
  exists z1, cur st1 c = Some z1 /\ store st1 = fapp A (fapp (plug z1) B)
     /\ z_val z1 = z_val z /\ z_kids z1 = z_kids z /\ z_ups z1 = z_ups z
     /\ (z_ups z <> [] -> head_text (z_before z1) && head_text (z_after z1) = false)
     /\ (m = false -> z1 = z /\ st1 = st).
Proof.
  intros G Hcons Hna Hc E Hn Hrc. pose proof (Good_WF _ G) as W.
  pose proof (Ext_remove_consolidate st (q_prev st c) (q_next st c) G) as X. rewrite Hrc in X. cbn [fst] in X.
  pose proof (ext_good _ _ X) as G1. split; [exact G1|].
  assert (cons st1 = true /\ noadj st1) as [Hcons1 Hna1].
  { destruct (rc_cases _ _ _ _ _ Hrc) as [[_ ->]|[_ (x & _ & Hm)]]; [auto|].
    destruct (noadj_merged _ _ _ G Hna Hm) as [H1 H2]. rewrite H2. auto. }
  split; [exact Hcons1|]. split; [exact Hna1|].
  destruct (zview _ _ _ Hc) as [Htc _]. pose proof (cur_slot _ _ _ Hc) as Hs.
  assert (forall (Hsame : st1 = st), m = false ->
            (z_ups z <> [] -> head_text (z_before z) && head_text (z_after z) = false) ->
            exists z1, cur st1 c = Some z1 /\ store st1 = fapp A (fapp (plug z1) B)
              /\ z_val z1 = z_val z /\ z_kids z1 = z_kids z /\ z_ups z1 = z_ups z
              /\ (z_ups z <> [] -> head_text (z_before z1) && head_text (z_after z1) = false)
              /\ (m = false -> z1 = z /\ st1 = st)) as Hunch.
  { intros -> Hm Hj. exists z. repeat split; auto. }
  destruct (z_ups z) as [|fr ups0] eqn:Eu.
  - destruct (q_prev_root _ _ _ Hc Eu) as [Hp Hx]. rewrite Hp, (proj1 (rc_none st (q_next st c))) in Hrc. inversion Hrc; subst.
    apply Hunch; [reflexivity|reflexivity|congruence].
  - rewrite <- Eu in *. assert (z_ups z <> []) as Hne by (rewrite Eu; discriminate).
    destruct (tprev_spec st c z W Hc Hne Hn) as [Htp Hqp]. destruct (tnext_spec st c z W Hc Hne Hn) as [Htn Hqn].
    destruct (head_text (z_before z) && head_text (z_after z)) eqn:Hj.
    + (* both neighbours are text: the merge happens *)
      apply andb_true_iff in Hj as [Hj1 Hj2]. rewrite (Hqp Hj1), (Hqn Hj2), !hd_slot_ids in Hrc.
      destruct (z_before z) as [|p vp kp bf'] eqn:Eb; [discriminate|]. destruct (z_after z) as [|x vx kx af'] eqn:Ea; [discriminate|].
      cbn [hd_slot head_text] in *.
      destruct vp as [| | tp | | | |]; try discriminate. destruct vx as [| | tx | | | |]; try discriminate.
      set (v := z_val z) in *. set (k := z_kids z) in *. set (ups := z_ups z) in *.
      assert (z = mkz c v k (FCons p (VText tp) kp bf') (FCons x (VText tx) kx af') ups) as Ez.
      { destruct z; cbn in *. subst. reflexivity. }
      assert (exists b0 a0, outer_of b0 a0 ups = (FNil, FNil)) as Hout by (unfold top_clean in Htc; eauto).
      (* cursors of the two neighbours *)
      assert (cur st x = Some (mkz x (VText tx) kx (FCons c v k (FCons p (VText tp) kp bf')) af' ups)) as Hcx.
      { refine (cur_move st c z (mkz x (VText tx) kx (FCons c v k (FCons p (VText tp) kp bf')) af' ups) (proj1 W) Hc _).
        left. rewrite Ez. reflexivity. }
      assert (cur st p = Some (mkz p (VText tp) kp bf' (FCons c v k (FCons x (VText tx) kx af')) ups)) as Hcp.
      { refine (cur_move st c z (mkz p (VText tp) kp bf' (FCons c v k (FCons x (VText tx) kx af')) ups) (proj1 W) Hc _).
        right. left. rewrite Ez. reflexivity. }
      assert (kx = FNil) as -> by (apply (text_leaf st x _ W Hcx); reflexivity).
      unfold remove_consolidate in Hrc. rewrite Hcons, (val_of_cur _ _ _ Hcp), (val_of_cur _ _ _ Hcx) in Hrc. cbn [negb z_val mkz] in Hrc.
      inversion Hrc; subst st1 m. clear Hrc.
      set (g := append_text_to tx).
      set (zp := mkz p (VText tp) kp bf' (FCons c v k (FCons x (VText tx) FNil af')) ups).
      assert (top_clean zp) as Htcp by (apply top_clean_inner; assumption).
      assert (store st = fapp A (fapp (plug zp) B)) as Ep by (rewrite E, Ez; reflexivity).
      pose proof (fact_inner (a_val g) (store st) zp A B (proj1 W) Htcp Hne Ep) as E1. unfold zp in E1.
      cbn [z_before z_val z_kids z_after z_slot z_ups mkz a_val] in E1. rewrite <- fset_val_fact in E1.
      set (zx := mkz x (VText tx) FNil (FCons c v k (FCons p (g (VText tp)) kp bf')) af' ups).
      assert (top_clean zx) as Htcx by (apply top_clean_inner; assumption).
      assert (NoDup (ids (fset_val p g (store st)))) as Hnd1 by (rewrite store_ids_fset_val; exact (proj1 W)).
      pose proof (fact_inner a_splice _ zx A B Hnd1 Htcx Hne E1) as E2. unfold zx in E2.
      cbn [z_before z_val z_kids z_after z_slot z_ups mkz a_splice fapp] in E2. rewrite <- fsplice_fact in E2.
      set (z1 := mkz c v k (FCons p (g (VText tp)) kp bf') af' ups).
      assert (store (remove_single_raw (with_store st (fset_val p g (store st))) x) = fapp A (fapp (plug z1) B)) as Es1 by exact E2.
      exists z1. split; [|split; [exact Es1|]].
      * refine (cur_of_view _ z1 A B (Good_WF _ G1) _ Es1). apply top_clean_inner; assumption.
      * split; [reflexivity|]. split; [reflexivity|]. split; [reflexivity|]. split; [|discriminate].
        intros _. cbn [z_before z_after z1 mkz head_text].
        destruct (na_parts st z A B E Hna) as (_ & _ & _ & _ & _ & _ & _ & Hin). destruct (Hin Hne) as (_ & Hla & _ & _).
        rewrite Ea in Hla. cbn [na_list is_text_val] in Hla. apply andb_true_iff in Hla as [Hla _].
        destruct (head_text af'); [discriminate|]. rewrite andb_false_r. reflexivity.
    + (* not both text: nothing happens *)
      destruct (rc_cases _ _ _ _ _ Hrc) as [[-> ->]|[-> _]].
      * apply Hunch; auto.
      * exfalso. (* a merge needs two text values *)
        unfold remove_consolidate in Hrc. rewrite Hcons in Hrc. cbn [negb] in Hrc.
        unfold tprev, tnext in Htp, Htn.
        destruct (q_prev st c) as [p|] eqn:Ep; [|inversion Hrc; subst; discriminate].
        destruct (q_next st c) as [x'|] eqn:Ex; [|inversion Hrc; subst; discriminate].
        unfold is_type in Htp, Htn.
        destruct (val st p) as [[]|]; try (inversion Hrc; subst; discriminate).
        destruct (val st x') as [[]|]; try (inversion Hrc; subst; discriminate).
        cbn in Htp, Htn. rewrite <- Htp, <- Htn in Hj. discriminate.
Qed.

(* ---------- moving a subtree: the cut, then the insertion into the child list of a node ---------- *)

Lemma na_cut st z A B : store st = fapp A (fapp (plug z) B) -> noadj st ->
  (z_ups z <> [] -> head_text (z_before z) && head_text (z_after z) = false) -> na (cut_store z A B) = true.
Proof.
  intros E Hna Hj. destruct (na_parts st z A B E Hna) as (HA & HB & Hctx & Hbf & Haf & _ & _ & Hin). unfold cut_store.
  destruct (z_ups z) as [|fr ups] eqn:Eu; [rewrite na_fapp, HA, HB; reflexivity|].
  rewrite <- Eu in *. assert (z_ups z <> []) as Hne by (rewrite Eu; discriminate).
  destruct (Hin Hne) as (Hlb & Hla & _ & _).
  rewrite na_store, (lev_inner _ _ Hne), na_list_frev_app, na_frev_app, HA, HB, Hctx, Hbf, Haf, Hlb, Hla, (Hj Hne). reflexivity.
Qed.

Lemma WF_cut st c f' t : WF st -> fcut c (store st) = Some (f', t) -> WF (with_store st f').
Proof.
  intros [Hnd Hsh] Hcut. destruct t as [[i v] k]. split; cbn [store with_store].
  - pose proof (fcut_ids _ _ _ _ _ _ Hcut) as Hp. eapply Permutation_NoDup in Hnd; [|exact Hp].
    inversion Hnd; subst. apply NoDup_app_inv in H2. tauto.
  - apply (shape_fcut _ _ _ _ _ _ _ _ (Nat.le_0_l _) Hsh Hcut).
Qed.

(* a change of the child list of [p] that keeps it free of adjacent text keeps the store so *)
Lemma na_map_kids st p zp g : WF st -> noadj st -> cur st p = Some zp ->
  na_list (g (z_kids zp)) = true -> na (g (z_kids zp)) = true -> na (fmap_kids p g (store st)) = true.
Proof.
  intros W Hna Hc H1 H2. destruct (zview _ _ _ Hc) as [Htc (A & B & E)]. pose proof (cur_slot _ _ _ Hc) as Hs.
  destruct (na_parts st zp A B E Hna) as (HA & HB & Hctx & Hbf & Haf & _ & _ & Hin).
  rewrite fmap_kids_fact. destruct (z_ups zp) as [|fr ups] eqn:Eu.
  - rewrite (plug_root zp Htc Eu) in E. cbn [fapp] in E. rewrite Hs in E.
    rewrite (fact_root (a_kids g) _ _ _ _ _ _ (proj1 W) E). unfold a_kids. rewrite na_fapp. cbn [na]. rewrite HA, HB, H1, H2. reflexivity.
  - rewrite <- Eu in *. assert (z_ups zp <> []) as Hne by (rewrite Eu; discriminate).
    rewrite <- Hs, (fact_inner (a_kids g) _ zp A B (proj1 W) Htc Hne E). unfold a_kids.
    destruct (Hin Hne) as (Hlb & Hla & Hjb & Hja).
    rewrite na_store, (lev_inner _ _ Hne), na_list_frev_app, na_frev_app. cbn [na_list na head_text].
    rewrite HA, HB, Hctx, Hbf, Haf, Hlb, Hla, H1, H2, Hja. rewrite andb_comm in Hjb. rewrite Hjb. reflexivity.
Qed.

(* the insertion of the tree of [c] into the children of [P], after the cut *)
Lemma move_into st c z A B P zP (g : forest -> forest -> forest) (ins : forest -> forest -> forest) :
  Good st -> noadj st -> cur st c = Some z -> store st = fapp A (fapp (plug z) B) ->
  (z_ups z <> [] -> head_text (z_before z) && head_text (z_after z) = false) ->
  cur st P = Some zP -> P <> c -> ~ In P (subtree_ids c (store st)) ->
  (forall f' vP, NoDup (ids f') -> find P f' = Some (vP, fact a_drop c (z_kids zP)) ->
     ins (FCons c (z_val z) (z_kids z) FNil) f' = fmap_kids P (g (FCons c (z_val z) (z_kids z) FNil)) f') ->
  (forall kP2, kP2 = fact a_drop c (z_kids zP) -> na_list kP2 = true -> na kP2 = true ->
     na_list (g (FCons c (z_val z) (z_kids z) FNil) kP2) = true /\ na (g (FCons c (z_val z) (z_kids z) FNil) kP2) = true) ->
  noadj (move st c ins).
Proof.
  intros G Hna Hc E Hj HP Hne Hsub Hins Hg. pose proof (Good_WF _ G) as W.
  unfold move, noadj. pose proof (fcut_view st c z A B W Hc E) as Hcut. rewrite Hcut. cbn [store with_store single].
  set (f' := cut_store z A B) in *.
  set (s2 := with_store st f').
  pose proof (WF_cut st c f' _ W Hcut) as W2. fold s2 in W2.
  assert (noadj s2) as Hna2 by (unfold noadj, s2; cbn [store with_store]; apply (na_cut st z A B E Hna Hj)).
  assert (In P (ids f')) as HPin.
  { eapply fcut_keeps; [exact Hcut| |exact Hsub]. apply locate_slot in HP. tauto. }
  destruct (locate_found _ _ HPin) as [zP2 HP2]. change (locate P f') with (cur s2 P) in HP2.
  pose proof (find_of_cur _ _ _ HP2) as F2. cbn [store s2 with_store] in F2.
  assert (find P f' = Some (z_val zP, fact a_drop c (z_kids zP))) as F2'.
  { rewrite (fcut_fact _ _ _ _ (proj1 W) Hcut).
    apply (find_drop c (store st) (proj1 W) P _ _ (find_of_cur _ _ _ HP) Hne Hsub). }
  assert (z_kids zP2 = fact a_drop c (z_kids zP)) as Hk by (rewrite F2' in F2; inversion F2; reflexivity).
  rewrite (Hins f' _ (proj1 W2) F2').
  destruct (zview _ _ _ HP2) as [_ (A2 & B2 & E2)].
  destruct (na_parts s2 zP2 A2 B2 E2 Hna2) as (_ & _ & _ & _ & _ & Hk1 & Hk2 & _).
  destruct (Hg (z_kids zP2) Hk Hk1 Hk2) as [G1 G2].
  change f' with (store s2). apply (na_map_kids s2 P zP2 _ W2 Hna2 HP2 G1 G2).
Qed.

(* an action on a node below [P] only touches the children of [P] *)
Lemma fact_via_parent act n P f : NoDup (ids f) -> forall vP kP, find P f = Some (vP, kP) -> In n (ids kP) ->
  fact act n f = fmap_kids P (fact act n) f.
Proof.
  induction f as [|i v k IHk r IHr]; intros Hnd vP kP Hf Hin; [discriminate|].
  cbn [ids] in Hnd. apply NoDup_cons_app_inv in Hnd as (Hik & Hir & Hk & Hr & Hkr).
  cbn [find] in Hf. cbn [fact fmap_kids].
  destruct (N.eqb_spec i P) as [->|HiP].
  - inversion Hf; subst v k.
    assert (P <> n) as Hn by (intros ->; contradiction). apply N.eqb_neq in Hn. rewrite Hn.
    rewrite (fact_absent act n r); [reflexivity|]. intros Hx. eapply NoDup_app_not_in; [exact Hkr|exact Hin|exact Hx].
  - destruct (find P k) as [[v1 k1]|] eqn:Ek.
    + inversion Hf; subst v1 k1. assert (In n (ids k)) as Hnk by (eapply find_incl; [exact Ek|right; exact Hin]).
      assert (i <> n) as Hn by (intros ->; contradiction). apply N.eqb_neq in Hn. rewrite Hn.
      rewrite (IHk Hk _ _ eq_refl Hin).
      rewrite (fact_absent act n r) by (intros Hx; eapply NoDup_app_not_in; [exact Hkr|exact Hnk|exact Hx]).
      rewrite (fmap_kids_absent P _ r); [reflexivity|].
      intros Hx. eapply NoDup_app_not_in; [exact Hkr|eapply find_in; exact Ek|exact Hx].
    + assert (In n (ids r)) as Hnr by (eapply find_incl; [exact Hf|right; exact Hin]).
      assert (i <> n) as Hn by (intros ->; contradiction). apply N.eqb_neq in Hn. rewrite Hn.
      rewrite (IHr Hr _ _ Hf Hin).
      rewrite (fact_absent act n k) by (intros Hx; eapply NoDup_app_not_in; [exact Hkr|exact Hx|exact Hnr]).
      rewrite (fmap_kids_absent P _ k); [reflexivity|]. apply find_none. exact Ek.
Qed.

(* ---------- the flag is only changed by set_text_consolidation ---------- *)

Lemma cons_rc st a b : cons (fst (remove_consolidate st a b)) = cons st.
Proof.
  destruct (remove_consolidate st a b) as [st1 m] eqn:E. destruct (rc_cases _ _ _ _ _ E) as [[_ ->]|[_ (n & _ & (t & g & s & _ & _ & _ & _ & ->))]]; reflexivity.
Qed.

Lemma cons_ac st n a b : cons (fst (add_consolidate st n a b)) = cons st.
Proof.
  destruct (add_consolidate st n a b) as [st1 m] eqn:E. destruct (ac_cases _ _ _ _ _ _ E) as [[_ ->]|[_ (t & g & s & _ & _ & _ & _ & ->)]]; reflexivity.
Qed.

Lemma cons_move st c ins : cons (move st c ins) = cons st.
Proof. unfold move. destruct (fcut c (store st)) as [[f' t]|]; reflexivity. Qed.

(* ---------- what the queries about the children of a node say about its child list ---------- *)

Lemma last_text_q st P zP : WF st -> cur st P = Some zP -> last_text (z_kids zP) = true ->
  exists L, q_last_child st P = Some L /\ is_type st L TText = true.
Proof.
  intros W HP Hl. unfold q_last_child, last_child. rewrite HP. unfold last_text in Hl.
  destruct (down_last zP) as [l|] eqn:Ed; unfold down_last in Ed; destruct (frev (z_kids zP)) as [|i v k r] eqn:Ef; try discriminate.
  inversion Ed; subst l. cbn [head_text] in Hl. unfold znormal. cbn [z_val]. rewrite (is_text_normal _ Hl). cbn [oslot z_slot].
  exists i. split; [reflexivity|].
  assert (down_last zP = Some {| z_slot := i; z_val := v; z_kids := k; z_before := r; z_after := FNil;
            z_ups := {| fr_slot := z_slot zP; fr_val := z_val zP; fr_before := z_before zP; fr_after := z_after zP |} :: z_ups zP |}) as Hd
    by (unfold down_last; rewrite Ef; reflexivity).
  pose proof (cur_move st P zP _ (proj1 W) HP (or_intror (or_intror (or_intror (or_intror Hd))))) as Hc. cbn [z_slot] in Hc.
  rewrite (is_type_text_val _ _ _ (val_of_cur _ _ _ Hc)). exact Hl.
Qed.

Lemma ac_prev_text st c s L : cons st = true -> val st c = Some (VText s) -> is_type st L TText = true ->
  forall nx, snd (add_consolidate st c (Some L) nx) = true.
Proof.
  intros Hcons Hv Ht nx. unfold add_consolidate. rewrite Hcons, Hv. cbn [negb]. unfold is_type in Ht.
  destruct (val st L) as [[]|]; try discriminate. reflexivity.
Qed.

Lemma ac_next_text st c s pv L : cons st = true -> val st c = Some (VText s) -> is_type st L TText = true ->
  snd (add_consolidate st c pv (Some L)) = true.
Proof.
  intros Hcons Hv Ht. unfold add_consolidate. rewrite Hcons, Hv. cbn [negb]. unfold is_type in Ht.
  destruct (val st L) as [[]|] eqn:EL; try discriminate.
  destruct pv as [p|]; [|reflexivity]. destruct (val st p) as [[]|]; reflexivity.
Qed.

Lemma text_value v : is_text_val v = true -> exists s, v = VText s.
Proof. destruct v; try discriminate. eauto. Qed.

Lemma fapp_nil_r' a : fapp a FNil = a.
Proof. apply fapp_nil. Qed.

(* the value of [c] wherever it shows in a sub-list of the store *)
Lemma value_in_sub st c z k : WF st -> cur st c = Some z -> incl (nodes k) (nodes (store st)) ->
  forall v, In (c, v) (nodes k) -> v = z_val z.
Proof.
  intros W Hc Hincl v Hin. apply Hincl in Hin. pose proof (val_nodes _ _ _ (val_of_cur _ _ _ Hc)) as H2.
  eapply nodes_functional; [exact (proj1 W)|exact Hin|exact H2].
Qed.

Lemma kids_nodes_incl st P zP : cur st P = Some zP -> incl (nodes (z_kids zP)) (nodes (store st)).
Proof. intros H. eapply find_nodes_incl. apply find_of_cur. exact H. Qed.

Lemma kids_nodup st P zP : WF st -> cur st P = Some zP -> NoDup (ids (z_kids zP)).
Proof.
  intros W H. destruct (zview _ _ _ H) as [_ (A & B & E)]. pose proof (proj1 W) as Hnd. rewrite E, !ids_fapp in Hnd.
  apply NoDup_app_inv in Hnd as [_ Hnd]. apply NoDup_app_inv in Hnd as [Hnd _]. unfold plug in Hnd.
  destruct (nodup_plug_ups_inv _ _ Hnd) as [HL _]. unfold z_level in HL.
  eapply Permutation_NoDup in HL; [|apply ids_frev_app]. cbn [ids] in HL. apply NoDup_app_inv in HL as [_ HL].
  apply NoDup_cons_app_inv in HL. tauto.
Qed.

(* ---------- the neighbour handed to add_consolidate is never the node itself ----------
   append and insert_before look for the new neighbour after the consolidation at the old place; where that neighbour is the
   node itself, its own previous sibling is taken (src/manipulation.rs).  In a store without adjacent text nodes this changes
   nothing: there the neighbour can be the node itself only when the node is no text node, and then nothing is merged. *)
Lemma ac_nontext st c a b : (forall s, val st c <> Some (VText s)) -> add_consolidate st c a b = (st, false).
Proof.
  intros H. unfold add_consolidate. destruct (negb (cons st)); [reflexivity|].
  destruct (val st c) as [[]|] eqn:E; try reflexivity. exfalso. eapply H. reflexivity.
Qed.

Lemma last_guard_off st p c : opt_eqb (q_raw_last_child st p) (Some c) = false ->
  (if opt_eqb (q_last_child st p) (Some c) then q_prev st c else q_last_child st p) = q_last_child st p.
Proof.
  intros H. destruct (opt_eqb (q_last_child st p) (Some c)) eqn:E; [|reflexivity]. exfalso.
  unfold q_last_child in E. unfold q_raw_last_child in H. destruct (cur st p) as [zp|]; [|discriminate].
  unfold last_child in E. destruct (down_last zp) as [l|]; [|discriminate]. destruct (znormal l); [|discriminate].
  cbn [oslot] in *. rewrite E in H. discriminate.
Qed.

Lemma text_node_no_rc st c z st1 m : Good st -> cons st = true -> noadj st -> cur st c = Some z -> is_text_val (z_val z) = true ->
  remove_consolidate st (q_prev st c) (q_next st c) = (st1, m) -> m = false /\ st1 = st.
Proof.
  intros G Hcons Hna Hc Ht E. pose proof (Good_WF _ G) as W.
  unfold remove_consolidate in E. rewrite Hcons in E. cbn [negb] in E.
  destruct (q_prev st c) as [p|] eqn:Ep; [|inversion E; auto]. destruct (q_next st c) as [n|]; [|inversion E; auto].
  destruct (val st p) as [vp|] eqn:Evp; [|inversion E; auto].
  destruct (is_text_val vp) eqn:Etp; [|destruct vp; try discriminate Etp; inversion E; auto].
  destruct (val st n) as [vn|] eqn:Evn; [|destruct vp; inversion E; auto].
  destruct (is_text_val vn) eqn:Etn; [|destruct vp; try discriminate Etp; destruct vn; try discriminate Etn; inversion E; auto].
  exfalso.
  assert (z_ups z <> []) as Hne by (intros Hu; destruct (q_prev_root st c z Hc Hu) as [H _]; congruence).
  assert (is_normal (z_val z) = true) as Hn by (apply text_is_normal; exact Ht).
  destruct (tprev_spec st c z W Hc Hne Hn) as [Htp _].
  unfold tprev in Htp. rewrite Ep, (is_type_text_val _ _ _ Evp), Etp in Htp.
  destruct (zview _ _ _ Hc) as [_ (A & B & Ez)].
  destruct (na_parts st z A B Ez Hna) as (_ & _ & _ & _ & _ & _ & _ & Hin). destruct (Hin Hne) as (_ & _ & H & _).
  rewrite Ht, <- Htp in H. discriminate.
Qed.

Lemma rc_value st c z st1 m : Good st -> cons st = true -> noadj st -> cur st c = Some z -> is_normal (z_val z) = true ->
  remove_consolidate st (q_prev st c) (q_next st c) = (st1, m) ->
  cur st1 c <> None /\ forall z1, cur st1 c = Some z1 -> z_val z1 = z_val z.
Proof.
  intros G Hcons Hna Hc Hn E. destruct (zview _ _ _ Hc) as [_ (A & B & Ez)].
  destruct (step1_view st c z A B st1 m G Hcons Hna Hc Ez Hn E) as (_ & _ & _ & z1 & Hc1 & _ & Hv1 & _).
  split; [rewrite Hc1; discriminate|]. intros z' Hz'. rewrite Hc1 in Hz'. inversion Hz'; subst. exact Hv1.
Qed.

Lemma append_neighbour_noadj st p c z st1 m : Good st -> cons st = true -> noadj st -> cur st c = Some z ->
  opt_eqb (q_raw_last_child st p) (Some c) = false ->
  remove_consolidate st (q_prev st c) (q_next st c) = (st1, m) -> cur st1 c <> None -> (forall z1, cur st1 c = Some z1 -> z_val z1 = z_val z) ->
  add_consolidate st1 c (if opt_eqb (q_last_child st1 p) (Some c) then q_prev st1 c else q_last_child st1 p) None
  = add_consolidate st1 c (q_last_child st1 p) None.
Proof.
  intros G Hcons Hna Hc Hraw E Hlive Hval. destruct (opt_eqb (q_last_child st1 p) (Some c)) eqn:Eg; [|reflexivity].
  destruct (is_text_val (z_val z)) eqn:Ht.
  - (* a text node: nothing was merged where it stood, so it is the last child in the store the call found *)
    exfalso. destruct (text_node_no_rc st c z st1 m G Hcons Hna Hc Ht E) as [_ ->].
    unfold q_last_child in Eg. unfold q_raw_last_child in Hraw. destruct (cur st p) as [zp|]; [|discriminate].
    unfold last_child in Eg. destruct (down_last zp) as [l|]; [|discriminate]. destruct (znormal l); [|discriminate].
    cbn [oslot] in *. rewrite Eg in Hraw. discriminate.
  - assert (forall s, val st1 c <> Some (VText s)) as Hnt.
    { intros s Hv. unfold val in Hv. destruct (cur st1 c) as [z1|] eqn:Ec1; [|discriminate]. rewrite (Hval z1 eq_refl) in Hv.
      inversion Hv as [Hz]. rewrite Hz in Ht. discriminate. }
    rewrite !(ac_nontext st1 c _ _ Hnt). reflexivity.
Qed.

Lemma prev_next_q st x y : NoDup (ids (store st)) -> q_prev st x = Some y -> q_next st y = Some x.
Proof.
  intros Hnd H. destruct (q_prev_cur st x y Hnd H) as (z & s & Hz & Hs & Hr & _).
  unfold q_prev in H. rewrite Hz in H. unfold previous_sibling in H. rewrite Hr in H.
  destruct (vcat_eqb (zcat z) (zcat s)) eqn:Ec; [|discriminate].
  unfold q_next. rewrite Hs. unfold next_sibling, Zipper.right. unfold Zipper.left in Hr.
  destruct (z_before z) as [|i v k r]; [discriminate|]. inversion Hr; subst s. cbn [z_before z_slot z_val z_kids z_after z_ups].
  unfold zcat in *. cbn [z_val] in *.
  assert (vcat_eqb (value_category v) (value_category (z_val z)) = true) as -> by (destruct (value_category v), (value_category (z_val z)); try discriminate; reflexivity).
  cbn. rewrite (cur_slot _ _ _ Hz). reflexivity.
Qed.

Lemma insert_before_neighbour_noadj st ref new z st1 m : Good st -> cons st = true -> noadj st -> cur st new = Some z ->
  opt_eqb (q_next st new) (Some ref) = false ->
  remove_consolidate st (q_prev st new) (q_next st new) = (st1, m) -> (forall z1, cur st1 new = Some z1 -> z_val z1 = z_val z) ->
  add_consolidate st1 new (if opt_eqb (q_prev st1 ref) (Some new) then q_prev st1 new else q_prev st1 ref) (Some ref)
  = add_consolidate st1 new (q_prev st1 ref) (Some ref).
Proof.
  intros G Hcons Hna Hc Hearly E Hval. destruct (opt_eqb (q_prev st1 ref) (Some new)) eqn:Eg; [|reflexivity].
  destruct (is_text_val (z_val z)) eqn:Ht.
  - exfalso. destruct (text_node_no_rc st new z st1 m G Hcons Hna Hc Ht E) as [_ ->].
    destruct (q_prev st ref) as [x|] eqn:Ex; [|discriminate]. cbn [opt_eqb] in Eg. apply N.eqb_eq in Eg. subst x.
    pose proof (prev_next_q st ref new (Good_nodup _ G) Ex) as Hn. rewrite Hn in Hearly. cbn [opt_eqb] in Hearly. rewrite N.eqb_refl in Hearly. discriminate.
  - assert (forall s, val st1 new <> Some (VText s)) as Hnt.
    { intros s Hv. unfold val in Hv. destruct (cur st1 new) as [z1|] eqn:Ec1; [|discriminate]. rewrite (Hval z1 eq_refl) in Hv.
      inversion Hv as [Hz]. rewrite Hz in Ht. discriminate. }
    rewrite !(ac_nontext st1 new _ _ Hnt). reflexivity.
Qed.

Lemma noadj_m_append st p c : Good st -> cons st = true -> noadj st -> noadj (fst (m_append st p c)).
Proof.
  intros G Hcons Hna. unfold m_append.
  destruct (structure_check st (Some p) c) eqn:Hsc; cbn [negb]; [|exact Hna].
  destruct (opt_eqb (q_raw_last_child st p) (Some c)) eqn:Eraw; [exact Hna|].
  destruct (remove_consolidate st (q_prev st c) (q_next st c)) as [st1 m0] eqn:E1.
  destruct (structure_check_facts _ _ _ Hsc) as (Hanc & (vp0 & Hvp0 & Hcont) & (vc0 & Hvc0 & Hcok)).
  destruct (cur st c) as [z|] eqn:Hc; [|unfold val in Hvc0; rewrite Hc in Hvc0; discriminate].
  assert (z_val z = vc0) as Hzv by (unfold val in Hvc0; rewrite Hc in Hvc0; inversion Hvc0; reflexivity).
  assert (is_normal (z_val z) = true) as Hn by (rewrite Hzv; unfold child_ok in Hcok; apply andb_true_iff in Hcok; tauto).
  destruct (zview _ _ _ Hc) as [_ (A & B & E)].
  destruct (step1_view st c z A B st1 m0 G Hcons Hna Hc E Hn E1) as (G1 & Hcons1 & Hna1 & z1 & Hc1 & Es1 & Hv1 & Hk1 & Hu1 & Hj1 & _).
  cbv zeta. rewrite (append_neighbour_noadj st p c z st1 m0 G Hcons Hna Hc Eraw E1 ltac:(rewrite Hc1; discriminate) ltac:(intros z' Hz'; rewrite Hc1 in Hz'; inversion Hz'; subst; exact Hv1)).
  destruct (add_consolidate st1 c (q_last_child st1 p) None) as [st2 m] eqn:E2.
  destruct (ac_cases _ _ _ _ _ _ E2) as [[-> ->]|[-> Hm]]; cbn [fst].
  2:{ apply (noadj_merged st1 st2 c G1 Hna1 Hm). }
  pose proof (Good_WF _ G1) as W1.
  destruct (rc_keeps _ _ _ _ _ G E1) as [Hl Hk].
  assert (In p (ids (store st1))) as Hpin.
  { apply Hk; [eapply val_in_ids; exact Hvp0|]. right. right. eapply container_not_text; eauto. }
  destruct (locate_found _ _ Hpin) as [zP HP]. change (locate p (store st1)) with (cur st1 p) in HP.
  assert (~ In p (subtree_ids c (store st))) as Hsub0.
  { eapply not_ancestor_not_below; [apply Good_nodup; exact G|eapply val_cur; exact Hvp0|exact Hanc]. }
  assert (p <> c) as Hpc.
  { intros ->. apply Hsub0. unfold subtree_ids. rewrite (find_of_cur _ _ _ Hc). left. reflexivity. }
  apply (move_into st1 c z1 A B p zP (fun t k => fapp k t) _ G1 Hna1 Hc1 Es1); try assumption.
  - rewrite Hu1. exact Hj1.
  - intros Hx. apply Hsub0. apply (proj2 Hl). exact Hx.
  - reflexivity.
  - intros kP2 HkP2 L1 L2.
    destruct (zview _ _ _ Hc1) as [_ (A1 & B1 & Ez1)].
    destruct (na_parts st1 z1 A1 B1 Ez1 Hna1) as (_ & _ & _ & _ & _ & Kc1 & Kc2 & _).
    split.
    + rewrite <- (fapp_nil_r' kP2) in L1. apply na_list_insert; [exact L1|]. intros Ht. split; [|reflexivity].
      destruct (last_text kP2) eqn:El; [|reflexivity]. exfalso.
      destruct (zview _ _ _ HP) as [_ (AP & BP & EP)].
      destruct (na_parts st1 zP AP BP EP Hna1) as (_ & _ & _ & _ & _ & KP1 & _ & _).
      rewrite HkP2 in El. apply (last_text_drop c (z_kids zP) (kids_nodup st1 p zP W1 HP) KP1) in El.
      2:{ intros v Hv. rewrite (value_in_sub st1 c z1 (z_kids zP) W1 Hc1 (kids_nodes_incl _ _ _ HP) v Hv). exact Ht. }
      destruct (last_text_q st1 p zP W1 HP El) as (L & HL & HLt). rewrite HL in E2.
      destruct (text_value _ Ht) as [s Hs].
      pose proof (ac_prev_text st1 c s L Hcons1 ltac:(rewrite (val_of_cur _ _ _ Hc1), Hs; reflexivity) HLt None) as Hm.
      rewrite E2 in Hm. discriminate.
    + rewrite na_insert, fapp_nil_r', L2, Kc1, Kc2. reflexivity.
Qed.

(* ---------- prepend ---------- *)

Definition hd_pair (f : forest) : option node := match f with FCons i v _ _ => Some (i, v) | FNil => None end.

Lemma first_normal_level f : forall ups b,
  option_map zpair (hd_error (skip_while (fun c => negb (znormal c)) (zs_level ups b f))) = hd_pair (nrm_part f).
Proof.
  induction f as [|i v k _ r IH]; intros ups b; cbn [zs_level skip_while nrm_part]; [reflexivity|].
  unfold znormal at 1. cbn [z_val mkz]. destruct (is_normal v); cbn [negb]; [reflexivity|]. apply IH.
Qed.

Lemma first_text_q st P zP : WF st -> cur st P = Some zP -> head_text (nrm_part (z_kids zP)) = true ->
  exists F, q_first_child st P = Some F /\ is_type st F TText = true.
Proof.
  intros W HP Hh. unfold q_first_child, first_child, normal_children, arena_children. rewrite HP.
  pose proof (first_normal_level (z_kids zP) (frame_of zP :: z_ups zP) FNil) as H.
  destruct (nrm_part (z_kids zP)) as [|i v k r] eqn:En; [discriminate|]. cbn [hd_pair head_text] in *.
  destruct (hd_error _) as [c|]; [|discriminate]. cbn [option_map] in H. inversion H as [[H1 H2]].
  exists (z_slot c). split; [reflexivity|]. rewrite H1.
  assert (In (i, v) (nodes (store st))) as Hin.
  { apply (kids_nodes_incl _ _ _ HP). rewrite (abn_nrm (z_kids zP)), nodes_fapp, En. apply in_or_app. right. left. reflexivity. }
  rewrite (is_type_text_val st i v (nodes_val _ _ _ (proj1 W) Hin)). exact Hh.
Qed.

Lemma noadj_m_prepend st p c : Good st -> cons st = true -> noadj st -> noadj (fst (m_prepend st p c)).
Proof.
  intros G Hcons Hna. unfold m_prepend.
  destruct (structure_check st (Some p) c) eqn:Hsc; cbn [negb]; [|exact Hna].
  destruct (opt_eqb (q_first_child st p) (Some c)); [exact Hna|].
  destruct (remove_consolidate st (q_prev st c) (q_next st c)) as [st1 m0] eqn:E1.
  destruct (add_consolidate st1 c None (q_first_child st1 p)) as [st2 m] eqn:E2.
  destruct (structure_check_facts _ _ _ Hsc) as (Hanc & (vp0 & Hvp0 & Hcont) & (vc0 & Hvc0 & Hcok)).
  destruct (cur st c) as [z|] eqn:Hc; [|unfold val in Hvc0; rewrite Hc in Hvc0; discriminate].
  assert (z_val z = vc0) as Hzv by (unfold val in Hvc0; rewrite Hc in Hvc0; inversion Hvc0; reflexivity).
  assert (is_normal (z_val z) = true) as Hn by (rewrite Hzv; unfold child_ok in Hcok; apply andb_true_iff in Hcok; tauto).
  destruct (zview _ _ _ Hc) as [_ (A & B & E)].
  destruct (step1_view st c z A B st1 m0 G Hcons Hna Hc E Hn E1) as (G1 & Hcons1 & Hna1 & z1 & Hc1 & Es1 & Hv1 & Hk1 & Hu1 & Hj1 & _).
  destruct (ac_cases _ _ _ _ _ _ E2) as [[-> ->]|[-> Hm]]; cbn [fst].
  2:{ apply (noadj_merged st1 st2 c G1 Hna1 Hm). }
  pose proof (Good_WF _ G1) as W1.
  destruct (rc_keeps _ _ _ _ _ G E1) as [Hl Hk].
  assert (In p (ids (store st1))) as Hpin.
  { apply Hk; [eapply val_in_ids; exact Hvp0|]. right. right. eapply container_not_text; eauto. }
  destruct (locate_found _ _ Hpin) as [zP HP]. change (locate p (store st1)) with (cur st1 p) in HP.
  assert (~ In p (subtree_ids c (store st))) as Hsub0.
  { eapply not_ancestor_not_below; [apply Good_nodup; exact G|eapply val_cur; exact Hvp0|exact Hanc]. }
  assert (p <> c) as Hpc.
  { intros ->. apply Hsub0. unfold subtree_ids. rewrite (find_of_cur _ _ _ Hc). left. reflexivity. }
  apply (move_into st1 c z1 A B p zP insert_first_normal _ G1 Hna1 Hc1 Es1); try assumption.
  - rewrite Hu1. exact Hj1.
  - intros Hx. apply Hsub0. apply (proj2 Hl). exact Hx.
  - reflexivity.
  - intros kP2 HkP2 L1 L2.
    destruct (zview _ _ _ Hc1) as [_ (A1 & B1 & Ez1)].
    destruct (na_parts st1 z1 A1 B1 Ez1 Hna1) as (_ & _ & _ & _ & _ & Kc1 & Kc2 & _).
    rewrite insert_first_normal_split. cbn [fapp]. split.
    + apply na_list_insert; [rewrite <- abn_nrm; exact L1|]. intros Ht. split; [apply last_text_abn|].
      destruct (head_text (nrm_part kP2)) eqn:El; [|reflexivity]. exfalso.
      destruct (zview _ _ _ HP) as [_ (AP & BP & EP)].
      destruct (na_parts st1 zP AP BP EP Hna1) as (_ & _ & _ & _ & _ & KP1 & _ & _).
      rewrite HkP2 in El. apply (head_text_nrm_drop c (z_kids zP) KP1) in El.
      2:{ intros v Hv. rewrite (value_in_sub st1 c z1 (z_kids zP) W1 Hc1 (kids_nodes_incl _ _ _ HP) v Hv). exact Ht. }
      destruct (first_text_q st1 p zP W1 HP El) as (L & HL & HLt). rewrite HL in E2.
      destruct (text_value _ Ht) as [s Hs].
      pose proof (ac_next_text st1 c s None L Hcons1 ltac:(rewrite (val_of_cur _ _ _ Hc1), Hs; reflexivity) HLt) as Hm.
      rewrite E2 in Hm. discriminate.
    + rewrite na_insert, <- abn_nrm, L2, Kc1, Kc2. reflexivity.
Qed.

(* ---------- insert_after / insert_before ---------- *)

Lemma path_merged st st1 gone x : Good st -> merged_text st st1 gone -> x <> gone ->
  path_in x (store st1) = path_in x (store st).
Proof.
  intros G (t & g & s & Hv & _ & _ & _ & ->) Hx. cbn [remove_single_raw free_slots with_store store].
  rewrite path_in_fsplice_leaf; [apply path_in_fset_val| |auto|exact Hx].
  - rewrite nodes_fset_val_ids. apply Good_nodup. exact G.
  - intros v k Hf. destruct (val_find _ _ _ Hv) as [k0 Hk0].
    assert (k0 = FNil) as -> by (pose proof (shape_find _ _ _ _ _ _ (Good_shape _ G) Hk0) as Hs; destruct k0; [reflexivity|discriminate]).
    pose proof (find_fset_val_ids gone t g (store st)) as Hi. rewrite Hf, Hk0 in Hi. cbn in Hi. apply ids_nil in Hi. exact Hi.
Qed.

Lemma child_in_kids st r zr P l zP : WF st -> cur st r = Some zr -> path_in r (store st) = Some (P :: l) -> cur st P = Some zP ->
  z_kids zP = z_level zr /\ z_ups zr <> [].
Proof.
  intros W Hr Hp HP. rewrite (cur_path _ _ _ Hr) in Hp. destruct (z_ups zr) as [|fr ups] eqn:Eu; [discriminate|].
  cbn [map] in Hp. inversion Hp as [[H1 H2]].
  assert (up zr = Some {| z_slot := fr_slot fr; z_val := fr_val fr; z_kids := z_level zr;
                          z_before := fr_before fr; z_after := fr_after fr; z_ups := ups |}) as Hup by (unfold up; rewrite Eu; reflexivity).
  pose proof (cur_move st r zr _ (proj1 W) Hr (or_intror (or_intror (or_introl Hup)))) as Hc. cbn [z_slot] in Hc.
  rewrite H1, HP in Hc. inversion Hc. split; [reflexivity|discriminate].
Qed.

Lemma fapp_assoc a b c : fapp (fapp a b) c = fapp a (fapp b c).
Proof. induction a as [|i v k _ r IH]; cbn [fapp]; [reflexivity|]. rewrite IH. reflexivity. Qed.

Lemma q_parent_path' st n P : q_parent st n = Some P -> exists l, path_in n (store st) = Some (P :: l).
Proof. rewrite q_parent_of_path. destruct (path_in n (store st)) as [[|P' l]|]; try discriminate. intros H. inversion H. eauto. Qed.

(* the level of [ref] inside the children of its parent, once [c] has been cut out *)
Lemma level_after_drop st ref zr c : WF st -> cur st ref = Some zr -> c <> ref ->
  fact a_drop c (z_level zr)
  = fapp (fact a_drop c (frev (z_before zr))) (FCons ref (z_val zr) (fact a_drop c (z_kids zr)) (fact a_drop c (z_after zr)))
  /\ ~ In ref (ids (fact a_drop c (frev (z_before zr)))).
Proof.
  intros W Hr Hne. pose proof (cur_slot _ _ _ Hr) as Hs.
  destruct (zview _ _ _ Hr) as [_ (A & B & E)]. pose proof (proj1 W) as Hnd. rewrite E, !ids_fapp in Hnd.
  apply NoDup_app_inv in Hnd as [_ Hnd]. apply NoDup_app_inv in Hnd as [Hnd _]. unfold plug in Hnd.
  destruct (nodup_plug_ups_inv _ _ Hnd) as [HL _].
  assert (forall X, frev_app (z_before zr) X = fapp (frev (z_before zr)) X) as Hrev
    by (intros X; rewrite <- frev_app_frev, frev_involutive; reflexivity).
  unfold z_level in *. rewrite Hrev in *. rewrite Hs in *. split.
  - apply drop_split; assumption.
  - intros Hx. apply ids_drop_incl in Hx. rewrite ids_fapp in HL. eapply NoDup_app_not_in; [exact HL|exact Hx|]. left. reflexivity.
Qed.

Lemma last_text_frev b : last_text (frev b) = head_text b.
Proof. unfold last_text. rewrite frev_involutive. reflexivity. Qed.

Lemma andb_false_cases a b : a && b = false -> a = false \/ b = false.
Proof. destruct a, b; auto. Qed.

(* the common part of insert_after / insert_before once the consolidation at the old place is done and nothing was merged
   at the new place *)
Lemma sibling_setup st st1 m0 ref new :
  Good st -> sibling_check st ref new = true ->
  remove_consolidate st (q_prev st new) (q_next st new) = (st1, m0) ->
  m0 && opt_eqb (q_next st new) (Some ref) = false ->
  Good st1 ->
  exists P zP zr, cur st1 P = Some zP /\ cur st1 ref = Some zr /\ z_kids zP = z_level zr /\ z_ups zr <> []
    /\ is_normal (z_val zr) = true /\ P <> new /\ new <> ref /\ ~ In P (subtree_ids new (store st1)).
Proof.
  intros G Hsc E1 Hgone G1.
  destruct (sibling_check_facts _ _ _ Hsc) as (Hne & (vr0 & Hvr0 & Hnr) & (P & HP & Hst)).
  destruct (structure_check_facts _ _ _ Hst) as (Hanc & (vp0 & Hvp0 & Hcont) & (vc0 & Hvc0 & Hcok)).
  destruct (rc_keeps _ _ _ _ _ G E1) as [Hl Hk]. pose proof (Good_WF _ G1) as W1.
  assert (In P (ids (store st1))) as HPin.
  { apply Hk; [eapply val_in_ids; exact Hvp0|]. right. right. eapply container_not_text; eauto. }
  assert (In ref (ids (store st1))) as Hrin.
  { apply Hk; [eapply val_in_ids; exact Hvr0|]. apply andb_false_cases in Hgone as [->|Hg]; [left; reflexivity|].
    right. left. apply opt_eqb_false_ne. exact Hg. }
  destruct (locate_found _ _ HPin) as [zP HzP]. destruct (locate_found _ _ Hrin) as [zr Hzr].
  change (locate P (store st1)) with (cur st1 P) in HzP. change (locate ref (store st1)) with (cur st1 ref) in Hzr.
  exists P, zP, zr. split; [exact HzP|]. split; [exact Hzr|].
  assert (path_in ref (store st1) = path_in ref (store st)) as Hpath.
  { destruct (rc_cases _ _ _ _ _ E1) as [[_ ->]|[-> (x & Hx & Hm)]]; [reflexivity|].
    apply (path_merged st st1 x ref G Hm). intros ->. rewrite Hx in Hgone. cbn in Hgone. rewrite N.eqb_refl in Hgone. discriminate. }
  destruct (q_parent_path' _ _ _ HP) as [l Hl0]. rewrite <- Hpath in Hl0.
  destruct (child_in_kids st1 ref zr P l zP W1 Hzr Hl0 HzP) as [Hkids Hups].
  split; [exact Hkids|]. split; [exact Hups|].
  assert (~ In P (subtree_ids new (store st))) as Hsub0.
  { eapply not_ancestor_not_below; [apply Good_nodup; exact G|eapply val_cur; exact Hvp0|exact Hanc]. }
  split; [|split; [|split]].
  - eapply same_class_normal; [|exact Hnr]. eapply later_value; [exact G|exact Hl|exact Hvr0|].
    apply val_nodes. apply val_of_cur. exact Hzr.
  - intros ->. apply Hsub0. unfold subtree_ids. destruct (val_find _ _ _ Hvc0) as [k0 Hk0]. rewrite Hk0. left. reflexivity.
  - congruence.
  - intros Hx. apply Hsub0. apply (proj2 Hl). exact Hx.
Qed.

Lemma noadj_m_insert_after st ref new : Good st -> cons st = true -> noadj st -> noadj (fst (m_insert_after st ref new)).
Proof.
  intros G Hcons Hna. unfold m_insert_after.
  destruct (sibling_check st ref new) eqn:Hsc; cbn [negb]; [|exact Hna].
  destruct (opt_eqb (q_prev st new) (Some ref)); [exact Hna|].
  destruct (remove_consolidate st (q_prev st new) (q_next st new)) as [st1 m0] eqn:E1.
  destruct (sibling_check_facts _ _ _ Hsc) as (_ & _ & (P0 & _ & Hst)).
  destruct (structure_check_facts _ _ _ Hst) as (_ & _ & (vc0 & Hvc0 & Hcok)).
  destruct (cur st new) as [z|] eqn:Hc; [|unfold val in Hvc0; rewrite Hc in Hvc0; discriminate].
  assert (z_val z = vc0) as Hzv by (unfold val in Hvc0; rewrite Hc in Hvc0; inversion Hvc0; reflexivity).
  assert (is_normal (z_val z) = true) as Hn by (rewrite Hzv; unfold child_ok in Hcok; apply andb_true_iff in Hcok; tauto).
  destruct (zview _ _ _ Hc) as [_ (A & B & E)].
  destruct (step1_view st new z A B st1 m0 G Hcons Hna Hc E Hn E1) as (G1 & Hcons1 & Hna1 & z1 & Hc1 & Es1 & Hv1 & Hk1 & Hu1 & Hj1 & _).
  destruct (m0 && opt_eqb (q_next st new) (Some ref)) eqn:Hgone; [exact Hna1|].
  destruct (add_consolidate st1 new (Some ref) (q_next st1 ref)) as [st2 m] eqn:E2.
  destruct (ac_cases _ _ _ _ _ _ E2) as [[-> ->]|[-> Hm]]; cbn [fst].
  2:{ apply (noadj_merged st1 st2 new G1 Hna1 Hm). }
  pose proof (Good_WF _ G1) as W1.
  destruct (sibling_setup st st1 m0 ref new G Hsc E1 Hgone G1) as (P & zP & zr & HzP & Hzr & Hkids & Hups & Hnr & HPn & Hnr' & Hsub).
  destruct (level_after_drop st1 ref zr new W1 Hzr Hnr') as [Hlev Hnotin].
  set (T := FCons new (z_val z1) (z_kids z1) FNil).
  apply (move_into st1 new z1 A B P zP (fun t k => fact (a_after t) ref k) _ G1 Hna1 Hc1 Es1); try assumption.
  - rewrite Hu1. exact Hj1.
  - intros f' vP Hnd Hf. rewrite finsert_after_fact. apply (fact_via_parent _ ref P f' Hnd _ _ Hf).
    rewrite Hkids, Hlev, ids_fapp. apply in_or_app. right. left. reflexivity.
  - intros kP2 HkP2 L1 L2. rewrite Hkids, Hlev in HkP2.
    destruct (zview _ _ _ Hc1) as [_ (A1 & B1 & Ez1)].
    destruct (na_parts st1 z1 A1 B1 Ez1 Hna1) as (_ & _ & _ & _ & _ & Kc1 & Kc2 & _).
    destruct (zview _ _ _ Hzr) as [_ (Ar & Br & Ezr)].
    destruct (na_parts st1 zr Ar Br Ezr Hna1) as (_ & _ & _ & _ & _ & _ & _ & Hinr). destruct (Hinr Hups) as (_ & Hlar & _ & _).
    set (a0 := fact a_drop new (frev (z_before zr))) in *. set (kr := fact a_drop new (z_kids zr)) in *.
    set (af := fact a_drop new (z_after zr)) in *.
    assert (fact (a_after T) ref kP2 = fapp (fapp a0 (FCons ref (z_val zr) kr FNil)) (FCons new (z_val z1) (z_kids z1) af)) as Eg.
    { rewrite HkP2, fact_fapp_skip by exact Hnotin. cbn [fact]. rewrite N.eqb_refl. unfold a_after, T. cbn [fapp].
      rewrite fapp_assoc. reflexivity. }
    assert (kP2 = fapp (fapp a0 (FCons ref (z_val zr) kr FNil)) af) as Ek by (rewrite HkP2, fapp_assoc; reflexivity).
    fold T. rewrite Eg. split.
    + apply na_list_insert; [rewrite <- Ek; exact L1|]. intros Ht.
      destruct (text_value _ Ht) as [s Hs].
      assert (val st1 new = Some (VText s)) as Hvn by (rewrite (val_of_cur _ _ _ Hc1), Hs; reflexivity).
      split.
      * rewrite last_text_fapp. cbn [isnilb]. rewrite last_text_cons. cbn [isnilb].
        destruct (is_text_val (z_val zr)) eqn:Etr; [|reflexivity]. exfalso.
        pose proof (ac_prev_text st1 new s ref Hcons1 Hvn ltac:(rewrite (is_type_text_val _ _ _ (val_of_cur _ _ _ Hzr)); exact Etr) (q_next st1 ref)) as Hm.
        rewrite E2 in Hm. discriminate.
      * destruct (head_text af) eqn:Eh; [|reflexivity]. exfalso. unfold af in Eh.
        apply (head_text_drop new (z_after zr) Hlar) in Eh.
        2:{ intros v Hv. rewrite (value_in_sub st1 new z1 (z_after zr) W1 Hc1) with (v := v); [exact Ht| |exact Hv].
            intros x Hx. rewrite Ezr, !nodes_fapp. apply in_or_app. right. apply in_or_app. left.
            unfold plug. rewrite nodes_plug_ups. apply in_or_app. right. apply in_or_app. left. unfold z_level.
            rewrite nodes_frev_app. apply in_or_app. right. cbn [nodes]. right. apply in_or_app. right. exact Hx. }
        destruct (tnext_spec st1 ref zr W1 Hzr Hups Hnr) as [Htn Hqn]. unfold tnext in Htn. rewrite Eh in Htn.
        destruct (q_next st1 ref) as [x|] eqn:Ex; [|discriminate].
        pose proof (ac_next_text st1 new s (Some ref) x Hcons1 Hvn Htn) as Hm. rewrite E2 in Hm. discriminate.
    + rewrite na_insert, <- Ek, L2, Kc1, Kc2. reflexivity.
Qed.

Lemma ids_frev a : Permutation (ids (frev a)) (ids a).
Proof. unfold frev. rewrite ids_frev_app. rewrite app_nil_r. reflexivity. Qed.

Lemma nodes_frev_incl a : incl (nodes (frev a)) (rids a).
Proof. rewrite nodes_frev. apply incl_refl. Qed.

Lemma level_nodes_incl st n z : cur st n = Some z -> incl (nodes (z_level z)) (nodes (store st)).
Proof.
  intros Hc. destruct (zview _ _ _ Hc) as [_ (A & B & E)]. intros x Hx. rewrite E, !nodes_fapp.
  apply in_or_app. right. apply in_or_app. left. unfold plug. rewrite nodes_plug_ups. apply in_or_app. right. apply in_or_app. left. exact Hx.
Qed.

Lemma noadj_m_insert_before st ref new : Good st -> cons st = true -> noadj st -> noadj (fst (m_insert_before st ref new)).
Proof.
  intros G Hcons Hna. unfold m_insert_before.
  destruct (sibling_check st ref new) eqn:Hsc; cbn [negb]; [|exact Hna].
  destruct (opt_eqb (q_next st new) (Some ref)) eqn:Hearly; [exact Hna|].
  destruct (remove_consolidate st (q_prev st new) (q_next st new)) as [st1 m0] eqn:E1.
  destruct (sibling_check_facts _ _ _ Hsc) as (_ & _ & (P0 & _ & Hst)).
  destruct (structure_check_facts _ _ _ Hst) as (_ & _ & (vc0 & Hvc0 & Hcok)).
  destruct (cur st new) as [z|] eqn:Hc; [|unfold val in Hvc0; rewrite Hc in Hvc0; discriminate].
  assert (z_val z = vc0) as Hzv by (unfold val in Hvc0; rewrite Hc in Hvc0; inversion Hvc0; reflexivity).
  assert (is_normal (z_val z) = true) as Hn by (rewrite Hzv; unfold child_ok in Hcok; apply andb_true_iff in Hcok; tauto).
  destruct (zview _ _ _ Hc) as [_ (A & B & E)].
  destruct (step1_view st new z A B st1 m0 G Hcons Hna Hc E Hn E1) as (G1 & Hcons1 & Hna1 & z1 & Hc1 & Es1 & Hv1 & Hk1 & Hu1 & Hj1 & _).
  cbv zeta. rewrite (insert_before_neighbour_noadj st ref new z st1 m0 G Hcons Hna Hc Hearly E1 ltac:(intros z' Hz'; rewrite Hc1 in Hz'; inversion Hz'; subst; exact Hv1)).
  destruct (add_consolidate st1 new (q_prev st1 ref) (Some ref)) as [st2 m] eqn:E2.
  destruct (ac_cases _ _ _ _ _ _ E2) as [[-> ->]|[-> Hm]]; cbn [fst].
  2:{ apply (noadj_merged st1 st2 new G1 Hna1 Hm). }
  pose proof (Good_WF _ G1) as W1.
  assert (m0 && opt_eqb (q_next st new) (Some ref) = false) as Hgone by (rewrite Hearly; apply andb_false_r).
  destruct (sibling_setup st st1 m0 ref new G Hsc E1 Hgone G1) as (P & zP & zr & HzP & Hzr & Hkids & Hups & Hnr & HPn & Hnr' & Hsub).
  destruct (level_after_drop st1 ref zr new W1 Hzr Hnr') as [Hlev Hnotin].
  set (T := FCons new (z_val z1) (z_kids z1) FNil).
  apply (move_into st1 new z1 A B P zP (fun t k => fact (a_before t) ref k) _ G1 Hna1 Hc1 Es1); try assumption.
  - rewrite Hu1. exact Hj1.
  - intros f' vP Hnd Hf. rewrite finsert_before_fact. apply (fact_via_parent _ ref P f' Hnd _ _ Hf).
    rewrite Hkids, Hlev, ids_fapp. apply in_or_app. right. left. reflexivity.
  - intros kP2 HkP2 L1 L2. rewrite Hkids, Hlev in HkP2.
    destruct (zview _ _ _ Hc1) as [_ (A1 & B1 & Ez1)].
    destruct (na_parts st1 z1 A1 B1 Ez1 Hna1) as (_ & _ & _ & _ & _ & Kc1 & Kc2 & _).
    destruct (zview _ _ _ Hzr) as [_ (Ar & Br & Ezr)].
    destruct (na_parts st1 zr Ar Br Ezr Hna1) as (_ & _ & _ & _ & _ & _ & _ & Hinr). destruct (Hinr Hups) as (Hlbr & _ & _ & _).
    set (a0 := fact a_drop new (frev (z_before zr))) in *. set (kr := fact a_drop new (z_kids zr)) in *.
    set (af := fact a_drop new (z_after zr)) in *.
    assert (fact (a_before T) ref kP2 = fapp a0 (FCons new (z_val z1) (z_kids z1) (FCons ref (z_val zr) kr af))) as Eg.
    { rewrite HkP2, fact_fapp_skip by exact Hnotin. cbn [fact]. rewrite N.eqb_refl. unfold a_before, T. cbn [fapp]. reflexivity. }
    fold T. rewrite Eg. split.
    + apply na_list_insert; [rewrite <- HkP2; exact L1|]. intros Ht.
      destruct (text_value _ Ht) as [s Hs].
      assert (val st1 new = Some (VText s)) as Hvn by (rewrite (val_of_cur _ _ _ Hc1), Hs; reflexivity).
      split.
      * destruct (last_text a0) eqn:El; [|reflexivity]. exfalso. unfold a0 in El.
        assert (NoDup (ids (frev (z_before zr)))) as Hndb.
        { eapply Permutation_NoDup; [apply Permutation_sym; apply ids_frev|].
          pose proof (proj1 W1) as Hnd. rewrite Ezr, !ids_fapp in Hnd.
          apply NoDup_app_inv in Hnd as [_ Hnd]. apply NoDup_app_inv in Hnd as [Hnd _]. unfold plug in Hnd.
          destruct (nodup_plug_ups_inv _ _ Hnd) as [HL _]. unfold z_level in HL.
          eapply Permutation_NoDup in HL; [|apply ids_frev_app]. apply NoDup_app_inv in HL. tauto. }
        apply (last_text_drop new (frev (z_before zr)) Hndb) in El; [|rewrite na_list_frev; exact Hlbr|].
        2:{ intros v Hv. rewrite (value_in_sub st1 new z1 (frev (z_before zr)) W1 Hc1) with (v := v); [exact Ht| |exact Hv].
            intros x Hx. apply (level_nodes_incl _ _ _ Hzr). unfold z_level. rewrite nodes_frev_app. apply in_or_app. left.
            rewrite nodes_frev in Hx. exact Hx. }
        rewrite last_text_frev in El.
        destruct (tprev_spec st1 ref zr W1 Hzr Hups Hnr) as [Htp _]. unfold tprev in Htp. rewrite El in Htp.
        destruct (q_prev st1 ref) as [x|] eqn:Ex; [|discriminate].
        pose proof (ac_prev_text st1 new s x Hcons1 Hvn Htp (Some ref)) as Hm. rewrite E2 in Hm. discriminate.
      * cbn [head_text]. destruct (is_text_val (z_val zr)) eqn:Etr; [|reflexivity]. exfalso.
        pose proof (ac_next_text st1 new s (q_prev st1 ref) ref Hcons1 Hvn ltac:(rewrite (is_type_text_val _ _ _ (val_of_cur _ _ _ Hzr)); exact Etr)) as Hm.
        rewrite E2 in Hm. discriminate.
    + rewrite na_insert, <- HkP2, L2, Kc1, Kc2. reflexivity.
Qed.

(* ---------- creation and value updates ---------- *)

Lemma noadj_new_node st v st1 i : new_node st v = (st1, i) -> noadj st -> noadj st1 /\ cons st1 = cons st.
Proof.
  unfold new_node, noadj. destruct (free st) as [|j rest]; intros H; inversion H; subst; cbn [store cons na na_list]; auto.
Qed.

Lemma noadj_set_value st n g : NoDup (ids (store st)) -> (forall v, val st n = Some v -> is_text_val (g v) = is_text_val v) ->
  noadj st -> noadj (set_value st n g).
Proof.
  intros Hnd Hg Hna. unfold noadj, set_value. cbn [store with_store].
  destruct (na_fset_val n g (store st)) as (_ & H & _); [|exact Hnd|rewrite H; exact Hna].
  intros v k Hf. apply Hg. apply nodes_val; [exact Hnd|]. eapply find_in_nodes. exact Hf.
Qed.

(* ---------- the attribute / namespace maps ---------- *)

Lemma abnormal_not_text v : is_normal v = false -> is_text_val v = false.
Proof. destruct v; try reflexivity; discriminate. Qed.

Lemma noadj_map_attach st k e node vn : Good st -> noadj st -> is_type st e TElement = true ->
  val st node = Some vn -> is_normal vn = false -> noadj (map_attach st k e node).
Proof.
  intros G Hna He Hvn Hab. unfold map_attach. pose proof (Good_WF _ G) as W.
  destruct (cur st node) as [z|] eqn:Hc; [|unfold val in Hvn; rewrite Hc in Hvn; discriminate].
  assert (z_val z = vn) as Hzv by (unfold val in Hvn; rewrite Hc in Hvn; inversion Hvn; reflexivity).
  destruct (zview _ _ _ Hc) as [_ (A & B & E)].
  apply is_type_val in He as (ve & Hve & Hte).
  destruct (cur st e) as [zP|] eqn:HP; [|unfold val in Hve; rewrite HP in Hve; discriminate].
  assert (z_val zP = ve) as HzP by (unfold val in Hve; rewrite HP in Hve; inversion Hve; reflexivity).
  assert (z_kids z = FNil) as Hleaf.
  { pose proof (shape_find _ _ _ _ _ _ (proj2 W) (find_of_cur _ _ _ Hc)) as Hk. rewrite Hzv in Hk.
    destruct vn; try discriminate; cbn in Hk; destruct (z_kids z); try reflexivity; discriminate. }
  assert (e <> node) as Hne.
  { intros ->. rewrite Hc in HP. inversion HP; subst zP. rewrite Hzv in HzP. subst ve. destruct vn; discriminate. }
  apply (move_into st node z A B e zP (map_insert_at k) _ G Hna Hc E); try assumption.
  - intros Hups. destruct (level_shape st node z W Hc Hups) as (c & Hcr & Hsh). unfold z_level in Hsh.
    rewrite Hzv in Hsh. rewrite (shape_before_abnormal c _ _ _ _ _ _ Hcr Hsh Hab). reflexivity.
  - unfold subtree_ids. rewrite (find_of_cur _ _ _ Hc), Hleaf. cbn. intros [H|[]]. congruence.
  - reflexivity.
  - intros kP2 _ L1 L2. rewrite Hzv, Hleaf.
    assert (exists a X, kP2 = fapp a X /\ map_insert_at k (FCons node vn FNil FNil) kP2 = fapp a (fapp (FCons node vn FNil FNil) X)) as (a & X & E1 & E2).
    { destruct k; [apply insert_after_attributes_split|apply insert_after_namespaces_split]. }
    rewrite E2. cbn [fapp]. split.
    + apply na_list_insert; [rewrite <- E1; exact L1|]. rewrite (abnormal_not_text _ Hab). discriminate.
    + rewrite na_insert, <- E1, L2. reflexivity.
Qed.

Lemma noadj_map_insert st k e newv : Good st -> noadj st -> is_type st e TElement = true -> is_normal newv = false ->
  (forall n v, map_get_node st k e (key_of newv) = Some n -> val st n = Some v -> is_normal v = false) ->
  noadj (map_insert st k e newv).
Proof.
  intros G Hna He Hab Hex. unfold map_insert.
  destruct (map_get_node st k e (key_of newv)) as [n|] eqn:Hg.
  - change (with_store st (fset_val n (fun _ => newv) (store st))) with (set_value st n (fun _ => newv)).
    apply noadj_set_value; [apply Good_nodup; exact G| |exact Hna].
    intros v Hv. rewrite (abnormal_not_text _ Hab), (abnormal_not_text _ (Hex n v eq_refl Hv)). reflexivity.
  - destruct (new_node st newv) as [st1 n] eqn:Hn.
    destruct (Ext_new_node _ _ _ _ G Hn) as (X & Hni & Hst & _).
    destruct (noadj_new_node _ _ _ _ Hn Hna) as [Hna1 _].
    destruct (val_new_node st newv st1 n e G Hn) as [Hv1 Hv2].
    apply (noadj_map_attach st1 k e n newv (ext_good _ _ X) Hna1); auto.
    unfold is_type in *. rewrite Hv2; [exact He|]. intros ->. apply Hni.
    destruct (val st n) as [v|] eqn:Ev; [eapply val_in_ids; exact Ev|discriminate].
Qed.

Lemma cat_not_normal v k : value_category v = cat_of k -> is_normal v = false.
Proof. destruct v, k; try discriminate; reflexivity. Qed.

Lemma noadj_map_insert_node st k e node : Good st -> noadj st -> is_type st e TElement = true ->
  (forall v, val st node = Some v -> value_category v = cat_of k) ->
  noadj (fst (map_insert_node st k e node)).
Proof.
  intros G Hna He Hcat. unfold map_insert_node. destruct (val st node) as [nv|] eqn:Hn; [|exact Hna].
  specialize (Hcat nv eq_refl). pose proof (cat_not_normal _ _ Hcat) as Hab.
  destruct (map_get_node st k e (key_of nv)) as [ex|] eqn:Eg; cbn [fst].
  - destruct (map_get_node_facts _ _ _ _ _ G Eg) as (v & Hv & Hc & _).
    change (with_store st (fset_val ex (fun _ => nv) (store st))) with (set_value st ex (fun _ => nv)).
    apply noadj_set_value; [apply Good_nodup; exact G| |exact Hna].
    intros w Hw. rewrite Hv in Hw. inversion Hw; subst w.
    rewrite (abnormal_not_text _ Hab), (abnormal_not_text _ (cat_not_normal _ _ Hc)). reflexivity.
  - eapply noadj_map_attach; eauto.
Qed.

Lemma cons_m_remove st n : cons (fst (m_remove st n)) = cons st.
Proof.
  unfold m_remove. cbn [fst]. rewrite cons_rc. unfold remove_subtree_raw.
  destruct (fcut n (store st)) as [[f' [[i v] k]]|]; reflexivity.
Qed.

Lemma noadj_fold_remove l : forall st, Good st -> cons st = true -> noadj st ->
  noadj (fold_left (fun s n => fst (m_remove s n)) l st).
Proof.
  induction l as [|a l IH]; intros st G Hcons Hna; cbn [fold_left]; [exact Hna|].
  apply IH; [exact (ext_good _ _ (Ext_m_remove st a G))|rewrite cons_m_remove; exact Hcons|apply noadj_m_remove; assumption].
Qed.

Lemma noadj_map_remove st k e key : Good st -> cons st = true -> noadj st -> noadj (map_remove st k e key).
Proof. intros G Hc Hna. unfold map_remove. destruct (map_get_node st k e key); [apply noadj_m_remove; assumption|exact Hna]. Qed.

Lemma noadj_map_clear st k e : Good st -> cons st = true -> noadj st -> noadj (map_clear st k e).
Proof. intros G Hc Hna. unfold map_clear. destruct (cur st e); [apply noadj_fold_remove; assumption|exact Hna]. Qed.

Lemma noadj_map_insert_good st k e newv : Good st -> noadj st -> is_type st e TElement = true -> value_category newv = cat_of k ->
  noadj (map_insert st k e newv).
Proof.
  intros G Hna He Hc. apply noadj_map_insert; auto; [eapply cat_not_normal; eauto|].
  intros n v Hg Hv. destruct (map_get_node_facts _ _ _ _ _ G Hg) as (v' & Hv' & Hc' & _). rewrite Hv in Hv'. inversion Hv'; subst.
  eapply cat_not_normal; eauto.
Qed.

(* ---------- any_append, clone_node ---------- *)

Lemma noadj_m_any_append st p c : Good st -> cons st = true -> noadj st -> noadj (fst (m_any_append st p c)).
Proof.
  intros G Hcons Hna. unfold m_any_append. destruct (val st c) as [vc|] eqn:Hc.
  - destruct vc;
      try (pose proof (noadj_m_append st p c G Hcons Hna) as X; destruct (m_append st p c) as [s1 o]; destruct o; exact X).
    + destruct (is_type st p TElement) eqn:He; cbn [negb]; [|exact Hna].
      pose proof (noadj_map_insert_node st KAttr p c G Hna He) as X.
      destruct (map_insert_node st KAttr p c) as [s1 r]. cbn [fst] in *. apply X.
      intros w Hw. rewrite Hc in Hw. inversion Hw. reflexivity.
    + destruct (is_type st p TElement) eqn:He; cbn [negb]; [|exact Hna].
      pose proof (noadj_map_insert_node st KNs p c G Hna He) as X.
      destruct (map_insert_node st KNs p c) as [s1 r]. cbn [fst] in *. apply X.
      intros w Hw. rewrite Hc in Hw. inversion Hw. reflexivity.
  - pose proof (noadj_m_append st p c G Hcons Hna) as X; destruct (m_append st p c) as [s1 o]; destruct o; exact X.
Qed.

Lemma cons_with_store st f : cons (with_store st f) = cons st.
Proof. reflexivity. Qed.

Lemma cons_m_append st p c : cons (fst (m_append st p c)) = cons st.
Proof.
  unfold m_append. destruct (negb (structure_check st (Some p) c)); [reflexivity|].
  destruct (opt_eqb (q_raw_last_child st p) (Some c)); [reflexivity|].
  pose proof (cons_rc st (q_prev st c) (q_next st c)) as H1.
  destruct (remove_consolidate st (q_prev st c) (q_next st c)) as [st1 m0]. cbn [fst] in H1.
  cbv zeta. set (last := if opt_eqb (q_last_child st1 p) (Some c) then q_prev st1 c else q_last_child st1 p).
  pose proof (cons_ac st1 c last None) as H2.
  destruct (add_consolidate st1 c last None) as [st2 m]. cbn [fst] in H2.
  destruct m; cbn [fst]; [congruence|]. rewrite cons_move. congruence.
Qed.

Lemma cons_map_insert_node st k e node : cons (fst (map_insert_node st k e node)) = cons st.
Proof.
  unfold map_insert_node. destruct (val st node); [|reflexivity]. destruct (map_get_node st k e _); cbn [fst]; [reflexivity|].
  unfold map_attach. apply cons_move.
Qed.

Lemma cons_m_any_append st p c : cons (fst (m_any_append st p c)) = cons st.
Proof.
  unfold m_any_append. destruct (val st c) as [[]|];
    try (pose proof (cons_m_append st p c) as X; destruct (m_append st p c) as [s1 o]; destruct o; exact X);
    (destruct (negb (is_type st p TElement)); [reflexivity|]).
  - pose proof (cons_map_insert_node st KAttr p c) as X. destruct (map_insert_node st KAttr p c). exact X.
  - pose proof (cons_map_insert_node st KNs p c) as X. destruct (map_insert_node st KNs p c). exact X.
Qed.

Lemma cons_new_node st v : cons (fst (new_node st v)) = cons st.
Proof. unfold new_node. destruct (free st); reflexivity. Qed.

Lemma noadj_clone_edges es : forall st current st', Good st -> cons st = true -> noadj st ->
  clone_edges es st current = Some st' -> Good st' /\ cons st' = true /\ noadj st'.
Proof.
  induction es as [|e es IH]; intros st current st' G Hcons Hna; cbn [clone_edges]; [intros H; inversion H; subst; auto|].
  destruct e as [z|z].
  - destruct (z_val z) eqn:Ev; try (apply IH; assumption).
    all: match goal with |- context [new_node ?s ?v] => destruct (new_node s v) as [st1 nn] eqn:Hn end.
    all: destruct (Ext_new_node _ _ _ _ G Hn) as (X & _); destruct (noadj_new_node _ _ _ _ Hn Hna) as [Hna1 Hc1];
      pose proof (ext_good _ _ X) as G1; rewrite Hcons in Hc1;
      pose proof (ext_good _ _ (Ext_m_any_append st1 current nn G1)) as G2;
      pose proof (noadj_m_any_append st1 current nn G1 Hc1 Hna1) as Hna2;
      pose proof (cons_m_any_append st1 current nn) as Hc2; rewrite Hc1 in Hc2;
      destruct (m_any_append st1 current nn) as [st2 o]; cbn [fst] in *; destruct o; try discriminate;
      apply IH; assumption.
  - destruct (vtype_eqb _ _); [|apply IH; assumption]. destruct (q_parent st current); [apply IH; assumption|discriminate].
Qed.

Lemma noadj_remove_single_root st n z : Good st -> noadj st -> cur st n = Some z -> z_ups z = [] ->
  noadj (remove_single_raw st n).
Proof.
  intros G Hna Hc Eu. unfold noadj, remove_single_raw. cbn [store free_slots with_store]. pose proof (Good_WF _ G) as W.
  destruct (zview _ _ _ Hc) as [Htc (A & B & E)]. pose proof (cur_slot _ _ _ Hc) as Hs.
  destruct (na_parts st z A B E Hna) as (HA & HB & _ & _ & _ & _ & Hk2 & _).
  rewrite (plug_root z Htc Eu) in E. cbn [fapp] in E. rewrite Hs in E.
  rewrite fsplice_fact, (fact_root a_splice _ _ _ _ _ _ (proj1 W) E). unfold a_splice. rewrite !na_fapp, HA, HB, Hk2. reflexivity.
Qed.

Lemma new_node_root st v st1 i : Good st -> new_node st v = (st1, i) ->
  exists z, cur st1 i = Some z /\ z_ups z = [].
Proof.
  intros G Hn. destruct (Ext_new_node _ _ _ _ G Hn) as (X & Hni & Hst & _).
  unfold cur. rewrite Hst. cbn [locate locate_in]. rewrite N.eqb_refl. eexists. split; [reflexivity|reflexivity].
Qed.

Lemma root_slot_path f n : NoDup (ids f) -> In n (root_slots f) -> path_in n f = Some [].
Proof.
  induction f as [|i v k _ r IH]; intros Hnd Hin; [destruct Hin|].
  cbn [ids] in Hnd. apply NoDup_cons_app_inv in Hnd as (Hik & Hir & Hk & Hr & Hkr).
  unfold root_slots in Hin. cbn [roots map fst] in Hin. cbn [path_in]. destruct Hin as [->|Hin]; [rewrite N.eqb_refl; reflexivity|].
  fold (root_slots r) in Hin. pose proof (root_slots_incl r _ Hin) as Hinr.
  assert (i <> n) as Hne by (intros ->; contradiction). apply N.eqb_neq in Hne. rewrite Hne.
  assert (path_in n k = None) as -> by (apply path_in_none; intros Hx; eapply NoDup_app_not_in; [exact Hkr|exact Hx|exact Hinr]).
  apply IH; assumption.
Qed.

Lemma root_slot_cursor st n : WF st -> In n (root_slots (store st)) -> exists z, cur st n = Some z /\ z_ups z = [].
Proof.
  intros W Hin. pose proof (root_slot_path _ _ (proj1 W) Hin) as Hp.
  destruct (locate_found _ _ (root_slots_incl _ _ Hin)) as [z Hz]. exists z. split; [exact Hz|].
  change (locate n (store st)) with (cur st n) in Hz. rewrite (cur_path _ _ _ Hz) in Hp. inversion Hp as [H].
  destruct (z_ups z); [reflexivity|discriminate].
Qed.

Lemma noadj_m_clone st n : Good st -> cons st = true -> noadj st -> noadj (fst (m_clone st n)).
Proof.
  intros G Hcons Hna. unfold m_clone. destruct (cur st n) as [z|] eqn:Hc; [|exact Hna].
  destruct (z_val z) as [|n0|ts|pt pd|cs|an av|np nn] eqn:Ev.
  - (* document *)
    destruct (new_node st VDocument) as [st1 top] eqn:Hn.
    destruct (Ext_new_node _ _ _ _ G Hn) as (X & _). destruct (noadj_new_node _ _ _ _ Hn Hna) as [Hna1 Hc1]. rewrite Hcons in Hc1.
    destruct (clone_edges (all_traverse z) st1 top) as [st2|] eqn:Ec; cbn [fst]; [|exact Hna1].
    apply (noadj_clone_edges _ _ _ _ (ext_good _ _ X) Hc1 Hna1 Ec).
  - (* element *)
    destruct (new_node st (VElement n0)) as [st1 top] eqn:Hn.
    destruct (Ext_new_node _ _ _ _ G Hn) as (X & _ & Hst & _). destruct (noadj_new_node _ _ _ _ Hn Hna) as [Hna1 Hc1]. rewrite Hcons in Hc1.
    destruct (clone_edges (all_traverse z) st1 top) as [st2|] eqn:Ec; cbn [fst]; [|exact Hna1].
    destruct (noadj_clone_edges _ _ _ _ (ext_good _ _ X) Hc1 Hna1 Ec) as (G2 & Hc2 & Hna2).
    destruct (q_first_child st2 top) as [c|] eqn:Efc; cbn [fst]; [|exact Hna2].
    (* the temporary top element is still a root *)
    assert (is_top st1 top (VElement n0)) as T1 by (unfold is_top; rewrite Hst; cbn; auto).
    destruct (clone_edges_spec _ _ _ _ top (VElement n0) (ext_good _ _ X) T1 eq_refl Ec) as (_ & Htop & _).
    destruct (root_slot_cursor st2 top (Good_WF _ G2) Htop) as (zt & Hzt & Hut).
    apply (noadj_remove_single_root st2 top zt G2 Hna2 Hzt Hut).
  - destruct (new_node st (VText ts)) as [st1 c] eqn:Hn. cbn [fst]. apply (noadj_new_node _ _ _ _ Hn Hna).
  - destruct (new_node st (VPI pt pd)) as [st1 c] eqn:Hn. cbn [fst]. apply (noadj_new_node _ _ _ _ Hn Hna).
  - destruct (new_node st (VComment cs)) as [st1 c] eqn:Hn. cbn [fst]. apply (noadj_new_node _ _ _ _ Hn Hna).
  - destruct (new_node st (VAttribute an av)) as [st1 c] eqn:Hn. cbn [fst]. apply (noadj_new_node _ _ _ _ Hn Hna).
  - destruct (new_node st (VNamespace np nn)) as [st1 c] eqn:Hn. cbn [fst]. apply (noadj_new_node _ _ _ _ Hn Hna).
Qed.

(* ---------- text_content_mut, new_document_with_element ---------- *)

Lemma noadj_set_text st c s : Good st -> noadj st -> is_type st c TText = true -> noadj (set_value st c (fun _ => VText s)).
Proof.
  intros G Hna Ht. apply noadj_set_value; [apply Good_nodup; exact G| |exact Hna].
  intros v Hv. rewrite (is_type_text_val _ _ _ Hv) in Ht. rewrite Ht. reflexivity.
Qed.

Lemma noadj_m_text_content_mut st n s : Good st -> cons st = true -> noadj st -> noadj (fst (m_text_content_mut st n s)).
Proof.
  intros G Hcons Hna. unfold m_text_content_mut.
  destruct (q_first_child st n) as [c|].
  - destruct (q_next st c); [exact Hna|]. destruct (is_type st c TText) eqn:Ht; [|exact Hna]. cbn [fst]. apply noadj_set_text; assumption.
  - destruct (is_type st n TElement); [|exact Hna].
    destruct (new_node st (VText [])) as [st1 t] eqn:Hn.
    destruct (Ext_new_node _ _ _ _ G Hn) as (X & _). destruct (noadj_new_node _ _ _ _ Hn Hna) as [Hna1 Hc1]. rewrite Hcons in Hc1.
    pose proof (ext_good _ _ X) as G1.
    pose proof (noadj_m_append st1 n t G1 Hc1 Hna1) as Hna2. pose proof (ext_good _ _ (Ext_m_append st1 n t G1)) as G2.
    destruct (m_append st1 n t) as [st2 o]. cbn [fst] in *.
    destruct o; cbn [fst]; try exact Hna2.
    destruct (q_first_child st2 n) as [c|]; [|exact Hna2].
    destruct (is_type st2 c TText) eqn:Ht; [|exact Hna2]. cbn [fst]. apply noadj_set_text; assumption.
Qed.

Lemma noadj_new_doc_with st e : Good st -> cons st = true -> noadj st -> noadj (fst (mstep st (ONewDocWith e))).
Proof.
  intros G Hcons Hna. cbn [mstep]. destruct (negb (is_type st e TElement)); [exact Hna|].
  destruct (new_node st VDocument) as [st1 d] eqn:Hn.
  destruct (Ext_new_node _ _ _ _ G Hn) as (X & _). destruct (noadj_new_node _ _ _ _ Hn Hna) as [Hna1 Hc1]. rewrite Hcons in Hc1.
  pose proof (noadj_m_append st1 d e (ext_good _ _ X) Hc1 Hna1) as Hna2.
  destruct (m_append st1 d e) as [st2 o]. cbn [fst] in *. destruct o; exact Hna2.
Qed.

(* ---------- only set_text_consolidation changes the flag ---------- *)

Lemma cons_m_prepend st p c : cons (fst (m_prepend st p c)) = cons st.
Proof.
  unfold m_prepend. destruct (negb (structure_check st (Some p) c)); [reflexivity|].
  destruct (opt_eqb (q_first_child st p) (Some c)); [reflexivity|].
  pose proof (cons_rc st (q_prev st c) (q_next st c)) as H1.
  destruct (remove_consolidate st (q_prev st c) (q_next st c)) as [st1 m0]. cbn [fst] in H1.
  pose proof (cons_ac st1 c None (q_first_child st1 p)) as H2.
  destruct (add_consolidate st1 c None (q_first_child st1 p)) as [st2 m]. cbn [fst] in H2.
  destruct m; cbn [fst]; [congruence|]. rewrite cons_move. congruence.
Qed.

Lemma cons_m_insert_after st r n : cons (fst (m_insert_after st r n)) = cons st.
Proof.
  unfold m_insert_after. destruct (negb (sibling_check st r n)); [reflexivity|].
  destruct (opt_eqb (q_prev st n) (Some r)); [reflexivity|].
  pose proof (cons_rc st (q_prev st n) (q_next st n)) as H1.
  destruct (remove_consolidate st (q_prev st n) (q_next st n)) as [st1 m0]. cbn [fst] in H1.
  destruct (m0 && opt_eqb (q_next st n) (Some r)); [exact H1|].
  pose proof (cons_ac st1 n (Some r) (q_next st1 r)) as H2.
  destruct (add_consolidate st1 n (Some r) (q_next st1 r)) as [st2 m]. cbn [fst] in H2.
  destruct m; cbn [fst]; [congruence|]. rewrite cons_move. congruence.
Qed.

Lemma cons_m_insert_before st r n : cons (fst (m_insert_before st r n)) = cons st.
Proof.
  unfold m_insert_before. destruct (negb (sibling_check st r n)); [reflexivity|].
  destruct (opt_eqb (q_next st n) (Some r)); [reflexivity|].
  pose proof (cons_rc st (q_prev st n) (q_next st n)) as H1.
  destruct (remove_consolidate st (q_prev st n) (q_next st n)) as [st1 m0]. cbn [fst] in H1.
  cbv zeta. set (prev := if opt_eqb (q_prev st1 r) (Some n) then q_prev st1 n else q_prev st1 r).
  pose proof (cons_ac st1 n prev (Some r)) as H2.
  destruct (add_consolidate st1 n prev (Some r)) as [st2 m]. cbn [fst] in H2.
  destruct m; cbn [fst]; [congruence|]. rewrite cons_move. congruence.
Qed.

Lemma cons_detach_raw st n : cons (detach_raw st n) = cons st.
Proof. unfold detach_raw. destruct (fcut n (store st)) as [[f' t]|]; reflexivity. Qed.

Lemma cons_remove_subtree_raw st n : cons (remove_subtree_raw st n) = cons st.
Proof. unfold remove_subtree_raw. destruct (fcut n (store st)) as [[f' [[i v] k]]|]; reflexivity. Qed.

Lemma cons_m_detach st n : cons (fst (m_detach st n)) = cons st.
Proof. unfold m_detach. cbn [fst]. rewrite cons_rc. apply cons_detach_raw. Qed.

Lemma cons_fold_remove l : forall st, cons (fold_left (fun s n => fst (m_remove s n)) l st) = cons st.
Proof. induction l as [|a l IH]; intros st; cbn [fold_left]; [reflexivity|]. rewrite IH. apply cons_m_remove. Qed.

Lemma cons_map_insert st k e v : cons (map_insert st k e v) = cons st.
Proof.
  unfold map_insert. destruct (map_get_node st k e (key_of v)); [reflexivity|].
  pose proof (cons_new_node st v) as H. destruct (new_node st v) as [st1 n]. cbn [fst] in H. unfold map_attach. rewrite cons_move. exact H.
Qed.

Lemma cons_map_remove st k e key : cons (map_remove st k e key) = cons st.
Proof. unfold map_remove. destruct (map_get_node st k e key); [apply cons_m_remove|reflexivity]. Qed.

Lemma cons_map_clear st k e : cons (map_clear st k e) = cons st.
Proof. unfold map_clear. destruct (cur st e); [apply cons_fold_remove|reflexivity]. Qed.

Lemma cons_on_element st e f : cons f = cons st -> cons (fst (on_element st e f)) = cons st.
Proof. intros H. unfold on_element. destruct (is_type st e TElement); [exact H|reflexivity]. Qed.

Lemma cons_clone_edges es : forall st current st', clone_edges es st current = Some st' -> cons st' = cons st.
Proof.
  induction es as [|e es IH]; intros st current st'; cbn [clone_edges]; [intros H; inversion H; reflexivity|].
  destruct e as [z|z].
  - destruct (z_val z); try (apply IH).
    all: match goal with |- context [new_node ?s ?v] => pose proof (cons_new_node s v) as H1; destruct (new_node s v) as [st1 nn] end; cbn [fst] in H1;
      pose proof (cons_m_any_append st1 current nn) as H2; destruct (m_any_append st1 current nn) as [st2 o]; cbn [fst] in H2;
      destruct o; try discriminate; intros H; apply IH in H; congruence.
  - destruct (vtype_eqb _ _); [|apply IH]. destruct (q_parent st current); [apply IH|discriminate].
Qed.

Lemma cons_m_clone st n : cons (fst (m_clone st n)) = cons st.
Proof.
  unfold m_clone. destruct (cur st n) as [z|]; [|reflexivity].
  destruct (z_val z);
    try (match goal with |- context [new_node ?s ?v] => pose proof (cons_new_node s v) as H1; destruct (new_node s v) as [st1 c] end; exact H1).
  - pose proof (cons_new_node st VDocument) as H1. destruct (new_node st VDocument) as [st1 top]. cbn [fst] in H1.
    destruct (clone_edges (all_traverse z) st1 top) as [st2|] eqn:Ec; cbn [fst]; [|exact H1]. apply cons_clone_edges in Ec. congruence.
  - pose proof (cons_new_node st (VElement n0)) as H1. destruct (new_node st (VElement n0)) as [st1 top]. cbn [fst] in H1.
    destruct (clone_edges (all_traverse z) st1 top) as [st2|] eqn:Ec; cbn [fst]; [|exact H1]. apply cons_clone_edges in Ec.
    destruct (q_first_child st2 top); cbn [fst]; [cbn; congruence|congruence].
Qed.

Lemma cons_m_text_content_mut st n s : cons (fst (m_text_content_mut st n s)) = cons st.
Proof.
  unfold m_text_content_mut. destruct (q_first_child st n) as [c|].
  - destruct (q_next st c); [reflexivity|]. destruct (is_type st c TText); reflexivity.
  - destruct (is_type st n TElement); [|reflexivity].
    pose proof (cons_new_node st (VText [])) as H1. destruct (new_node st (VText [])) as [st1 t]. cbn [fst] in H1.
    pose proof (cons_m_append st1 n t) as H2. destruct (m_append st1 n t) as [st2 o]. cbn [fst] in H2.
    destruct o; cbn [fst]; try congruence.
    destruct (q_first_child st2 n); [|cbn; congruence]. destruct (is_type st2 n0 TText); cbn; congruence.
Qed.

(* ---------- the step theorem (every call but replace / element_wrap / element_unwrap) ---------- *)

Definition plain_op (o : mop) : bool :=
  match o with OReplace _ _ | OWrap _ _ | OUnwrap _ | OCons false => false | _ => true end.

Lemma noadj_on_element st e f : noadj st -> (is_type st e TElement = true -> noadj f) -> noadj (fst (on_element st e f)).
Proof. intros Hna H. unfold on_element. destruct (is_type st e TElement); [apply H; reflexivity|exact Hna]. Qed.

Lemma noadj_set_mapped st k e key newv : Good st -> noadj st -> value_category newv = cat_of k ->
  noadj (match map_get_node st k e key with Some n => set_value st n (fun _ => newv) | None => st end).
Proof.
  intros G Hna Hc. destruct (map_get_node st k e key) as [n|] eqn:Eg; [|exact Hna].
  destruct (map_get_node_facts _ _ _ _ _ G Eg) as (v & Hv & Hcv & _).
  apply noadj_set_value; [apply Good_nodup; exact G| |exact Hna].
  intros w Hw. rewrite Hv in Hw. inversion Hw; subst w.
  rewrite (abnormal_not_text _ (cat_not_normal _ _ Hc)), (abnormal_not_text _ (cat_not_normal _ _ Hcv)). reflexivity.
Qed.

Lemma type_cat_attr st c : is_type st c TAttribute = true -> forall v, val st c = Some v -> value_category v = cat_of KAttr.
Proof. intros H v Hv. unfold is_type in H. rewrite Hv in H. destruct v; try discriminate; reflexivity. Qed.
Lemma type_cat_ns st c : is_type st c TNamespace = true -> forall v, val st c = Some v -> value_category v = cat_of KNs.
Proof. intros H v Hv. unfold is_type in H. rewrite Hv in H. destruct v; try discriminate; reflexivity. Qed.

Theorem noadj_mstep st o : Good st -> cons st = true -> noadj st -> plain_op o = true -> noadj (fst (mstep st o)).
Proof.
  intros G Hcons Hna Hp. destruct o; try discriminate Hp; cbn [mstep].
  all: try (unfold created; match goal with |- context [new_node ?s ?v] => destruct (new_node s v) as [st1 i] eqn:Hn end; cbn [fst];
            apply (noadj_new_node _ _ _ _ Hn Hna)).
  - apply noadj_m_append; assumption.
  - apply noadj_m_prepend; assumption.
  - apply noadj_m_insert_after; assumption.
  - apply noadj_m_insert_before; assumption.
  - apply noadj_m_any_append; assumption.
  - destruct (is_type st p TElement) eqn:He; cbn [negb]; [|exact Hna]. destruct (is_type st c TAttribute) eqn:Ht; cbn [negb]; [|exact Hna].
    pose proof (noadj_map_insert_node st KAttr p c G Hna He (type_cat_attr _ _ Ht)) as X. destruct (map_insert_node st KAttr p c). exact X.
  - destruct (is_type st p TElement) eqn:He; cbn [negb]; [|exact Hna]. destruct (is_type st c TNamespace) eqn:Ht; cbn [negb]; [|exact Hna].
    pose proof (noadj_map_insert_node st KNs p c G Hna He (type_cat_ns _ _ Ht)) as X. destruct (map_insert_node st KNs p c). exact X.
  - apply noadj_m_detach; assumption.
  - apply noadj_m_remove; assumption.
  - apply noadj_m_clone; assumption.
  - apply noadj_on_element; [exact Hna|]. intros He. apply noadj_set_value; [apply Good_nodup; exact G| |exact Hna].
    intros v Hv. unfold is_type in He. rewrite Hv in He. destruct v; try discriminate. reflexivity.
  - apply noadj_on_element; [exact Hna|]. intros He. apply noadj_map_insert_good; auto.
  - apply noadj_on_element; [exact Hna|]. intros He. apply noadj_map_remove; assumption.
  - apply noadj_on_element; [exact Hna|]. intros He. apply noadj_map_insert_good; auto.
  - apply noadj_on_element; [exact Hna|]. intros He. apply noadj_map_remove; assumption.
  - apply noadj_on_element; [exact Hna|]. intros He. apply noadj_map_clear; assumption.
  - apply noadj_on_element; [exact Hna|]. intros He. apply noadj_map_clear; assumption.
  - apply noadj_on_element; [exact Hna|]. intros He. apply (noadj_set_mapped st KAttr e name (VAttribute name v) G Hna eq_refl).
  - apply noadj_on_element; [exact Hna|]. intros He. destruct (map_get_node st KAttr e name); [exact Hna|]. apply noadj_map_insert_good; auto.
  - apply noadj_on_element; [exact Hna|]. intros He. destruct (map_get_node st KAttr e name) as [n|] eqn:Eg.
    + pose proof (noadj_set_mapped st KAttr e name (VAttribute name v) G Hna eq_refl) as X. rewrite Eg in X. exact X.
    + apply noadj_map_insert_good; auto.
  - apply noadj_on_element; [exact Hna|]. intros He. apply noadj_map_remove; assumption.
  - apply noadj_on_element; [exact Hna|]. intros He. apply (noadj_set_mapped st KNs e p (VNamespace p ns) G Hna eq_refl).
  - apply noadj_on_element; [exact Hna|]. intros He. destruct (map_get_node st KNs e p); [exact Hna|]. apply noadj_map_insert_good; auto.
  - cbn [fst]. destruct (is_type st n TText) eqn:Ht; [apply noadj_set_text; assumption|exact Hna].
  - destruct (is_type st n TComment) eqn:Ht; [|exact Hna]. destruct (has_double_dash s); [exact Hna|]. cbn [fst].
    apply noadj_set_value; [apply Good_nodup; exact G| |exact Hna].
    intros v Hv. unfold is_type in Ht. rewrite Hv in Ht. destruct v; try discriminate. reflexivity.
  - cbn [fst]. apply noadj_set_value; [apply Good_nodup; exact G| |exact Hna]. intros v _. destruct v; reflexivity.
  - cbn [fst]. apply noadj_set_value; [apply Good_nodup; exact G| |exact Hna]. intros v _. destruct v; reflexivity.
  - cbn [fst]. apply noadj_set_value; [apply Good_nodup; exact G| |exact Hna]. intros v _. destruct v; reflexivity.
  - apply noadj_m_text_content_mut; assumption.
  - destruct b; [|discriminate]. exact Hna.
  - apply (noadj_new_doc_with st e G Hcons Hna).
Qed.

Lemma cons_mstep st o : plain_op o = true -> cons st = true -> cons (fst (mstep st o)) = true.
Proof.
  intros Hp Hc. destruct o; try discriminate Hp; cbn [mstep];
    try (match goal with b : bool |- _ => destruct b; [reflexivity|discriminate Hp] end); rewrite <- Hc.
  all: try (unfold created; match goal with |- context [new_node ?s ?v] => pose proof (cons_new_node s v) as H; destruct (new_node s v) as [st1 i] end; exact H).
  all: try (apply cons_on_element; first [reflexivity | apply cons_map_insert | apply cons_map_remove | apply cons_map_clear
              | (destruct (map_get_node _ _ _ _); first [reflexivity | apply cons_map_insert])]).
  - apply cons_m_append.
  - apply cons_m_prepend.
  - apply cons_m_insert_after.
  - apply cons_m_insert_before.
  - apply cons_m_any_append.
  - destruct (negb (is_type st p TElement)); [reflexivity|]. destruct (negb (is_type st c TAttribute)); [reflexivity|].
    pose proof (cons_map_insert_node st KAttr p c) as X. destruct (map_insert_node st KAttr p c). exact X.
  - destruct (negb (is_type st p TElement)); [reflexivity|]. destruct (negb (is_type st c TNamespace)); [reflexivity|].
    pose proof (cons_map_insert_node st KNs p c) as X. destruct (map_insert_node st KNs p c). exact X.
  - apply cons_m_detach.
  - apply cons_m_remove.
  - apply cons_m_clone.
  - destruct (is_type st n TText); reflexivity.
  - destruct (is_type st n TComment); [|reflexivity]. destruct (has_double_dash s); reflexivity.
  - reflexivity.
  - reflexivity.
  - reflexivity.
  - apply cons_m_text_content_mut.
  - destruct (negb (is_type st e TElement)); [reflexivity|].
    pose proof (cons_new_node st VDocument) as H1. destruct (new_node st VDocument) as [st1 d]. cbn [fst] in H1.
    pose proof (cons_m_append st1 d e) as H2. destruct (m_append st1 d e) as [st2 o]. cbn [fst] in H2. destruct o; cbn; congruence.
Qed.

(* ---------- along histories ---------- *)

Definition hfinal (st : xstate) (ops : list mop) : xstate := fold_left (fun s o => fst (mstep s o)) ops st.

Theorem noadj_history ops : forall st, Good st -> cons st = true -> noadj st -> forallb plain_op ops = true ->
  noadj (hfinal st ops) /\ cons (hfinal st ops) = true.
Proof.
  induction ops as [|o ops IH]; intros st G Hc Hna Hp; cbn [hfinal fold_left]; [auto|].
  cbn [forallb] in Hp. apply andb_true_iff in Hp as [Ho Hp].
  apply IH; [exact (ext_good _ _ (Ext_mstep st o G))|apply cons_mstep; assumption|apply noadj_mstep; assumption|exact Hp].
Qed.
