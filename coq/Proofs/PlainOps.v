(* PlainOps.v — C05: every successful append / prepend / insert_before / insert_after leaves the store in the state the same
   operation produces on plain ordered trees: the subtree is cut out of wherever it was ([fdel]) and put in at the requested
   place by the plain list insertion, and — with consolidation on — runs of adjacent text nodes read as one ([content]).
   The calls of the model interleave two consolidations with the move (one where the node leaves, computed with the node still
   in place; one where it arrives, computed before it arrives); the proof shows that each of them is a merge of two text nodes
   that are adjacent in the plainly moved forest, and that such a merge does not change the reading. *)
From Coq Require Import List NArith ZArith Bool Lia Permutation Arith.
From XotV Require Import Model.Base Model.Zipper Model.Access Model.Store Model.Manip Spec.DocOrder Spec.Paths Spec.Shape Spec.NoAdj
                         Proofs.ZipperProofs Proofs.AccessProofs Proofs.StoreProofs Proofs.ForestFacts Proofs.InvProofs Proofs.Canon
                         Proofs.ShapeProofs Proofs.KeysProofs Proofs.InvSteps Proofs.InvOps Proofs.PathFacts Proofs.Levels Proofs.NoAdjFacts
                         Proofs.NoAdjOps Proofs.Atomic Proofs.NoPanic Proofs.CloneShape Proofs.WrapEffect Proofs.PlainFacts.
Import ListNotations.
Open Scope N_scope.

(* the subtree of a node, as a one-element sibling list *)
Definition tree_of (st : xstate) (b : N) : forest :=
  match cur st b with Some z => FCons b (z_val z) (z_kids z) FNil | None => FNil end.

(* ---------- what the two consolidation helpers do, exactly ---------- *)

Lemma rc_exact st a b st1 m : remove_consolidate st a b = (st1, m) ->
  (m = false /\ st1 = st)
  \/ (exists p n tp tn, a = Some p /\ b = Some n /\ cons st = true /\ val st p = Some (VText tp) /\ val st n = Some (VText tn) /\ m = true
        /\ st1 = remove_single_raw (with_store st (fset_val p (append_text_to tn) (store st))) n).
Proof.
  unfold remove_consolidate. destruct (cons st) eqn:Ec; cbn [negb]; [|intros H; inversion H; auto].
  destruct a as [p|]; [|intros H; inversion H; auto]. destruct b as [n|]; [|intros H; inversion H; auto].
  destruct (val st p) as [[]|] eqn:Ep; try (intros H; inversion H; auto; fail).
  destruct (val st n) as [[]|] eqn:En; try (intros H; inversion H; auto; fail).
  intros H. inversion H; subst. right. eexists p, n, _, _. repeat split; eauto.
Qed.

Lemma ac_exact st node prev next st1 m : add_consolidate st node prev next = (st1, m) ->
  (m = false /\ st1 = st)
  \/ (exists p tp tb, prev = Some p /\ val st p = Some (VText tp) /\ val st node = Some (VText tb) /\ m = true
        /\ st1 = remove_single_raw (with_store st (fset_val p (append_text_to tb) (store st))) node)
  \/ (exists n tn tb, next = Some n /\ val st n = Some (VText tn) /\ val st node = Some (VText tb) /\ m = true
        /\ st1 = remove_single_raw (with_store st (fset_val n (prepend_text_to tb) (store st))) node).
Proof.
  unfold add_consolidate. destruct (cons st) eqn:Ec; cbn [negb]; [|intros H; inversion H; auto].
  destruct (val st node) as [[]|] eqn:En; try (intros H; inversion H; auto; fail).
  assert (forall st1 m,
    match next with
    | Some n => match val st n with
                | Some (VText _) => (remove_single_raw (with_store st (fset_val n (prepend_text_to s) (store st))) node, true)
                | _ => (st, false)
                end
    | None => (st, false)
    end = (st1, m) ->
    (m = false /\ st1 = st)
    \/ (exists p tp tb, prev = Some p /\ val st p = Some (VText tp) /\ Some (VText s) = Some (VText tb) /\ m = true
          /\ st1 = remove_single_raw (with_store st (fset_val p (append_text_to tb) (store st))) node)
    \/ (exists n tn tb, next = Some n /\ val st n = Some (VText tn) /\ Some (VText s) = Some (VText tb) /\ m = true
          /\ st1 = remove_single_raw (with_store st (fset_val n (prepend_text_to tb) (store st))) node)) as Hnext.
  { intros st2 m2. destruct next as [n|]; [|intros H; inversion H; auto].
    destruct (val st n) as [[]|] eqn:Et; try (intros H; inversion H; auto; fail).
    intros H. inversion H; subst. right. right. eexists n, _, _. repeat split; eauto. }
  destruct prev as [p|]; [|apply Hnext].
  destruct (val st p) as [[]|] eqn:Ep; try apply Hnext.
  intros H. inversion H; subst. right. left. eexists p, _, _. repeat split; eauto.
Qed.

(* ---------- text nodes of a good store ---------- *)

Lemma text_find st x t : Good st -> val st x = Some (VText t) -> find x (store st) = Some (VText t, FNil).
Proof.
  intros G. unfold val. destruct (cur st x) as [z|] eqn:Ez; [|discriminate]. intros H. inversion H as [Hv].
  rewrite (find_of_cur _ _ _ Ez), Hv. rewrite (text_leaf st x z (Good_WF _ G) Ez); [reflexivity|]. rewrite Hv. reflexivity.
Qed.

Lemma good_text_find st x t : Good st -> In (x, VText t) (nodes (store st)) -> find x (store st) = Some (VText t, FNil).
Proof. intros G H. apply text_find; [exact G|]. apply nodes_val; [apply Good_nodup; exact G|exact H]. Qed.

(* the store after a merge: one value rewritten, one leaf deleted *)
Lemma merged_store st p g n t : Good st -> p <> n -> val st n = Some (VText t) ->
  store (remove_single_raw (with_store st (fset_val p g (store st))) n) = fdel n (fset_val p g (store st)).
Proof.
  intros G Hne Hv. unfold remove_single_raw, free_slots. cbn [store with_store].
  apply (fsplice_leaf n _ (VText t)).
  - rewrite nodes_fset_val_ids. apply Good_nodup. exact G.
  - rewrite (find_fset_val_other n p g (store st) (Good_nodup _ G) ltac:(congruence) _ _ (text_find _ _ _ G Hv)). reflexivity.
Qed.

(* ---------- siblings, seen from a cursor ---------- *)

Lemma q_prev_view st n z p : cur st n = Some z -> q_prev st n = Some p ->
  exists v k r, z_before z = FCons p v k r /\ value_category v = value_category (z_val z).
Proof.
  intros Hc. unfold q_prev. rewrite Hc. unfold previous_sibling, left. destruct (z_before z) as [|i v k r]; [discriminate|].
  unfold zcat. cbn [z_val]. destruct (vcat_eqb (value_category (z_val z)) (value_category v)) eqn:E; [|discriminate].
  cbn. intros H. inversion H; subst. exists v, k, r. split; [reflexivity|].
  destruct (value_category (z_val z)), (value_category v); try discriminate; reflexivity.
Qed.

Lemma q_next_view st n z p : cur st n = Some z -> q_next st n = Some p ->
  exists v k r, z_after z = FCons p v k r /\ value_category v = value_category (z_val z).
Proof.
  intros Hc. unfold q_next. rewrite Hc. unfold next_sibling, right. destruct (z_after z) as [|i v k r]; [discriminate|].
  unfold zcat. cbn [z_val]. destruct (vcat_eqb (value_category (z_val z)) (value_category v)) eqn:E; [|discriminate].
  cbn. intros H. inversion H; subst. exists v, k, r. split; [reflexivity|].
  destruct (value_category (z_val z)), (value_category v); try discriminate; reflexivity.
Qed.

Lemma cat_normal v w : value_category v = value_category w -> is_normal w = true -> is_normal v = true.
Proof. destruct v, w; try discriminate; reflexivity. Qed.

Lemma has_sibling_inner st n z : cur st n = Some z -> (q_prev st n <> None \/ q_next st n <> None) -> z_ups z <> [].
Proof. intros Hc H Hu. destruct (q_prev_root st n z Hc Hu) as [H1 H2]. destruct H; congruence. Qed.

(* the slots around a cursor are pairwise different *)
Lemma level_disjoint st n z : WF st -> cur st n = Some z ->
  NoDup (ids (z_before z) ++ n :: ids (z_kids z) ++ ids (z_after z)).
Proof.
  intros W Hc. destruct (zview _ _ _ Hc) as [_ (A & B & E)]. pose proof (proj1 W) as Hnd. rewrite E, !ids_fapp in Hnd.
  apply NoDup_app_inv in Hnd as [_ Hnd]. apply NoDup_app_inv in Hnd as [Hnd _]. unfold plug in Hnd.
  destruct (nodup_plug_ups_inv _ _ Hnd) as [HL _]. unfold z_level in HL.
  eapply Permutation_NoDup in HL; [|apply ids_frev_app]. rewrite (cur_slot _ _ _ Hc) in HL. exact HL.
Qed.

(* ---------- the cut ---------- *)

Lemma cut_setup st b zb : Good st -> cur st b = Some zb ->
  fcut b (store st) = Some (fdel b (store st), (b, z_val zb, z_kids zb))
  /\ tree_of st b = FCons b (z_val zb) (z_kids zb) FNil.
Proof.
  intros G Hc. pose proof (Good_WF _ G) as W. destruct (zview _ _ _ Hc) as [_ (A & B & E)].
  pose proof (fcut_view st b zb A B W Hc E) as Hcut.
  rewrite (fcut_fdel _ _ _ _ (proj1 W) Hcut) in Hcut. split; [exact Hcut|]. unfold tree_of. rewrite Hc. reflexivity.
Qed.

Lemma move_store st b zb ins : Good st -> cur st b = Some zb ->
  store (move st b ins) = ins (tree_of st b) (fdel b (store st)).
Proof. intros G Hc. destruct (cut_setup st b zb G Hc) as [Hcut Ht]. unfold move. rewrite Hcut, Ht. reflexivity. Qed.

(* the subtree of a leaf is the leaf *)
Lemma subtree_leaf n f v : find n f = Some (v, FNil) -> subtree_ids n f = [n].
Proof. unfold subtree_ids. intros ->. reflexivity. Qed.

(* the node that moves is found unchanged after a merge of two of its siblings *)
Lemma find_after_merge b vb kb p n g t f : NoDup (ids f) -> b <> p -> b <> n -> p <> n ->
  find b f = Some (vb, kb) -> ~ In p (ids kb) -> ~ In n (ids kb) -> find n f = Some (VText t, FNil) ->
  find b (fdel n (fset_val p g f)) = Some (vb, kb).
Proof.
  intros Hnd Hbp Hbn Hpn Fb Hpk Hnk Fn.
  assert (NoDup (ids (fset_val p g f))) as Hnd' by (rewrite nodes_fset_val_ids; exact Hnd).
  pose proof (find_fset_val_other b p g f Hnd Hbp _ _ Fb) as F1. rewrite (fset_val_absent p g kb Hpk) in F1.
  pose proof (find_fset_val_other n p g f Hnd ltac:(congruence) _ _ Fn) as F2. cbn [fset_val] in F2.
  rewrite <- (drop_fdel n _ Hnd').
  rewrite (find_drop n _ Hnd' b vb kb F1 Hbn).
  - rewrite (drop_fdel n kb); [rewrite (fdel_absent n kb Hnk); reflexivity|].
    assert (incl (ids kb) (ids f)) as Hi by (intros x Hx; eapply find_incl; [exact Fb|right; exact Hx]).
    clear - Hnd Fb. revert vb kb Fb. induction f as [|i w kk IHk r IHr]; intros vb kb; [discriminate|].
    cbn [ids] in Hnd. apply NoDup_cons_app_inv in Hnd as (_ & _ & Hk & Hr & _). rewrite find_cons.
    destruct (N.eqb i b); [intros H; inversion H; subst; exact Hk|].
    destruct (find b kk) as [y|] eqn:E; [intros H; inversion H; subst; eapply IHk; eauto|apply IHr; exact Hr].
  - rewrite (subtree_leaf n _ _ F2). intros [H|[]]. congruence.
Qed.

(* ---------- the consolidation where the node leaves ---------- *)

Lemma rc_around st b zb st1 m0 : Good st -> cons st = true -> noadj st -> cur st b = Some zb -> is_normal (z_val zb) = true ->
  remove_consolidate st (q_prev st b) (q_next st b) = (st1, m0) ->
  (m0 = false /\ st1 = st)
  \/ (m0 = true /\ exists pb nb tp tn, q_prev st b = Some pb /\ q_next st b = Some nb
        /\ val st pb = Some (VText tp) /\ val st nb = Some (VText tn)
        /\ pb <> b /\ nb <> b /\ pb <> nb /\ is_text_val (z_val zb) = false
        /\ ~ In pb (ids (z_kids zb)) /\ ~ In nb (ids (z_kids zb))
        /\ store st1 = fdel nb (fset_val pb (append_text_to tn) (store st)) /\ cons st1 = true /\ Good st1
        /\ follb true pb nb (fdel b (store st)) /\ follb true b nb (store st) /\ z_ups zb <> []).
Proof.
  intros G Hcons Hna Hc Hnv E1. pose proof (Good_WF _ G) as W.
  destruct (rc_exact _ _ _ _ _ E1) as [H|(pb & nb & tp & tn & Ha & Hb & _ & Hvp & Hvn & -> & ->)]; [left; exact H|]. right. split; [reflexivity|].
  exists pb, nb, tp, tn. split; [exact Ha|]. split; [exact Hb|]. split; [exact Hvp|]. split; [exact Hvn|].
  destruct (q_prev_view _ _ _ _ Hc Ha) as (vp & kp & bf' & Eb & Hcp). destruct (q_next_view _ _ _ _ Hc Hb) as (vn & kn & af' & Ea & Hcn).
  pose proof (level_disjoint st b zb W Hc) as Hld. rewrite Eb, Ea in Hld. cbn [ids] in Hld.
  assert (z_ups zb <> []) as Hne by (eapply has_sibling_inner; [exact Hc|left; congruence]).
  assert (pb <> b) as Hpb.
  { intros ->. apply NoDup_remove_2 in Hld. apply Hld. cbn. left. reflexivity. }
  assert (forall x, In x (b :: ids (z_kids zb) ++ nb :: ids kn ++ ids af') -> ~ In x (pb :: ids kp ++ ids bf')) as Hsep.
  { intros x Hx Hy. eapply NoDup_app_not_in; [exact Hld|exact Hy|exact Hx]. }
  assert (nb <> b) as Hnb.
  { intros ->. apply NoDup_app_inv in Hld as [_ Hld]. inversion Hld as [|? ? Hnotin _]; subst. apply Hnotin. apply in_or_app. right. left. reflexivity. }
  assert (pb <> nb) as Hpn.
  { intros ->. apply (Hsep nb); [right; apply in_or_app; right; left; reflexivity|left; reflexivity]. }
  assert (~ In pb (ids (z_kids zb))) as Hpk.
  { intros Hx. apply (Hsep pb); [right; apply in_or_app; left; exact Hx|left; reflexivity]. }
  assert (~ In nb (ids (z_kids zb))) as Hnk.
  { intros Hx. apply NoDup_app_inv in Hld as [_ Hld]. inversion Hld as [|? ? _ Hld']; subst.
    eapply NoDup_app_not_in; [exact Hld'|exact Hx|left; reflexivity]. }
  (* the values of the two neighbours, as the cursor shows them *)
  assert (cur st pb = Some (mkz pb vp kp bf' (FCons b (z_val zb) (z_kids zb) (z_after zb)) (z_ups zb))) as Hcp0.
  { assert (Zipper.left zb = Some (mkz pb vp kp bf' (FCons b (z_val zb) (z_kids zb) (z_after zb)) (z_ups zb))) as Hl
      by (unfold Zipper.left; rewrite Eb; rewrite (cur_slot _ _ _ Hc); reflexivity).
    exact (cur_move st b zb _ (proj1 W) Hc (or_intror (or_introl Hl))). }
  assert (vp = VText tp) as -> by (rewrite (val_of_cur _ _ _ Hcp0) in Hvp; inversion Hvp; reflexivity).
  destruct (zview _ _ _ Hc) as [Htc (A & B & E)].
  destruct (na_parts st zb A B E Hna) as (_ & _ & _ & _ & _ & _ & _ & Hin). destruct (Hin Hne) as (_ & _ & Hjb & _).
  rewrite Eb in Hjb. cbn [head_text is_text_val] in Hjb. rewrite andb_true_r in Hjb. apply negb_true_iff in Hjb.
  split; [exact Hpb|]. split; [exact Hnb|]. split; [exact Hpn|]. split; [exact Hjb|]. split; [exact Hpk|]. split; [exact Hnk|].
  split; [apply (merged_store st pb _ nb tn G Hpn Hvn)|]. split; [exact Hcons|].
  split.
  { pose proof (Ext_remove_consolidate st (q_prev st b) (q_next st b) G) as X. rewrite E1 in X. exact (ext_good _ _ X). }
  split; [|split; [|exact Hne]].
  - (* in the cut store the two neighbours touch *)
    destruct (cut_setup st b zb G Hc) as [Hcut _]. pose proof (fcut_view st b zb A B W Hc E) as Hcut'. rewrite Hcut in Hcut'.
    inversion Hcut' as [Hf]. rewrite Hf. unfold cut_store. destruct (z_ups zb) as [|fr ups] eqn:Eu; [congruence|]. rewrite Eb, Ea.
    set (zp := mkz pb (VText tp) kp bf' (FCons nb vn kn af') (fr :: ups)).
    change (fapp A (fapp (plug_ups (frev_app (FCons pb (VText tp) kp bf') (FCons nb vn kn af')) (fr :: ups)) B))
      with (fapp A (fapp (plug zp) B)).
    apply (follb_view_next zp A B nb); [discriminate|reflexivity|reflexivity].
  - rewrite E. rewrite <- (cur_slot _ _ _ Hc). apply (follb_view_next zb A B nb Hne Hnv). rewrite Ea. reflexivity.
Qed.

(* the plain move made after that consolidation is the plain move made before it, with the same merge applied afterwards *)
Lemma move_after_rc_at st st1 b zb pb nb tn g (ins : forest -> forest -> forest) :
  Good st -> Good st1 -> cur st b = Some zb -> pb <> b -> nb <> b -> pb <> nb ->
  ~ In pb (ids (z_kids zb)) -> ~ In nb (ids (z_kids zb)) -> val st nb = Some (VText tn) ->
  store st1 = fdel nb (fset_val pb g (store st)) ->
  fdel nb (ins (tree_of st b) (fset_val pb g (fdel b (store st)))) = ins (tree_of st b) (fdel nb (fset_val pb g (fdel b (store st)))) ->
  fset_val pb g (ins (tree_of st b) (fdel b (store st))) = ins (tree_of st b) (fset_val pb g (fdel b (store st))) ->
  store (move st1 b ins) = fdel nb (fset_val pb g (ins (tree_of st b) (fdel b (store st)))).
Proof.
  intros G G1 Hc Hpb Hnb Hpn Hpk Hnk Hvn E1 Hdel Hset.
  destruct (cut_setup st b zb G Hc) as [Hcut Ht].
  pose proof (find_after_merge b (z_val zb) (z_kids zb) pb nb g tn (store st) (Good_nodup _ G) ltac:(congruence) ltac:(congruence) Hpn
                (find_of_cur _ _ _ Hc) Hpk Hnk (text_find _ _ _ G Hvn)) as Fb. rewrite <- E1 in Fb.
  assert (In b (ids (store st1))) as Hin by (eapply find_in; exact Fb).
  destruct (fcut_some _ _ Hin) as (f1 & [[i v1] k1] & Hcut1).
  pose proof (fcut_slot _ _ _ _ _ _ Hcut1) as ->. pose proof (fcut_find _ _ _ _ _ _ Hcut1) as Fb1. rewrite Fb in Fb1. inversion Fb1; subst v1 k1.
  unfold move. rewrite Hcut1. cbn [store with_store single]. rewrite (fcut_fdel _ _ _ _ (Good_nodup _ G1) Hcut1).
  rewrite <- Ht, E1. rewrite (fdel_comm b nb), (fdel_fset_val b pb g) by congruence. rewrite <- Hdel, <- Hset. reflexivity.
Qed.

Lemma move_after_rc st st1 b zb pb nb tn g (ins : forest -> forest -> forest) :
  Good st -> Good st1 -> cur st b = Some zb -> pb <> b -> nb <> b -> pb <> nb ->
  ~ In pb (ids (z_kids zb)) -> ~ In nb (ids (z_kids zb)) -> val st nb = Some (VText tn) ->
  store st1 = fdel nb (fset_val pb g (store st)) ->
  (forall X, fdel nb (ins (tree_of st b) X) = ins (tree_of st b) (fdel nb X)) ->
  (forall X, fset_val pb g (ins (tree_of st b) X) = ins (tree_of st b) (fset_val pb g X)) ->
  store (move st1 b ins) = fdel nb (fset_val pb g (ins (tree_of st b) (fdel b (store st)))).
Proof. intros. eapply move_after_rc_at; eauto. Qed.

(* the reading after a merge in a good store *)
Lemma reading_merged s p n tp tn : Good s -> follb true p n (store s) ->
  In (p, VText tp) (nodes (store s)) -> In (n, VText tn) (nodes (store s)) ->
  content true (fdel n (fset_val p (append_text_to tn) (store s))) = content true (store s).
Proof.
  intros G Hf Hp Hn. unfold content.
  apply (merge_reading p n tp tn (store s) true (Good_nodup _ G) Hf (good_text_find _ _ _ G Hp) (good_text_find _ _ _ G Hn)).
Qed.

Lemma reading_merged_next s b n tb tn : Good s -> follb true b n (store s) ->
  In (b, VText tb) (nodes (store s)) -> In (n, VText tn) (nodes (store s)) ->
  content true (fdel b (fset_val n (prepend_text_to tb) (store s))) = content true (store s).
Proof.
  intros G Hf Hp Hn. unfold content.
  apply (merge_reading_next b n tb tn (store s) true (Good_nodup _ G) Hf (good_text_find _ _ _ G Hp) (good_text_find _ _ _ G Hn)).
Qed.

(* a plain move keeps every node and its value *)
Lemma move_nodes st b zb ins : Good st -> cur st b = Some zb ->
  Permutation (nodes (ins (tree_of st b) (fdel b (store st)))) (nodes (fdel b (store st)) ++ nodes (tree_of st b)) ->
  forall x, In x (nodes (store st)) <-> In x (nodes (store (move st b ins))).
Proof.
  intros G Hc Hperm x. destruct (cut_setup st b zb G Hc) as [Hcut Ht]. rewrite (move_store st b zb ins G Hc).
  pose proof (fcut_spec _ _ _ _ _ _ Hcut) as [_ Hp].
  rewrite Hperm. rewrite Ht. cbn [nodes]. rewrite app_nil_r.
  split; intros H.
  - eapply Permutation_in in H; [|exact Hp]. cbn in H. apply in_or_app. destruct H as [H|H]; [right; left; exact H|].
    apply in_app_or in H as [H|H]; [right; right; exact H|left; exact H].
  - eapply Permutation_in; [apply Permutation_sym; exact Hp|]. cbn. apply in_app_or in H as [H|[H|H]]; [right; apply in_or_app; right; exact H|left; exact H|right; apply in_or_app; left; exact H].
Qed.

Lemma nodup_cut_store st b zb : Good st -> cur st b = Some zb -> NoDup (ids (fdel b (store st))).
Proof.
  intros G Hc. destruct (cut_setup st b zb G Hc) as [Hcut _].
  pose proof (Good_nodup _ G) as Hn. eapply Permutation_NoDup in Hn; [|apply (fcut_ids _ _ _ _ _ _ Hcut)].
  inversion Hn; subst. apply NoDup_app_inv in H2. tauto.
Qed.

(* the next sibling's previous sibling *)
Lemma next_prev st x y : NoDup (ids (store st)) -> q_next st x = Some y -> q_prev st y = Some x.
Proof.
  intros Hnd H. destruct (q_next_cur st x y Hnd H) as (z & s & Hz & Hs & Hr & _).
  unfold q_next in H. rewrite Hz in H. unfold next_sibling in H. rewrite Hr in H.
  destruct (vcat_eqb (zcat z) (zcat s)) eqn:Ec; [|discriminate].
  unfold q_prev. rewrite Hs. unfold previous_sibling, Zipper.left. unfold Zipper.right in Hr.
  destruct (z_after z) as [|i v k r]; [discriminate|]. inversion Hr; subst s. cbn [z_before z_slot z_val z_kids z_after z_ups].
  unfold zcat in *. cbn [z_val] in *.
  assert (vcat_eqb (value_category v) (value_category (z_val z)) = true) as -> by (destruct (value_category v), (value_category (z_val z)); try discriminate; reflexivity).
  cbn. rewrite (cur_slot _ _ _ Hz). reflexivity.
Qed.

Lemma fdel_own_tree b v k : fdel b (FCons b v k FNil) = FNil.
Proof. cbn. rewrite N.eqb_refl. reflexivity. Qed.

(* [content] of a store that has no adjacent text nodes whenever consolidation is on *)
Lemma content_plain c f : (c = true -> na f = true) -> content c f = erase f.
Proof. intros H. destruct c; [apply content_noadj; auto|reflexivity]. Qed.

(* ---------- insert_after ---------- *)

Definition plain_insert_after (st : xstate) (ref b : N) : forest := finsert_after ref (tree_of st b) (fdel b (store st)).

(* a sibling of [ref] is not inside the subtree that moves *)
Lemma sibling_outside st ref zr b zb P n : Good st -> cur st ref = Some zr -> cur st b = Some zb ->
  q_parent st ref = Some P -> mem b (q_ancestors st P) = false -> cur st P <> None ->
  (q_next st ref = Some n \/ q_prev st ref = Some n) -> ~ In n (ids (z_kids zb)).
Proof.
  intros G Hcr Hcb HP Hanc HcP Hn Hin. pose proof (Good_nodup _ G) as Hnd.
  assert (path_in n (store st) = path_in ref (store st)) as Hp by (destruct Hn as [Hn|Hn]; [eapply q_next_same_path|eapply q_prev_same_path]; eauto).
  destruct (descendant_has_ancestor _ _ _ _ _ Hnd (find_of_cur _ _ _ Hcb) Hin) as (l' & Hl' & Hbl).
  destruct (q_parent_path _ _ _ HP) as (l & Hl). rewrite Hp, Hl in Hl'. inversion Hl'; subst l'.
  destruct (cur st P) as [zP|] eqn:EP; [|congruence]. destruct (q_ancestors_path _ _ _ EP) as (l2 & Hl2 & Ha).
  rewrite (path_in_parent _ _ _ _ Hnd Hl) in Hl2. inversion Hl2; subst l2.
  assert (mem b (q_ancestors st P) = true) as Ht by (apply mem_true; rewrite Ha; exact Hbl). congruence.
Qed.

Theorem insert_after_plain st ref b : Good st -> (cons st = true -> noadj st) -> sibling_check st ref b = true ->
  erase (store (fst (m_insert_after st ref b))) = content (cons st) (plain_insert_after st ref b).
Proof.
  intros G Hcn Hsc. pose proof (Good_WF _ G) as W. pose proof (Good_nodup _ G) as Hnd.
  destruct (sibling_check_facts _ _ _ Hsc) as (Hne & (vr & Hvr & Hnr) & (P & HP & Hst)).
  destruct (structure_check_facts _ _ _ Hst) as (Hanc & (vp0 & Hvp0 & Hcont) & (vb & Hvb & Hcok)).
  destruct (cur st b) as [zb|] eqn:Hcb; [|unfold val in Hvb; rewrite Hcb in Hvb; discriminate].
  assert (z_val zb = vb) as Hzv by (unfold val in Hvb; rewrite Hcb in Hvb; inversion Hvb; reflexivity).
  assert (is_normal (z_val zb) = true) as Hnb by (rewrite Hzv; unfold child_ok in Hcok; apply andb_true_iff in Hcok; tauto).
  destruct (cur st ref) as [zr|] eqn:Hcr; [|unfold val in Hvr; rewrite Hcr in Hvr; discriminate].
  assert (z_val zr = vr) as Hzr by (unfold val in Hvr; rewrite Hcr in Hvr; inversion Hvr; reflexivity).
  assert (is_normal (z_val zr) = true) as Hnzr by (rewrite Hzr; exact Hnr).
  assert (z_ups zr <> []) as Hur.
  { unfold q_parent in HP. rewrite Hcr in HP. unfold parent, up in HP. destruct (z_ups zr); [discriminate|discriminate]. }
  destruct (zview _ _ _ Hcr) as [_ (Ar & Br & Er)]. destruct (zview _ _ _ Hcb) as [_ (Ab & Bb & Eb)].
  pose proof (cur_slot _ _ _ Hcr) as Hsr. pose proof (cur_slot _ _ _ Hcb) as Hsb.
  destruct (cut_setup st b zb G Hcb) as [Hcut Ht].
  pose proof (nodup_cut_store st b zb G Hcb) as Hndc.
  set (ins := fun (t f : forest) => finsert_after ref t f).
  assert (In ref (ids (fdel b (store st)))) as Hrin.
  { eapply fcut_keeps; [exact Hcut|eapply cur_in; exact Hcr|].
    eapply sibling_not_below; [exact Hnd|exact HP|eapply val_cur; exact Hvp0|exact Hanc|exact Hne]. }
  assert (Ext st (move st b ins)) as Xpl.
  { apply (Ext_move_sibling st st ref b ins G G (later_refl st) Hsc); [eapply cur_in; exact Hcr| | |].
    - intros. apply finsert_after_spec; auto.
    - intros. apply shape_store_insert_after; auto.
    - intros. apply keys_finsert_after; auto. }
  pose proof (ext_good _ _ Xpl) as Gpl.
  pose proof (move_store st b zb ins G Hcb) as Epl.
  pose proof (move_nodes st b zb ins G Hcb (finsert_after_spec ref _ _ Hndc Hrin)) as Hnodes.
  assert (~ In ref (ids (tree_of st b))) as HrT.
  { rewrite Ht. cbn [ids]. rewrite app_nil_r. intros [Hx|Hx]; [congruence|].
    apply (sibling_not_below st ref b P Hnd HP ltac:(eapply val_cur; exact Hvp0) Hanc Hne).
    unfold subtree_ids. rewrite (find_of_cur _ _ _ Hcb). right. exact Hx. }
  assert (occb true ref (fdel b (store st))) as Hocc.
  { apply occb_fdel; [exact Hnd|exact Hrin|]. rewrite Er, <- Hsr. apply occb_view; assumption. }
  assert (cons st = true -> na (store (fst (m_insert_after st ref b))) = true) as Hfin
    by (intros Hc; apply (noadj_m_insert_after st ref b G Hc (Hcn Hc))).
  rewrite <- (content_plain (cons st) _ Hfin). clear Hfin.
  unfold plain_insert_after. change (finsert_after ref (tree_of st b) (fdel b (store st))) with (ins (tree_of st b) (fdel b (store st))).
  rewrite <- Epl.
  unfold m_insert_after. rewrite Hsc. cbn [negb].
  destruct (opt_eqb (q_prev st b) (Some ref)) eqn:Enoop.
  - (* the node is where it is asked to be *)
    cbn [fst]. f_equal. rewrite Epl. unfold ins. rewrite Ht. symmetry.
    assert (q_prev st b = Some ref) as Hq.
    { destruct (q_prev st b) as [x|]; [|discriminate]. cbn in Enoop. apply N.eqb_eq in Enoop. congruence. }
    destruct (q_prev_view _ _ _ _ Hcb Hq) as (v & k & r & Ebf & Hcat).
    apply (insert_after_in_place ref b _ _ (store st) true Hnd); [|exact (find_of_cur _ _ _ Hcb)].
    rewrite Eb, <- Hsb. apply follb_view_prev.
    + eapply has_sibling_inner; [exact Hcb|left; congruence].
    + rewrite Ebf. reflexivity.
    + rewrite Ebf. eapply cat_normal; [exact Hcat|exact Hnb].
  - assert (q_prev st b <> Some ref) as Hq by (apply opt_eqb_false_ne; exact Enoop).
    destruct (remove_consolidate st (q_prev st b) (q_next st b)) as [st1 m0] eqn:E1.
    destruct (cons st) eqn:Ec.
    2:{ (* consolidation is off: nothing is merged *)
        assert (st1 = st /\ m0 = false) as [-> ->].
        { unfold remove_consolidate in E1. rewrite Ec in E1. cbn in E1. inversion E1; auto. }
        cbn [andb]. unfold add_consolidate. rewrite Ec. cbn [negb fst]. reflexivity. }
    specialize (Hcn eq_refl).
    destruct (rc_around st b zb st1 m0 G Ec Hcn Hcb Hnb E1)
      as [[-> ->]|(-> & pb & nb & tp & tn & Hqp & Hqn & Hvp & Hvn & Hpb & Hnbb & Hpn & Hbt & Hpk & Hnk & Es1 & Cs1 & G1 & Hf1 & Hf2 & Hub)].
    + cbn [andb]. destruct (add_consolidate st b (Some ref) (q_next st ref)) as [st2 m] eqn:E2.
      destruct (ac_exact _ _ _ _ _ _ E2) as [[-> ->]|[(p & tp & tb & Hp & Hvp & Hvbt & -> & ->)|(n & tn & tb & Hn & Hvn & Hvbt & -> & ->)]]; cbn [fst].
      * reflexivity.
      * (* the text node goes into the text node it is put after *)
        inversion Hp; subst p.
        rewrite (merged_store st ref _ b tb G Hne Hvbt).
        assert (fdel b (fset_val ref (append_text_to tb) (store st))
                = fdel b (fset_val ref (append_text_to tb) (store (move st b ins)))) as ->.
        { rewrite Epl. unfold ins. rewrite (fset_val_finsert_after ref _ ref _ _ HrT).
          rewrite (fdel_finsert_after b ref) by congruence. rewrite Ht, fdel_own_tree, finsert_after_nil.
          rewrite !(fdel_fset_val b ref) by congruence. rewrite fdel_idem. reflexivity. }
        apply (reading_merged _ ref b tp tb Gpl).
        -- rewrite Epl. unfold ins. rewrite Ht. apply follb_ins_after_new; assumption.
        -- apply Hnodes. apply val_nodes. exact Hvp.
        -- apply Hnodes. apply val_nodes. exact Hvbt.
      * (* the text node goes into the text node that follows *)
        assert (n <> b) as Hnb2.
        { intros ->. apply Hq. apply next_prev; assumption. }
        assert (~ In n (ids (tree_of st b))) as HnT.
        { rewrite Ht. cbn [ids]. rewrite app_nil_r. intros [Hx|Hx]; [congruence|].
          apply (sibling_outside st ref zr b zb P n G Hcr Hcb HP Hanc ltac:(eapply val_cur; exact Hvp0) (or_introl Hn)). exact Hx. }
        rewrite (merged_store st n _ b tb G ltac:(congruence) Hvbt).
        assert (fdel b (fset_val n (prepend_text_to tb) (store st))
                = fdel b (fset_val n (prepend_text_to tb) (store (move st b ins)))) as ->.
        { rewrite Epl. unfold ins. rewrite (fset_val_finsert_after n _ ref _ _ HnT).
          rewrite (fdel_finsert_after b ref) by congruence. rewrite Ht, fdel_own_tree, finsert_after_nil.
          rewrite !(fdel_fset_val b n) by congruence. rewrite fdel_idem. reflexivity. }
        apply (reading_merged_next _ b n tb tn Gpl).
        -- rewrite Epl. unfold ins. rewrite Ht. apply follb_ins_after_next; [exact Hndc|exact Hnb|].
           apply follb_fdel; [exact Hnd|exact Hrin|exact Hnb2|].
           destruct (q_next_view _ _ _ _ Hcr Hn) as (v & k & r & Eaf & _).
           rewrite Er, <- Hsr. apply follb_view_next; [exact Hur|exact Hnzr|rewrite Eaf; reflexivity].
        -- apply Hnodes. apply val_nodes. exact Hvbt.
        -- apply Hnodes. apply val_nodes. exact Hvn.
    + (* the two neighbours the node leaves were merged *)
      assert (~ In pb (ids (tree_of st b))) as HpT by (rewrite Ht; cbn [ids]; rewrite app_nil_r; intros [Hx|Hx]; [congruence|contradiction]).
      assert (~ In nb (ids (tree_of st b))) as HnT by (rewrite Ht; cbn [ids]; rewrite app_nil_r; intros [Hx|Hx]; [congruence|contradiction]).
      assert (ref <> pb) as Hrp by (intros ->; apply Hq; exact Hqp).
      rewrite Hqn. cbn [andb opt_eqb].
      destruct (N.eqb_spec nb ref) as [Enr|Hnr2].
      * (* the reference node was the one merged away *)
        subst nb. cbn [fst]. rewrite Es1.
        assert (fdel ref (fset_val pb (append_text_to tn) (store st))
                = fdel ref (fset_val pb (append_text_to tn) (store (move st b ins)))) as ->.
        { rewrite Epl. unfold ins. rewrite !(fdel_fset_val ref pb) by congruence. f_equal. symmetry. rewrite Ht.
          apply (insert_after_then_delete ref b _ _ (store st) true Hnd Hf2 (find_of_cur _ _ _ Hcb)).
          intros v k Hf. rewrite (text_find _ _ _ G Hvn) in Hf. inversion Hf. reflexivity. }
        apply (reading_merged _ pb ref tp tn Gpl).
        -- rewrite Epl. unfold ins. apply follb_ins_after_keep; [exact Hrp|exact Hf1].
        -- apply Hnodes. apply val_nodes. exact Hvp.
        -- apply Hnodes. apply val_nodes. exact Hvn.
      * assert (add_consolidate st1 b (Some ref) (q_next st1 ref) = (st1, false)) as ->.
        { unfold add_consolidate. rewrite Cs1. cbn [negb]. destruct (val st1 b) as [v1|] eqn:Ev1; [|reflexivity].
          destruct (val_find _ _ _ Ev1) as [k1 Hk1]. rewrite Es1 in Hk1.
          rewrite (find_after_merge b (z_val zb) (z_kids zb) pb nb _ tn (store st) Hnd ltac:(congruence) ltac:(congruence) Hpn
                     (find_of_cur _ _ _ Hcb) Hpk Hnk (text_find _ _ _ G Hvn)) in Hk1.
          inversion Hk1; subst v1. destruct (z_val zb); try reflexivity. discriminate Hbt. }
        cbn [fst]. change (move st1 b (fun t f : forest => finsert_after ref t f)) with (move st1 b ins).
        rewrite (move_after_rc st st1 b zb pb nb tn _ ins G G1 Hcb Hpb Hnbb Hpn Hpk Hnk Hvn Es1).
        -- rewrite <- Epl. apply (reading_merged _ pb nb tp tn Gpl).
           ++ rewrite Epl. unfold ins. apply follb_ins_after_keep; [exact Hrp|exact Hf1].
           ++ apply Hnodes. apply val_nodes. exact Hvp.
           ++ apply Hnodes. apply val_nodes. exact Hvn.
        -- intros X. unfold ins. rewrite (fdel_finsert_after nb ref) by exact Hnr2. rewrite (fdel_absent nb _ HnT). reflexivity.
        -- intros X. unfold ins. apply fset_val_finsert_after. exact HpT.
Qed.

(* ---------- insert_before ---------- *)

Definition plain_insert_before (st : xstate) (ref b : N) : forest := finsert_before ref (tree_of st b) (fdel b (store st)).

Lemma prev_next st x y : NoDup (ids (store st)) -> q_prev st x = Some y -> q_next st y = Some x.
Proof.
  intros Hnd H. destruct (q_prev_cur st x y Hnd H) as (z & s & Hz & Hs & Hr & _).
  unfold q_prev in H. rewrite Hz in H. unfold previous_sibling in H. rewrite Hr in H.
  destruct (vcat_eqb (zcat z) (zcat s)) eqn:Ec; [|discriminate].
  unfold q_next. rewrite Hs. unfold next_sibling, Zipper.right. unfold Zipper.left in Hr.
  destruct (z_before z) as [|i v k r]; [discriminate|]. inversion Hr; subst s. cbn [z_before z_slot z_val z_kids z_after z_ups].
  unfold zcat in *. cbn [z_val] in *.
  assert (vcat_eqb (value_category v) (value_category (z_val z)) = true) as -> by (destruct (value_category v), (value_category (z_val z)); try discriminate; reflexivity).
  cbn. rewrite (cur_slot _ _ _ Hz). reflexivity.
Qed.

Theorem insert_before_plain st ref b : Good st -> (cons st = true -> noadj st) -> sibling_check st ref b = true ->
  erase (store (fst (m_insert_before st ref b))) = content (cons st) (plain_insert_before st ref b).
Proof.
  intros G Hcn Hsc. pose proof (Good_WF _ G) as W. pose proof (Good_nodup _ G) as Hnd.
  destruct (sibling_check_facts _ _ _ Hsc) as (Hne & (vr & Hvr & Hnr) & (P & HP & Hst)).
  destruct (structure_check_facts _ _ _ Hst) as (Hanc & (vp0 & Hvp0 & Hcont) & (vb & Hvb & Hcok)).
  destruct (cur st b) as [zb|] eqn:Hcb; [|unfold val in Hvb; rewrite Hcb in Hvb; discriminate].
  assert (z_val zb = vb) as Hzv by (unfold val in Hvb; rewrite Hcb in Hvb; inversion Hvb; reflexivity).
  assert (is_normal (z_val zb) = true) as Hnb by (rewrite Hzv; unfold child_ok in Hcok; apply andb_true_iff in Hcok; tauto).
  destruct (cur st ref) as [zr|] eqn:Hcr; [|unfold val in Hvr; rewrite Hcr in Hvr; discriminate].
  assert (z_val zr = vr) as Hzr by (unfold val in Hvr; rewrite Hcr in Hvr; inversion Hvr; reflexivity).
  assert (is_normal (z_val zr) = true) as Hnzr by (rewrite Hzr; exact Hnr).
  assert (z_ups zr <> []) as Hur.
  { unfold q_parent in HP. rewrite Hcr in HP. unfold parent, up in HP. destruct (z_ups zr); [discriminate|discriminate]. }
  destruct (zview _ _ _ Hcr) as [_ (Ar & Br & Er)]. destruct (zview _ _ _ Hcb) as [_ (Ab & Bb & Eb)].
  pose proof (cur_slot _ _ _ Hcr) as Hsr. pose proof (cur_slot _ _ _ Hcb) as Hsb.
  destruct (cut_setup st b zb G Hcb) as [Hcut Ht].
  pose proof (nodup_cut_store st b zb G Hcb) as Hndc.
  set (ins := fun (t f : forest) => finsert_before ref t f).
  assert (In ref (ids (fdel b (store st)))) as Hrin.
  { eapply fcut_keeps; [exact Hcut|eapply cur_in; exact Hcr|].
    eapply sibling_not_below; [exact Hnd|exact HP|eapply val_cur; exact Hvp0|exact Hanc|exact Hne]. }
  assert (Ext st (move st b ins)) as Xpl.
  { apply (Ext_move_sibling st st ref b ins G G (later_refl st) Hsc); [eapply cur_in; exact Hcr| | |].
    - intros. apply finsert_before_spec; auto.
    - intros. apply shape_store_insert_before; auto.
    - intros. apply keys_finsert_before; auto. }
  pose proof (ext_good _ _ Xpl) as Gpl.
  pose proof (move_store st b zb ins G Hcb) as Epl.
  pose proof (move_nodes st b zb ins G Hcb (finsert_before_spec ref _ _ Hndc Hrin)) as Hnodes.
  assert (~ In ref (ids (tree_of st b))) as HrT.
  { rewrite Ht. cbn [ids]. rewrite app_nil_r. intros [Hx|Hx]; [congruence|].
    apply (sibling_not_below st ref b P Hnd HP ltac:(eapply val_cur; exact Hvp0) Hanc Hne).
    unfold subtree_ids. rewrite (find_of_cur _ _ _ Hcb). right. exact Hx. }
  assert (occb true ref (fdel b (store st))) as Hocc.
  { apply occb_fdel; [exact Hnd|exact Hrin|]. rewrite Er, <- Hsr. apply occb_view; assumption. }
  assert (cons st = true -> na (store (fst (m_insert_before st ref b))) = true) as Hfin
    by (intros Hc; apply (noadj_m_insert_before st ref b G Hc (Hcn Hc))).
  rewrite <- (content_plain (cons st) _ Hfin). clear Hfin.
  unfold plain_insert_before. change (finsert_before ref (tree_of st b) (fdel b (store st))) with (ins (tree_of st b) (fdel b (store st))).
  rewrite <- Epl.
  unfold m_insert_before. rewrite Hsc. cbn [negb].
  destruct (opt_eqb (q_next st b) (Some ref)) eqn:Enoop.
  - cbn [fst]. f_equal. rewrite Epl. unfold ins. rewrite Ht. symmetry.
    assert (q_next st b = Some ref) as Hq.
    { destruct (q_next st b) as [x|]; [|discriminate]. cbn in Enoop. apply N.eqb_eq in Enoop. congruence. }
    destruct (q_next_view _ _ _ _ Hcb Hq) as (v & k & r & Eaf & Hcat).
    apply (insert_before_in_place ref b _ _ (store st) true Hnd); [|exact (find_of_cur _ _ _ Hcb)].
    rewrite Eb, <- Hsb. apply follb_view_next.
    + eapply has_sibling_inner; [exact Hcb|right; congruence].
    + exact Hnb.
    + rewrite Eaf. reflexivity.
  - assert (q_next st b <> Some ref) as Hq by (apply opt_eqb_false_ne; exact Enoop).
    destruct (remove_consolidate st (q_prev st b) (q_next st b)) as [st1 m0] eqn:E1.
    cbv zeta.
    destruct (cons st) eqn:Ec.
    2:{ assert (st1 = st /\ m0 = false) as [-> ->].
        { unfold remove_consolidate in E1. rewrite Ec in E1. cbn in E1. inversion E1; auto. }
        unfold add_consolidate. rewrite Ec. cbn [negb fst]. reflexivity. }
    specialize (Hcn eq_refl).
    rewrite (insert_before_neighbour_noadj st ref b zb st1 m0 G Ec Hcn Hcb Enoop E1 (proj2 (rc_value st b zb st1 m0 G Ec Hcn Hcb Hnb E1))).
    destruct (rc_around st b zb st1 m0 G Ec Hcn Hcb Hnb E1)
      as [[-> ->]|(-> & pb & nb & tp & tn & Hqp & Hqn & Hvp & Hvn & Hpb & Hnbb & Hpn & Hbt & Hpk & Hnk & Es1 & Cs1 & G1 & Hf1 & Hf2 & Hub)].
    + destruct (add_consolidate st b (q_prev st ref) (Some ref)) as [st2 m] eqn:E2.
      destruct (ac_exact _ _ _ _ _ _ E2) as [[-> ->]|[(p & tp & tb & Hp & Hvp & Hvbt & -> & ->)|(n & tn & tb & Hn & Hvn & Hvbt & -> & ->)]]; cbn [fst].
      * reflexivity.
      * (* the text node goes into the text node in front of the reference *)
        assert (p <> b) as Hpb2.
        { intros ->. apply Hq. apply prev_next; assumption. }
        assert (~ In p (ids (z_kids zb))) as Hpk.
        { apply (sibling_outside st ref zr b zb P p G Hcr Hcb HP Hanc ltac:(eapply val_cur; exact Hvp0) (or_intror Hp)). }
        assert (~ In p (ids (tree_of st b))) as HpT.
        { rewrite Ht. cbn [ids]. rewrite app_nil_r. intros [Hx|Hx]; [congruence|contradiction]. }
        assert (In p (ids (fdel b (store st)))) as Hpin.
        { eapply fcut_keeps; [exact Hcut|eapply val_in_ids; exact Hvp|].
          unfold subtree_ids. rewrite (find_of_cur _ _ _ Hcb). intros [Hx|Hx]; [congruence|contradiction]. }
        rewrite (merged_store st p _ b tb G ltac:(congruence) Hvbt).
        assert (fdel b (fset_val p (append_text_to tb) (store st))
                = fdel b (fset_val p (append_text_to tb) (store (move st b ins)))) as ->.
        { rewrite Epl. unfold ins. rewrite (fset_val_finsert_before p _ ref _ _ HpT).
          rewrite (fdel_finsert_before b ref) by congruence. rewrite Ht, fdel_own_tree, finsert_before_nil.
          rewrite !(fdel_fset_val b p) by congruence. rewrite fdel_idem. reflexivity. }
        apply (reading_merged _ p b tp tb Gpl).
        -- rewrite Epl. unfold ins. rewrite Ht. apply follb_ins_before_prev; [exact Hndc|].
           apply follb_fdel; [exact Hnd|exact Hpin|congruence|].
           destruct (q_prev_view _ _ _ _ Hcr Hp) as (v & k & r & Ebf & Hcat).
           rewrite Er, <- Hsr. apply follb_view_prev; [exact Hur|rewrite Ebf; reflexivity|].
           rewrite Ebf. eapply cat_normal; [exact Hcat|exact Hnzr].
        -- apply Hnodes. apply val_nodes. exact Hvp.
        -- apply Hnodes. apply val_nodes. exact Hvbt.
      * (* the text node goes into the reference node *)
        inversion Hn; subst n.
        rewrite (merged_store st ref _ b tb G Hne Hvbt).
        assert (fdel b (fset_val ref (prepend_text_to tb) (store st))
                = fdel b (fset_val ref (prepend_text_to tb) (store (move st b ins)))) as ->.
        { rewrite Epl. unfold ins. rewrite (fset_val_finsert_before ref _ ref _ _ HrT).
          rewrite (fdel_finsert_before b ref) by congruence. rewrite Ht, fdel_own_tree, finsert_before_nil.
          rewrite !(fdel_fset_val b ref) by congruence. rewrite fdel_idem. reflexivity. }
        apply (reading_merged_next _ b ref tb tn Gpl).
        -- rewrite Epl. unfold ins. rewrite Ht. apply follb_ins_before_new; assumption.
        -- apply Hnodes. apply val_nodes. exact Hvbt.
        -- apply Hnodes. apply val_nodes. exact Hvn.
    + assert (~ In pb (ids (tree_of st b))) as HpT by (rewrite Ht; cbn [ids]; rewrite app_nil_r; intros [Hx|Hx]; [congruence|contradiction]).
      assert (~ In nb (ids (tree_of st b))) as HnT by (rewrite Ht; cbn [ids]; rewrite app_nil_r; intros [Hx|Hx]; [congruence|contradiction]).
      assert (ref <> nb) as Hrn by (intros ->; apply Hq; exact Hqn).
      assert (add_consolidate st1 b (q_prev st1 ref) (Some ref) = (st1, false)) as ->.
      { unfold add_consolidate. rewrite Cs1. cbn [negb]. destruct (val st1 b) as [v1|] eqn:Ev1; [|reflexivity].
        destruct (val_find _ _ _ Ev1) as [k1 Hk1]. rewrite Es1 in Hk1.
        rewrite (find_after_merge b (z_val zb) (z_kids zb) pb nb _ tn (store st) Hnd ltac:(congruence) ltac:(congruence) Hpn
                   (find_of_cur _ _ _ Hcb) Hpk Hnk (text_find _ _ _ G Hvn)) in Hk1.
        inversion Hk1; subst v1. destruct (z_val zb); try reflexivity. discriminate Hbt. }
      cbn [fst]. change (move st1 b (fun t f : forest => finsert_before ref t f)) with (move st1 b ins).
      rewrite (move_after_rc st st1 b zb pb nb tn _ ins G G1 Hcb Hpb Hnbb Hpn Hpk Hnk Hvn Es1).
      * rewrite <- Epl. apply (reading_merged _ pb nb tp tn Gpl).
        -- rewrite Epl. unfold ins. apply follb_ins_before_keep; [exact Hrn|exact Hf1].
        -- apply Hnodes. apply val_nodes. exact Hvp.
        -- apply Hnodes. apply val_nodes. exact Hvn.
      * intros X. unfold ins. rewrite (fdel_finsert_before nb ref) by congruence. rewrite (fdel_absent nb _ HnT). reflexivity.
      * intros X. unfold ins. apply fset_val_finsert_before. exact HpT.
Qed.

(* ---------- append ---------- *)

Definition plain_append (st : xstate) (P b : N) : forest :=
  fmap_kids P (fun k => fapp k (tree_of st b)) (fdel b (store st)).

(* the path of a child: its parent, then the path of the parent *)
Lemma path_of_child f : forall P vP kP n, NoDup (ids f) -> find P f = Some (vP, kP) -> path_in n kP = Some [] ->
  exists l, path_in P f = Some l /\ path_in n f = Some (P :: l).
Proof.
  induction f as [|i v k IHk r IHr]; intros P vP kP n Hnd; [discriminate|].
  cbn [ids] in Hnd. apply NoDup_cons_app_inv in Hnd as (Hik & Hir & Hk & Hr & Hkr).
  rewrite find_cons. cbn [path_in]. destruct (N.eqb_spec i P) as [EiP|HiP].
  - subst i. intros E Hn. inversion E; subst v k. exists []. split; [reflexivity|].
    assert (In n (ids kP)) as Hnk by (eapply path_in_in; exact Hn).
    assert (N.eqb P n = false) as -> by (apply N.eqb_neq; intros ->; contradiction). rewrite Hn. reflexivity.
  - destruct (find P k) as [x|] eqn:Ek.
    + intros E Hn. inversion E; subst x. destruct (IHk _ _ _ _ Hk Ek Hn) as (l & HlP & Hln).
      assert (In n (ids k)) as Hnk by (eapply path_in_in; exact Hln).
      assert (N.eqb i n = false) as -> by (apply N.eqb_neq; intros ->; contradiction).
      rewrite HlP, Hln. exists (l ++ [i]). split; reflexivity.
    + intros E Hn. destruct (IHr _ _ _ _ Hr E Hn) as (l & HlP & Hln).
      assert (In n (ids r)) as Hnr by (eapply path_in_in; exact Hln).
      assert (N.eqb i n = false) as -> by (apply N.eqb_neq; intros ->; contradiction).
      assert (path_in P k = None) as -> by (apply path_in_none; apply find_none; exact Ek).
      assert (path_in n k = None) as -> by (apply path_in_none; intros Hx; eapply NoDup_app_not_in; [exact Hkr|exact Hx|exact Hnr]).
      exists l. split; assumption.
Qed.

(* a child of [P] is not inside a subtree that [P] is not below *)
Lemma child_outside st P zP b zb x : Good st -> cur st P = Some zP -> cur st b = Some zb ->
  mem b (q_ancestors st P) = false -> In x (root_slots (z_kids zP)) -> ~ In x (ids (z_kids zb)).
Proof.
  intros G HP Hcb Hanc Hx Hin. pose proof (Good_nodup _ G) as Hnd.
  destruct (descendant_has_ancestor _ _ _ _ _ Hnd (find_of_cur _ _ _ Hcb) Hin) as (l' & Hl' & Hbl).
  destruct (q_ancestors_path _ _ _ HP) as (l & Hl & Ha).
  destruct (path_of_child (store st) P _ _ x Hnd (find_of_cur _ _ _ HP)
              (root_slot_path _ _ (kids_nodup st P zP (Good_WF _ G) HP) Hx)) as (l2 & Hl2 & Hx2).
  rewrite Hl in Hl2. inversion Hl2; subst l2. rewrite Hx2 in Hl'. inversion Hl'; subst l'.
  assert (mem b (q_ancestors st P) = true) as Ht by (apply mem_true; rewrite Ha; exact Hbl). congruence.
Qed.

Lemma text_not_container st x y t v : val st x = Some (VText t) -> val st y = Some v -> (is_elem v = true \/ is_doc v = true) -> x <> y.
Proof. intros Hx Hy Hc ->. rewrite Hx in Hy. inversion Hy; subst v. destruct Hc; discriminate. Qed.

Lemma root_slots_last a i v k : In i (root_slots (fapp a (FCons i v k FNil))).
Proof. rewrite root_slots_fapp. apply in_or_app. right. left. reflexivity. Qed.

Theorem append_plain st P b : Good st -> (cons st = true -> noadj st) -> structure_check st (Some P) b = true ->
  erase (store (fst (m_append st P b))) = content (cons st) (plain_append st P b).
Proof.
  intros G Hcn Hsc. pose proof (Good_WF _ G) as W. pose proof (Good_nodup _ G) as Hnd.
  destruct (structure_check_facts _ _ _ Hsc) as (Hanc & (vp0 & Hvp0 & Hcont) & (vb & Hvb & Hcok)).
  destruct (cur st b) as [zb|] eqn:Hcb; [|unfold val in Hvb; rewrite Hcb in Hvb; discriminate].
  assert (z_val zb = vb) as Hzv by (unfold val in Hvb; rewrite Hcb in Hvb; inversion Hvb; reflexivity).
  assert (is_normal (z_val zb) = true) as Hnb by (rewrite Hzv; unfold child_ok in Hcok; apply andb_true_iff in Hcok; tauto).
  destruct (cur st P) as [zP|] eqn:HcP; [|unfold val in Hvp0; rewrite HcP in Hvp0; discriminate].
  assert (z_val zP = vp0) as HzP by (unfold val in Hvp0; rewrite HcP in Hvp0; inversion Hvp0; reflexivity).
  assert (P <> b) as HPb.
  { intros ->. destruct (q_ancestors_path _ _ _ HcP) as (l & _ & Ha). rewrite Ha in Hanc. cbn in Hanc. rewrite N.eqb_refl in Hanc. discriminate. }
  assert (~ In P (subtree_ids b (store st))) as HPsub.
  { eapply not_ancestor_not_below; [exact Hnd|rewrite HcP; discriminate|exact Hanc]. }
  pose proof (cur_slot _ _ _ Hcb) as Hsb.
  destruct (cut_setup st b zb G Hcb) as [Hcut Ht].
  pose proof (nodup_cut_store st b zb G Hcb) as Hndc.
  set (h := fun (t k : forest) => fapp k t).
  set (ins := fun (t f : forest) => fmap_kids P (h t) f).
  assert (In P (ids (fdel b (store st)))) as HPin.
  { eapply fcut_keeps; [exact Hcut|eapply cur_in; exact HcP|exact HPsub]. }
  assert (Ext st (move st b ins)) as Xpl.
  { apply (Ext_move_child st st P b h G G (later_refl st) Hsc); [eapply cur_in; exact HcP| | |].
    - intros t k. unfold h. rewrite nodes_fapp. reflexivity.
    - intros. apply kids_ok_append; auto.
    - intros. apply keys_tree_fapp_single; auto. }
  pose proof (ext_good _ _ Xpl) as Gpl.
  pose proof (move_store st b zb ins G Hcb) as Epl.
  assert (Permutation (nodes (ins (tree_of st b) (fdel b (store st)))) (nodes (fdel b (store st)) ++ nodes (tree_of st b))) as Hperm.
  { apply (fmap_kids_spec P _ _ _ Hndc HPin). intros k. unfold h. rewrite nodes_fapp. reflexivity. }
  pose proof (move_nodes st b zb ins G Hcb Hperm) as Hnodes.
  (* the children of P in the cut store *)
  assert (find P (fdel b (store st)) = Some (z_val zP, fdel b (z_kids zP))) as FP.
  { rewrite <- (drop_fdel b _ Hnd), <- (drop_fdel b _ (kids_nodup st P zP W HcP)).
    apply (find_drop b (store st) Hnd P _ _ (find_of_cur _ _ _ HcP) HPb HPsub). }
  assert (cons st = true -> na (store (fst (m_append st P b))) = true) as Hfin
    by (intros Hc; apply (noadj_m_append st P b G Hc (Hcn Hc))).
  rewrite <- (content_plain (cons st) _ Hfin). clear Hfin.
  unfold plain_append. change (fmap_kids P (fun k => fapp k (tree_of st b)) (fdel b (store st))) with (ins (tree_of st b) (fdel b (store st))).
  rewrite <- Epl.
  unfold m_append. rewrite Hsc. cbn [negb].
  pose proof (last_child_view st P zP W HcP) as Hlast.
  destruct (opt_eqb (q_raw_last_child st P) (Some b)) eqn:Enoop.
  - cbn [fst]. f_equal. rewrite Epl. unfold ins, h. rewrite Ht. symmetry.
    destruct (frev (z_kids zP)) as [|i v k r] eqn:Ef.
    { destruct Hlast as [_ Hl]. rewrite Hl in Enoop. discriminate. }
    destruct Hlast as (Hraw & _ & _ & _). rewrite Hraw in Enoop. cbn in Enoop. apply N.eqb_eq in Enoop. subst i.
    pose proof (erase_snoc_frev _ _ _ _ _ Ef) as Ek.
    assert (down_last zP = Some {| z_slot := b; z_val := v; z_kids := k; z_before := r; z_after := FNil;
              z_ups := {| fr_slot := z_slot zP; fr_val := z_val zP; fr_before := z_before zP; fr_after := z_after zP |} :: z_ups zP |}) as Hd
      by (unfold down_last; rewrite Ef; reflexivity).
    pose proof (cur_move st P zP _ (proj1 W) HcP (or_intror (or_intror (or_intror (or_intror Hd))))) as Hc2. cbn [z_slot] in Hc2.
    rewrite Hcb in Hc2. inversion Hc2; subst zb. cbn [z_val z_kids].
    apply (append_in_place P b v k (frev r) (z_val zP) (store st) Hnd). rewrite (find_of_cur _ _ _ HcP), Ek. reflexivity.
  - assert (q_raw_last_child st P <> Some b) as Hq by (apply opt_eqb_false_ne; exact Enoop).
    destruct (remove_consolidate st (q_prev st b) (q_next st b)) as [st1 m0] eqn:E1.
    cbv zeta.
    destruct (cons st) eqn:Ec.
    2:{ assert (st1 = st /\ m0 = false) as [-> ->].
        { unfold remove_consolidate in E1. rewrite Ec in E1. cbn in E1. inversion E1; auto. }
        unfold add_consolidate. rewrite Ec. cbn [negb fst]. reflexivity. }
    specialize (Hcn eq_refl).
    rewrite (append_neighbour_noadj st P b zb st1 m0 G Ec Hcn Hcb Enoop E1 (proj1 (rc_value st b zb st1 m0 G Ec Hcn Hcb Hnb E1)) (proj2 (rc_value st b zb st1 m0 G Ec Hcn Hcb Hnb E1))).
    destruct (rc_around st b zb st1 m0 G Ec Hcn Hcb Hnb E1)
      as [[-> ->]|(-> & pb & nb & tp & tn & Hqp & Hqn & Hvp & Hvn & Hpb & Hnbb & Hpn & Hbt & Hpk & Hnk & Es1 & Cs1 & G1 & Hf1 & Hf2 & Hub)].
    + destruct (add_consolidate st b (q_last_child st P) None) as [st2 m] eqn:E2.
      destruct (ac_exact _ _ _ _ _ _ E2) as [[-> ->]|[(L & tp & tb & Hp & Hvp & Hvbt & -> & ->)|(n & tn & tb & Hn & _)]]; cbn [fst]; [reflexivity| |discriminate].
      (* the text node goes into the last child *)
      destruct (frev (z_kids zP)) as [|i v k r] eqn:Ef.
      { destruct Hlast as [Hl _]. rewrite Hl in Hp. discriminate. }
      destruct Hlast as (Hraw & Hlc & Hvi & _). rewrite Hlc in Hp.
      destruct (is_normal v) eqn:Env; [|discriminate]. inversion Hp; subst i.
      rewrite Hvp in Hvi. inversion Hvi; subst v.
      pose proof (erase_snoc_frev _ _ _ _ _ Ef) as Ek.
      assert (L <> b) as HLb by (intros ->; apply Hq; exact Hraw).
      assert (L <> P) as HLP by (eapply text_not_container; eauto).
      assert (~ In L (ids (tree_of st b))) as HLT.
      { rewrite Ht. cbn [ids]. rewrite app_nil_r. intros [Hx|Hx]; [congruence|].
        apply (child_outside st P zP b zb L G HcP Hcb Hanc); [|exact Hx]. rewrite Ek. apply root_slots_last. }
      rewrite (merged_store st L _ b tb G HLb Hvbt).
      assert (fdel b (fset_val L (append_text_to tb) (store st))
              = fdel b (fset_val L (append_text_to tb) (store (move st b ins)))) as ->.
      { rewrite Epl. unfold ins. rewrite (fset_val_fmap_kids L _ P (h (tree_of st b)) _ HLP).
        2:{ intros k0. unfold h. apply fset_val_fapp_keep. exact HLT. }
        unfold h. rewrite Ht. rewrite fdel_append_fresh.
        - rewrite (fdel_fset_val b L) by congruence. reflexivity.
        - rewrite nodes_fset_val_ids. apply fdel_gone. }
      apply (reading_merged _ L b tp tb Gpl).
      * rewrite Epl. unfold ins, h. rewrite Ht.
        apply (follb_append_new P b _ _ L (VText tp) (fdel b k) (fdel b (frev r)) (z_val zP) _ true Hndc); [|reflexivity].
        rewrite FP, Ek, fdel_fapp. cbn [fdel]. assert (N.eqb L b = false) as -> by (apply N.eqb_neq; exact HLb). reflexivity.
      * apply Hnodes. apply val_nodes. exact Hvp.
      * apply Hnodes. apply val_nodes. exact Hvbt.
    + assert (~ In pb (ids (tree_of st b))) as HpT by (rewrite Ht; cbn [ids]; rewrite app_nil_r; intros [Hx|Hx]; [congruence|contradiction]).
      assert (~ In nb (ids (tree_of st b))) as HnT by (rewrite Ht; cbn [ids]; rewrite app_nil_r; intros [Hx|Hx]; [congruence|contradiction]).
      assert (pb <> P) as HpP by (eapply text_not_container; eauto).
      assert (nb <> P) as HnP by (eapply text_not_container; eauto).
      assert (add_consolidate st1 b (q_last_child st1 P) None = (st1, false)) as ->.
      { unfold add_consolidate. rewrite Cs1. cbn [negb]. destruct (val st1 b) as [v1|] eqn:Ev1; [|reflexivity].
        destruct (val_find _ _ _ Ev1) as [k1 Hk1]. rewrite Es1 in Hk1.
        rewrite (find_after_merge b (z_val zb) (z_kids zb) pb nb _ tn (store st) Hnd ltac:(congruence) ltac:(congruence) Hpn
                   (find_of_cur _ _ _ Hcb) Hpk Hnk (text_find _ _ _ G Hvn)) in Hk1.
        inversion Hk1; subst v1. destruct (z_val zb); try reflexivity. discriminate Hbt. }
      cbn [fst]. change (move st1 b (fun t f : forest => fmap_kids P (fun k : forest => fapp k t) f)) with (move st1 b ins).
      rewrite (move_after_rc st st1 b zb pb nb tn _ ins G G1 Hcb Hpb Hnbb Hpn Hpk Hnk Hvn Es1).
      * rewrite <- Epl. apply (reading_merged _ pb nb tp tn Gpl).
        -- rewrite Epl. unfold ins. apply follb_fmap_kids; [|exact Hf1]. intros k0 Hk0. unfold h. apply follb_fapp_l. exact Hk0.
        -- apply Hnodes. apply val_nodes. exact Hvp.
        -- apply Hnodes. apply val_nodes. exact Hvn.
      * intros X. unfold ins. apply fdel_fmap_kids; [exact HnP|]. intros k0. unfold h. rewrite fdel_fapp, (fdel_absent nb _ HnT). reflexivity.
      * intros X. unfold ins. apply fset_val_fmap_kids; [exact HpP|]. intros k0. unfold h. apply fset_val_fapp_keep. exact HpT.
Qed.

(* ---------- prepend ---------- *)

Definition plain_prepend (st : xstate) (P b : N) : forest :=
  fmap_kids P (insert_first_normal (tree_of st b)) (fdel b (store st)).

Lemma first_child_nrm st P zP : cur st P = Some zP -> q_first_child st P = hd_slot (nrm_part (z_kids zP)).
Proof.
  intros HP. unfold q_first_child, first_child, normal_children, arena_children. rewrite HP.
  pose proof (first_normal_level (z_kids zP) (frame_of zP :: z_ups zP) FNil) as H.
  destruct (nrm_part (z_kids zP)) as [|i v k r]; cbn [hd_pair hd_slot] in *.
  - destruct (hd_error _); [discriminate|reflexivity].
  - destruct (hd_error _) as [c|]; [|discriminate]. cbn [option_map oslot] in *. inversion H. reflexivity.
Qed.

Lemma find_in_found f : forall P vP kP b x, NoDup (ids f) -> find P f = Some (vP, kP) -> find b kP = Some x -> find b f = Some x.
Proof.
  induction f as [|i v k IHk r IHr]; intros P vP kP b x Hnd; [discriminate|].
  cbn [ids] in Hnd. apply NoDup_cons_app_inv in Hnd as (Hik & Hir & Hk & Hr & Hkr).
  rewrite !find_cons. destruct (N.eqb_spec i P) as [EiP|HiP].
  - subst i. intros E Hb. inversion E; subst v k.
    assert (In b (ids kP)) as Hbk by (destruct x; eapply find_in; exact Hb).
    assert (N.eqb P b = false) as -> by (apply N.eqb_neq; intros ->; contradiction). rewrite Hb. reflexivity.
  - destruct (find P k) as [y|] eqn:Ek.
    + intros E Hb. inversion E; subst y. pose proof (IHk _ _ _ _ _ Hk Ek Hb) as H.
      assert (In b (ids k)) as Hbk by (destruct x; eapply find_in; exact H).
      assert (N.eqb i b = false) as -> by (apply N.eqb_neq; intros ->; contradiction). rewrite H. reflexivity.
    + intros E Hb. pose proof (IHr _ _ _ _ _ Hr E Hb) as H.
      assert (In b (ids r)) as Hbr by (destruct x; eapply find_in; exact H).
      assert (N.eqb i b = false) as -> by (apply N.eqb_neq; intros ->; contradiction).
      assert (find b k = None) as -> by (apply find_none; intros Hx; eapply NoDup_app_not_in; [exact Hkr|exact Hx|exact Hbr]).
      exact H.
Qed.

Lemma nrm_part_shape c k : c <> CRoot -> forall lo, shape c lo k = true -> exists lo', shape c lo' (nrm_part k) = true.
Proof.
  intros Hc. induction k as [|i v kk _ r IH]; intros lo H; cbn [nrm_part]; [exists lo; exact H|].
  destruct (is_normal v); [exists lo; exact H|]. rewrite shape_cons in H. apply andb_true_iff in H as [_ H]. eapply IH. exact H.
Qed.

Lemma shape_after_normal c lo i v k r : c <> CRoot -> is_normal v = true -> shape c lo (FCons i v k r) = true ->
  match r with FCons _ w _ _ => is_normal w = true | FNil => True end.
Proof.
  intros Hc Hv H. destruct r as [|j w kj rj]; [exact I|]. rewrite !shape_cons in H.
  apply andb_true_iff in H as [_ H]. apply andb_true_iff in H as [H _]. apply andb_true_iff in H as [H _].
  destruct c; [congruence| |]; cbn [node_ok next_lo] in H.
  - apply andb_true_iff in H. tauto.
  - apply andb_true_iff in H as [_ H]. apply Nat.leb_le in H. apply vrank_normal in Hv. rewrite Hv in H.
    apply vrank_normal. pose proof (vrank_le2 w). lia.
Qed.

Lemma kids_shape v k : (is_elem v = true \/ is_doc v = true) -> kids_ok v k = true -> exists c, c <> CRoot /\ shape c 0 k = true.
Proof.
  intros [H|H] Hk; destruct v; try discriminate; cbn [kids_ok] in *; [exists CElem|exists CDoc]; (split; [discriminate|exact Hk]).
Qed.

Theorem prepend_plain st P b : Good st -> (cons st = true -> noadj st) -> structure_check st (Some P) b = true ->
  erase (store (fst (m_prepend st P b))) = content (cons st) (plain_prepend st P b).
Proof.
  intros G Hcn Hsc. pose proof (Good_WF _ G) as W. pose proof (Good_nodup _ G) as Hnd.
  destruct (structure_check_facts _ _ _ Hsc) as (Hanc & (vp0 & Hvp0 & Hcont) & (vb & Hvb & Hcok)).
  destruct (cur st b) as [zb|] eqn:Hcb; [|unfold val in Hvb; rewrite Hcb in Hvb; discriminate].
  assert (z_val zb = vb) as Hzv by (unfold val in Hvb; rewrite Hcb in Hvb; inversion Hvb; reflexivity).
  assert (is_normal (z_val zb) = true) as Hnb by (rewrite Hzv; unfold child_ok in Hcok; apply andb_true_iff in Hcok; tauto).
  destruct (cur st P) as [zP|] eqn:HcP; [|unfold val in Hvp0; rewrite HcP in Hvp0; discriminate].
  assert (z_val zP = vp0) as HzP by (unfold val in Hvp0; rewrite HcP in Hvp0; inversion Hvp0; reflexivity).
  assert (P <> b) as HPb.
  { intros ->. destruct (q_ancestors_path _ _ _ HcP) as (l & _ & Ha). rewrite Ha in Hanc. cbn in Hanc. rewrite N.eqb_refl in Hanc. discriminate. }
  assert (~ In P (subtree_ids b (store st))) as HPsub.
  { eapply not_ancestor_not_below; [exact Hnd|rewrite HcP; discriminate|exact Hanc]. }
  pose proof (cur_slot _ _ _ Hcb) as Hsb.
  destruct (cut_setup st b zb G Hcb) as [Hcut Ht].
  pose proof (nodup_cut_store st b zb G Hcb) as Hndc.
  set (h := fun (t k : forest) => insert_first_normal t k).
  set (ins := fun (t f : forest) => fmap_kids P (h t) f).
  assert (In P (ids (fdel b (store st)))) as HPin.
  { eapply fcut_keeps; [exact Hcut|eapply cur_in; exact HcP|exact HPsub]. }
  assert (Ext st (move st b ins)) as Xpl.
  { apply (Ext_move_child st st P b h G G (later_refl st) Hsc); [eapply cur_in; exact HcP| | |].
    - intros t k. apply nodes_insert_first_normal.
    - intros. apply kids_ok_prepend; auto.
    - intros. apply keys_tree_insert_first_normal; auto. }
  pose proof (ext_good _ _ Xpl) as Gpl.
  pose proof (move_store st b zb ins G Hcb) as Epl.
  assert (Permutation (nodes (ins (tree_of st b) (fdel b (store st)))) (nodes (fdel b (store st)) ++ nodes (tree_of st b))) as Hperm.
  { apply (fmap_kids_spec P _ _ _ Hndc HPin). intros k. apply nodes_insert_first_normal. }
  pose proof (move_nodes st b zb ins G Hcb Hperm) as Hnodes.
  assert (find P (fdel b (store st)) = Some (z_val zP, fdel b (z_kids zP))) as FP.
  { rewrite <- (drop_fdel b _ Hnd), <- (drop_fdel b _ (kids_nodup st P zP W HcP)).
    apply (find_drop b (store st) Hnd P _ _ (find_of_cur _ _ _ HcP) HPb HPsub). }
  pose proof (first_child_nrm st P zP HcP) as Hfirst.
  assert (cons st = true -> na (store (fst (m_prepend st P b))) = true) as Hfin
    by (intros Hc; apply (noadj_m_prepend st P b G Hc (Hcn Hc))).
  rewrite <- (content_plain (cons st) _ Hfin). clear Hfin.
  unfold plain_prepend. change (fmap_kids P (insert_first_normal (tree_of st b)) (fdel b (store st))) with (ins (tree_of st b) (fdel b (store st))).
  rewrite <- Epl.
  unfold m_prepend. rewrite Hsc. cbn [negb].
  destruct (opt_eqb (q_first_child st P) (Some b)) eqn:Enoop.
  - cbn [fst]. f_equal. rewrite Epl. unfold ins, h. rewrite Ht. symmetry.
    rewrite Hfirst in Enoop. destruct (nrm_part (z_kids zP)) as [|i v k r'] eqn:En; [discriminate|].
    cbn in Enoop. apply N.eqb_eq in Enoop. subst i.
    (* the node found there is the node itself *)
    assert (find b (z_kids zP) = Some (v, k)) as Fbk.
    { rewrite (abn_nrm (z_kids zP)), find_fapp, En.
      assert (find b (abn_part (z_kids zP)) = None) as ->.
      { apply find_none. intros Hx. pose proof (kids_nodup st P zP W HcP) as Hk. rewrite (abn_nrm (z_kids zP)), ids_fapp, En in Hk.
        eapply NoDup_app_not_in; [exact Hk|exact Hx|left; reflexivity]. }
      cbn [find]. rewrite N.eqb_refl. reflexivity. }
    pose proof (find_in_found _ _ _ _ _ _ Hnd (find_of_cur _ _ _ HcP) Fbk) as Fb. rewrite (find_of_cur _ _ _ Hcb) in Fb. inversion Fb as [[Hv Hk]].
    rewrite Hv, Hk. change (fun k0 : forest => insert_first_normal (FCons b v k FNil) k0) with (insert_first_normal (FCons b v k FNil)).
    apply (prepend_in_place P b v k r' (z_val zP) (z_kids zP) (store st) Hnd (find_of_cur _ _ _ HcP) En).
    pose proof (shape_find P _ _ _ _ _ (proj2 W) (find_of_cur _ _ _ HcP)) as Hko.
    assert (is_elem (z_val zP) = true \/ is_doc (z_val zP) = true) as Hcont' by (rewrite HzP; exact Hcont).
    destruct (kids_shape _ _ Hcont' Hko) as (c & Hc & Hsh).
    destruct (nrm_part_shape c (z_kids zP) Hc 0%nat Hsh) as [lo' Hsh']. rewrite En in Hsh'.
    apply (shape_after_normal c lo' b v k r' Hc); [rewrite <- Hv; exact Hnb|exact Hsh'].
  - assert (q_first_child st P <> Some b) as Hq by (apply opt_eqb_false_ne; exact Enoop).
    destruct (remove_consolidate st (q_prev st b) (q_next st b)) as [st1 m0] eqn:E1.
    destruct (cons st) eqn:Ec.
    2:{ assert (st1 = st /\ m0 = false) as [-> ->].
        { unfold remove_consolidate in E1. rewrite Ec in E1. cbn in E1. inversion E1; auto. }
        unfold add_consolidate. rewrite Ec. cbn [negb fst]. reflexivity. }
    specialize (Hcn eq_refl).
    destruct (rc_around st b zb st1 m0 G Ec Hcn Hcb Hnb E1)
      as [[-> ->]|(-> & pb & nb & tp & tn & Hqp & Hqn & Hvp & Hvn & Hpb & Hnbb & Hpn & Hbt & Hpk & Hnk & Es1 & Cs1 & G1 & Hf1 & Hf2 & Hub)].
    + destruct (add_consolidate st b None (q_first_child st P)) as [st2 m] eqn:E2.
      destruct (ac_exact _ _ _ _ _ _ E2) as [[-> ->]|[(L & tp & tb & Hp & _)|(n & tn & tb & Hn & Hvn & Hvbt & -> & ->)]]; cbn [fst]; [reflexivity|discriminate|].
      (* the text node goes into the first ordinary child *)
      rewrite Hfirst in Hn.
      assert (n <> b) as Hnb2 by (intros ->; apply Hq; rewrite Hfirst; exact Hn).
      assert (n <> P) as HnP by (eapply text_not_container; eauto).
      assert (In n (root_slots (z_kids zP))) as Hnroot.
      { rewrite (abn_nrm (z_kids zP)), root_slots_fapp. apply in_or_app. right.
        destruct (nrm_part (z_kids zP)) as [|i v k r']; [discriminate|]. cbn in Hn. inversion Hn. left. reflexivity. }
      assert (~ In n (ids (tree_of st b))) as HnT.
      { rewrite Ht. cbn [ids]. rewrite app_nil_r. intros [Hx|Hx]; [congruence|].
        apply (child_outside st P zP b zb n G HcP Hcb Hanc Hnroot Hx). }
      rewrite (merged_store st n _ b tb G ltac:(congruence) Hvbt).
      assert (fdel b (fset_val n (prepend_text_to tb) (store st))
              = fdel b (fset_val n (prepend_text_to tb) (store (move st b ins)))) as ->.
      { rewrite Epl. unfold ins. rewrite (fset_val_fmap_kids n _ P (h (tree_of st b)) _ HnP).
        2:{ intros k0. unfold h. apply fset_val_insert_first_normal; [exact HnT|]. intros w. destruct w; reflexivity. }
        unfold h. rewrite Ht. rewrite fdel_prepend_fresh.
        - rewrite (fdel_fset_val b n) by congruence. reflexivity.
        - rewrite nodes_fset_val_ids. apply fdel_gone. }
      apply (reading_merged_next _ b n tb tn Gpl).
      * rewrite Epl. unfold ins, h. rewrite Ht.
        apply (follb_prepend_next P b _ _ n (fdel b (z_kids zP)) (z_val zP) _ true Hndc FP); [|exact Hnb].
        apply hd_nrm_fdel; assumption.
      * apply Hnodes. apply val_nodes. exact Hvbt.
      * apply Hnodes. apply val_nodes. exact Hvn.
    + assert (~ In pb (ids (tree_of st b))) as HpT by (rewrite Ht; cbn [ids]; rewrite app_nil_r; intros [Hx|Hx]; [congruence|contradiction]).
      assert (~ In nb (ids (tree_of st b))) as HnT by (rewrite Ht; cbn [ids]; rewrite app_nil_r; intros [Hx|Hx]; [congruence|contradiction]).
      assert (pb <> P) as HpP by (eapply text_not_container; eauto).
      assert (nb <> P) as HnP by (eapply text_not_container; eauto).
      assert (add_consolidate st1 b None (q_first_child st1 P) = (st1, false)) as ->.
      { unfold add_consolidate. rewrite Cs1. cbn [negb]. destruct (val st1 b) as [v1|] eqn:Ev1; [|reflexivity].
        destruct (val_find _ _ _ Ev1) as [k1 Hk1]. rewrite Es1 in Hk1.
        rewrite (find_after_merge b (z_val zb) (z_kids zb) pb nb _ tn (store st) Hnd ltac:(congruence) ltac:(congruence) Hpn
                   (find_of_cur _ _ _ Hcb) Hpk Hnk (text_find _ _ _ G Hvn)) in Hk1.
        inversion Hk1; subst v1. destruct (z_val zb); try reflexivity. discriminate Hbt. }
      cbn [fst]. change (move st1 b (fun t f : forest => fmap_kids P (insert_first_normal t) f)) with (move st1 b ins).
      assert (forall w, is_normal (append_text_to tn w) = is_normal w) as Hgn by (intros w; destruct w; reflexivity).
      rewrite (move_after_rc_at st st1 b zb pb nb tn _ ins G G1 Hcb Hpb Hnbb Hpn Hpk Hnk Hvn Es1).
      * rewrite <- Epl. apply (reading_merged _ pb nb tp tn Gpl).
        -- rewrite Epl. unfold ins. apply follb_fmap_kids; [|exact Hf1]. intros k0 Hk0. unfold h. apply follb_insert_first_normal. exact Hk0.
        -- apply Hnodes. apply val_nodes. exact Hvp.
        -- apply Hnodes. apply val_nodes. exact Hvn.
      * (* nb follows pb, so it is nobody's first ordinary child: deleting it commutes with the prepending *)
        unfold ins, h. apply fdel_prepend_comm; [rewrite nodes_fset_val_ids; exact Hndc|exact HnP|exact HnT|].
        intros vP kP HfP. apply (follb_not_first (fset_val pb (append_text_to tn) (fdel b (store st))) true pb nb P vP kP); [rewrite nodes_fset_val_ids; exact Hndc| |exact HfP].
        apply follb_fset_val; [exact Hgn|exact Hf1].
      * unfold ins. apply fset_val_fmap_kids; [exact HpP|]. intros k0. unfold h. apply fset_val_insert_first_normal; [exact HpT|exact Hgn].
Qed.

(* ---------- detach and remove ---------- *)

(* a node of another category than text has no text sibling of its own category *)
Lemma rc_abnormal st st1 n z : NoDup (ids (store st)) -> cur st n = Some z -> is_normal (z_val z) = false -> (forall x, val st1 x = val st x) ->
  remove_consolidate st1 (q_prev st n) (q_next st n) = (st1, false).
Proof.
  intros Hnd Hc Hab Hv. destruct (remove_consolidate st1 (q_prev st n) (q_next st n)) as [s m] eqn:E.
  destruct (rc_exact _ _ _ _ _ E) as [[-> ->]|(p & x & tp & tn & Ha & _ & _ & Hvp & _)]; [reflexivity|].
  exfalso. destruct (q_prev_view _ _ _ _ Hc Ha) as (v & k & r & Eb & Hcat).
  assert (Zipper.left z = Some (mkz p v k r (FCons (z_slot z) (z_val z) (z_kids z) (z_after z)) (z_ups z))) as Hl
    by (unfold Zipper.left; rewrite Eb; reflexivity).
  pose proof (cur_move st n z _ Hnd Hc (or_intror (or_introl Hl))) as Hcp. cbn [mkz z_slot] in Hcp.
  pose proof (val_of_cur _ _ _ Hcp) as Hpv. cbn [mkz z_val] in Hpv.
  rewrite Hv, Hpv in Hvp. inversion Hvp; subst v. destruct (z_val z); discriminate.
Qed.

(* the two neighbours of a node touch once the node is cut out *)
Lemma neighbours_touch st b zb pb nb tp : Good st -> cur st b = Some zb -> q_prev st b = Some pb -> q_next st b = Some nb ->
  val st pb = Some (VText tp) -> follb true pb nb (fdel b (store st)).
Proof.
  intros G Hc Ha Hb Hvp. pose proof (Good_WF _ G) as W.
  destruct (q_prev_view _ _ _ _ Hc Ha) as (vp & kp & bf' & Eb & Hcp). destruct (q_next_view _ _ _ _ Hc Hb) as (vn & kn & af' & Ea & Hcn).
  assert (z_ups zb <> []) as Hne by (eapply has_sibling_inner; [exact Hc|left; congruence]).
  assert (Zipper.left zb = Some (mkz pb vp kp bf' (FCons (z_slot zb) (z_val zb) (z_kids zb) (z_after zb)) (z_ups zb))) as Hl
    by (unfold Zipper.left; rewrite Eb; reflexivity).
  pose proof (cur_move st b zb _ (proj1 W) Hc (or_intror (or_introl Hl))) as Hcp0. cbn [mkz z_slot] in Hcp0.
  assert (vp = VText tp) as -> by (rewrite (val_of_cur _ _ _ Hcp0) in Hvp; inversion Hvp; reflexivity).
  destruct (zview _ _ _ Hc) as [Htc (A & B & E)].
  destruct (cut_setup st b zb G Hc) as [Hcut _]. pose proof (fcut_view st b zb A B W Hc E) as Hcut'. rewrite Hcut in Hcut'.
  inversion Hcut' as [Hf]. rewrite Hf. unfold cut_store. destruct (z_ups zb) as [|fr ups] eqn:Eu; [congruence|]. rewrite Eb, Ea.
  set (zp := mkz pb (VText tp) kp bf' (FCons nb vn kn af') (fr :: ups)).
  change (fapp A (fapp (plug_ups (frev_app (FCons pb (VText tp) kp bf') (FCons nb vn kn af')) (fr :: ups)) B))
    with (fapp A (fapp (plug zp) B)).
  apply (follb_view_next zp A B nb); [discriminate|reflexivity|reflexivity].
Qed.

Lemma neighbours_differ st n z pb nb : WF st -> cur st n = Some z -> q_prev st n = Some pb -> q_next st n = Some nb -> pb <> nb.
Proof.
  intros W Hc Ha Hb ->. pose proof (level_disjoint st n z W Hc) as Hld.
  destruct (q_prev_view _ _ _ _ Hc Ha) as (vp & kp & bf' & Eb & _). destruct (q_next_view _ _ _ _ Hc Hb) as (vn & kn & af' & Ea & _).
  rewrite Eb, Ea in Hld. cbn [ids] in Hld. eapply NoDup_app_not_in; [exact Hld|left; reflexivity|].
  right. apply in_or_app. right. left. reflexivity.
Qed.

Theorem detach_plain st n z : Good st -> (cons st = true -> noadj st) -> cur st n = Some z ->
  erase (store (fst (m_detach st n))) = content (cons st) (fapp (tree_of st n) (fdel n (store st))).
Proof.
  intros G Hcn Hc. pose proof (Good_nodup _ G) as Hnd.
  destruct (cut_setup st n z G Hc) as [Hcut Ht].
  pose proof (ext_good _ _ (Ext_detach_raw st n G)) as G1.
  assert (store (detach_raw st n) = fapp (tree_of st n) (fdel n (store st))) as E1 by (unfold detach_raw; rewrite Hcut, Ht; reflexivity).
  assert (cons st = true -> na (store (fst (m_detach st n))) = true) as Hfin
    by (intros Hcc; apply (noadj_m_detach st n G Hcc (Hcn Hcc))).
  rewrite <- (content_plain (cons st) _ Hfin). clear Hfin. rewrite <- E1.
  unfold m_detach. cbn [fst].
  destruct (remove_consolidate (detach_raw st n) (q_prev st n) (q_next st n)) as [s m] eqn:E.
  destruct (rc_exact _ _ _ _ _ E) as [[-> ->]|(pb & nb & tp & tn & Ha & Hb & Hcc & Hvp & Hvn & -> & ->)]; cbn [fst]; [reflexivity|].
  rewrite cons_detach_raw in Hcc. rewrite Hcc.
  pose proof Hvp as Hvp0. pose proof Hvn as Hvn0. rewrite (val_detach st n pb G) in Hvp0. rewrite (val_detach st n nb G) in Hvn0.
  rewrite (merged_store (detach_raw st n) pb _ nb tn G1 (neighbours_differ st n z pb nb (Good_WF _ G) Hc Ha Hb) Hvn).
  apply (reading_merged _ pb nb tp tn G1).
  - rewrite E1, Ht. cbn [fapp follb]. right. right. eapply neighbours_touch; eauto.
  - apply val_nodes. exact Hvp.
  - apply val_nodes. exact Hvn.
Qed.

Lemma val_remove_subtree st n x v : Good st -> val (remove_subtree_raw st n) x = Some v -> val st x = Some v.
Proof.
  intros G H. pose proof (ext_good _ _ (Ext_remove_subtree_raw st n G)) as G1.
  apply val_nodes in H. apply nodes_val; [apply Good_nodup; exact G|].
  unfold remove_subtree_raw in H. destruct (fcut n (store st)) as [[f' [[i w] k]]|] eqn:E; [|exact H].
  cbn [store free_slots with_store] in H. eapply fcut_nodes_incl; [exact E|exact H].
Qed.

Theorem remove_plain st n z : Good st -> (cons st = true -> noadj st) -> cur st n = Some z ->
  erase (store (fst (m_remove st n))) = content (cons st) (fdel n (store st)).
Proof.
  intros G Hcn Hc. pose proof (Good_nodup _ G) as Hnd.
  destruct (cut_setup st n z G Hc) as [Hcut Ht].
  pose proof (ext_good _ _ (Ext_remove_subtree_raw st n G)) as G1.
  assert (store (remove_subtree_raw st n) = fdel n (store st)) as E1 by (unfold remove_subtree_raw; rewrite Hcut; reflexivity).
  assert (cons st = true -> na (store (fst (m_remove st n))) = true) as Hfin
    by (intros Hcc; apply (noadj_m_remove st n G Hcc (Hcn Hcc))).
  rewrite <- (content_plain (cons st) _ Hfin). clear Hfin. rewrite <- E1.
  unfold m_remove. cbn [fst].
  destruct (remove_consolidate (remove_subtree_raw st n) (q_prev st n) (q_next st n)) as [s m] eqn:E.
  destruct (rc_exact _ _ _ _ _ E) as [[-> ->]|(pb & nb & tp & tn & Ha & Hb & Hcc & Hvp & Hvn & -> & ->)]; cbn [fst]; [reflexivity|].
  rewrite cons_remove_subtree_raw in Hcc. rewrite Hcc.
  rewrite (merged_store (remove_subtree_raw st n) pb _ nb tn G1 (neighbours_differ st n z pb nb (Good_WF _ G) Hc Ha Hb) Hvn).
  apply (reading_merged _ pb nb tp tn G1).
  - rewrite E1. eapply neighbours_touch; eauto. eapply val_remove_subtree; eauto.
  - apply val_nodes. exact Hvp.
  - apply val_nodes. exact Hvn.
Qed.

(* ---------- any_append of an ordinary node is append ---------- *)

Theorem any_append_plain st P b : Good st -> (cons st = true -> noadj st) -> structure_check st (Some P) b = true ->
  erase (store (fst (m_any_append st P b))) = content (cons st) (plain_append st P b).
Proof.
  intros G Hcn Hsc. rewrite <- (append_plain st P b G Hcn Hsc).
  destruct (structure_check_facts _ _ _ Hsc) as (_ & _ & (vb & Hvb & Hcok)).
  unfold m_any_append. rewrite Hvb.
  assert (is_normal vb = true) as Hn by (unfold child_ok in Hcok; apply andb_true_iff in Hcok; tauto).
  destruct (m_append st P b) as [st1 o] eqn:E.
  destruct vb; try discriminate Hn; destruct o; reflexivity.
Qed.
