(* ZipperProofs.v — moves of the cursor stay inside one tree, and the document order of that tree
   decomposes around the cursor. *)
From Coq Require Import List NArith Bool Lia.
From XotV Require Import Model.Base Model.Zipper Model.Access Spec.DocOrder.
Import ListNotations.
Open Scope N_scope.

Lemma nodes_length f : length (nodes f) = fsize f.
Proof.
  induction f as [|i v k IHk r IHr]; cbn; [reflexivity|].
  rewrite app_length, IHk, IHr. reflexivity.
Qed.

Lemma nodes_frev_app a : forall acc, nodes (frev_app a acc) = rids a ++ nodes acc.
Proof.
  induction a as [|i v k _ r IHr]; intros acc; cbn; [reflexivity|].
  rewrite IHr. cbn. rewrite <- app_assoc. reflexivity.
Qed.

Lemma fsize_frev_app a : forall acc, fsize (frev_app a acc) = (fsize a + fsize acc)%nat.
Proof.
  induction a as [|i v k _ r IHr]; intros acc; cbn; [reflexivity|]. rewrite IHr. cbn. lia.
Qed.

Lemma frev_app_frev_app a : forall b c, frev_app (frev_app a b) c = frev_app b (fapp a c).
Proof.
  induction a as [|i v k _ r IHr]; intros b c; cbn; [reflexivity|]. rewrite IHr. reflexivity.
Qed.

Lemma fapp_nil a : fapp a FNil = a.
Proof. induction a as [|i v k _ r IHr]; cbn; [reflexivity|]. rewrite IHr. reflexivity. Qed.

Lemma frev_involutive a : frev (frev a) = a.
Proof. unfold frev. rewrite frev_app_frev_app. cbn. apply fapp_nil. Qed.

Lemma frev_nil a : frev a = FNil -> a = FNil.
Proof. intros H. rewrite <- (frev_involutive a), H. reflexivity. Qed.

Lemma rnodes_frev a : rids (frev a) = nodes a.
Proof.
  pose proof (nodes_frev_app (frev a) FNil) as H. fold (frev (frev a)) in H.
  rewrite frev_involutive in H. cbn in H. rewrite app_nil_r in H. symmetry. exact H.
Qed.

Lemma nodes_frev a : nodes (frev a) = rids a.
Proof. unfold frev. rewrite nodes_frev_app. cbn. apply app_nil_r. Qed.

(* ---- every move stays in the same tree ---- *)

Lemma plug_right z z' : right z = Some z' -> plug z' = plug z.
Proof.
  unfold right. destruct (z_after z) as [|i v k r] eqn:E; [discriminate|].
  intros H; inversion H; subst z'; clear H. unfold plug, z_level; cbn. rewrite E. reflexivity.
Qed.

Lemma plug_left z z' : left z = Some z' -> plug z' = plug z.
Proof.
  unfold left. destruct (z_before z) as [|i v k r] eqn:E; [discriminate|].
  intros H; inversion H; subst z'; clear H. unfold plug, z_level; cbn. rewrite E. reflexivity.
Qed.

Lemma plug_down_first z z' : down_first z = Some z' -> plug z' = plug z.
Proof.
  unfold down_first. destruct (z_kids z) as [|i v k r] eqn:E; [discriminate|].
  intros H; inversion H; subst z'; clear H. unfold plug, z_level; cbn. rewrite E. reflexivity.
Qed.

Lemma plug_down_last z z' : down_last z = Some z' -> plug z' = plug z.
Proof.
  unfold down_last. destruct (frev (z_kids z)) as [|i v k r] eqn:E; [discriminate|].
  intros H; inversion H; subst z'; clear H. unfold plug, z_level; cbn.
  assert (z_kids z = frev_app r (FCons i v k FNil)) as ->.
  { rewrite <- (frev_involutive (z_kids z)), E. reflexivity. }
  reflexivity.
Qed.

Lemma plug_up z z' : up z = Some z' -> plug z' = plug z.
Proof.
  unfold up. destruct (z_ups z) as [|fr ups'] eqn:E; [discriminate|].
  intros H; inversion H; subst z'; clear H. unfold plug; cbn. rewrite E. reflexivity.
Qed.

(* ---- document order around the cursor ---- *)

Lemma nodes_plug_ups ups : forall level, nodes (plug_ups level ups) = pre_ups ups ++ nodes level ++ post_ups ups.
Proof.
  induction ups as [|fr ups IH]; intros level; cbn.
  - rewrite app_nil_r. reflexivity.
  - rewrite IH, nodes_frev_app. cbn. rewrite <- !app_assoc. cbn. rewrite <- !app_assoc. reflexivity.
Qed.

Theorem doc_order_split z :
  doc_order z = pre z ++ zpair z :: sub z ++ post z.
Proof.
  unfold doc_order, plug, pre, sub, post, z_level. rewrite nodes_plug_ups, nodes_frev_app. cbn.
  rewrite <- !app_assoc. cbn. rewrite <- !app_assoc. reflexivity.
Qed.

Lemma tree_size_split z :
  tree_size z = (length (pre z) + S (length (sub z) + length (post z)))%nat.
Proof.
  unfold tree_size. rewrite <- nodes_length. fold (doc_order z). rewrite doc_order_split.
  rewrite app_length. cbn. rewrite app_length. reflexivity.
Qed.

(* the frames of the ancestors: moving does what it should to ups *)
Lemma up_ups z p : up z = Some p -> exists fr, z_ups z = fr :: z_ups p /\ zpair p = frpair fr
                                         /\ z_before p = fr_before fr /\ z_after p = fr_after fr /\ z_val p = fr_val fr.
Proof.
  unfold up. destruct (z_ups z) as [|fr ups']; [discriminate|].
  intros H; inversion H; subst; cbn. exists fr. repeat split; reflexivity.
Qed.
