(* NoAdjFacts.v — how [na] (no two adjacent text siblings, Spec/NoAdj.v) splits along a cursor. *)
From Coq Require Import List NArith ZArith Bool Lia Permutation Arith.
From XotV Require Import Model.Base Model.Zipper Model.Access Model.Store Spec.DocOrder Spec.Paths Spec.Shape Spec.NoAdj
                         Proofs.ZipperProofs Proofs.AccessProofs Proofs.StoreProofs Proofs.ForestFacts Proofs.InvProofs Proofs.Canon
                         Proofs.Levels.
Import ListNotations.
Open Scope N_scope.

Definition last_text (a : forest) : bool := head_text (frev a).

Lemma na_list_frev_app b : forall X, na_list (frev_app b X) = na_list b && na_list X && negb (head_text b && head_text X).
Proof.
  induction b as [|i v k _ r IH]; intros X; cbn [frev_app].
  - cbn. destruct (na_list X); reflexivity.
  - rewrite IH. cbn [na_list head_text].
    destruct (is_text_val v), (head_text r), (head_text X), (na_list r), (na_list X); reflexivity.
Qed.

Lemma na_list_frev a : na_list (frev a) = na_list a.
Proof. unfold frev. rewrite na_list_frev_app. cbn. destruct (na_list a), (head_text a); reflexivity. Qed.

Lemma frev_app_frev a b : frev_app (frev a) b = fapp a b.
Proof. unfold frev. rewrite frev_app_frev_app. reflexivity. Qed.

Lemma na_list_fapp a b : na_list (fapp a b) = na_list a && na_list b && negb (last_text a && head_text b).
Proof. rewrite <- frev_app_frev, na_list_frev_app, na_list_frev. reflexivity. Qed.

Lemma na_frev_app b : forall X, na (frev_app b X) = na b && na X.
Proof.
  induction b as [|i v k _ r IH]; intros X; cbn [frev_app]; [reflexivity|]. rewrite IH. cbn [na].
  destruct (na_list k), (na k), (na r), (na X); reflexivity.
Qed.

Lemma na_fapp a b : na (fapp a b) = na a && na b.
Proof. rewrite <- frev_app_frev, na_frev_app. unfold frev. rewrite na_frev_app. cbn. destruct (na a); reflexivity. Qed.

(* ---------- along the ancestors ---------- *)

Definition lev (ups : list frame) (L : forest) : bool := match ups with [] => true | _ => na_list L end.

Fixpoint na_ctx (ups : list frame) : bool :=
  match ups with
  | [] => true
  | fr :: ups' =>
      na (fr_before fr) && na (fr_after fr)
      && lev ups' (frev_app (fr_before fr) (FCons (fr_slot fr) (fr_val fr) FNil (fr_after fr)))
      && na_ctx ups'
  end.

Lemma lev_kids ups b s v L a : lev ups (frev_app b (FCons s v L a)) = lev ups (frev_app b (FCons s v FNil a)).
Proof. destruct ups; [reflexivity|]. cbn [lev]. rewrite !na_list_frev_app. reflexivity. Qed.

Theorem na_plug_ups : forall ups L, na (plug_ups L ups) = lev ups L && na L && na_ctx ups.
Proof.
  induction ups as [|fr ups' IH]; intros L; cbn [plug_ups lev na_ctx].
  - destruct (na L); reflexivity.
  - rewrite IH, lev_kids, na_frev_app. cbn [na].
    destruct (na_list L), (na L), (na (fr_before fr)), (na (fr_after fr)), (lev ups' _), (na_ctx ups'); reflexivity.
Qed.

(* replacing the level of a cursor *)
Lemma na_replace_level ups L L' :
  na (plug_ups L ups) = true -> lev ups L' = true -> na L' = true -> na (plug_ups L' ups) = true.
Proof.
  rewrite !na_plug_ups. intros H H1 H2. rewrite H1, H2. apply andb_true_iff in H as [_ H]. rewrite H. reflexivity.
Qed.

(* ---------- value updates that keep text text and the rest not text ---------- *)

Lemma na_fset_val n g f : (forall v k, find n f = Some (v, k) -> is_text_val (g v) = is_text_val v) ->
  NoDup (ids f) -> na_list (fset_val n g f) = na_list f /\ na (fset_val n g f) = na f /\ head_text (fset_val n g f) = head_text f.
Proof.
  induction f as [|i v k IHk r IHr]; intros Hg Hnd; cbn [fset_val]; [auto|].
  cbn [ids] in Hnd. apply NoDup_cons_app_inv in Hnd as (Hik & Hir & Hk & Hr & Hkr).
  destruct (N.eqb_spec i n) as [->|Hne].
  - cbn [na_list na head_text]. rewrite (Hg v k); [auto|]. cbn [find]. rewrite N.eqb_refl. reflexivity.
  - assert (forall v0 k0, find n k = Some (v0, k0) -> is_text_val (g v0) = is_text_val v0) as Hgk.
    { intros v0 k0 H. apply (Hg v0 k0). cbn [find]. apply N.eqb_neq in Hne. rewrite Hne, H. reflexivity. }
    assert (forall v0 k0, find n r = Some (v0, k0) -> is_text_val (g v0) = is_text_val v0) as Hgr.
    { intros v0 k0 H. destruct (find n k) as [[v1 k1]|] eqn:Ek.
      - exfalso. assert (In n (ids k)) by (apply find_incl in Ek; apply Ek; left; reflexivity).
        assert (In n (ids r)) by (apply find_incl in H; apply H; left; reflexivity).
        eapply NoDup_app_not_in; [exact Hkr| |]; eassumption.
      - apply (Hg v0 k0). cbn [find]. apply N.eqb_neq in Hne. rewrite Hne, Ek, H. reflexivity. }
    destruct (IHk Hgk Hk) as (A1 & A2 & A3). destruct (IHr Hgr Hr) as (B1 & B2 & B3).
    cbn [na_list na head_text]. rewrite A1, A2, B1, B2, B3. auto.
Qed.

(* ---------- cutting a subtree out, seen from another node ---------- *)

Lemma ids_drop_incl c f : incl (ids (fact a_drop c f)) (ids f).
Proof.
  induction f as [|i v k IHk r IHr]; cbn [fact ids]; [apply incl_refl|].
  destruct (N.eqb i c); unfold a_drop.
  - intros x Hx. right. apply in_or_app. right. exact Hx.
  - intros x [Hx|Hx]; [left; exact Hx|]. right. apply in_app_or in Hx as [Hx|Hx]; apply in_or_app; [left; apply IHk|right; apply IHr]; exact Hx.
Qed.

Lemma find_in n f v k : find n f = Some (v, k) -> In n (ids f).
Proof. intros H. apply find_incl in H. apply H. left. reflexivity. Qed.

Lemma find_absent n f : ~ In n (ids f) -> find n f = None.
Proof. apply find_none. Qed.

(* the children of a node that is neither cut out nor below the cut are its old children with the same cut made *)
Lemma find_drop c f : NoDup (ids f) -> forall p vp kp, find p f = Some (vp, kp) -> p <> c -> ~ In p (subtree_ids c f) ->
  find p (fact a_drop c f) = Some (vp, fact a_drop c kp).
Proof.
  induction f as [|i v k IHk r IHr]; intros Hnd p vp kp Hf Hpc Hsub; [discriminate|].
  cbn [ids] in Hnd. apply NoDup_cons_app_inv in Hnd as (Hik & Hir & Hk & Hr & Hkr).
  cbn [fact]. destruct (N.eqb_spec i c) as [->|Hic].
  - unfold a_drop. cbn [find] in Hf. unfold subtree_ids in Hsub. cbn [find] in Hsub. rewrite N.eqb_refl in Hsub.
    assert (c <> p) as Hcp by congruence. apply N.eqb_neq in Hcp. rewrite Hcp in Hf.
    rewrite (find_absent p k) in Hf by (intros Hx; apply Hsub; right; exact Hx).
    rewrite Hf. f_equal. f_equal. symmetry. apply fact_absent.
    intros Hx. apply Hir. eapply find_incl; [exact Hf|right; exact Hx].
  - cbn [find] in *. destruct (N.eqb_spec i p) as [->|Hip].
    + inversion Hf; subst. reflexivity.
    + assert (forall kc vc, find c k = Some (vc, kc) -> find c r = None) as Hcr.
      { intros kc vc H. apply find_absent. intros Hx. eapply NoDup_app_not_in; [exact Hkr|eapply find_in; exact H|exact Hx]. }
      destruct (find p k) as [[v1 k1]|] eqn:Epk.
      * inversion Hf; subst v1 k1.
        rewrite (IHk Hk p vp kp Epk Hpc); [reflexivity|].
        intros Hx. apply Hsub. unfold subtree_ids in *. cbn [find]. apply N.eqb_neq in Hic. rewrite Hic.
        destruct (find c k) as [[vc kc]|]; [exact Hx|destruct Hx].
      * rewrite (find_absent p (fact a_drop c k)).
        2:{ intros Hx. apply ids_drop_incl in Hx. apply (proj1 (find_none p k)) in Epk. contradiction. }
        apply (IHr Hr p vp kp Hf Hpc).
        intros Hx. apply Hsub. unfold subtree_ids in *. cbn [find]. apply N.eqb_neq in Hic. rewrite Hic.
        destruct (find c k) as [[vc kc]|] eqn:Eck; [|exact Hx].
        rewrite (Hcr _ _ eq_refl) in Hx. destruct Hx.
Qed.

(* ---------- the last node of a sibling list ---------- *)

Definition isnilb (f : forest) : bool := match f with FNil => true | _ => false end.

Lemma head_text_frev_app b : forall X, head_text (frev_app b X) = if isnilb b then head_text X else head_text (frev b).
Proof.
  induction b as [|i v k _ r IH]; intros X; cbn [frev_app isnilb]; [reflexivity|].
  unfold frev. cbn [frev_app]. rewrite !IH. destruct (isnilb r); reflexivity.
Qed.

Lemma last_text_cons i v k r : last_text (FCons i v k r) = if isnilb r then is_text_val v else last_text r.
Proof. unfold last_text, frev. cbn [frev_app]. rewrite head_text_frev_app. destruct r; reflexivity. Qed.

Lemma drop_nil c r : NoDup (ids r) -> fact a_drop c r = FNil -> r = FNil \/ exists v k, r = FCons c v k FNil.
Proof.
  destruct r as [|i v k r']; [auto|]. cbn [fact]. destruct (N.eqb_spec i c) as [->|Hne]; unfold a_drop; [|discriminate].
  intros _ ->. right. eauto.
Qed.

(* cutting a text node out of a list without adjacent text cannot make a text node the last one *)
Lemma last_text_drop c k : NoDup (ids k) -> na_list k = true -> (forall v, In (c, v) (nodes k) -> is_text_val v = true) ->
  last_text (fact a_drop c k) = true -> last_text k = true.
Proof.
  induction k as [|i v kk _ r IHr]; intros Hnd Hna Hc; [cbn; auto|].
  cbn [ids] in Hnd. apply NoDup_cons_app_inv in Hnd as (_ & _ & _ & Hr & _).
  cbn [na_list] in Hna. apply andb_true_iff in Hna as [Hj Hnar].
  cbn [fact]. destruct (N.eqb_spec i c) as [->|Hne].
  - unfold a_drop. rewrite last_text_cons. destruct r; [cbn; discriminate|cbn [isnilb]; auto].
  - rewrite !last_text_cons.
    assert (forall v0, In (c, v0) (nodes r) -> is_text_val v0 = true) as Hcr.
    { intros v0 H. apply Hc. cbn [nodes]. right. apply in_or_app. right. exact H. }
    destruct (fact a_drop c r) as [|i' v' k' r'] eqn:Ed.
    + cbn [isnilb]. destruct (drop_nil c r Hr Ed) as [->|(vc & kc & ->)]; [cbn; auto|].
      cbn [isnilb]. intros Hv. rewrite last_text_cons. cbn [isnilb].
      cbn [head_text] in Hj. rewrite Hv in Hj. cbn in Hj.
      assert (is_text_val vc = true) as Hvc by (apply Hcr; left; reflexivity). rewrite Hvc in Hj. discriminate.
    + cbn [isnilb]. intros H. destruct r as [|ir vr kr rr]; [cbn in Ed; discriminate|]. cbn [isnilb].
      apply IHr; assumption.
Qed.

(* ---------- cutting a text node out keeps a list free of adjacent text ---------- *)

Lemma head_text_drop c a : na_list a = true -> (forall v, In (c, v) (nodes a) -> is_text_val v = true) ->
  head_text (fact a_drop c a) = true -> head_text a = true.
Proof.
  destruct a as [|i v k r]; [cbn; auto|]. intros Hna Hc. cbn [fact]. destruct (N.eqb_spec i c) as [->|Hne].
  - unfold a_drop. intros Hr. cbn [na_list] in Hna. rewrite Hr in Hna.
    rewrite (Hc v) in Hna by (left; reflexivity). discriminate.
  - cbn [head_text]. auto.
Qed.

Lemma na_drop_text c f : NoDup (ids f) -> (forall v, In (c, v) (nodes f) -> is_text_val v = true) ->
  (na_list f = true -> na_list (fact a_drop c f) = true) /\ (na f = true -> na (fact a_drop c f) = true).
Proof.
  induction f as [|i v k IHk r IHr]; intros Hnd Hc; [cbn; auto|].
  cbn [ids] in Hnd. apply NoDup_cons_app_inv in Hnd as (_ & _ & Hk & Hr & _).
  assert (forall v0, In (c, v0) (nodes k) -> is_text_val v0 = true) as Hck by (intros v0 H; apply Hc; right; apply in_or_app; left; exact H).
  assert (forall v0, In (c, v0) (nodes r) -> is_text_val v0 = true) as Hcr by (intros v0 H; apply Hc; right; apply in_or_app; right; exact H).
  destruct (IHk Hk Hck) as [K1 K2]. destruct (IHr Hr Hcr) as [R1 R2].
  cbn [fact]. destruct (N.eqb_spec i c) as [->|Hne].
  - unfold a_drop. cbn [na_list na]. split; intros H.
    + apply andb_true_iff in H. tauto.
    + apply andb_true_iff in H. tauto.
  - cbn [na_list na]. split; intros H.
    + apply andb_true_iff in H as [Hj Hl]. rewrite (R1 Hl), andb_true_r.
      destruct (head_text (fact a_drop c r)) eqn:Eh; [|rewrite andb_false_r; reflexivity].
      rewrite (head_text_drop c r Hl Hcr Eh) in Hj. exact Hj.
    + apply andb_true_iff in H as [H H3]. apply andb_true_iff in H as [H1 H2]. rewrite (K1 H1), (K2 H2), (R2 H3). reflexivity.
Qed.

(* ---------- putting a tree into a sibling list ---------- *)

Lemma last_text_fapp a b : last_text (fapp a b) = if isnilb b then last_text a else last_text b.
Proof.
  induction a as [|i v k _ r IH]; cbn [fapp].
  - destruct b; reflexivity.
  - rewrite !last_text_cons, IH. destruct r, b; cbn; reflexivity.
Qed.

Lemma na_list_insert a X i v k :
  na_list (fapp a X) = true ->
  (is_text_val v = true -> last_text a = false /\ head_text X = false) ->
  na_list (fapp a (FCons i v k X)) = true.
Proof.
  rewrite !na_list_fapp. cbn [na_list head_text]. intros H Hv.
  apply andb_true_iff in H as [H Hj]. apply andb_true_iff in H as [Ha HX]. rewrite Ha, HX.
  destruct (is_text_val v) eqn:Et.
  - destruct (Hv eq_refl) as [-> ->]. reflexivity.
  - cbn. rewrite andb_false_r. reflexivity.
Qed.

Lemma na_insert a X i v k : na (fapp a (FCons i v k X)) = na (fapp a X) && (na_list k && na k).
Proof. rewrite !na_fapp. cbn [na]. destruct (na a), (na_list k), (na k), (na X); reflexivity. Qed.

(* the sibling list around a top-level node survives the cut of another node *)
Lemma drop_fapp_in c a X : NoDup (ids (fapp a X)) -> In c (ids a) -> fact a_drop c (fapp a X) = fapp (fact a_drop c a) X.
Proof.
  induction a as [|i v k _ r IH]; cbn [fapp ids]; [intros _ []|]. intros Hnd Hin. cbn [fact].
  destruct (N.eqb_spec i c) as [->|Hne]; [reflexivity|]. cbn [fapp].
  apply NoDup_cons_app_inv in Hnd as (_ & _ & _ & Hr & Hkr).
  destruct Hin as [Hin|Hin]; [congruence|]. apply in_app_or in Hin as [Hin|Hin].
  - assert (~ In c (ids (fapp r X))) as Hn by (intros Hx; eapply NoDup_app_not_in; [exact Hkr|exact Hin|exact Hx]).
    rewrite (fact_absent a_drop c (fapp r X)) by exact Hn.
    rewrite (fact_absent a_drop c r); [reflexivity|]. intros Hx. apply Hn. rewrite ids_fapp. apply in_or_app. left. exact Hx.
  - rewrite IH by assumption. reflexivity.
Qed.

Lemma drop_split c a0 r v k a : NoDup (ids (fapp a0 (FCons r v k a))) -> c <> r ->
  fact a_drop c (fapp a0 (FCons r v k a)) = fapp (fact a_drop c a0) (FCons r v (fact a_drop c k) (fact a_drop c a)).
Proof.
  intros Hnd Hcr. destruct (in_dec N.eq_dec c (ids a0)) as [Hin|Hn].
  - rewrite drop_fapp_in by assumption. rewrite ids_fapp in Hnd.
    assert (~ In c (ids (FCons r v k a))) as Hx by (intros Hx; eapply NoDup_app_not_in; [exact Hnd|exact Hin|exact Hx]).
    cbn [ids] in Hx. rewrite (fact_absent a_drop c k), (fact_absent a_drop c a); [reflexivity| |];
      intros Hy; apply Hx; right; apply in_or_app; auto.
  - rewrite fact_fapp_skip by exact Hn. rewrite (fact_absent a_drop c a0) by exact Hn. cbn [fact].
    assert (r <> c) as Hrc by congruence. apply N.eqb_neq in Hrc. rewrite Hrc. reflexivity.
Qed.

(* ---------- the attribute / namespace prefix of a child list and the ordinary children after it ---------- *)

Fixpoint abn_part (k : forest) : forest :=
  match k with FCons i v kk r => if is_normal v then FNil else FCons i v kk (abn_part r) | FNil => FNil end.
Fixpoint nrm_part (k : forest) : forest :=
  match k with FCons i v kk r => if is_normal v then k else nrm_part r | FNil => FNil end.

Lemma abn_nrm k : k = fapp (abn_part k) (nrm_part k).
Proof. induction k as [|i v kk _ r IH]; cbn; [reflexivity|]. destruct (is_normal v); cbn; [reflexivity|]. rewrite <- IH. reflexivity. Qed.

Lemma insert_first_normal_split t k : insert_first_normal t k = fapp (abn_part k) (fapp t (nrm_part k)).
Proof.
  induction k as [|i v kk _ r IH]; cbn [insert_first_normal abn_part nrm_part fapp].
  - rewrite fapp_nil. reflexivity.
  - destruct (is_normal v); cbn [fapp]; [reflexivity|]. rewrite IH. reflexivity.
Qed.

Lemma text_is_normal v : is_text_val v = true -> is_normal v = true.
Proof. destruct v; try discriminate; reflexivity. Qed.

Lemma last_text_abn k : last_text (abn_part k) = false.
Proof.
  induction k as [|i v kk _ r IH]; cbn [abn_part]; [reflexivity|]. destruct (is_normal v) eqn:En; [reflexivity|].
  rewrite last_text_cons, IH. destruct (abn_part r); cbn [isnilb]; [|reflexivity].
  destruct (is_text_val v) eqn:Et; [|reflexivity]. apply text_is_normal in Et. congruence.
Qed.

Lemma head_text_nrm_drop c k : na_list k = true -> (forall v, In (c, v) (nodes k) -> is_text_val v = true) ->
  head_text (nrm_part (fact a_drop c k)) = true -> head_text (nrm_part k) = true.
Proof.
  induction k as [|i v kk _ r IH]; intros Hna Hc; [cbn; auto|].
  cbn [na_list] in Hna. apply andb_true_iff in Hna as [_ Hnar].
  cbn [fact]. destruct (N.eqb_spec i c) as [->|Hne].
  - intros _. assert (is_text_val v = true) as Ht by (apply Hc; left; reflexivity).
    cbn [nrm_part]. rewrite (text_is_normal _ Ht). cbn [head_text]. exact Ht.
  - cbn [nrm_part]. destruct (is_normal v); [cbn [head_text]; auto|].
    apply IH; [exact Hnar|]. intros v0 H. apply Hc. right. apply in_or_app. right. exact H.
Qed.

(* ---------- the insertion points of the attribute / namespace maps ---------- *)

Lemma insert_after_attributes_split t k : exists a X, k = fapp a X /\ insert_after_attributes t k = fapp a (fapp t X).
Proof.
  induction k as [|i v kk _ r IH]; cbn [insert_after_attributes].
  - exists FNil, FNil. split; [reflexivity|]. cbn. rewrite fapp_nil. reflexivity.
  - destruct IH as (a & X & E1 & E2).
    destruct (value_category v); try (exists (FCons i v kk a), X; cbn [fapp]; rewrite <- E1, E2; auto; fail);
      exists FNil, (FCons i v kk r); auto.
Qed.

Lemma insert_after_namespaces_split t k : exists a X, k = fapp a X /\ insert_after_namespaces t k = fapp a (fapp t X).
Proof.
  induction k as [|i v kk _ r IH]; cbn [insert_after_namespaces].
  - exists FNil, FNil. split; [reflexivity|]. cbn. rewrite fapp_nil. reflexivity.
  - destruct IH as (a & X & E1 & E2).
    destruct (value_category v); try (exists (FCons i v kk a), X; cbn [fapp]; rewrite <- E1, E2; auto; fail);
      exists FNil, (FCons i v kk r); auto.
Qed.
