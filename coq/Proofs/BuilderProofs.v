(* BuilderProofs.v — theorems about Model/Builder.v (C02, C03, C17). *)
From Coq Require Import List NArith Bool Lia.
From XotV Require Import Model.Base Model.Zipper Model.Interning Model.InternOps Model.Fullname Model.Entity Model.Builder
                         Proofs.EntityProofs.
Import ListNotations.
Open Scope N_scope.

Lemma NoDup_app_one {A} (l : list A) x : NoDup l /\ ~ In x l -> NoDup (l ++ [x]).
Proof.
  intros [Hl Hx]. induction l as [|y l IH]; cbn; [constructor; [intros []|constructor]|].
  inversion Hl as [|? ? Hy Hl']; subst. constructor.
  - rewrite in_app_iff. intros [H|[H|[]]]; [exact (Hy H)|subst; apply Hx; left; reflexivity].
  - apply IH; [exact Hl'|]. intros H. apply Hx. right. exact H.
Qed.

Section P.
  Variable bi : builtins.

  (* ---------- namespace resolution: nearest declaration wins ---------- *)

  (* within one element the LAST declaration of a prefix counts (the parser rejects a second one, so it is the only one) *)
  Lemma lookup_rev_app p d1 d2 found :
    lookup_rev p (d1 ++ d2) found = lookup_rev p d2 (lookup_rev p d1 found).
  Proof. revert found. induction d1 as [|[q ns] d1 IH]; intros found; cbn; [reflexivity|]. apply IH. Qed.

  Lemma lookup_rev_none p d found : ~ In p (map fst d) -> lookup_rev p d found = found.
  Proof.
    revert found. induction d as [|[q ns] d IH]; intros found Hn; cbn; [reflexivity|].
    destruct (N.eqb q p) eqn:E; [apply N.eqb_eq in E; subst; exfalso; apply Hn; left; reflexivity|].
    apply IH. intros H. apply Hn. right. exact H.
  Qed.

  Lemma lookup_rev_unique p ns d : NoDup (map fst d) -> In (p, ns) d -> lookup_rev p d None = Some ns.
  Proof.
    induction d as [|[q m] d IH]; intros Hnd Hin; [destruct Hin|]. cbn in Hnd. inversion Hnd as [|? ? Hq Hd]; subst.
    destruct Hin as [Heq|Hin].
    - inversion Heq; subst. cbn. rewrite N.eqb_refl. apply lookup_rev_none. exact Hq.
    - cbn. destruct (N.eqb q p) eqn:E.
      + apply N.eqb_eq in E; subst. exfalso. apply Hq. apply in_map_iff. exists (p, ns). split; [reflexivity|exact Hin].
      + apply IH; assumption.
  Qed.

  (* the binding of a prefix is the one of the innermost element that declares it; elements that do not declare it are
     transparent *)
  Theorem lookup_stack_nearest p d s :
    lookup_stack p (d :: s) = match lookup_rev p d None with Some ns => Some ns | None => lookup_stack p s end.
  Proof. reflexivity. Qed.

  Theorem lookup_stack_skip p d s : ~ In p (map fst d) -> lookup_stack p (d :: s) = lookup_stack p s.
  Proof. intros H. cbn. rewrite (lookup_rev_none p d None H). reflexivity. Qed.

  Theorem lookup_stack_hit p ns d s : NoDup (map fst d) -> In (p, ns) d -> lookup_stack p (d :: s) = Some ns.
  Proof. intros H1 H2. cbn. rewrite (lookup_rev_unique p ns d H1 H2). reflexivity. Qed.

  (* ---------- what the parser refuses: repeated declarations, repeated attributes, repeated ids ---------- *)

  Lemma has_prefix_in p (d : decls) : has_prefix p d = true <-> In p (map fst d).
  Proof.
    unfold has_prefix. rewrite existsb_exists. split.
    - intros [[q ns] [Hin Heq]]. cbn in Heq. apply N.eqb_eq in Heq. subst. apply in_map_iff. exists (p, ns). auto.
    - intros H. apply in_map_iff in H as [[q ns] [Heq Hin]]. cbn in Heq. subst. exists (p, ns). split; [exact Hin|apply N.eqb_refl].
  Qed.

  Definition eb_ok (e : option ebuild) : Prop :=
    match e with Some eb => NoDup (map fst (eb_ns eb)) | None => True end.

  (* a prefix is declared at most once per element *)
  Theorem builder_prefix_unique st prefix uri sp st' :
    eb_ok (b_eb st) -> builder_prefix st prefix uri sp = BOk st' -> eb_ok (b_eb st').
  Proof.
    unfold builder_prefix, bbind. intros Hok.
    destruct (of_res (x_add_prefix (b_tabs st) prefix)) as [[pid t1]| | |]; try discriminate.
    destruct (of_res (x_add_namespace t1 uri)) as [[nsid t2]| | |]; try discriminate.
    destruct (b_eb st) as [eb|] eqn:Eeb; [|discriminate].
    destruct (has_prefix pid (eb_ns eb)) eqn:Ehp; [discriminate|].
    intros H. inversion H; subst. cbn. rewrite map_app. cbn.
    apply NoDup_app_one. split; [exact Hok|].
    intros Hin. apply has_prefix_in in Hin. congruence.
  Qed.

  Definition names_of (l : list (nameid * span * span)) : list nameid := map (fun x => fst (fst x)) l.

  (* no two attributes of one element get the same expanded name, whatever prefixes spell them; and no xml:id value is
     indexed twice *)
  Theorem open_attributes_unique l : forall st node done st' done',
    NoDup (names_of done) -> NoDup (map fst (b_ids st)) ->
    open_attributes bi st node l done = BOk (st', done') ->
    NoDup (names_of done') /\ NoDup (map fst (b_ids st')) /\ length done' = (length done + length l)%nat.
  Proof.
    induction l as [|a l IH]; intros st node done st' done' Hd Hi; cbn [open_attributes].
    - intros H. inversion H; subst. rewrite PeanoNat.Nat.add_0_r. auto.
    - unfold bbind at 1. destruct (attribute_name_id bi st (ab_prefix a) (ab_name a) (ab_prefix_span a)) as [[st1 nid]| | |] eqn:E1; try discriminate.
      destruct (existsb (fun x => N.eqb (fst (fst x)) nid) done) eqn:Ex; [discriminate|].
      assert (b_ids st1 = b_ids st) as Hids1.
      { unfold attribute_name_id, bbind in E1.
        destruct (of_res (x_add_prefix (b_tabs st) (ab_prefix a))) as [[pid t1]| | |]; try discriminate.
        destruct (N.eqb pid (b_empty_prefix bi)).
        - destruct (of_res (x_add_name_ns t1 (ab_name a) (b_no_namespace bi))) as [[n2 t2]| | |]; inversion E1; reflexivity.
        - destruct (lookup_stack pid (b_nsstack st)); [|discriminate].
          destruct (of_res (x_add_name_ns t1 (ab_name a) n)) as [[n2 t2]| | |]; inversion E1; reflexivity. }
      unfold bbind at 1.
      match goal with |- context [if N.eqb nid (b_xml_id bi) then ?x else ?y] =>
        destruct (if N.eqb nid (b_xml_id bi) then x else y) as [st2| | |] eqn:E2; try discriminate end.
      assert (NoDup (map fst (b_ids st2))) as Hi2.
      { destruct (N.eqb nid (b_xml_id bi)).
        - destruct (existsb (fun x => str_eqb (fst x) (ab_value a)) (b_ids st1)) eqn:Eid; [discriminate|].
          inversion E2; subst. cbn. constructor; [|rewrite Hids1; exact Hi].
          intros Hin. apply in_map_iff in Hin as [[v n] [Heq Hin]]. cbn in Heq. subst v.
          assert (existsb (fun x => str_eqb (fst x) (ab_value a)) (b_ids st1) = true) as Ht.
          { apply existsb_exists. exists (ab_value a, n). split; [exact Hin|]. cbn.
            clear. induction (ab_value a) as [|c s IHs]; cbn; [reflexivity|]. rewrite N.eqb_refl. exact IHs. }
          congruence.
        - inversion E2; subst. rewrite Hids1. exact Hi. }
      unfold bbind at 1. destruct (add_node st2 (VAttribute nid (ab_value a))) as [[st3 n3]| | |] eqn:E3; try discriminate.
      assert (b_ids st3 = b_ids st2) as Hids3.
      { unfold add_node in E3. destruct (b_stack st2); [discriminate|]. inversion E3; reflexivity. }
      intros H. apply IH in H.
      + destruct H as (H1 & H2 & H3). split; [exact H1|]. split; [exact H2|]. rewrite H3, app_length. cbn. lia.
      + unfold names_of. rewrite map_app. cbn. apply NoDup_app_one. split; [exact Hd|].
        intros Hin. apply in_map_iff in Hin as [x [Heq Hin]].
        assert (existsb (fun x => N.eqb (fst (fst x)) nid) done = true) as Ht.
        { apply existsb_exists. exists x. split; [exact Hin|]. apply N.eqb_eq. exact Heq. }
        congruence.
      + rewrite Hids3. exact Hi2.
  Qed.

  (* ---------- spans (C17) ---------- *)

  Lemma skey_eqb_refl k : skey_eqb k k = true.
  Proof. destruct k; cbn; rewrite ?N.eqb_refl; reflexivity. Qed.

  (* a run of text / CDATA parts merged into one node: the span runs from the start of the first part to the end of the last *)
  Theorem extend_text_span_first m n s : span_get m (KText n) = None ->
    span_get (extend_text_span m n s) (KText n) = Some s.
  Proof. intros H. unfold extend_text_span. rewrite H. cbn. rewrite N.eqb_refl. reflexivity. Qed.

  Theorem extend_text_span_more m n s old : span_get m (KText n) = Some old ->
    span_get (extend_text_span m n s) (KText n) = Some {| sp_start := sp_start old; sp_end := sp_end s |}.
  Proof. intros H. unfold extend_text_span. rewrite H. cbn. rewrite N.eqb_refl. reflexivity. Qed.

  Theorem extend_text_span_other m n s k : k <> KText n ->
    span_get (extend_text_span m n s) k = span_get m k.
  Proof.
    intros Hk. unfold extend_text_span.
    assert (skey_eqb (KText n) k = false) as Hf.
    { destruct k; cbn; try reflexivity. apply N.eqb_neq. intros ->. apply Hk. reflexivity. }
    destruct (span_get m (KText n)); unfold span_add; cbn [span_get]; rewrite Hf; reflexivity.
  Qed.

  (* the byte length of a string *)
  Fixpoint utf8_length (s : str) : N := match s with [] => 0 | c :: s' => utf8_len c + utf8_length s' end.

  Lemma utf8_len_pos c : 1 <= utf8_len c.
  Proof. unfold utf8_len. destruct (c <? 128); [lia|]. destruct (c <? 2048); [lia|]. destruct (c <? 65536); lia. Qed.

  (* an error inside character data or an attribute value is reported inside the text it was found in: positions are
     byte offsets, base + offset, and never pass the end of the value *)
  Theorem parse_go_error_in_bounds attr base s : forall st pos e,
    (match st with PEntity start _ => start < pos | _ => True end) ->
    parse_go attr base s st pos = inl e ->
    match e with
    | UnclosedEntity _ p => base <= p /\ p < base + (pos + utf8_length s)
    | InvalidEntity _ a b => base <= a /\ a < b /\ b <= base + (pos + utf8_length s)
    end.
  Proof.
    induction s as [|c s IH]; intros st pos e Hst; cbn [parse_go utf8_length].
    - destruct st as [| |start acc]; cbn [parse_go]; intros H; try discriminate H. inversion H; subst. lia.
    - destruct (pstep attr base st pos c) as [e1|[st' out]] eqn:Ep.
      + intros H. inversion H; subst. unfold pstep in Ep. destruct st as [| |start acc]; cbv beta iota in Ep.
        * repeat match type of Ep with context [if ?b then _ else _] => destruct b end; discriminate.
        * repeat match type of Ep with context [if ?b then _ else _] => destruct b end; discriminate.
        * destruct (c =? c_semi) eqn:Es; [|discriminate]. apply N.eqb_eq in Es. subst c.
          pose proof (utf8_len_pos c_semi).
          destruct acc as [|h body].
          -- inversion Ep; subst. change (utf8_len c_semi) with 1. lia.
          -- destruct (h =? c_hash).
             ++ destruct (char_of_reference body); [discriminate|]. inversion Ep; subst. change (utf8_len c_semi) with 1. lia.
             ++ destruct (named_entity (h :: body)); [discriminate|]. inversion Ep; subst. change (utf8_len c_semi) with 1. lia.
      + destruct (parse_go attr base s st' (pos + utf8_len c)) as [e2|r] eqn:Eg; [|discriminate].
        intros H. inversion H; subst e2.
        assert (match st' with PEntity start _ => start < pos + utf8_len c | _ => True end) as Hst'.
        { pose proof (utf8_len_pos c). unfold pstep in Ep. destruct st as [| |start acc]; cbv beta iota in Ep.
          - repeat match type of Ep with context [if ?b then _ else _] => destruct b end; inversion Ep; subst; try exact I; lia.
          - repeat match type of Ep with context [if ?b then _ else _] => destruct b end; inversion Ep; subst; try exact I; lia.
          - destruct (c =? c_semi).
            + destruct acc as [|h body]; [discriminate|]. destruct (h =? c_hash).
              * destruct (char_of_reference body); inversion Ep; subst; exact I.
              * destruct (named_entity (h :: body)); inversion Ep; subst; exact I.
            + inversion Ep; subst. lia. }
        specialize (IH st' (pos + utf8_len c) e Hst' Eg).
        destruct e; lia.
  Qed.

  Theorem parse_content_error_in_bounds attr base s e : parse_content attr base s = inl e ->
    match e with
    | UnclosedEntity _ p => base <= p /\ p < base + utf8_length s
    | InvalidEntity _ a b => base <= a /\ a < b /\ b <= base + utf8_length s
    end.
  Proof. intros H. apply parse_go_error_in_bounds in H; [|exact I]. destruct e; lia. Qed.
End P.
