(* BuilderSound.v — C03 "whatever is accepted is a structurally valid tree", for every token stream: the tree the builder
   of src/parse.rs hands back is well shaped (namespace* attribute* ordinary* under elements, ordinary non-document nodes
   under the document node, leaves childless), has no attribute name and no prefix twice on an element, has no two adjacent
   text nodes, and its slots are exactly the next free ones of the arena — so that parsing a further document into a good
   store gives a good store (C04). *)
From Coq Require Import List NArith ZArith Bool Lia Permutation Arith.
From XotV Require Import Model.Base Model.Zipper Model.Access Model.Store Model.Interning Model.InternOps Model.Fullname Model.Entity
                         Model.Builder Spec.DocOrder Spec.Shape Spec.NoAdj
                         Proofs.PermTac Proofs.ZipperProofs Proofs.StoreProofs Proofs.ShapeProofs Proofs.KeysProofs Proofs.InvProofs Proofs.InvSteps
                         Proofs.Canon Proofs.Levels Proofs.NoAdjFacts Proofs.BuilderProofs Proofs.BuilderTotal.
Import ListNotations.
Open Scope N_scope.

(* ---------- the children of an open node, in document order ---------- *)

Definition K (e : onode) : forest := frev (on_kids e).

Lemma frev_cons i v k r : frev (FCons i v k r) = fapp (frev r) (FCons i v k FNil).
Proof. unfold frev. cbn [frev_app]. rewrite <- (frev_involutive r) at 1. rewrite frev_app_frev. unfold frev. reflexivity. Qed.

Lemma ids_frev a : Permutation (ids (frev a)) (ids a).
Proof. unfold frev. rewrite ids_frev_app. rewrite app_nil_r. reflexivity. Qed.

Definition entry_sound (e : onode) : Prop :=
  kids_ok (on_val e) (K e) = true /\ keys_tree (K e) = true /\ na_list (K e) = true /\ na (K e) = true.

Definition container (v : value) : Prop := is_doc v = true \/ is_elem v = true.

Lemma kids_ok_shape v k : container v -> kids_ok v k = true -> exists c, c <> CRoot /\ shape c 0 k = true /\ forall k', shape c 0 k' = true -> kids_ok v k' = true.
Proof.
  intros [H|H] Hk; destruct v; try discriminate; cbn [kids_ok] in *.
  - exists CDoc. split; [discriminate|]. split; [exact Hk|auto].
  - exists CElem. split; [discriminate|]. split; [exact Hk|auto].
Qed.

(* an ordinary leaf or subtree appended as the last child *)
Lemma entry_push_normal e i v k :
  container (on_val e) -> entry_sound e -> child_ok v = true -> kids_ok v k = true -> keys_tree k = true ->
  na_list k = true -> na k = true -> (is_text_val v = true -> head_text (on_kids e) = false) ->
  entry_sound {| on_slot := on_slot e; on_val := on_val e; on_kids := FCons i v k (on_kids e) |}.
Proof.
  intros Hc (H1 & H2 & H3 & H4) Hv Hk Hkk Hn1 Hn2 Ht. unfold entry_sound, K. cbn [on_val on_kids]. rewrite frev_cons. fold (K e).
  destruct (kids_ok_shape _ _ Hc H1) as (c & Hcr & Hs & Hback).
  split; [|split; [|split]].
  - apply Hback. apply shape_fapp_single; auto.
  - apply keys_tree_fapp_single; auto. unfold child_ok in Hv. apply andb_true_iff in Hv. tauto.
  - apply na_list_insert; [rewrite fapp_nil; exact H3|]. intros Hx. split; [|reflexivity].
    unfold last_text, K. rewrite frev_involutive. apply Ht. exact Hx.
  - rewrite na_insert, fapp_nil, H4, Hn1, Hn2. reflexivity.
Qed.

(* the last child, a text node, gets more text *)
Lemma set_last_text a i old new k c lo :
  shape c lo (fapp a (FCons i (VText new) k FNil)) = shape c lo (fapp a (FCons i (VText old) k FNil))
  /\ keys_tree (fapp a (FCons i (VText new) k FNil)) = keys_tree (fapp a (FCons i (VText old) k FNil))
  /\ na_list (fapp a (FCons i (VText new) k FNil)) = na_list (fapp a (FCons i (VText old) k FNil))
  /\ na (fapp a (FCons i (VText new) k FNil)) = na (fapp a (FCons i (VText old) k FNil)).
Proof.
  split; [|split; [|split]].
  - revert lo. induction a as [|j w kk _ r IH]; intros lo; cbn [fapp]; [rewrite !shape_cons; destruct c; reflexivity|].
    rewrite !shape_cons, IH. reflexivity.
  - unfold keys_tree, level_ok. rewrite !level_keys_fapp, !keys_fapp. reflexivity.
  - rewrite !na_list_fapp. reflexivity.
  - rewrite !na_fapp. reflexivity.
Qed.

Lemma entry_set_last_text e i old new k r : container (on_val e) -> on_kids e = FCons i (VText old) k r -> entry_sound e ->
  entry_sound {| on_slot := on_slot e; on_val := on_val e; on_kids := FCons i (VText new) k r |}.
Proof.
  intros Hc Ek (H1 & H2 & H3 & H4). unfold entry_sound, K in *. cbn [on_val on_kids]. rewrite Ek in *. rewrite frev_cons in *.
  destruct (kids_ok_shape _ _ Hc H1) as (c & Hcr & Hs & Hback).
  destruct (set_last_text (frev r) i old new k c 0) as (E1 & E2 & E3 & E4).
  split; [apply Hback; rewrite E1; exact Hs|]. rewrite E2, E3, E4. auto.
Qed.

(* ---------- namespace and attribute nodes: before any ordinary child, each key once ---------- *)

Fixpoint max_rank (k : forest) : nat := match k with FNil => O | FCons _ v _ r => Nat.max (vrank v) (max_rank r) end.

Lemma shape_push_abnormal a i v : forall lo, shape CElem lo a = true -> is_normal v = false -> (max_rank a <= vrank v)%nat -> (lo <= vrank v)%nat ->
  shape CElem lo (fapp a (FCons i v FNil FNil)) = true.
Proof.
  induction a as [|j w kk _ r IH]; intros lo Hs Hv Hm Hlo; cbn [fapp].
  - rewrite shape_cons. cbn [node_ok shape next_lo]. apply Nat.leb_le in Hlo. rewrite Hlo.
    destruct v; try discriminate; reflexivity.
  - rewrite shape_cons in *. apply andb_true_iff in Hs as [Hs H3]. rewrite Hs. cbn [andb max_rank next_lo] in *.
    apply IH; auto; lia.
Qed.

Lemma nodupb_app_one l x : nodupb l = true -> ~ In x l -> nodupb (l ++ [x]) = true.
Proof.
  intros H Hn. apply nodupb_spec. apply nodupb_spec in H. apply NoDup_app_one. auto.
Qed.

Lemma max_rank_fapp a b : max_rank (fapp a b) = Nat.max (max_rank a) (max_rank b).
Proof. induction a as [|i v k _ r IH]; cbn [fapp max_rank]; [reflexivity|]. rewrite IH. lia. Qed.

Lemma entry_push_abnormal e i v c :
  is_elem (on_val e) = true -> entry_sound e -> value_category v = c -> c <> CNormal ->
  (max_rank (K e) <= vrank v)%nat -> ~ In (key_of_node v) (level_keys c (K e)) ->
  entry_sound {| on_slot := on_slot e; on_val := on_val e; on_kids := FCons i v FNil (on_kids e) |}
  /\ max_rank (K {| on_slot := on_slot e; on_val := on_val e; on_kids := FCons i v FNil (on_kids e) |}) = vrank v.
Proof.
  intros He (H1 & H2 & H3 & H4) Hc Hcn Hm Hfresh. unfold entry_sound, K. cbn [on_val on_kids]. rewrite frev_cons. fold (K e).
  assert (is_normal v = false) as Hab by (destruct v; cbn in Hc; subst; try congruence; reflexivity).
  assert (is_text_val v = false) as Hnt by (destruct v; try reflexivity; discriminate).
  split.
  - split; [|split; [|split]].
    + destruct (on_val e); try discriminate. cbn [kids_ok] in *. apply shape_push_abnormal; auto; lia.
    + unfold keys_tree, level_ok in *. rewrite !level_keys_fapp, keys_fapp. cbn [level_keys keys level_ok nodupb].
      apply andb_true_iff in H2 as [H2 H2']. apply andb_true_iff in H2 as [Ha Hn]. rewrite H2'. cbn [andb].
      destruct v; cbn in Hc; subst c; try congruence; cbn [value_category vcat_eqb key_of_node] in *.
      * rewrite app_nil_r, Hn, (nodupb_app_one _ _ Ha Hfresh). reflexivity.
      * rewrite app_nil_r, Ha, (nodupb_app_one _ _ Hn Hfresh). reflexivity.
    + apply na_list_insert; [rewrite fapp_nil; exact H3|]. rewrite Hnt. discriminate.
    + rewrite na_insert, fapp_nil, H4. reflexivity.
  - rewrite max_rank_fapp. cbn [max_rank]. lia.
Qed.

(* ---------- the invariant of the builder ---------- *)

Section S.
  Variable bi : builtins.

  Definition nrange (lo : N) (n : nat) : list N := map (fun k => lo + N.of_nat k) (seq 0 n).

  Lemma nrange_S lo n : nrange lo (S n) = nrange lo n ++ [lo + N.of_nat n].
  Proof. unfold nrange. rewrite seq_S, map_app. reflexivity. Qed.

  Definition all_ids (s : list onode) : list N := flat_map (fun e => on_slot e :: ids (on_kids e)) s.

  Definition slots_ok (next0 : N) (st : bstate) : Prop :=
    exists cnt, Permutation (all_ids (b_stack st)) (nrange next0 cnt) /\ b_next st = next0 + N.of_nat cnt.

  Definition SInv (next0 : N) (st : bstate) : Prop :=
    stack_ok (b_stack st) /\ Forall entry_sound (b_stack st) /\ slots_ok next0 st /\ eb_ok (b_eb st).

  (* outcomes that hand a state on *)
  Definition Os {A} (Q : A -> Prop) (r : bres A) : Prop := match r with BOk a => Q a | _ => True end.

  Lemma Os_bind {A B} (Q : A -> Prop) (P : B -> Prop) (x : bres A) (f : A -> bres B) :
    Os Q x -> (forall a, Q a -> Os P (f a)) -> Os P (bbind x f).
  Proof. destruct x; cbn; auto. Qed.

  Lemma Os_weaken {A} (Q Q' : A -> Prop) r : Os Q r -> (forall a, Q a -> Q' a) -> Os Q' r.
  Proof. destruct r; cbn; auto. Qed.

  Lemma Os_any {A} (r : bres A) : Os (fun _ => True) r.
  Proof. destruct r; exact I. Qed.

  (* what the name lookups leave alone *)
  Definition same_tree (st st1 : bstate) : Prop :=
    b_stack st1 = b_stack st /\ b_next st1 = b_next st /\ b_eb st1 = b_eb st.

  Lemma same_tree_inv n0 st st1 : same_tree st st1 -> SInv n0 st -> SInv n0 st1.
  Proof. intros (H1 & H2 & H3) (A & B & C & D). unfold SInv, slots_ok. rewrite H1, H2, H3. auto. Qed.

  Lemma element_name_id_same st p n sp : Os (fun r => same_tree st (fst r)) (element_name_id st p n sp).
  Proof.
    unfold element_name_id. eapply Os_bind; [apply Os_any|]. intros [pid t1] _.
    destruct (lookup_stack pid (b_nsstack st)); [|exact I].
    eapply Os_bind; [apply Os_any|]. intros [nid t2] _. cbn. repeat split.
  Qed.

  Lemma attribute_name_id_same st p n sp : Os (fun r => same_tree st (fst r)) (attribute_name_id bi st p n sp).
  Proof.
    unfold attribute_name_id. eapply Os_bind; [apply Os_any|]. intros [pid t1] _.
    destruct (N.eqb pid (b_empty_prefix bi)).
    - eapply Os_bind; [apply Os_any|]. intros [nid t2] _. cbn. repeat split.
    - destruct (lookup_stack pid (b_nsstack st)); [|exact I].
      eapply Os_bind; [apply Os_any|]. intros [nid t2] _. cbn. repeat split.
  Qed.

  Lemma stack_top_container s e rest : stack_ok s -> s = e :: rest -> container (on_val e).
  Proof.
    intros H ->. destruct rest as [|p r]; cbn in H.
    - left. rewrite H. reflexivity.
    - destruct H as [[n Hn] _]. right. rewrite Hn. reflexivity.
  Qed.

  Lemma stack_ok_retop e e' rest : on_val e' = on_val e -> stack_ok (e :: rest) -> stack_ok (e' :: rest).
  Proof. intros Hv H. destruct rest; cbn in *; rewrite Hv; exact H. Qed.

  (* one more slot in use, in the child list of the current node *)
  Lemma slots_push n0 st e rest v k st' :
    b_stack st = e :: rest -> slots_ok n0 st ->
    b_stack st' = {| on_slot := on_slot e; on_val := on_val e; on_kids := FCons (b_next st) v FNil (on_kids e) |} :: rest ->
    b_next st' = b_next st + 1 -> k = FNil -> slots_ok n0 st'.
  Proof.
    intros E (cnt & Hp & Hn) E' Hn' _. exists (S cnt). rewrite E', Hn', nrange_S. rewrite E in Hp. cbn [all_ids flat_map on_slot on_kids ids] in *.
    split; [|rewrite Hn; lia].
    rewrite Hn. eapply Permutation_trans; [|apply Permutation_cons_append].
    eapply Permutation_trans; [|apply perm_skip; exact Hp].
    cbn. rewrite !app_comm_cons. apply Permutation_app_tail. apply perm_swap.
  Qed.

  (* DocumentBuilder::add for an ordinary leaf *)
  Lemma add_node_sound n0 st v : SInv n0 st -> child_ok v = true -> kids_ok v FNil = true ->
    (is_text_val v = true -> match b_stack st with e :: _ => head_text (on_kids e) = false | [] => True end) ->
    Os (fun r => SInv n0 (fst r) /\ b_eb (fst r) = b_eb st) (add_node st v).
  Proof.
    intros (Hs & Hf & Hsl & Heb) Hv Hk Ht. unfold add_node. destruct (b_stack st) as [|cur rest] eqn:E; [exact I|].
    cbn. split; [|reflexivity]. inversion Hf as [|? ? Hc Hr]; subst.
    split; [eapply stack_ok_retop; [|exact Hs]; reflexivity|]. split; [|split; [|exact Heb]].
    - constructor; [|exact Hr]. apply entry_push_normal; auto.
      eapply stack_top_container; [exact Hs|reflexivity].
    - eapply (slots_push n0 st cur rest v FNil); [exact E|exact Hsl|reflexivity|reflexivity|reflexivity].
  Qed.

  (* text: merged into a text node that is the last child so far, else a new node *)
  Lemma add_text_sound n0 st content : SInv n0 st ->
    Os (fun r => SInv n0 (fst r) /\ b_eb (fst r) = b_eb st) (add_text st content).
  Proof.
    intros G. pose proof G as (Hs & Hf & Hsl & Heb). unfold add_text. destruct (b_stack st) as [|cur rest] eqn:E; [exact I|].
    assert (Os (fun r => SInv n0 (fst r) /\ b_eb (fst r) = b_eb st) (add_node st (VText content)) \/ True) as _ by auto.
    destruct (on_kids cur) as [|i v k r] eqn:Ek.
    - apply add_node_sound; auto. rewrite E, Ek. reflexivity.
    - destruct v; try (apply add_node_sound; auto; rewrite E, Ek; intros _; reflexivity).
      cbn. split; [|reflexivity]. inversion Hf as [|? ? Hc Hr]; subst.
      split; [eapply stack_ok_retop; [|exact Hs]; reflexivity|]. split; [|split; [|exact Heb]].
      + constructor; [|exact Hr]. eapply entry_set_last_text; [eapply stack_top_container; [exact Hs|reflexivity]|exact Ek|exact Hc].
      + destruct Hsl as (cnt & Hp & Hn). exists cnt. cbn [b_stack b_next]. rewrite E in Hp. cbn [all_ids flat_map on_slot on_kids] in *. rewrite Ek in Hp. auto.
  Qed.

  (* the current element is closed: it becomes the last child of its parent *)
  Lemma pop_node_sound n0 st b : SInv n0 st ->
    Os (fun r => SInv n0 (fst r) /\ b_eb (fst r) = b_eb st) (pop_node st b).
  Proof.
    intros (Hs & Hf & Hsl & Heb). unfold pop_node. destruct (b_stack st) as [|cur [|par rest]] eqn:E; try exact I.
    cbn. split; [|reflexivity]. inversion Hf as [|? ? Hc Hf1]; subst. inversion Hf1 as [|? ? Hp Hr]; subst.
    destruct Hs as [[nm Hnm] Hs']. destruct Hc as (C1 & C2 & C3 & C4).
    split; [eapply stack_ok_retop; [|exact Hs']; reflexivity|]. split; [|split; [|exact Heb]].
    - constructor; [|exact Hr].
      assert (frev (frev (on_kids cur)) = on_kids cur) as Hinv by apply frev_involutive.
      pose proof (entry_push_normal par (on_slot cur) (on_val cur) (K cur)) as X.
      apply X; auto.
      + eapply stack_top_container; [exact Hs'|reflexivity].
      + rewrite Hnm. reflexivity.
      + rewrite Hnm. discriminate.
    - destruct Hsl as (cnt & Hp' & Hn). exists cnt. cbn [b_stack b_next]. split; [|exact Hn].
      cbn [all_ids flat_map on_slot on_kids ids] in *. eapply Permutation_trans; [|exact Hp'].
      cbn. rewrite (ids_frev (on_kids cur)). rewrite E. cbn [all_ids flat_map]. perm.
  Qed.


  (* ---------- a start tag: the element, its namespace nodes, its attribute nodes ---------- *)

  (* the state while the nodes of a start tag are being added: the new element is on top of the stack, its children so far
     are namespace / attribute nodes of rank at most [rk] *)
  Definition TInv (n0 : N) (rk : nat) (st : bstate) : Prop :=
    SInv n0 st /\ exists e rest, b_stack st = e :: rest /\ is_elem (on_val e) = true /\ (max_rank (K e) <= rk)%nat.

  Lemma add_abnormal_sound n0 st v c rk : TInv n0 rk st -> value_category v = c -> c <> CNormal -> (rk <= vrank v)%nat ->
    (forall e rest, b_stack st = e :: rest -> ~ In (key_of_node v) (level_keys c (K e))) ->
    Os (fun r => TInv n0 (vrank v) (fst r) /\ same_top st (fst r) /\ b_eb (fst r) = b_eb st
                 /\ forall e rest e' rest', b_stack st = e :: rest -> b_stack (fst r) = e' :: rest' ->
                      K e' = fapp (K e) (FCons (snd r) v FNil FNil)) (add_node st v).
  Proof.
    intros ((Hs & Hf & Hsl & Heb) & e & rest & E & He & Hm) Hc Hcn Hrk Hfresh. unfold add_node. rewrite E. cbn [Os fst snd].
    rewrite E in Hf, Hs. inversion Hf as [|? ? Hce Hr]; subst.
    destruct (entry_push_abnormal e (b_next st) v (value_category v) He Hce eq_refl Hcn) as [Hnew Hmax]; [lia|eapply Hfresh; exact E|].
    split; [|split; [|split]].
    - split.
      + split; [eapply stack_ok_retop; [|exact Hs]; reflexivity|]. split; [|split; [|exact Heb]].
        * cbn [b_stack]. constructor; [exact Hnew|exact Hr].
        * eapply (slots_push n0 st e rest v FNil); [exact E|exact Hsl|reflexivity|reflexivity|reflexivity].
      + eexists _, rest. split; [reflexivity|]. split; [exact He|]. rewrite Hmax. lia.
    - intros e0 r0 He0. rewrite E in He0. inversion He0; subst. eexists. split; [reflexivity|]. cbn. auto.
    - reflexivity.
    - intros e0 r0 e' r' H0 H1. inversion H0; subst e0 r0. cbn [b_stack] in H1. inversion H1; subst e' r'.
      unfold K. cbn [on_kids]. rewrite frev_cons. reflexivity.
  Qed.


  Lemma level_keys_other c v i : value_category v <> c -> level_keys c (FCons i v FNil FNil) = [].
  Proof. intros H. cbn. destruct (value_category v), c; try reflexivity; congruence. Qed.

  Lemma level_keys_self v i : level_keys (value_category v) (FCons i v FNil FNil) = [key_of_node v].
  Proof. cbn. destruct (value_category v); reflexivity. Qed.

  Definition top_keys (c : vcat) (st : bstate) : list N :=
    match b_stack st with e :: _ => level_keys c (K e) | [] => [] end.

  Lemma add_namespace_nodes_sound n0 d : forall st, TInv n0 0 st -> NoDup (top_keys CNamespace st ++ map fst d) ->
    Os (fun st1 => TInv n0 0 st1 /\ same_top st st1 /\ b_eb st1 = b_eb st /\ top_keys CAttribute st1 = top_keys CAttribute st)
       (add_namespace_nodes st d).
  Proof.
    induction d as [|[p ns] d IH]; intros st G Hnd; cbn [add_namespace_nodes].
    - cbn. split; [exact G|]. split; [intros e rest H; eauto|]. auto.
    - destruct G as (G0 & e & rest & E & He & Hm).
      eapply Os_bind; [apply (add_abnormal_sound n0 st (VNamespace p ns) CNamespace 0); auto; [split; eauto|discriminate|]|].
      { intros e0 r0 H0 Hin. rewrite E in H0. inversion H0; subst e0 r0. unfold top_keys in Hnd. rewrite E in Hnd.
        cbn [map fst] in Hnd. eapply NoDup_app_not_in; [exact Hnd|exact Hin|left; reflexivity]. }
      intros [st1 n1] (T1 & Hst1 & Heb1 & HK1). cbn [fst snd vrank value_category cat_rank] in *.
      destruct (Hst1 _ _ E) as (e1 & E1 & Hv1 & Hs1).
      eapply Os_weaken; [apply (IH st1 T1)|].
      + unfold top_keys in *. rewrite E1, (HK1 _ _ _ _ E E1), level_keys_fapp. change CNamespace with (value_category (VNamespace p ns)) at 2. rewrite level_keys_self. rewrite E in Hnd. cbn [key_of_node map fst value_category] in *.
        rewrite <- app_assoc. exact Hnd.
      + intros st2 (T2 & Hst2 & Heb2 & Ha2). split; [exact T2|]. split; [eapply same_top_trans; eauto|]. split; [congruence|].
        rewrite Ha2. unfold top_keys. rewrite E, E1, (HK1 _ _ _ _ E E1), level_keys_fapp, level_keys_other, app_nil_r; [reflexivity|discriminate].
  Qed.


  Lemma TInv_weaken n0 a b st : (a <= b)%nat -> TInv n0 a st -> TInv n0 b st.
  Proof. intros H (G & e & rest & E & He & Hm). split; [exact G|]. exists e, rest. repeat split; auto. lia. Qed.

  Lemma TInv_same n0 rk st st1 : same_tree st st1 -> TInv n0 rk st -> TInv n0 rk st1.
  Proof.
    intros Hsame (G & e & rest & E & He & Hm). split; [eapply same_tree_inv; eauto|]. destruct Hsame as (H1 & _).
    exists e, rest. rewrite H1. auto.
  Qed.

  Lemma open_attributes_sound n0 l : forall st node done, TInv n0 1 st -> top_keys CAttribute st = names_of done ->
    Os (fun r => TInv n0 1 (fst r) /\ same_top st (fst r) /\ b_eb (fst r) = b_eb st) (open_attributes bi st node l done).
  Proof.
    induction l as [|a l IH]; intros st node done G Hk; cbn [open_attributes].
    - cbn. split; [exact G|]. split; [intros e rest H; eauto|reflexivity].
    - eapply Os_bind; [apply attribute_name_id_same|]. intros [st1 nid] Hsame. cbn [fst] in Hsame.
      pose proof (TInv_same _ _ _ _ Hsame G) as G1. destruct Hsame as (S1 & S2 & S3).
      destruct (existsb (fun x => N.eqb (fst (fst x)) nid) done) eqn:Ex; [exact I|].
      assert (~ In nid (names_of done)) as Hfresh.
      { intros Hin. unfold names_of in Hin. apply in_map_iff in Hin as (x & Hx & Hin).
        assert (existsb (fun x => N.eqb (fst (fst x)) nid) done = true) as Ht by (apply existsb_exists; exists x; split; [exact Hin|apply N.eqb_eq; exact Hx]).
        congruence. }
      match goal with |- Os _ (bbind ?mid _) =>
        assert (Os (fun st2 => same_tree st1 st2) mid) as Hmid end.
      { destruct (N.eqb nid (b_xml_id bi)); [|cbn; repeat split].
        match goal with |- Os _ (if ?c then _ else _) => destruct c end; cbn; repeat split. }
      eapply Os_bind; [exact Hmid|]. intros st2 Hsame2.
      pose proof (TInv_same _ _ _ _ Hsame2 G1) as G2. destruct Hsame2 as (T1 & T2 & T3).
      assert (top_keys CAttribute st2 = names_of done) as Hk2 by (unfold top_keys in *; rewrite T1, S1; exact Hk).
      eapply Os_bind; [apply (add_abnormal_sound n0 st2 (VAttribute nid (ab_value a)) CAttribute 1 G2 eq_refl); [discriminate|cbn; lia|]|].
      { intros e0 r0 H0 Hin. apply Hfresh. rewrite <- Hk2. unfold top_keys. rewrite H0. exact Hin. }
      intros [st3 n3] (T3' & Hst3 & Heb3 & HK3). cbn [fst snd vrank value_category cat_rank] in *.
      eapply Os_weaken; [apply (IH st3 node _ T3')|].
      + destruct G2 as (_ & e2 & rest2 & E2 & _). destruct (Hst3 _ _ E2) as (e3 & E3 & _).
        unfold top_keys in *. rewrite E3, (HK3 _ _ _ _ E2 E3), level_keys_fapp. rewrite E2 in Hk2. rewrite Hk2.
        change CAttribute with (value_category (VAttribute nid (ab_value a))) at 1. rewrite level_keys_self.
        unfold names_of. rewrite map_app. reflexivity.
      + intros r (R1 & R2 & R3). split; [exact R1|]. split; [|congruence].
        eapply same_top_trans; [|exact R2]. intros e rest He. rewrite <- S1, <- T1 in He. exact (Hst3 _ _ He).
  Qed.


  Lemma SInv_with_spans n0 st m : SInv n0 st -> SInv n0 (with_spans st m).
  Proof. intros H. exact H. Qed.

  Lemma open_element_sound n0 st : SInv n0 st ->
    Os (fun r => SInv n0 (fst r) /\ b_eb (fst r) = None) (open_element bi st).
  Proof.
    intros G. unfold open_element. destruct (b_eb st) as [eb|] eqn:Eeb; [|exact I].
    match goal with |- Os _ (bbind (element_name_id ?s0 _ _ _) _) => set (st0 := s0) end.
    assert (SInv n0 st0) as G0.
    { destruct G as (A & B & C & D). split; [exact A|]. split; [exact B|]. split; [exact C|]. exact I. }
    eapply Os_bind; [apply element_name_id_same|]. intros [st1 nid] Hsame. cbn [fst] in Hsame.
    pose proof (same_tree_inv _ _ _ Hsame G0) as G1. destruct Hsame as (S1 & S2 & S3).
    match goal with |- Os _ (bbind (add_namespace_nodes ?s2 _) _) => set (st2 := s2) end.
    assert (TInv n0 0 st2) as T2.
    { destruct G1 as (A & B & (cnt & Hp & Hn) & D). split.
      - split; [|split; [|split]].
        + cbn. destruct (b_stack st1) eqn:Es; [destruct A|]. split; [eauto|exact A].
        + cbn. constructor; [|exact B]. unfold entry_sound, K. cbn. repeat split.
        + exists (S cnt). cbn [b_stack b_next st2 all_ids flat_map on_slot on_kids ids]. rewrite nrange_S. split; [|lia].
          cbn. rewrite Hn. eapply Permutation_trans; [|apply Permutation_cons_append]. apply perm_skip. exact Hp.
        + exact I.
      - eexists _, _. split; [reflexivity|]. split; [reflexivity|]. cbn. lia. }
    eapply Os_bind; [apply (add_namespace_nodes_sound n0 (eb_ns eb) st2 T2)|].
    { unfold top_keys. cbn. destruct G as (_ & _ & _ & D). rewrite Eeb in D. exact D. }
    intros st3 (T3 & Hst3 & Heb3 & Hk3).
    eapply Os_bind; [apply (open_attributes_sound n0 (eb_attrs eb) st3 (b_next st1) [] (TInv_weaken _ 0 1 _ ltac:(lia) T3))|].
    { rewrite Hk3. reflexivity. }
    intros [st4 aspans] (T4 & Hst4 & Heb4). cbn [fst] in *.
    cbn [Os fst]. split; [apply T4|]. cbn. rewrite Heb4, Heb3. reflexivity.
  Qed.

  Lemma close_element_sound n0 st p l : SInv n0 st ->
    Os (fun r => SInv n0 (fst r) /\ b_eb (fst r) = b_eb st) (close_element st p l).
  Proof.
    intros G. unfold close_element. eapply Os_bind; [apply element_name_id_same|]. intros [st1 nid] Hsame. cbn [fst] in Hsame.
    pose proof (same_tree_inv _ _ _ Hsame G) as G1. destruct Hsame as (S1 & S2 & S3).
    destruct (current_is_element st1); [|exact I]. match goal with |- Os _ (if ?c then _ else _) => destruct c end; [|exact I].
    eapply Os_weaken; [apply (pop_node_sound n0 st1 true G1)|]. intros r [H1 H2]. split; [exact H1|congruence].
  Qed.


  Lemma builder_prefix_sound n0 st p u sp : SInv n0 st -> Os (SInv n0) (builder_prefix st p u sp).
  Proof.
    intros G. destruct (builder_prefix st p u sp) as [st'| | |] eqn:E; try exact I. cbn.
    pose proof (builder_prefix_unique st p u sp st' (proj2 (proj2 (proj2 G))) E) as Heb.
    unfold builder_prefix, bbind in E.
    destruct (of_res (x_add_prefix (b_tabs st) p)) as [[pid t1]| | |]; try discriminate.
    destruct (of_res (x_add_namespace t1 u)) as [[nsid t2]| | |]; try discriminate.
    destruct (b_eb st) as [eb|]; [|discriminate]. destruct (has_prefix pid (eb_ns eb)); [discriminate|].
    inversion E; subst. destruct G as (A & B & C & D). split; [exact A|]. split; [exact B|]. split; [exact C|exact Heb].
  Qed.

  Lemma builder_attribute_sound n0 st p l v : SInv n0 st -> Os (SInv n0) (builder_attribute st p l v).
  Proof.
    intros G. unfold builder_attribute. destruct (b_eb st) as [eb|] eqn:Eeb; [|exact I].
    destruct (existsb _ _); [exact I|]. eapply Os_bind; [apply Os_any|]. intros val _. cbn.
    destruct G as (A & B & C & D). split; [exact A|]. split; [exact B|]. split; [exact C|]. cbn. rewrite Eeb in D. exact D.
  Qed.

  Lemma bstep_sound n0 st t : SInv n0 st -> Os (SInv n0) (bstep bi st t).
  Proof.
    intros G. destruct t; cbn [bstep].
    - destruct (str_eqb _ _); [|exact I]. destruct encoding as [e|]; [destruct (valid_encname _); [exact G|exact I]|exact G].
    - destruct (reserved_target (ss_text target)).
      { match goal with |- Os _ (match ?x with Some _ => _ | None => _ end) => destruct x as [v|] end; [|exact I].
        destruct (str_eqb _ _); [exact G|exact I]. }
      match goal with |- Os _ (if ?c then _ else _) => destruct c end; [exact I|].
      match goal with |- Os _ (if ?c then _ else _) => destruct c end; [exact I|].
      eapply Os_bind; [apply Os_any|]. intros [tid t1] _.
      assert (SInv n0 (with_tabs st t1)) as G1 by exact G.
      eapply Os_bind; [apply (add_node_sound n0 (with_tabs st t1) _ G1); [reflexivity|reflexivity|discriminate]|].
      intros [st1 n] [H1 H2]. cbn. exact H1.
    - eapply Os_bind; [apply (add_node_sound n0 st _ G); [reflexivity|reflexivity|discriminate]|].
      intros [st1 n] [H1 H2]. cbn. exact H1.
    - exact I.
    - destruct (leading_colon _ _); [exact I|].
      cbn. destruct G as (A & B & C & D). split; [exact A|]. split; [exact B|]. split; [exact C|]. cbn. constructor.
    - destruct (leading_colon _ _); [exact I|]. destruct (str_eqb _ _).
      + eapply Os_bind; [apply Os_any|]. intros uri _. destruct uri; [exact I|]. apply builder_prefix_sound. exact G.
      + destruct (_ && _).
        * eapply Os_bind; [apply Os_any|]. intros uri _. apply builder_prefix_sound. exact G.
        * apply builder_attribute_sound. exact G.
    - eapply Os_bind; [apply (open_element_sound n0 st G)|]. intros [st1 n] [H1 H2]. cbn. exact H1.
    - destruct (leading_colon _ _); [exact I|].
      eapply Os_bind; [apply (close_element_sound n0 st prefix local G)|]. intros [st1 n] [H1 H2]. cbn. exact H1.
    - eapply Os_bind; [apply (open_element_sound n0 st G)|]. intros [st1 n] [H1 H2]. cbn [fst] in *.
      eapply Os_bind; [apply (pop_node_sound n0 st1 _ H1)|]. intros [st2 n2] [H3 H4]. cbn. exact H3.
    - eapply Os_bind; [apply Os_any|]. intros content _.
      eapply Os_bind; [apply (add_text_sound n0 st content G)|]. intros [st1 n] [H1 H2]. cbn. exact H1.
    - destruct (ss_text text); [exact G|].
      eapply Os_bind; [apply (add_text_sound n0 st _ G)|]. intros [st1 n] [H1 H2]. cbn. exact H1.
    - exact I.
  Qed.

  Lemma brun_sound n0 ts : forall st, SInv n0 st -> Os (SInv n0) (brun bi st ts).
  Proof.
    induction ts as [|t ts IH]; intros st G; cbn [brun]; [exact G|].
    eapply Os_bind; [apply (bstep_sound n0 st t G)|]. intros st1 G1. apply IH. exact G1.
  Qed.

  Lemma SInv_new t next : SInv next (builder_new bi t next).
  Proof.
    split; [reflexivity|]. split; [|split; [|exact I]].
    - constructor; [|constructor]. unfold entry_sound, K. cbn. repeat split.
    - exists 1%nat. cbn. split; [|lia]. rewrite N.add_0_r. reflexivity.
  Qed.

  (* ---------- the tree that is handed back ---------- *)

  Definition tree_sound (next0 : N) (p : parsed) : Prop :=
    shape_store (pr_tree p) = true /\ keys (pr_tree p) = true /\ na (pr_tree p) = true
    /\ exists cnt, Permutation (ids (pr_tree p)) (nrange next0 cnt) /\ pr_next p = next0 + N.of_nat cnt.

  Lemma finish_sound n0 st doc : SInv n0 st -> b_stack st = [doc] -> tree_sound n0 (finish st doc).
  Proof.
    intros (Hs & Hf & (cnt & Hp & Hn) & _) E. rewrite E in *. cbn in Hs. inversion Hf as [|? ? (H1 & H2 & H3 & H4) _]; subst.
    unfold tree_sound, finish. cbn [pr_tree pr_next]. fold (K doc). rewrite Hs in H1. cbn [kids_ok] in H1.
    split; [|split; [|split]].
    - unfold shape_store. rewrite shape_cons. cbn [node_ok kids_ok shape]. rewrite H1. reflexivity.
    - rewrite keys_cons. unfold keys_tree in H2. apply andb_true_iff in H2 as [A B]. rewrite A, B. reflexivity.
    - cbn [na]. rewrite H3, H4. reflexivity.
    - exists cnt. split; [|exact Hn]. cbn [ids]. rewrite app_nil_r. cbn [all_ids flat_map] in Hp. rewrite app_nil_r in Hp.
      eapply Permutation_trans; [|exact Hp]. apply perm_skip. apply ids_frev.
  Qed.

  Lemma SInv_new_at d t next : SInv next (with_dstart (builder_new bi t next) d).
  Proof.
    split; [reflexivity|]. split; [|split; [|exact I]].
    - constructor; [|constructor]. unfold entry_sound, K. cbn. repeat split.
    - exists 1%nat. cbn. split; [|lia]. rewrite N.add_0_r. reflexivity.
  Qed.

  Theorem parse_document_at_sound bom t next srclen ts p : parse_document_at bi bom t next srclen ts = BOk p -> tree_sound next p.
  Proof.
    unfold parse_document_at. pose proof (brun_sound next ts _ (SInv_new_at (Some (if bom then 3 else 0)) t next)) as H.
    destruct (brun bi (with_dstart (builder_new bi t next) (Some (if bom then 3 else 0))) ts) as [st| | |]; cbn [bbind]; try discriminate. cbn in H.
    unfold bfinish. destruct (b_eb st); cbn [bbind]; try discriminate.
    destruct (b_stack st) as [|doc [|x rest]] eqn:E.
    - unfold unclosed. rewrite E. discriminate.
    - destruct (top_level_check st (frev (on_kids doc)) []) as [els| | |]; cbn [bbind]; try discriminate.
      destruct els as [|a [|b els]]; try discriminate.
      + intros Hp. inversion Hp; subst. apply finish_sound; assumption.
      + destruct (span_get _ _); discriminate.
    - unfold unclosed. rewrite E. destruct (span_get _ _); discriminate.
  Qed.

  Theorem parse_document_sound t next srclen ts p : parse_document bi t next srclen ts = BOk p -> tree_sound next p.
  Proof. apply parse_document_at_sound. Qed.

  Theorem parse_fragment_sound t next ts p : parse_fragment bi t next ts = BOk p -> tree_sound next p.
  Proof.
    unfold parse_fragment. pose proof (brun_sound next ts _ (SInv_new t next)) as H.
    destruct (brun bi (builder_new bi t next) ts) as [st| | |]; cbn [bbind]; try discriminate. cbn in H.
    unfold bfinish. destruct (b_eb st); cbn [bbind]; try discriminate.
    destruct (b_stack st) as [|doc [|x rest]] eqn:E.
    - unfold unclosed. rewrite E. discriminate.
    - intros Hp. inversion Hp; subst. apply finish_sound; assumption.
    - unfold unclosed. rewrite E. destruct (span_get _ _); discriminate.
  Qed.

End S.
