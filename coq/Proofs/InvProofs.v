(* InvProofs.v — the slot invariant of the arena model (Model/Store.v) and its preservation along histories (C04):
   every slot of the arena is either the slot of exactly one node of the forest (stamp >= 0) or on the free list
   (stamp < 0), never both, never twice; and the generation of a slot only grows, so that a handle (slot, stamp) that has
   been removed never becomes live again. *)
From Coq Require Import List NArith ZArith Bool Lia Permutation.
From XotV Require Import Model.Base Model.Zipper Model.Access Model.Store Model.Manip Proofs.StoreProofs.
Import ListNotations.
Open Scope N_scope.

(* ---------- locate finds exactly the nodes of the forest ---------- *)

Lemma locate_in_slot f : forall ups before n z, locate_in ups before n f = Some z -> z_slot z = n /\ In n (ids f).
Proof.
  induction f as [|i v k IHk r IHr]; intros ups before n z; cbn [locate_in]; [discriminate|].
  destruct (N.eqb i n) eqn:E.
  - intros H. inversion H; subst. cbn. apply N.eqb_eq in E. split; [exact E|left; exact E].
  - destruct (locate_in _ FNil n k) as [z1|] eqn:E1.
    + intros H. inversion H; subst. apply IHk in E1 as [H1 H2]. split; [exact H1|]. cbn. right. apply in_or_app. left. exact H2.
    + intros H. apply IHr in H as [H1 H2]. split; [exact H1|]. cbn. right. apply in_or_app. right. exact H2.
Qed.

Lemma locate_in_found f : forall ups before n, In n (ids f) -> exists z, locate_in ups before n f = Some z.
Proof.
  induction f as [|i v k IHk r IHr]; intros ups before n Hin; [destruct Hin|]. cbn [locate_in].
  destruct (N.eqb i n) eqn:E; [eexists; reflexivity|].
  cbn in Hin. destruct Hin as [Hin|Hin]; [apply N.eqb_neq in E; contradiction|].
  destruct (locate_in ({| fr_slot := i; fr_val := v; fr_before := before; fr_after := r |} :: ups) FNil n k) as [z1|] eqn:E1;
    [eexists; reflexivity|].
  apply in_app_or in Hin as [Hin|Hin].
  - destruct (IHk ({| fr_slot := i; fr_val := v; fr_before := before; fr_after := r |} :: ups) FNil n Hin) as [z Hz]. congruence.
  - apply IHr. exact Hin.
Qed.

Lemma locate_slot store : forall n z, locate n store = Some z -> z_slot z = n /\ In n (ids store).
Proof.
  induction store as [|i v k _ r IHr]; intros n z; cbn [locate]; [discriminate|].
  destruct (locate_in [] FNil n (FCons i v k FNil)) as [z1|] eqn:E.
  - intros H. inversion H; subst. apply locate_in_slot in E as [H1 H2]. split; [exact H1|].
    cbn in H2. rewrite app_nil_r in H2. cbn. destruct H2 as [H2|H2]; [left; exact H2|right; apply in_or_app; left; exact H2].
  - intros H. apply IHr in H as [H1 H2]. split; [exact H1|]. cbn. right. apply in_or_app. right. exact H2.
Qed.

Lemma locate_found store : forall n, In n (ids store) -> exists z, locate n store = Some z.
Proof.
  induction store as [|i v k _ r IHr]; intros n Hin; [destruct Hin|]. cbn [locate].
  destruct (locate_in [] FNil n (FCons i v k FNil)) as [z1|] eqn:E; [eexists; reflexivity|].
  cbn in Hin. destruct Hin as [Hin|Hin].
  - subst. cbn in E. rewrite N.eqb_refl in E. discriminate.
  - apply in_app_or in Hin as [Hin|Hin]; [|apply IHr; exact Hin].
    destruct (locate_in_found (FCons i v k FNil) [] FNil n) as [z Hz]; [cbn; right; rewrite app_nil_r; exact Hin|]. congruence.
Qed.

Lemma cur_in st n z : cur st n = Some z -> In n (ids (store st)).
Proof. unfold cur. intros H. apply locate_slot in H. tauto. Qed.

Lemma val_in st n v : val st n = Some v -> In n (ids (store st)).
Proof. unfold val. destruct (cur st n) eqn:E; [|discriminate]. intros _. eapply cur_in. exact E. Qed.

(* ---------- the slot invariant ---------- *)

Definition slots_used (st : xstate) : list N := ids (store st) ++ free st.

Record SlotInv (st : xstate) : Prop := {
  si_nodup : NoDup (slots_used st);
  si_bound : forall i, In i (slots_used st) -> (N.to_nat i < length (stamps st))%nat;
  si_all : forall k, (k < length (stamps st))%nat -> In (N.of_nat k) (slots_used st);
  si_live : forall i, In i (ids (store st)) -> (0 <= stamp_of st i)%Z;
  si_free : forall i, In i (free st) -> (stamp_of st i < 0)%Z
}.

(* any rearrangement of the forest that keeps its set of slots keeps the invariant *)
Lemma SlotInv_with_store st f' :
  SlotInv st -> Permutation (ids f') (ids (store st)) -> SlotInv (with_store st f').
Proof.
  intros [H1 H2 H3 H4 H5] Hp.
  assert (Permutation (slots_used (with_store st f')) (slots_used st)) as Hq.
  { unfold slots_used. cbn. apply Permutation_app_tail. exact Hp. }
  constructor; cbn [stamps with_store free store].
  - eapply Permutation_NoDup; [apply Permutation_sym; exact Hq|exact H1].
  - intros i Hi. apply H2. eapply Permutation_in; [exact Hq|exact Hi].
  - intros k Hk. eapply Permutation_in; [apply Permutation_sym; exact Hq|]. apply H3. exact Hk.
  - intros i Hi. unfold stamp_of. cbn. apply H4. eapply Permutation_in; [exact Hp|exact Hi].
  - exact H5.
Qed.

Lemma set_nth_length {A} n (x : A) l : length (set_nth n x l) = length l.
Proof. revert n. induction l as [|y l IH]; intros [|n]; cbn; try reflexivity. rewrite IH. reflexivity. Qed.

Lemma nth_set_nth_same {A} n (x d : A) l : (n < length l)%nat -> nth n (set_nth n x l) d = x.
Proof. revert n. induction l as [|y l IH]; intros [|n] H; cbn in *; try lia; [reflexivity|]. apply IH. lia. Qed.

Lemma nth_set_nth_other {A} n m (x d : A) l : n <> m -> nth m (set_nth n x l) d = nth m l d.
Proof.
  revert n m. induction l as [|y l IH]; intros [|n] [|m] H; cbn; try reflexivity; try lia.
  apply IH. lia.
Qed.

(* Arena::new_node *)
Theorem SlotInv_new_node st v st' i :
  SlotInv st -> new_node st v = (st', i) ->
  SlotInv st' /\ ~ In i (ids (store st)) /\ store st' = FCons i v FNil (store st) /\ cons st' = cons st.
Proof.
  intros [H1 H2 H3 H4 H5]. unfold new_node. destruct (free st) as [|j rest] eqn:Ef.
  - (* a new slot at the end of the arena *)
    intros H. inversion H; subst. clear H.
    assert (~ In (N.of_nat (length (stamps st))) (slots_used st)) as Hnew.
    { intros Hin. apply H2 in Hin. rewrite Nat2N.id in Hin. lia. }
    split; [|split; [intros Hin; apply Hnew; unfold slots_used; apply in_or_app; left; exact Hin|split; reflexivity]].
    unfold slots_used in H1, H2, H3, Hnew. rewrite Ef, app_nil_r in H1, H2, H3, Hnew.
    constructor; unfold slots_used; cbn [store free stamps ids app]; rewrite ?app_nil_r.
    + constructor; [exact Hnew|exact H1].
    + intros i [Hi|Hi]; rewrite app_length; cbn; [subst; rewrite Nat2N.id; lia|apply H2 in Hi; lia].
    + intros k Hk. rewrite app_length in Hk. cbn in Hk.
      destruct (PeanoNat.Nat.eq_dec k (length (stamps st))) as [->|Hne]; [left; reflexivity|right; apply H3; lia].
    + intros i [Hi|Hi]; unfold stamp_of; cbn [stamps].
      * subst. rewrite Nat2N.id, app_nth2 by lia. rewrite PeanoNat.Nat.sub_diag. cbn. lia.
      * pose proof (H2 i Hi). rewrite app_nth1 by lia. apply H4. exact Hi.
    + intros i [].
  - (* the head of the free list is reused: its stamp is negated *)
    intros H. inversion H; subst. clear H.
    assert (In i (slots_used st)) as Hi by (unfold slots_used; rewrite Ef; apply in_or_app; right; left; reflexivity).
    assert (~ In i (ids (store st))) as Hni.
    { unfold slots_used in H1. rewrite Ef in H1. intros Hin. apply NoDup_remove_2 in H1. apply H1. apply in_or_app. left. exact Hin. }
    split; [|split; [exact Hni|split; reflexivity]].
    assert (Permutation (i :: ids (store st) ++ rest) (slots_used st)) as Hp.
    { unfold slots_used. rewrite Ef. apply Permutation_middle. }
    pose proof (H2 i Hi) as Hb.
    assert (In i (free st)) as Hif by (rewrite Ef; left; reflexivity).
    assert (forall k, In k rest -> In k (free st)) as Hrest by (intros k Hk; rewrite Ef; right; exact Hk).
    assert (forall k, In k rest -> k <> i) as Hri.
    { intros k Hk ->. unfold slots_used in H1. rewrite Ef in H1. apply NoDup_remove_2 in H1. apply H1. apply in_or_app. right. exact Hk. }
    constructor; unfold slots_used; cbn [store free stamps ids app].
    + eapply Permutation_NoDup; [apply Permutation_sym; exact Hp|exact H1].
    + intros k Hk. rewrite set_nth_length. apply H2. eapply Permutation_in; [exact Hp|exact Hk].
    + intros k Hk. rewrite set_nth_length in Hk. eapply Permutation_in; [apply Permutation_sym; exact Hp|]. apply H3. exact Hk.
    + intros k [Hk|Hk]; unfold stamp_of; cbn [stamps].
      * subst. rewrite nth_set_nth_same by exact Hb.
        assert (stamp_of st k < 0)%Z by (apply H5; left; reflexivity). unfold stamp_of in *. lia.
      * assert (k <> i) by (intros ->; contradiction).
        rewrite nth_set_nth_other by (intros Heq; apply N2Nat.inj in Heq; congruence). apply H4. exact Hk.
    + intros k Hk. unfold stamp_of. cbn [stamps].
      pose proof (Hri k Hk).
      rewrite nth_set_nth_other by (intros Heq; apply N2Nat.inj in Heq; congruence). apply H5. right. exact Hk.
Qed.
