(* Atomic.v — C06: a refused call changes nothing, for the operations that call other public operations half-way
   (new_document_with_element, element_wrap, replace): once their own validation has passed, the inner calls cannot fail. *)
From Coq Require Import List NArith ZArith Bool Lia Permutation Arith.
From XotV Require Import Model.Base Model.Zipper Model.Access Model.Store Model.Manip Spec.DocOrder Spec.Paths Spec.Shape
                         Proofs.StoreProofs Proofs.ManipProofs Proofs.ForestFacts Proofs.ShapeProofs Proofs.KeysProofs
                         Proofs.InvProofs Proofs.Canon Proofs.InvSteps Proofs.InvOps Proofs.PathFacts.
Import ListNotations.
Open Scope N_scope.

(* ---------- a call whose argument check passes does not fail ---------- *)

Lemma m_append_done st p c : structure_check st (Some p) c = true -> snd (m_append st p c) = MDone None.
Proof.
  intros H. unfold m_append. rewrite H. cbn [negb]. destruct (opt_eqb _ _); [reflexivity|].
  destruct (remove_consolidate _ _ _) as [st1 b]. destruct (add_consolidate _ _ _ _) as [st2 m]. destruct m; reflexivity.
Qed.

Lemma m_prepend_done st p c : structure_check st (Some p) c = true -> snd (m_prepend st p c) = MDone None.
Proof.
  intros H. unfold m_prepend. rewrite H. cbn [negb]. destruct (opt_eqb _ _); [reflexivity|].
  destruct (remove_consolidate _ _ _) as [st1 b]. destruct (add_consolidate _ _ _ _) as [st2 m]. destruct m; reflexivity.
Qed.

Lemma m_insert_after_done st r n : sibling_check st r n = true -> snd (m_insert_after st r n) = MDone None.
Proof.
  intros H. unfold m_insert_after. rewrite H. cbn [negb]. destruct (opt_eqb _ _); [reflexivity|].
  destruct (remove_consolidate _ _ _) as [st1 b]. destruct (_ && _); [reflexivity|].
  destruct (add_consolidate _ _ _ _) as [st2 m]. destruct m; reflexivity.
Qed.

(* ---------- what a root and a childless node look like through the queries ---------- *)

Lemma map_nil {A B} (f : A -> B) l : map f l = [] -> l = [].
Proof. destruct l; [reflexivity|discriminate]. Qed.

Lemma root_queries st n : Good st -> path_in n (store st) = Some [] ->
  q_prev st n = None /\ q_next st n = None /\ q_parent st n = None /\ q_ancestors st n = [n].
Proof.
  intros G Hp. assert (In n (ids (store st))) as Hin by (eapply path_in_in; exact Hp).
  destruct (locate_found _ _ Hin) as [z Hz]. fold (cur st n) in Hz.
  pose proof (cur_path _ _ _ Hz) as Hcp. rewrite Hp in Hcp. inversion Hcp as [Hu]. symmetry in Hu. apply map_nil in Hu.
  pose proof (locate_zroot _ _ _ Hz) as [Hc _]. unfold top_clean in Hc. rewrite Hu in Hc. cbn in Hc. injection Hc as Hb Ha.
  repeat split.
  - unfold q_prev. rewrite Hz. unfold previous_sibling, left. rewrite Hb. reflexivity.
  - unfold q_next. rewrite Hz. unfold next_sibling, right. rewrite Ha. reflexivity.
  - rewrite q_parent_of_path, Hp. reflexivity.
  - destruct (q_ancestors_path _ _ _ Hz) as (l & Hl & Hq). rewrite Hq. congruence.
Qed.

Lemma leaf_queries st w v : find w (store st) = Some (v, FNil) ->
  q_raw_last_child st w = None /\ q_last_child st w = None /\ q_first_child st w = None.
Proof.
  intros Hf. assert (In w (ids (store st))) as Hin by (eapply find_incl; [exact Hf|left; reflexivity]).
  destruct (locate_found _ _ Hin) as [z Hz]. pose proof (locate_find _ _ _ Hz) as Hf'. rewrite Hf in Hf'. inversion Hf' as [[Hv Hk]].
  fold (cur st w) in Hz. unfold q_raw_last_child, q_last_child, q_first_child. rewrite Hz.
  unfold last_child, down_last, first_child, normal_children, arena_children. rewrite <- Hk. cbn. auto.
Qed.

(* values decide the type tests *)
Lemma is_type_of_val st x v t : val st x = Some v -> is_type st x t = vtype_eqb (value_type v) t.
Proof. intros H. unfold is_type. rewrite H. reflexivity. Qed.

Lemma is_normal_of_val st x v : val st x = Some v -> is_normal_node st x = is_normal v.
Proof. intros H. unfold is_normal_node. rewrite H. reflexivity. Qed.

(* a node freshly made a root of element / document kind accepts any ordinary non-document node that is not itself *)
Lemma structure_check_fresh_root st w vw c vc :
  Good st -> path_in w (store st) = Some [] -> val st w = Some vw -> (is_elem vw = true \/ is_doc vw = true) ->
  val st c = Some vc -> child_ok vc = true -> c <> w -> structure_check st (Some w) c = true.
Proof.
  intros G Hp Hw Hk Hc Hok Hne. unfold structure_check.
  destruct (root_queries _ _ G Hp) as (_ & _ & _ & Ha). rewrite Ha. cbn [mem existsb].
  apply N.eqb_neq in Hne. rewrite Hne. cbn [orb negb andb].
  rewrite (is_type_of_val _ _ _ TElement Hw), (is_type_of_val _ _ _ TDocument Hw), (is_type_of_val _ _ _ TDocument Hc), (is_normal_of_val _ _ _ Hc).
  unfold child_ok in Hok. apply andb_true_iff in Hok as [Hn Hd]. rewrite Hn.
  assert (vtype_eqb (value_type vc) TDocument = false) as -> by (destruct vc; try reflexivity; discriminate).
  destruct Hk as [Hk|Hk]; destruct vw; try discriminate; reflexivity.
Qed.

(* ---------- new_document_with_element ---------- *)

Theorem newdoc_refusal_atomic st e st' err : Good st -> mstep st (ONewDocWith e) = (st', MErr err) -> st' = st.
Proof.
  intros G. cbn [mstep]. destruct (is_type st e TElement) eqn:He; cbn [negb]; [|intros H; inversion H; reflexivity].
  destruct (new_node st VDocument) as [st1 d] eqn:En.
  destruct (Ext_new_node _ _ _ _ G En) as (X1 & Hni & _ & _).
  apply is_type_val in He as (ve & Hve & Hte).
  assert (e <> d) as Hed by (intros ->; apply Hni; eapply val_in_ids; exact Hve).
  destruct (val_new_node st VDocument st1 d e G En) as [Hvd Hvo]. destruct (path_new_node st VDocument st1 d e G En) as [Hpd _].
  assert (structure_check st1 (Some d) e = true) as Hsc.
  { eapply (structure_check_fresh_root st1 d VDocument e ve); eauto; [apply X1|rewrite (Hvo Hed); exact Hve|].
    destruct ve; try discriminate; reflexivity. }
  pose proof (m_append_done _ _ _ Hsc) as Hd. destruct (m_append st1 d e) as [st2 o]. cbn in Hd. subst o. intros H. inversion H.
Qed.

(* ---------- element_wrap ---------- *)

Lemma fcons_not_tail i v k r : FCons i v k r <> r.
Proof. revert i v k. induction r as [|i' v' k' _ r' IH]; intros i v k H; [discriminate|]. inversion H. eapply IH; eauto. Qed.

(* the parent of a node is not below the node *)
Lemma parent_not_below n P l f : NoDup (ids f) -> path_in n f = Some (P :: l) -> ~ In P (subtree_ids n f).
Proof.
  intros Hnd Hp Hin. pose proof (path_in_not_self _ _ _ Hnd Hp) as Hns. pose proof (path_in_parent _ _ _ _ Hnd Hp) as HP.
  unfold subtree_ids in Hin. destruct (find n f) as [[v k]|] eqn:Ef; [|destruct Hin].
  destruct Hin as [Hin|Hin]; [apply Hns; left; symmetry; exact Hin|].
  destruct (descendant_has_ancestor _ _ _ _ _ Hnd Ef Hin) as (l' & Hl' & Hnl). rewrite HP in Hl'. inversion Hl'; subst.
  apply Hns. right. exact Hnl.
Qed.

(* a sibling (same path) is not below the node *)
Lemma sibling_not_below_path n p l f : NoDup (ids f) -> path_in n f = Some l -> path_in p f = Some l -> p <> n ->
  ~ In p (subtree_ids n f).
Proof.
  intros Hnd Hn Hp Hne Hin. pose proof (path_in_not_self _ _ _ Hnd Hn) as Hns.
  unfold subtree_ids in Hin. destruct (find n f) as [[v k]|] eqn:Ef; [|destruct Hin].
  destruct Hin as [Hin|Hin]; [congruence|].
  destruct (descendant_has_ancestor _ _ _ _ _ Hnd Ef Hin) as (l' & Hl' & Hnl). rewrite Hp in Hl'. inversion Hl'; subst. contradiction.
Qed.

(* the parent of a node is a node with children *)
Lemma path_parent_has_kids f : forall n P l, NoDup (ids f) -> path_in n f = Some (P :: l) ->
  exists vp kp, find P f = Some (vp, kp) /\ kp <> FNil.
Proof.
  induction f as [|i v k IHk r IHr]; intros n P l Hnd; cbn [path_in find]; [discriminate|].
  cbn in Hnd. apply NoDup_cons_app_inv in Hnd as (Hik & Hir & Hk & Hr & Hkr).
  destruct (N.eqb i n) eqn:Ein; [discriminate|].
  destruct (path_in n k) as [l1|] eqn:Ek.
  - intros H. inversion H as [H1]. destruct l1 as [|P1 l1'].
    + cbn in H1. inversion H1; subst. rewrite N.eqb_refl. exists v, k. split; [reflexivity|].
      intros ->. discriminate.
    + cbn in H1. inversion H1; subst. destruct (IHk _ _ _ Hk Ek) as (vp & kp & Hf & Hne).
      assert (In P (ids k)) as HPk by (eapply find_incl; [exact Hf|left; reflexivity]).
      assert (i <> P) as HiP by (intros ->; contradiction). apply N.eqb_neq in HiP. rewrite HiP, Hf. eauto.
  - intros H. destruct (IHr _ _ _ Hr H) as (vp & kp & Hf & Hne).
    assert (In P (ids r)) as HPr by (eapply find_incl; [exact Hf|left; reflexivity]).
    assert (i <> P) as HiP by (intros ->; contradiction). apply N.eqb_neq in HiP. rewrite HiP.
    assert (find P k = None) as ->.
    { apply find_none. intros Hx. eapply NoDup_app_not_in; eauto. }
    rewrite Hf. eauto.
Qed.

Lemma parent_is_container st n P l : Good st -> path_in n (store st) = Some (P :: l) ->
  exists vp, val st P = Some vp /\ (is_elem vp = true \/ is_doc vp = true).
Proof.
  intros G Hp. destruct (path_parent_has_kids _ _ _ _ (Good_nodup _ G) Hp) as (vp & kp & Hf & Hne).
  exists vp. split; [apply nodes_val; [apply Good_nodup; exact G|eapply find_in_nodes; exact Hf]|].
  pose proof (shape_find _ _ _ _ _ _ (Good_shape _ G) Hf) as Hk.
  destruct vp; cbn [kids_ok] in Hk; auto; destruct kp; try congruence; discriminate.
Qed.

(* appending a root under a childless node is a plain move: nothing is consolidated *)
Lemma m_append_root_into_leaf st w n vw :
  Good st -> structure_check st (Some w) n = true -> path_in n (store st) = Some [] -> find w (store st) = Some (vw, FNil) ->
  m_append st w n = (move st n (fun t f => fmap_kids w (fun k => fapp k t) f), MDone None).
Proof.
  intros G Hsc Hp Hf. unfold m_append. rewrite Hsc. cbn [negb].
  destruct (leaf_queries _ _ _ Hf) as (Hl1 & Hl2 & _). destruct (root_queries _ _ G Hp) as (Hq1 & Hq2 & _ & _).
  rewrite Hl1, Hq1, Hq2. cbn [opt_eqb].
  assert (remove_consolidate st None None = (st, false)) as -> by (unfold remove_consolidate; destruct (negb (cons st)); reflexivity).
  rewrite !Hl2. cbn [opt_eqb]. cbv zeta.
  assert (add_consolidate st n None None = (st, false)) as ->.
  { unfold add_consolidate. destruct (negb (cons st)); [reflexivity|]. destruct (val st n) as [[]|]; reflexivity. }
  reflexivity.
Qed.

(* what that move does: same values everywhere, same paths outside the moved subtree *)
Lemma move_child_facts st w n :
  Good st -> In w (ids (store st)) -> In n (ids (store st)) -> ~ In w (subtree_ids n (store st)) ->
  let st' := move st n (fun t f => fmap_kids w (fun k => fapp k t) f) in
  (forall x, In x (ids (store st')) <-> In x (ids (store st)))
  /\ (forall x v, In (x, v) (nodes (store st')) <-> In (x, v) (nodes (store st)))
  /\ (forall x, ~ In x (subtree_ids n (store st)) -> path_in x (store st') = path_in x (store st)).
Proof.
  intros G Hw Hn Hwn st'. subst st'. unfold move. destruct (fcut_some _ _ Hn) as (f' & [[i v] k] & E). rewrite E.
  pose proof (fcut_slot _ _ _ _ _ _ E) as ->. cbn [store with_store single].
  pose proof (Good_nodup _ G) as Hnd. pose proof (fcut_ids _ _ _ _ _ _ E) as Hp.
  assert (NoDup (ids f')) as Hnd'.
  { eapply Permutation_NoDup in Hnd; [|exact Hp]. inversion Hnd; subst. apply NoDup_app_inv in H2. tauto. }
  assert (In w (ids f')) as Hwf by (eapply fcut_keeps; eauto).
  pose proof (fmap_kids_spec w (fun k0 => fapp k0 (FCons n v k FNil)) (FCons n v k FNil) f' Hnd' Hwf) as Hperm.
  specialize (Hperm ltac:(intros; cbn beta; rewrite nodes_fapp; reflexivity)).
  pose proof (fcut_find _ _ _ _ _ _ E) as Efind.
  pose proof E as E0. apply fcut_spec in E0 as [_ Es]. cbn [nodes] in Hperm. rewrite app_nil_r in Hperm.
  assert (Permutation (nodes (fmap_kids w (fun k0 => fapp k0 (FCons n v k FNil)) f')) (nodes (store st))) as HP.
  { rewrite Hperm, Es. rewrite app_comm_cons. apply Permutation_app_comm. }
  split; [|split].
  - intros x. rewrite !ids_nodes. split; intros H; (eapply Permutation_in; [|exact H]); [apply Permutation_map; exact HP|apply Permutation_map; apply Permutation_sym; exact HP].
  - intros x u. split; intros H; (eapply Permutation_in; [|exact H]); [exact HP|apply Permutation_sym; exact HP].
  - intros x Hx. rewrite path_in_fmap_kids.
    + eapply path_in_fcut; [exact Hnd|exact E|exact Hx].
    + intros k0. rewrite path_in_fapp. destruct (path_in x k0); [reflexivity|]. cbn [path_in].
      unfold subtree_ids in Hx. rewrite Efind in Hx.
      assert (n <> x) as Hnx by (intros ->; apply Hx; left; reflexivity). apply N.eqb_neq in Hnx. rewrite Hnx.
      assert (path_in x k = None) as -> by (apply path_in_none; intros H; apply Hx; right; exact H). reflexivity.
Qed.

Lemma structure_check_container st P w vp l vw :
  Good st -> path_in P (store st) = Some l -> val st P = Some vp -> (is_elem vp = true \/ is_doc vp = true) ->
  val st w = Some vw -> child_ok vw = true -> w <> P -> ~ In w l -> structure_check st (Some P) w = true.
Proof.
  intros G Hp HvP Hk Hvw Hok Hne Hnl. unfold structure_check.
  assert (cur st P <> None) as Hc by (eapply val_cur; exact HvP).
  destruct (cur st P) as [z|] eqn:Ez; [|congruence]. destruct (q_ancestors_path _ _ _ Ez) as (l' & Hl' & Ha).
  rewrite Ha. assert (l' = l) by congruence. subst l'.
  assert (mem w (P :: l) = false) as ->.
  { destruct (mem w (P :: l)) eqn:E; [|reflexivity]. apply mem_true in E. destruct E as [E|E]; [congruence|contradiction]. }
  cbn [negb andb].
  rewrite (is_type_of_val _ _ _ TElement HvP), (is_type_of_val _ _ _ TDocument HvP), (is_type_of_val _ _ _ TDocument Hvw), (is_normal_of_val _ _ _ Hvw).
  unfold child_ok in Hok. apply andb_true_iff in Hok as [Hn Hd]. rewrite Hn.
  assert (vtype_eqb (value_type vw) TDocument = false) as -> by (destruct vw; try reflexivity; discriminate).
  destruct Hk as [Hk|Hk]; destruct vp; try discriminate; reflexivity.
Qed.

Theorem wrap_refusal_atomic st n name st' err : Good st -> m_wrap st n name = (st', MErr err) -> st' = st.
Proof.
  intros G. unfold m_wrap.
  destruct (is_type st n TDocument) eqn:Hdoc; [intros H; inversion H; reflexivity|].
  destruct (is_normal_node st n) eqn:Hnorm; cbn [negb]; [|intros H; inversion H; reflexivity].
  apply is_normal_node_val in Hnorm as (vn & Hvn & Hnn).
  assert (child_ok vn = true) as Hcok.
  { unfold child_ok. rewrite Hnn. rewrite (is_type_of_val _ _ _ TDocument Hvn) in Hdoc. destruct vn; try reflexivity; discriminate. }
  pose proof (Good_nodup _ G) as Hnd.
  destruct (q_parent st n) as [parent|] eqn:Hpar.
  - destruct (is_type st parent TDocument && negb (is_type st n TElement)); [intros H; inversion H; reflexivity|].
    destruct (new_node st (VElement name)) as [st1 w] eqn:En.
    destruct (Ext_new_node _ _ _ _ G En) as (X1 & Hni & Hst & _).
    assert (In n (ids (store st))) as Hnin by (eapply val_in_ids; exact Hvn).
    assert (n <> w) as Hnw by (intros ->; contradiction).
    (* where n sits *)
    rewrite q_parent_of_path in Hpar. destruct (path_in n (store st)) as [[|P l]|] eqn:Hpn; try discriminate.
    inversion Hpar; subst P.
    pose proof (path_in_parent _ _ _ _ Hnd Hpn) as Hpp.
    destruct (parent_is_container _ _ _ _ G Hpn) as (vp & Hvp & Hcont).
    assert (In parent (ids (store st))) as Hpin by (eapply val_in_ids; exact Hvp).
    assert (parent <> w) as Hpw by (intros ->; contradiction).
    assert (~ In w (parent :: l)) as Hwl.
    { intros [H|H]; [congruence|]. apply Hni. eapply path_in_incl; [exact Hpp|exact H]. }
    destruct (val_find _ _ _ Hvn) as [kn Hfn].
    (* st1 and st2 explicitly *)
    assert (fcut n (store st1) = match fcut n (store st) with Some (r', t) => Some (FCons w (VElement name) FNil r', t) | None => None end) as Hcut1.
    { rewrite Hst. cbn [fcut]. assert (w <> n) as Hwn by congruence. apply N.eqb_neq in Hwn. rewrite Hwn. reflexivity. }
    destruct (fcut_some _ _ Hnin) as (r' & [[i0 v0] k0] & Ecut). pose proof (fcut_slot _ _ _ _ _ _ Ecut) as ->.
    pose proof (fcut_find _ _ _ _ _ _ Ecut) as Hfn'. rewrite Hfn in Hfn'. inversion Hfn'; subst v0 k0.
    rewrite Ecut in Hcut1.
    set (st2 := detach_raw st1 n).
    assert (store st2 = FCons n vn kn (FCons w (VElement name) FNil r')) as Hst2.
    { unfold st2, detach_raw. rewrite Hcut1. reflexivity. }
    pose proof (Ext_detach_raw st1 n (ext_good _ _ X1)) as X2. fold st2 in X2.
    assert (~ In w (ids kn)) as Hwkn by (intros H; apply Hni; eapply find_incl; [exact Hfn|right; exact H]).
    assert (path_in w (store st2) = Some []) as Hpw2.
    { rewrite Hst2. cbn [path_in]. apply N.eqb_neq in Hnw. rewrite Hnw.
      assert (path_in w kn = None) as -> by (apply path_in_none; exact Hwkn). rewrite N.eqb_refl. reflexivity. }
    assert (path_in n (store st2) = Some []) as Hpn2 by (rewrite Hst2; cbn [path_in]; rewrite N.eqb_refl; reflexivity).
    assert (find w (store st2) = Some (VElement name, FNil)) as Hfw2.
    { rewrite Hst2. cbn [find]. apply N.eqb_neq in Hnw. rewrite Hnw.
      assert (find w kn = None) as -> by (apply find_none; exact Hwkn). rewrite N.eqb_refl. reflexivity. }
    assert (forall x, val st2 x = val st1 x) as Hv21 by (intros x; apply val_detach; apply X1).
    destruct (val_new_node st (VElement name) st1 w n G En) as [Hvw1 _].
    assert (forall x, x <> w -> val st1 x = val st x) as Hv10 by (intros x Hx; eapply (val_new_node st (VElement name) st1 w x G En); exact Hx).
    assert (structure_check st2 (Some w) n = true) as Hsc2.
    { eapply (structure_check_fresh_root st2 w (VElement name) n vn); auto; [apply X2|rewrite Hv21; exact Hvw1|rewrite Hv21, Hv10 by exact Hnw; exact Hvn]. }
    rewrite (m_append_root_into_leaf st2 w n (VElement name) (ext_good _ _ X2) Hsc2 Hpn2 Hfw2).
    set (st3 := move st2 n (fun t f => fmap_kids w (fun k => fapp k t) f)).
    assert (Good st3) as G3.
    { pose proof (Ext_m_append st2 w n (ext_good _ _ X2)) as X3.
      rewrite (m_append_root_into_leaf st2 w n (VElement name) (ext_good _ _ X2) Hsc2 Hpn2 Hfw2) in X3. apply X3. }
    assert (subtree_ids n (store st2) = n :: ids kn) as Hsub2 by (unfold subtree_ids; rewrite Hst2; cbn [find]; rewrite N.eqb_refl; reflexivity).
    destruct (move_child_facts st2 w n (ext_good _ _ X2)) as (Hids3 & Hnodes3 & Hpath3).
    { rewrite Hst2. cbn. right. apply in_or_app. right. left. reflexivity. }
    { rewrite Hst2. cbn. left. reflexivity. }
    { rewrite Hsub2. intros [H|H]; [congruence|contradiction]. }
    fold st3 in Hids3, Hnodes3, Hpath3.
    assert (forall x, val st3 x = val st2 x) as Hv32.
    { intros x. apply val_of_nodes; [apply X2|exact G3|]. intros u. symmetry. apply Hnodes3. }
    assert (subtree_ids n (store st) = n :: ids kn) as Hsub0 by (unfold subtree_ids; rewrite Hfn; reflexivity).
    (* paths of nodes outside the subtree of n are the same in st3 as in st *)
    assert (forall x, x <> w -> ~ In x (n :: ids kn) -> path_in x (store st3) = path_in x (store st)) as Hpath30.
    { intros x Hxw Hx. rewrite Hpath3 by (rewrite Hsub2; exact Hx). rewrite Hst2. cbn [path_in].
      assert (n <> x) as Hnx by (intros ->; apply Hx; left; reflexivity). apply N.eqb_neq in Hnx. rewrite Hnx.
      assert (path_in x kn = None) as -> by (apply path_in_none; intros H; apply Hx; right; exact H).
      assert (w <> x) as Hwx by congruence. apply N.eqb_neq in Hwx. rewrite Hwx. cbn [path_in].
      eapply path_in_fcut; [exact Hnd|exact Ecut|rewrite Hsub0; exact Hx]. }
    assert (~ In parent (n :: ids kn)) as Hparsub by (rewrite <- Hsub0; eapply parent_not_below; eauto).
    assert (val st3 w = Some (VElement name)) as Hvw3 by (rewrite Hv32, Hv21; exact Hvw1).
    assert (val st3 parent = Some vp) as Hvp3 by (rewrite Hv32, Hv21, Hv10 by exact Hpw; exact Hvp).
    assert (structure_check st3 (Some parent) w = true) as Hsc3.
    { eapply (structure_check_container st3 parent w vp l (VElement name)); auto.
      - rewrite Hpath30 by assumption. exact Hpp.
      - intros H. apply Hwl. right. exact H. }
    destruct (q_prev st n) as [p|] eqn:Hprev.
    + (* insert_after the previous sibling *)
      destruct (q_prev_cur _ _ _ Hnd Hprev) as (z & s & Hz & Hs & Hleft & Hups).
      assert (p <> n) as Hpn'.
      { intros ->. rewrite Hz in Hs. inversion Hs; subst s. unfold left in Hleft.
        destruct (z_before z) as [|bi bv bk br] eqn:Eb; [discriminate|]. inversion Hleft as [Hrec].
        apply (f_equal z_before) in Hrec. cbn in Hrec. rewrite Eb in Hrec. eapply fcons_not_tail. symmetry. exact Hrec. }
      pose proof (q_prev_same_path _ _ _ Hnd Hprev) as Hpathp. rewrite Hpn in Hpathp.
      assert (~ In p (n :: ids kn)) as Hpsub by (rewrite <- Hsub0; eapply sibling_not_below_path; eauto).
      assert (In p (ids (store st))) as Hpin' by (eapply path_in_in; exact Hpathp).
      assert (p <> w) as Hpw' by (intros ->; contradiction).
      assert (exists vpp, val st p = Some vpp /\ is_normal vpp = true) as (vpp & Hvpp & Hnpp).
      { unfold q_prev in Hprev. rewrite Hz in Hprev. unfold previous_sibling in Hprev. rewrite Hleft in Hprev.
        destruct (vcat_eqb (zcat z) (zcat s)) eqn:Ecat; [|discriminate].
        exists (z_val s). split; [unfold val; rewrite Hs; reflexivity|].
        unfold val in Hvn. rewrite Hz in Hvn. inversion Hvn as [Hzv]. unfold zcat in Ecat. rewrite Hzv in Ecat.
        unfold is_normal in *. destruct (value_category vn); try discriminate. destruct (value_category (z_val s)); try discriminate. reflexivity. }
      assert (sibling_check st3 p w = true) as Hsib.
      { unfold sibling_check. apply N.eqb_neq in Hpw'. rewrite Hpw'. cbn [negb andb].
        assert (val st3 p = Some vpp) as Hvp3' by (rewrite Hv32, Hv21, Hv10 by (apply N.eqb_neq; exact Hpw'); exact Hvpp).
        rewrite (is_normal_of_val _ _ _ Hvp3'), Hnpp. cbn [andb].
        rewrite q_parent_of_path, Hpath30 by (try assumption; apply N.eqb_neq; exact Hpw'). rewrite Hpathp. exact Hsc3. }
      pose proof (m_insert_after_done _ _ _ Hsib) as Hd. destruct (m_insert_after st3 p w) as [st4 o4]. cbn in Hd. subst o4.
      intros H. inversion H.
    + pose proof (m_prepend_done _ _ _ Hsc3) as Hd. destruct (m_prepend st3 parent w) as [st4 o4]. cbn in Hd. subst o4.
      intros H. inversion H.
  - destruct (new_node st (VElement name)) as [st1 w] eqn:En.
    destruct (Ext_new_node _ _ _ _ G En) as (X1 & Hni & Hst & _).
    assert (n <> w) as Hnw by (intros ->; apply Hni; eapply val_in_ids; exact Hvn).
    destruct (val_new_node st (VElement name) st1 w n G En) as [Hvw1 Hvn1]. destruct (path_new_node st (VElement name) st1 w n G En) as [Hpw1 _].
    assert (structure_check st1 (Some w) n = true) as Hsc.
    { eapply (structure_check_fresh_root st1 w (VElement name) n vn); auto; [apply X1|rewrite (Hvn1 Hnw); exact Hvn]. }
    pose proof (m_append_done _ _ _ Hsc) as Hd. destruct (m_append st1 w n) as [st2 o]. cbn in Hd. subst o. intros H. inversion H.
Qed.

(* ---------- replace ---------- *)

Theorem replace_refusal_atomic st a b st' err : Good st -> m_replace st a b = (st', MErr err) -> st' = st.
Proof.
  intros G. unfold m_replace.
  destruct (is_type st a TDocument); [intros H; inversion H; reflexivity|].
  destruct (q_parent st a) as [parent|] eqn:Hpar; [|intros H; inversion H; reflexivity].
  destruct (is_normal_node st a) eqn:Hnorm; cbn [negb]; [|intros H; inversion H; reflexivity].
  destruct (N.eqb_spec a b) as [->|Hab]; [intros H; inversion H|].
  destruct (structure_check st (Some parent) b) eqn:Hsc; cbn [negb]; [|intros H; inversion H; reflexivity].
  pose proof (Good_nodup _ G) as Hnd.
  apply is_normal_node_val in Hnorm as (va & Hva & Hna).
  assert (In a (ids (store st))) as Hain by (eapply val_in_ids; exact Hva).
  rewrite q_parent_of_path in Hpar. destruct (path_in a (store st)) as [[|P l]|] eqn:Hpa; try discriminate.
  inversion Hpar; subst P.
  pose proof (path_in_parent _ _ _ _ Hnd Hpa) as Hpp.
  destruct (structure_check_facts _ _ _ Hsc) as (Hanc & (vp & Hvp & Hcont) & (vb & Hvb & Hbok)).
  assert (~ In parent (subtree_ids a (store st))) as Hparsub by (eapply parent_not_below; eauto).
  set (st1 := detach_raw st a).
  pose proof (Ext_detach_raw st a G) as X1. fold st1 in X1.
  assert (forall x, val st1 x = val st x) as Hv1 by (intros x; apply val_detach; exact G).
  destruct (path_detach st a parent G Hain) as [_ Hpath1]. fold st1 in Hpath1.
  (* the check of the target position still passes after the detach *)
  assert (structure_check st1 (Some parent) b = true) as Hsc1.
  { assert (cur st parent <> None) as Hc by (eapply val_cur; exact Hvp).
    destruct (cur st parent) as [zp|] eqn:Ezp; [|congruence]. destruct (q_ancestors_path _ _ _ Ezp) as (l' & Hl' & Ha).
    assert (l' = l) by congruence. subst l'. rewrite Ha in Hanc.
    eapply (structure_check_container st1 parent b vp l vb); auto; try (rewrite Hv1; assumption).
    - apply X1.
    - rewrite (Hpath1 Hparsub). exact Hpp.
    - intros ->. assert (mem parent (parent :: l) = true) as E by (apply mem_true; left; reflexivity). congruence.
    - intros H. assert (mem b (parent :: l) = true) as E by (apply mem_true; right; exact H). congruence. }
  set (inner := if opt_eqb (q_prev st a) (Some b) || opt_eqb (q_next st a) (Some b) then (st1, MDone None)
                else match q_prev st a with Some p => m_insert_after st1 p b | None => m_prepend st1 parent b end).
  assert (exists r, snd inner = MDone r) as [r Hinner].
  { unfold inner. destruct (opt_eqb (q_prev st a) (Some b)) eqn:Epb; [eexists; reflexivity|]. cbn [orb].
    destruct (opt_eqb (q_next st a) (Some b)); [eexists; reflexivity|].
    destruct (q_prev st a) as [p|] eqn:Hprev.
    - exists None. apply m_insert_after_done.
      destruct (q_prev_cur _ _ _ Hnd Hprev) as (z & s & Hz & Hs & Hleft & Hups).
      assert (p <> a) as Hpa'.
      { intros ->. rewrite Hz in Hs. inversion Hs; subst s. unfold left in Hleft.
        destruct (z_before z) as [|bi bv bk br] eqn:Eb; [discriminate|]. inversion Hleft as [Hrec].
        apply (f_equal z_before) in Hrec. cbn in Hrec. rewrite Eb in Hrec. eapply fcons_not_tail. symmetry. exact Hrec. }
      pose proof (q_prev_same_path _ _ _ Hnd Hprev) as Hpathp. rewrite Hpa in Hpathp.
      assert (~ In p (subtree_ids a (store st))) as Hpsub by (eapply sibling_not_below_path; eauto).
      assert (exists vpp, val st p = Some vpp /\ is_normal vpp = true) as (vpp & Hvpp & Hnpp).
      { unfold q_prev in Hprev. rewrite Hz in Hprev. unfold previous_sibling in Hprev. rewrite Hleft in Hprev.
        destruct (vcat_eqb (zcat z) (zcat s)) eqn:Ecat; [|discriminate].
        exists (z_val s). split; [unfold val; rewrite Hs; reflexivity|].
        unfold val in Hva. rewrite Hz in Hva. inversion Hva as [Hzv]. unfold zcat in Ecat. rewrite Hzv in Ecat.
        unfold is_normal in *. destruct (value_category va); try discriminate. destruct (value_category (z_val s)); try discriminate. reflexivity. }
      unfold sibling_check.
      assert (p <> b) as Hpb by (intros ->; cbn in Epb; rewrite N.eqb_refl in Epb; discriminate).
      apply N.eqb_neq in Hpb. rewrite Hpb. cbn [negb andb].
      rewrite (is_normal_of_val st1 p vpp) by (rewrite Hv1; exact Hvpp). rewrite Hnpp. cbn [andb].
      destruct (path_detach st a p G Hain) as [_ Hpath1p]. fold st1 in Hpath1p.
      rewrite q_parent_of_path, (Hpath1p Hpsub), Hpathp. exact Hsc1.
    - exists None. apply m_prepend_done. exact Hsc1. }
  destruct inner as [st2 o]. cbn in Hinner. subst o.
  destruct (q_prev st a), (q_next st a); try (intros H; inversion H; fail).
  destruct (is_live_slot _ _ && is_live_slot _ _ && opt_eqb _ _); intros H; inversion H.
Qed.

(* ---------- every refusal of the node-level API leaves the store as it was ---------- *)

Theorem refusal_atomic st o st' err : Good st -> mstep st o = (st', MErr err) -> st' = st.
Proof.
  intros G H. destruct (nested_op o) eqn:En; [|eapply refusal_atomic_direct; eauto].
  destruct o; try discriminate En; cbn [mstep] in H.
  - eapply replace_refusal_atomic; eauto.
  - eapply wrap_refusal_atomic; eauto.
  - eapply newdoc_refusal_atomic; eauto.
Qed.
