(* FullnameProofs.v — the serialiser's flattened declaration table (Model/Fullname.v = src/output/fullname.rs) agrees with
   nearest-declaration-wins scoping on the nested declarations, and the prefix it chooses for a name is bound to that
   name's namespace (C01, C10). *)
From Coq Require Import List NArith Bool Lia.
From XotV Require Import Model.Base Model.Fullname Model.Scope Model.Builder Proofs.BuilderProofs.
Import ListNotations.
Open Scope N_scope.

Lemma assoc_p_in p ns d : NoDup (map fst d) -> (assoc_p p d = Some ns <-> In (p, ns) d).
Proof.
  induction d as [|[q m] d IH]; intros Hnd; cbn; [split; [discriminate|intros []]|].
  inversion Hnd as [|? ? Hq Hd]; subst. destruct (N.eqb q p) eqn:E.
  - apply N.eqb_eq in E; subst q. split.
    + intros H; inversion H; subst. left. reflexivity.
    + intros [H|H]; [inversion H; reflexivity|]. exfalso. apply Hq. apply in_map_iff. exists (p, ns). auto.
  - apply N.eqb_neq in E. rewrite (IH Hd). split; [intros H; right; exact H|].
    intros [H|H]; [inversion H; congruence|exact H].
Qed.

Lemma assoc_p_none p d : assoc_p p d = None <-> ~ In p (map fst d).
Proof.
  induction d as [|[q m] d IH]; cbn; [split; [intros _ []|reflexivity]|].
  destruct (N.eqb q p) eqn:E.
  - apply N.eqb_eq in E; subst. split; [discriminate|]. intros H; exfalso; apply H; left; reflexivity.
  - apply N.eqb_neq in E. rewrite IH. split; [intros H [H1|H1]; [congruence|exact (H H1)]|intros H H1; apply H; right; exact H1].
Qed.

Lemma assoc_p_app p a b : assoc_p p (a ++ b) = match assoc_p p a with Some ns => Some ns | None => assoc_p p b end.
Proof. induction a as [|[q m] a IH]; cbn; [reflexivity|]. destruct (N.eqb q p); [reflexivity|exact IH]. Qed.

Lemma assoc_p_filter_other p (f : prefixid * nsid -> bool) d :
  (forall x, fst x = p -> f x = true) -> assoc_p p (filter f d) = assoc_p p d.
Proof.
  intros Hf. induction d as [|[q m] d IH]; cbn; [reflexivity|]. destruct (f (q, m)) eqn:E; cbn.
  - destruct (N.eqb q p); [reflexivity|exact IH].
  - destruct (N.eqb q p) eqn:E2; [|exact IH]. apply N.eqb_eq in E2. subst. rewrite (Hf (p, m) eq_refl) in E. discriminate.
Qed.

Lemma assoc_p_filter_gone p (f : prefixid * nsid -> bool) d :
  (forall x, fst x = p -> f x = false) -> assoc_p p (filter f d) = None.
Proof.
  intros Hf. induction d as [|[q m] d IH]; cbn; [reflexivity|]. destruct (f (q, m)) eqn:E; cbn; [|exact IH].
  destruct (N.eqb q p) eqn:E2; [|exact IH]. apply N.eqb_eq in E2. subst. rewrite (Hf (p, m) eq_refl) in E. discriminate.
Qed.

(* FullnameInfo::new: the element's own declarations win, everything else is inherited *)
Theorem info_new_lookup p d cur :
  assoc_p p (info_new d cur) = match assoc_p p d with Some ns => Some ns | None => assoc_p p cur end.
Proof.
  unfold info_new. rewrite assoc_p_app. destruct (assoc_p p d) as [ns|] eqn:E.
  - rewrite assoc_p_filter_gone; [reflexivity|]. intros [q m] Hq. cbn in Hq. subst q. cbn.
    assert (has_prefix p d = true) as Hh.
    { apply has_prefix_in. destruct (assoc_p_none p d) as [_ H2].
      destruct (in_dec N.eq_dec p (map fst d)) as [Hi|Hi]; [exact Hi|]. rewrite (H2 Hi) in E. discriminate. }
    rewrite Hh. reflexivity.
  - rewrite assoc_p_filter_other; [destruct (assoc_p p cur); reflexivity|].
    intros [q m] Hq. cbn in Hq. subst q. cbn.
    apply assoc_p_none in E. destruct (has_prefix p d) eqn:Hh; [|reflexivity].
    apply has_prefix_in in Hh. contradiction.
Qed.

(* the same, stated through the lookup: a duplicate-free table stays duplicate free *)
Lemma filter_not_declared (d cur : decls) q :
  In q (map fst (filter (fun x => negb (has_prefix (fst x) d)) cur)) -> ~ In q (map fst d).
Proof.
  intros H Hd. apply in_map_iff in H as [[q' m] [Hq Hin]]. cbn in Hq. subst q'. apply filter_In in Hin as [_ Hn].
  cbn in Hn. apply has_prefix_in in Hd. rewrite Hd in Hn. discriminate.
Qed.

Lemma NoDup_app_disjoint {A} (a b : list A) : NoDup a -> NoDup b -> (forall x, In x a -> ~ In x b) -> NoDup (a ++ b).
Proof.
  induction a as [|x a IH]; intros Ha Hb Hd; cbn; [exact Hb|]. inversion Ha as [|? ? Hx Ha']; subst. constructor.
  - rewrite in_app_iff. intros [H|H]; [exact (Hx H)|]. exact (Hd x (or_introl eq_refl) H).
  - apply IH; [exact Ha'|exact Hb|]. intros y Hy. apply Hd. right. exact Hy.
Qed.

Theorem info_new_nodup d cur : NoDup (map fst d) -> NoDup (map fst cur) -> NoDup (map fst (info_new d cur)).
Proof.
  intros Hd Hc. unfold info_new. rewrite map_app. apply NoDup_app_disjoint; [|exact Hd|].
  - clear Hd. induction cur as [|[q m] cur IH]; cbn; [constructor|]. inversion Hc as [|? ? Hq Hc']; subst.
    destruct (negb (has_prefix q d)); cbn; [|exact (IH Hc')]. constructor; [|exact (IH Hc')].
    intros H. apply Hq. apply in_map_iff in H as [x [Hx Hin]]. apply filter_In in Hin as [Hin _].
    apply in_map_iff. exists x. auto.
  - intros q Hq. eapply filter_not_declared. exact Hq.
Qed.

(* the table the serialiser keeps for an element whose ancestors declared [stack] (innermost first) *)
Fixpoint flat (stack : list decls) (base : decls) : decls :=
  match stack with
  | [] => base
  | d :: s => info_new d (flat s base)
  end.

(* it resolves every prefix exactly as nearest-declaration-wins scoping does on the nested declarations: this is the
   resolution the parser (NameIdBuilder) performs on the written text *)
Theorem flat_is_nearest_wins p stack base :
  Forall (fun d => NoDup (map fst d)) stack ->
  assoc_p p (flat stack base) = match lookup_stack p stack with Some ns => Some ns | None => assoc_p p base end.
Proof.
  induction stack as [|d s IH]; intros Hnd; cbn [flat lookup_stack]; [reflexivity|].
  inversion Hnd as [|? ? Hd Hs]; subst. rewrite info_new_lookup, (IH Hs).
  destruct (assoc_p p d) as [ns|] eqn:E.
  - apply (assoc_p_in p ns d Hd) in E. rewrite (lookup_rev_unique p ns d Hd E). reflexivity.
  - apply assoc_p_none in E. rewrite (lookup_rev_none p d None E). reflexivity.
Qed.

Section WithBuiltins.
  Variables (ep : prefixid) (nn : nsid).

  Lemma prefixes_by_namespace_in p d ns : In p (prefixes_by_namespace d ns) <-> In (p, ns) d.
  Proof.
    unfold prefixes_by_namespace. rewrite in_map_iff. split.
    - intros [[q m] [Hq Hin]]. cbn in Hq. subst q. apply filter_In in Hin as [Hin Hm]. cbn in Hm. apply N.eqb_eq in Hm. subst.
      apply in_rev. exact Hin.
    - intros H. exists (p, ns). split; [reflexivity|]. apply filter_In. split; [apply in_rev in H; exact H|apply N.eqb_refl].
  Qed.

  (* the prefix chosen for an element name is bound, in the serialiser's table, to exactly the namespace of that name *)
  Theorem element_prefix_sound s ns :
    NoDup (map fst (fs_top s)) ->
    match element_prefix ep nn s ns with
    | PSome p => assoc_p p (fs_top s) = Some ns /\ p <> ep
    | PNone => ns = nn \/ assoc_p ep (fs_top s) = Some ns
    | PMissing => ns <> nn /\ forall p, assoc_p p (fs_top s) <> Some ns
    end.
  Proof.
    intros Hnd. unfold element_prefix. destruct (N.eqb ns nn) eqn:En; [left; apply N.eqb_eq; exact En|].
    apply N.eqb_neq in En. unfold element_prefix_by_namespace.
    destruct (existsb (N.eqb ep) (prefixes_by_namespace (fs_top s) ns)) eqn:Ex.
    - rewrite N.eqb_refl. right. apply existsb_exists in Ex as [q [Hq Heq]]. apply N.eqb_eq in Heq. subst q.
      apply prefixes_by_namespace_in in Hq. apply assoc_p_in; assumption.
    - destruct (prefixes_by_namespace (fs_top s) ns) as [|p l] eqn:El; cbn [hd_error].
      + split; [exact En|]. intros p Hp. apply assoc_p_in in Hp; [|exact Hnd]. apply prefixes_by_namespace_in in Hp.
        rewrite El in Hp. destruct Hp.
      + assert (In p (prefixes_by_namespace (fs_top s) ns)) as Hin by (rewrite El; left; reflexivity).
        destruct (N.eqb p ep) eqn:Ep.
        * apply N.eqb_eq in Ep. subst p. exfalso.
          assert (existsb (N.eqb ep) (prefixes_by_namespace (fs_top s) ns) = true) as Ht.
          { apply existsb_exists. exists ep. split; [exact Hin|apply N.eqb_refl]. }
          rewrite El in Ht. cbn [existsb] in Ex. cbn [existsb] in Ht. congruence.
        * apply N.eqb_neq in Ep. split; [|exact Ep]. apply prefixes_by_namespace_in in Hin. apply assoc_p_in; assumption.
  Qed.

  (* the prefix chosen for an attribute name is never empty and is bound to the namespace of that name *)
  Theorem attribute_prefix_sound s ns :
    NoDup (map fst (fs_top s)) ->
    match attribute_prefix ep nn s ns with
    | PSome p => assoc_p p (fs_top s) = Some ns /\ p <> ep
    | PNone => ns = nn
    | PMissing => ns <> nn /\ forall p, p <> ep -> assoc_p p (fs_top s) <> Some ns
    end.
  Proof.
    intros Hnd. unfold attribute_prefix. destruct (N.eqb ns nn) eqn:En; [apply N.eqb_eq; exact En|].
    apply N.eqb_neq in En. unfold attribute_prefix_by_namespace.
    destruct (List.find (fun p => negb (N.eqb p ep)) (prefixes_by_namespace (fs_top s) ns)) as [p|] eqn:Ef.
    - apply find_some in Ef as [Hin Hp]. apply negb_true_iff in Hp. apply N.eqb_neq in Hp. split; [|exact Hp].
      apply prefixes_by_namespace_in in Hin. apply assoc_p_in; assumption.
    - split; [exact En|]. intros p Hp Ha. apply assoc_p_in in Ha; [|exact Hnd]. apply prefixes_by_namespace_in in Ha.
      eapply find_none in Ef; [|exact Ha]. cbn in Ef. apply negb_false_iff in Ef. apply N.eqb_eq in Ef. contradiction.
  Qed.
End WithBuiltins.
