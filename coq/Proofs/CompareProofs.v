(* CompareProofs.v — the zip of two edge streams decides structural equality of the kept trees; with unique
   attribute names that is equality up to attribute order: an equivalence relation blind to namespace
   declarations, prefixes and attribute order. *)
From Coq Require Import List NArith Bool Lia Permutation.
From XotV Require Import Model.Base Model.Compare Proofs.InternOpsProofs.
Import ListNotations.
Open Scope N_scope.

(* the tree a traversal with filter [keep] sees: abnormal nodes are gone, a dropped node is replaced by its
   (kept) descendants, every kept node carries its attribute list *)
Inductive sforest := SNil | SCons (v : value) (attrs : list attr) (kids rest : sforest).

Fixpoint sapp (a b : sforest) : sforest :=
  match a with SNil => b | SCons v at_ k r => SCons v at_ k (sapp r b) end.

Fixpoint kf (keep : value -> bool) (f : forest) : sforest :=
  match f with
  | FNil => SNil
  | FCons _ v k r =>
      if is_normal v then
        if keep v then SCons v (attrs_of k) (kf keep k) (kf keep r)
        else sapp (kf keep k) (kf keep r)
      else kf keep r
  end.

Fixpoint sedges (s : sforest) : list cedge :=
  match s with
  | SNil => []
  | SCons v at_ k r => CStart v at_ :: sedges k ++ CEnd v :: sedges r
  end.

Lemma sedges_sapp a b : sedges (sapp a b) = sedges a ++ sedges b.
Proof. induction a as [|v at_ k IHk r IHr]; cbn; [reflexivity|]. rewrite IHr, <- app_assoc. reflexivity. Qed.

Theorem cedges_kf keep f : cedges keep f = sedges (kf keep f).
Proof.
  induction f as [|i v k IHk r IHr]; cbn; [reflexivity|].
  destruct (is_normal v); [|exact IHr]. destruct (keep v); cbn.
  - rewrite IHk, IHr. reflexivity.
  - rewrite sedges_sapp, IHk, IHr. reflexivity.
Qed.

Section TC.
  Variable tc : str -> str -> bool.

  (* structural comparison of two kept sibling lists *)
  Fixpoint sfeq (a b : sforest) : bool :=
    match a, b with
    | SNil, SNil => true
    | SCons va aa ka ra, SCons vb ab kb rb => compare_value tc va aa vb ab && sfeq ka kb && sfeq ra rb
    | _, _ => false
    end.

  Definition no_start (t : list cedge) : Prop := match t with CStart _ _ :: _ => False | _ => True end.

  (* the heart of advanced_deep_equal: zipping the two edge streams compares the trees node by node *)
  Lemma zipcmp_sedges a : forall b ta tb, no_start ta -> no_start tb ->
    zipcmp tc (sedges a ++ ta) (sedges b ++ tb) = sfeq a b && zipcmp tc ta tb.
  Proof.
    induction a as [|va aa ka IHk ra IHr]; intros b ta tb Hta Htb.
    - destruct b as [|vb ab kb rb]; cbn [sedges app sfeq]; [reflexivity|].
      cbn. destruct ta as [|[|] ta]; cbn in *; try reflexivity. contradiction.
    - destruct b as [|vb ab kb rb]; cbn [sedges app sfeq].
      + cbn. destruct tb as [|[|] tb]; cbn in *; try reflexivity; try contradiction.
        destruct ((sedges ka ++ CEnd va :: sedges ra) ++ ta) eqn:E; [|reflexivity].
        apply app_eq_nil in E. destruct E as [E _]. apply app_eq_nil in E. destruct E as [_ E]. discriminate.
      + cbn [zipcmp]. rewrite <- !app_assoc. cbn [app].
        rewrite (IHk kb (CEnd va :: sedges ra ++ ta) (CEnd vb :: sedges rb ++ tb)); cbn; auto.
        rewrite (IHr rb ta tb Hta Htb).
        destruct (compare_value tc va aa vb ab), (sfeq ka kb), (sfeq ra rb); reflexivity.
  Qed.

  Theorem zipcmp_cedges keep fa fb :
    zipcmp tc (cedges keep fa) (cedges keep fb) = sfeq (kf keep fa) (kf keep fb).
  Proof.
    rewrite !cedges_kf. rewrite <- (app_nil_r (sedges (kf keep fa))), <- (app_nil_r (sedges (kf keep fb))).
    rewrite zipcmp_sedges; cbn; auto. apply andb_true_r.
  Qed.

  (* advanced_deep_equal of two ordinary nodes = structural comparison of what the filter keeps *)
  Theorem advanced_deep_equal_spec keep va ka vb kb :
    is_normal va = true -> is_normal vb = true ->
    advanced_deep_equal tc keep va ka vb kb = sfeq (kf keep (FCons 0 va ka FNil)) (kf keep (FCons 0 vb kb FNil)).
  Proof.
    intros Ha Hb. unfold advanced_deep_equal. rewrite Ha, Hb. cbn [negb orb]. apply zipcmp_cedges.
  Qed.
End TC.

(* ---------- attributes: with unique names, comparison = equality up to order ---------- *)

Definition keys (l : list attr) : list nameid := map fst l.

Lemma attr_get_in key v l : attr_get key l = Some v -> In (key, v) l.
Proof.
  induction l as [|[k x] l IH]; cbn; [discriminate|].
  destruct (N.eqb_spec k key) as [->|]; [intros H; inversion H; left; reflexivity|intros H; right; auto].
Qed.

Lemma in_attr_get key v l : NoDup (keys l) -> In (key, v) l -> attr_get key l = Some v.
Proof.
  induction l as [|[k x] l IH]; cbn; [intros _ []|]. intros Hnd [H|H].
  - inversion H; subst. rewrite N.eqb_refl. reflexivity.
  - inversion Hnd as [|? ? Hni Hnd']; subst.
    destruct (N.eqb_spec k key) as [->|]; [|auto].
    exfalso. apply Hni. apply in_map_iff. exists (key, v). split; [reflexivity|exact H].
Qed.

Lemma NoDup_keys_pairs l : NoDup (keys l) -> NoDup l.
Proof.
  induction l as [|[k x] l IH]; cbn; [constructor|]. intros H. inversion H as [|? ? Hni Hnd]; subst.
  constructor; [|auto]. intros Hin. apply Hni. apply in_map_iff. exists (k, x). split; [reflexivity|exact Hin].
Qed.

Theorem compare_attributes_perm a b :
  NoDup (keys a) -> NoDup (keys b) ->
  (compare_attributes str_eqb a b = true <-> Permutation a b).
Proof.
  intros Ha Hb. unfold compare_attributes. rewrite andb_true_iff, PeanoNat.Nat.eqb_eq, forallb_forall. split.
  - intros [Hlen Hall]. apply NoDup_Permutation_bis; [apply NoDup_keys_pairs; exact Ha|lia|].
    intros [k v] Hin. specialize (Hall _ Hin). cbn in Hall.
    destruct (attr_get k b) as [vb|] eqn:E; [|discriminate]. apply str_eqb_spec in Hall. subst vb.
    apply attr_get_in. exact E.
  - intros Hp. split; [apply Permutation_length; exact Hp|].
    intros [k v] Hin. cbn. rewrite (in_attr_get k v b Hb); [apply str_eqb_spec; reflexivity|].
    eapply Permutation_in; eauto.
Qed.

(* ---------- the spec relation: same kinds, names, content, children; attributes as a set ---------- *)

Definition value_equiv (va : value) (aa : list attr) (vb : value) (ab : list attr) : Prop :=
  match va, vb with
  | VElement na, VElement nb => na = nb /\ Permutation aa ab
  | _, _ => va = vb
  end.

Inductive sequiv : sforest -> sforest -> Prop :=
| sequiv_nil : sequiv SNil SNil
| sequiv_cons va aa ka ra vb ab kb rb :
    value_equiv va aa vb ab -> sequiv ka kb -> sequiv ra rb -> sequiv (SCons va aa ka ra) (SCons vb ab kb rb).

(* every element of a kept tree has unique attribute names (invariant I4 of C04) *)
Fixpoint attrs_unique (s : sforest) : Prop :=
  match s with
  | SNil => True
  | SCons _ at_ k r => NoDup (keys at_) /\ attrs_unique k /\ attrs_unique r
  end.

Lemma opt_str_eqb_spec a b : opt_str_eqb a b = true <-> a = b.
Proof.
  destruct a, b; cbn; try (split; [discriminate|intros H; inversion H]); [|split; reflexivity].
  rewrite str_eqb_spec. split; [intros ->; reflexivity|intros H; inversion H; reflexivity].
Qed.

Lemma compare_value_equiv va aa vb ab :
  NoDup (keys aa) -> NoDup (keys ab) ->
  (compare_value str_eqb va aa vb ab = true <-> value_equiv va aa vb ab).
Proof.
  intros Ha Hb.
  destruct va as [|na|sa|ta da|ca|na sa|pa na], vb as [|nb|sb|tb db|cb|nb sb|pb nb]; cbn;
    try (split; [discriminate|intros H; inversion H; fail]).
  - split; reflexivity.
  - rewrite andb_true_iff, N.eqb_eq, (compare_attributes_perm _ _ Ha Hb). reflexivity.
  - rewrite str_eqb_spec. split; [intros ->; reflexivity|intros H; inversion H; reflexivity].
  - rewrite andb_true_iff, N.eqb_eq. split.
    + intros [-> H]. destruct da as [x|], db as [y|]; try discriminate; [apply str_eqb_spec in H; subst|]; reflexivity.
    + intros H; inversion H; subst. split; [reflexivity|]. destruct db; [apply str_eqb_spec|]; reflexivity.
  - rewrite str_eqb_spec. split; [intros ->; reflexivity|intros H; inversion H; reflexivity].
  - rewrite andb_true_iff, N.eqb_eq, str_eqb_spec. split; [intros [-> ->]; reflexivity|intros H; inversion H; auto].
  - rewrite andb_true_iff, !N.eqb_eq. split; [intros [-> ->]; reflexivity|intros H; inversion H; auto].
Qed.

(* deep_equal decides the spec relation *)
Theorem sfeq_sequiv a : forall b, attrs_unique a -> attrs_unique b ->
  (sfeq str_eqb a b = true <-> sequiv a b).
Proof.
  induction a as [|va aa ka IHk ra IHr]; intros [|vb ab kb rb] Ua Ub; cbn [sfeq].
  - split; [constructor|reflexivity].
  - split; [discriminate|inversion 1].
  - split; [discriminate|inversion 1].
  - destruct Ua as (Ua1 & Ua2 & Ua3), Ub as (Ub1 & Ub2 & Ub3).
    rewrite !andb_true_iff, (compare_value_equiv _ _ _ _ Ua1 Ub1), (IHk kb Ua2 Ub2), (IHr rb Ua3 Ub3).
    split; [intros [[A B] C]; constructor; assumption|inversion 1; subst; auto].
Qed.

(* the spec relation is an equivalence *)
Lemma value_equiv_refl v a : value_equiv v a v a.
Proof. destruct v; cbn; auto. Qed.

Lemma value_equiv_sym va aa vb ab : value_equiv va aa vb ab -> value_equiv vb ab va aa.
Proof.
  intros H. destruct va as [|na|sa|ta da|ca|na sa|pa na], vb as [|nb|sb|tb db|cb|nb sb|pb nb]; cbn in *;
    try discriminate H; try (symmetry; exact H).
  destruct H as [-> P]. split; [reflexivity|symmetry; exact P].
Qed.

Lemma value_equiv_trans va aa vb ab vc ac : value_equiv va aa vb ab -> value_equiv vb ab vc ac -> value_equiv va aa vc ac.
Proof.
  intros H1 H2.
  destruct va as [|na|sa|ta da|ca|na sa|pa na], vb as [|nb|sb|tb db|cb|nb sb|pb nb]; cbn in H1;
    try discriminate H1; try (inversion H1; subst; exact H2).
  destruct H1 as [-> P1]. destruct vc; cbn in H2; try discriminate H2.
  destruct H2 as [-> P2]. cbn. split; [reflexivity|etransitivity; eauto].
Qed.

Theorem sequiv_refl a : sequiv a a.
Proof. induction a; constructor; auto using value_equiv_refl. Qed.

Theorem sequiv_sym a b : sequiv a b -> sequiv b a.
Proof. induction 1; constructor; auto using value_equiv_sym. Qed.

Theorem sequiv_trans a b c : sequiv a b -> sequiv b c -> sequiv a c.
Proof.
  intros H. revert c. induction H; intros c Hc; inversion Hc; subst; constructor; eauto using value_equiv_trans.
Qed.

(* deep_equal on ordinary nodes, at last *)
Definition ktree (v : value) (k : forest) : sforest := kf keep_all (FCons 0 v k FNil).

Theorem deep_equal_spec va ka vb kb :
  is_normal va = true -> is_normal vb = true ->
  attrs_unique (ktree va ka) -> attrs_unique (ktree vb kb) ->
  (deep_equal va ka vb kb = true <-> sequiv (ktree va ka) (ktree vb kb)).
Proof.
  intros Ha Hb Ua Ub. unfold deep_equal. rewrite (advanced_deep_equal_spec _ _ _ _ _ _ Ha Hb).
  apply sfeq_sequiv; assumption.
Qed.

(* blind to namespace declarations: namespace nodes never reach the compared tree *)
Theorem kf_ignores_namespace_nodes keep i p ns k r : kf keep (FCons i (VNamespace p ns) k r) = kf keep r.
Proof. reflexivity. Qed.

Lemma attrs_of_skip_ns i p ns k r : attrs_of (FCons i (VNamespace p ns) k r) = attrs_of r.
Proof. reflexivity. Qed.

(* ---------- shallow_equal_ignore_attributes ---------- *)

Lemma attr_get_filter key l (p : attr -> bool) :
  (forall v, p (key, v) = true) -> attr_get key (filter p l) = attr_get key l.
Proof.
  intros Hp. induction l as [|[k x] l IH]; cbn; [reflexivity|].
  destruct (p (k, x)) eqn:E; cbn.
  - destruct (N.eqb k key); [reflexivity|exact IH].
  - destruct (N.eqb_spec k key) as [->|]; [rewrite Hp in E; discriminate|exact IH].
Qed.

Lemma forallb_ext_in' {A} (f g : A -> bool) l : (forall x, In x l -> f x = g x) -> forallb f l = forallb g l.
Proof.
  induction l as [|a l IH]; cbn; [reflexivity|]. intros H. rewrite (H a) by (left; reflexivity). rewrite IH; [reflexivity|].
  intros x Hx. apply H. right. exact Hx.
Qed.

Theorem shallow_equal_ignore_spec ign na ka nb kb :
  shallow_equal_ignore ign (VElement na) ka (VElement nb) kb
  = N.eqb na nb && compare_attributes str_eqb (filter (fun kv => negb (nmem (fst kv) ign)) (attrs_of ka))
                                              (filter (fun kv => negb (nmem (fst kv) ign)) (attrs_of kb)).
Proof.
  unfold shallow_equal_ignore, compare_attributes. destruct (N.eqb na nb); cbn [negb andb]; [|reflexivity].
  rewrite andb_comm. f_equal.
  apply forallb_ext_in'. intros [k v] Hin. cbn.
  apply filter_In in Hin. destruct Hin as [_ Hp]. cbn in Hp.
  erewrite attr_get_filter; [reflexivity|]. intros w. cbn. exact Hp.
Qed.
