(* StoreProofs.v — the forest surgery of Model/Store.v neither creates, loses nor duplicates nodes. *)
From Coq Require Import List NArith ZArith Bool Lia Permutation.
From XotV Require Import Model.Base Model.Zipper Model.Access Model.Store Proofs.PermTac.
Import ListNotations.
Open Scope N_scope.

Lemma ids_fapp a b : ids (fapp a b) = ids a ++ ids b.
Proof. induction a as [|i v k _ r IH]; cbn; [reflexivity|]. rewrite IH, app_assoc. reflexivity. Qed.

Lemma nodes_fapp a b : nodes (fapp a b) = nodes a ++ nodes b.
Proof. induction a as [|i v k _ r IH]; cbn; [reflexivity|]. rewrite IH, app_assoc. reflexivity. Qed.

Lemma ids_nodes f : ids f = map fst (nodes f).
Proof. induction f as [|i v k IHk r IHr]; cbn; [reflexivity|]. rewrite map_app, IHk, IHr. reflexivity. Qed.

(* cutting a subtree out: what is left plus the subtree is a permutation of what was there *)
Lemma fcut_spec n f : forall f' i v k,
  fcut n f = Some (f', (i, v, k)) -> i = n /\ Permutation (nodes f) ((i, v) :: nodes k ++ nodes f').
Proof.
  induction f as [|i0 v0 k0 IHk r0 IHr]; intros f' i v k; cbn; [discriminate|].
  destruct (N.eqb_spec i0 n) as [->|Hne].
  - intros H; inversion H; subst. split; [reflexivity|]. reflexivity.
  - destruct (fcut n k0) as [[k' t]|] eqn:Ek.
    + intros H; inversion H; subst. destruct (IHk _ _ _ _ eq_refl) as [-> Hp]. split; [reflexivity|].
      cbn. rewrite Hp. perm.
    + destruct (fcut n r0) as [[r' t]|] eqn:Er; [|discriminate].
      intros H; inversion H; subst. destruct (IHr _ _ _ _ eq_refl) as [-> Hp]. split; [reflexivity|].
      cbn. rewrite Hp. perm.
Qed.

Lemma fcut_none n f : fcut n f = None -> ~ In n (ids f).
Proof.
  induction f as [|i v k IHk r IHr]; cbn; [auto|].
  destruct (N.eqb_spec i n); [discriminate|].
  destruct (fcut n k) as [[? ?]|]; [discriminate|]. destruct (fcut n r) as [[? ?]|]; [discriminate|].
  intros _ [H|H]; [auto|]. apply in_app_or in H. destruct H; [apply IHk|apply IHr]; auto.
Qed.

Lemma fcut_some n f : In n (ids f) -> exists f' t, fcut n f = Some (f', t).
Proof.
  intros Hin. destruct (fcut n f) as [[f' t]|] eqn:E; [eauto|]. exfalso. eapply fcut_none; eauto.
Qed.

Lemma nodes_fset_val_ids n g f : ids (fset_val n g f) = ids f.
Proof.
  induction f as [|i v k IHk r IHr]; cbn; [reflexivity|].
  destruct (N.eqb i n); cbn; [reflexivity|]. rewrite IHk, IHr. reflexivity.
Qed.

(* inserting a sibling list next to a node that occurs exactly once adds exactly those nodes *)
Lemma NoDup_app_not_in {A} (l1 l2 : list A) x : NoDup (l1 ++ l2) -> In x l1 -> ~ In x l2.
Proof.
  induction l1 as [|a l1 IH]; cbn; [intros _ []|]. intros Hnd [->|Hin] Hx.
  - inversion Hnd; subst. apply H1. apply in_or_app. right. exact Hx.
  - inversion Hnd; subst. apply (IH H2 Hin Hx).
Qed.

Lemma finsert_after_absent ref t f : ~ In ref (ids f) -> finsert_after ref t f = f.
Proof.
  induction f as [|i v k IHk r IHr]; cbn; [reflexivity|]. intros Hn.
  destruct (N.eqb_spec i ref); [exfalso; apply Hn; left; auto|].
  rewrite IHk, IHr; auto; intros Hx; apply Hn; right; apply in_or_app; auto.
Qed.

Lemma finsert_before_absent ref t f : ~ In ref (ids f) -> finsert_before ref t f = f.
Proof.
  induction f as [|i v k IHk r IHr]; cbn; [reflexivity|]. intros Hn.
  destruct (N.eqb_spec i ref); [exfalso; apply Hn; left; auto|].
  rewrite IHk, IHr; auto; intros Hx; apply Hn; right; apply in_or_app; auto.
Qed.

Lemma fmap_kids_absent p g f : ~ In p (ids f) -> fmap_kids p g f = f.
Proof.
  induction f as [|i v k IHk r IHr]; cbn; [reflexivity|]. intros Hn.
  destruct (N.eqb_spec i p); [exfalso; apply Hn; left; auto|].
  rewrite IHk, IHr; auto; intros Hx; apply Hn; right; apply in_or_app; auto.
Qed.

Lemma fsplice_absent n f : ~ In n (ids f) -> fsplice n f = f.
Proof.
  induction f as [|i v k IHk r IHr]; cbn; [reflexivity|]. intros Hn.
  destruct (N.eqb_spec i n); [exfalso; apply Hn; left; auto|].
  rewrite IHk, IHr; auto; intros Hx; apply Hn; right; apply in_or_app; auto.
Qed.

Lemma NoDup_app_inv {A} (a b : list A) : NoDup (a ++ b) -> NoDup a /\ NoDup b.
Proof.
  induction a as [|x a IH]; cbn; [intros H; split; [constructor|exact H]|].
  intros H. inversion H as [|? ? Hni Hnd]; subst. destruct (IH Hnd) as [Ha Hb]. split; [|exact Hb].
  constructor; [|exact Ha]. intros Hx. apply Hni. apply in_or_app. auto.
Qed.

Lemma NoDup_cons_app_inv i (a b : list N) : NoDup (i :: a ++ b) -> ~ In i a /\ ~ In i b /\ NoDup a /\ NoDup b /\ NoDup (a ++ b).
Proof.
  intros H. inversion H as [|? ? Hni Hnd]; subst.
  repeat split; auto.
  - intros Hx. apply Hni. apply in_or_app. auto.
  - intros Hx. apply Hni. apply in_or_app. auto.
  - apply (NoDup_app_inv _ _ Hnd).
  - apply (NoDup_app_inv _ _ Hnd).
Qed.

(* inserting a sibling list next to a node that occurs exactly once adds exactly those nodes *)
Lemma finsert_after_spec ref t f : NoDup (ids f) -> In ref (ids f) ->
  Permutation (nodes (finsert_after ref t f)) (nodes f ++ nodes t).
Proof.
  induction f as [|i v k IHk r IHr]; cbn; [intros _ []|]. intros Hnd Hin.
  destruct (NoDup_cons_app_inv _ _ _ Hnd) as (Hik & Hir & Hk & Hr & Hkr).
  destruct (N.eqb_spec i ref) as [->|Hne].
  - cbn. rewrite nodes_fapp. perm.
  - destruct Hin as [|Hin]; [contradiction|]. cbn.
    apply in_app_or in Hin. destruct Hin as [Hin|Hin].
    + rewrite (finsert_after_absent ref t r) by (eapply NoDup_app_not_in; eauto).
      rewrite (IHk Hk Hin). perm.
    + assert (~ In ref (ids k)) as Hnk.
      { intros Hx. eapply NoDup_app_not_in; eauto. }
      rewrite (finsert_after_absent ref t k Hnk). rewrite (IHr Hr Hin). perm.
Qed.

Lemma finsert_before_spec ref t f : NoDup (ids f) -> In ref (ids f) ->
  Permutation (nodes (finsert_before ref t f)) (nodes f ++ nodes t).
Proof.
  induction f as [|i v k IHk r IHr]; cbn; [intros _ []|]. intros Hnd Hin.
  destruct (NoDup_cons_app_inv _ _ _ Hnd) as (Hik & Hir & Hk & Hr & Hkr).
  destruct (N.eqb_spec i ref) as [->|Hne].
  - rewrite nodes_fapp. cbn. perm.
  - destruct Hin as [|Hin]; [contradiction|]. cbn.
    apply in_app_or in Hin. destruct Hin as [Hin|Hin].
    + rewrite (finsert_before_absent ref t r) by (eapply NoDup_app_not_in; eauto).
      rewrite (IHk Hk Hin). perm.
    + assert (~ In ref (ids k)) as Hnk.
      { intros Hx. eapply NoDup_app_not_in; eauto. }
      rewrite (finsert_before_absent ref t k Hnk). rewrite (IHr Hr Hin). perm.
Qed.

(* changing the child list of a node that occurs exactly once *)
Lemma fmap_kids_spec p g t f : NoDup (ids f) -> In p (ids f) ->
  (forall k, Permutation (nodes (g k)) (nodes k ++ nodes t)) ->
  Permutation (nodes (fmap_kids p g f)) (nodes f ++ nodes t).
Proof.
  intros Hnd Hin Hg. revert Hnd Hin.
  induction f as [|i v k IHk r IHr]; cbn; [intros _ []|]. intros Hnd Hin.
  destruct (NoDup_cons_app_inv _ _ _ Hnd) as (Hik & Hir & Hk & Hr & Hkr).
  destruct (N.eqb_spec i p) as [->|Hne].
  - cbn. rewrite Hg. perm.
  - destruct Hin as [|Hin]; [contradiction|]. cbn.
    apply in_app_or in Hin. destruct Hin as [Hin|Hin].
    + rewrite (fmap_kids_absent p g r) by (eapply NoDup_app_not_in; eauto).
      rewrite (IHk Hk Hin). perm.
    + assert (~ In p (ids k)) as Hnk.
      { intros Hx. eapply NoDup_app_not_in; eauto. }
      rewrite (fmap_kids_absent p g k Hnk). rewrite (IHr Hr Hin). perm.
Qed.

(* indextree remove: the node goes, its children stay *)
Lemma fsplice_spec n f : NoDup (ids f) -> In n (ids f) ->
  exists v, Permutation (nodes f) ((n, v) :: nodes (fsplice n f)).
Proof.
  induction f as [|i v k IHk r IHr]; cbn; [intros _ []|]. intros Hnd Hin.
  destruct (NoDup_cons_app_inv _ _ _ Hnd) as (Hik & Hir & Hk & Hr & Hkr).
  destruct (N.eqb_spec i n) as [->|Hne].
  - exists v. rewrite nodes_fapp. reflexivity.
  - destruct Hin as [|Hin]; [contradiction|]. cbn.
    apply in_app_or in Hin. destruct Hin as [Hin|Hin].
    + rewrite (fsplice_absent n r) by (eapply NoDup_app_not_in; eauto).
      destruct (IHk Hk Hin) as [w Hw]. exists w. rewrite Hw. perm.
    + assert (~ In n (ids k)) as Hnk.
      { intros Hx. eapply NoDup_app_not_in; eauto. }
      rewrite (fsplice_absent n k Hnk). destruct (IHr Hr Hin) as [w Hw]. exists w. rewrite Hw. perm.
Qed.

Lemma nodes_fset_val n g f : NoDup (ids f) -> In n (ids f) ->
  exists v l1 l2, nodes f = l1 ++ (n, v) :: l2 /\ nodes (fset_val n g f) = l1 ++ (n, g v) :: l2.
Proof.
  induction f as [|i v k IHk r IHr]; cbn; [intros _ []|]. intros Hnd Hin.
  destruct (NoDup_cons_app_inv _ _ _ Hnd) as (Hik & Hir & Hk & Hr & Hkr).
  destruct (N.eqb_spec i n) as [->|Hne].
  - exists v, [], (nodes k ++ nodes r). split; reflexivity.
  - destruct Hin as [|Hin]; [contradiction|]. cbn.
    apply in_app_or in Hin. destruct Hin as [Hin|Hin].
    + destruct (IHk Hk Hin) as (w & l1 & l2 & H1 & H2).
      assert (fset_val n g r = r) as ->.
      { assert (~ In n (ids r)) as Hn by (eapply NoDup_app_not_in; eauto).
        clear - Hn. induction r as [|i v k IHk r IHr]; cbn; [reflexivity|]. cbn in Hn.
        destruct (N.eqb_spec i n); [exfalso; apply Hn; left; auto|].
        rewrite IHk, IHr; auto; intros Hx; apply Hn; right; apply in_or_app; auto. }
      exists w, ((i, v) :: l1), (l2 ++ nodes r). rewrite H1, H2. cbn. rewrite <- !app_assoc. split; reflexivity.
    + destruct (IHr Hr Hin) as (w & l1 & l2 & H1 & H2).
      assert (fset_val n g k = k) as ->.
      { assert (~ In n (ids k)) as Hn by (intros Hx; eapply NoDup_app_not_in; eauto).
        clear - Hn. induction k as [|i v k IHk r IHr]; cbn; [reflexivity|]. cbn in Hn.
        destruct (N.eqb_spec i n); [exfalso; apply Hn; left; auto|].
        rewrite IHk, IHr; auto; intros Hx; apply Hn; right; apply in_or_app; auto. }
      exists w, ((i, v) :: nodes k ++ l1), l2. rewrite H1, H2. cbn. rewrite <- !app_assoc. split; reflexivity.
Qed.
