(* TreeFrame.v — C05 "no other node is created, lost, reordered or altered" and C12 "any later mutation of either side leaves
   the other untouched", as one frame theorem: a call of the node-level API leaves every tree that contains none of its
   arguments exactly as it was.  [T] is any run of whole trees of the store (a segment of its top-level list); every forest
   primitive the call applies names an argument or a node found by walking from an argument, which stays inside the argument's
   tree, hence outside [T]; and a primitive that names a node outside [T] leaves [T] alone. *)
From Coq Require Import List NArith ZArith Bool Lia Permutation Arith.
From XotV Require Import Model.Base Model.Zipper Model.Access Model.Store Model.Manip Spec.DocOrder Spec.Paths Spec.Shape
                         Proofs.ZipperProofs Proofs.AccessProofs Proofs.StoreProofs Proofs.ForestFacts Proofs.InvProofs Proofs.Canon
                         Proofs.ShapeProofs Proofs.InvSteps Proofs.InvOps Proofs.Levels Proofs.CloneFrame.
Import ListNotations.
Open Scope N_scope.

(* ---------- primitives that name a node outside the segment leave the segment alone ---------- *)

Definition Seg (T : forest) (st : xstate) : Prop := exists A B, store st = fapp A (fapp T B).

Lemma fact_seg act n A T B : suffix_local act -> NoDup (ids (fapp A (fapp T B))) -> ~ In n (ids T) ->
  exists A' B', fact act n (fapp A (fapp T B)) = fapp A' (fapp T B').
Proof.
  intros Hl Hnd Hn. destruct (in_dec N.eq_dec n (ids A)) as [HA|HA].
  - exists (fact act n A), B. apply fact_suffix; [exact Hl|]. rewrite ids_fapp in Hnd. intros Hx. eapply NoDup_app_not_in; [exact Hnd|exact HA|exact Hx].
  - exists A, (fact act n B). rewrite fact_fapp_skip by exact HA. rewrite fact_fapp_skip by exact Hn. reflexivity.
Qed.

Lemma Seg_fact T st act n : Seg T st -> NoDup (ids (store st)) -> suffix_local act -> ~ In n (ids T) ->
  Seg T (with_store st (fact act n (store st))).
Proof. intros (A & B & E) Hnd Hl Hn. cbn [store with_store]. rewrite E in *. apply fact_seg; assumption. Qed.

Lemma Seg_fset_val T st n g : Seg T st -> NoDup (ids (store st)) -> ~ In n (ids T) -> Seg T (with_store st (fset_val n g (store st))).
Proof. intros HS Hnd Hn. rewrite fset_val_fact. apply Seg_fact; auto. apply sl_val. Qed.

Lemma Seg_remove_single T st n : Seg T st -> NoDup (ids (store st)) -> ~ In n (ids T) -> Seg T (remove_single_raw st n).
Proof.
  intros HS Hnd Hn. unfold remove_single_raw. destruct (Seg_fact T st a_splice n HS Hnd sl_splice Hn) as (A & B & E).
  exists A, B. cbn [store free_slots with_store] in *. rewrite fsplice_fact. exact E.
Qed.

Lemma Seg_new_node T st v st1 i : Seg T st -> new_node st v = (st1, i) -> Seg T st1.
Proof.
  intros (A & B & E) Hn. exists (FCons i v FNil A), B. unfold new_node in Hn. destruct (free st); inversion Hn; subst; cbn [store fapp]; rewrite E; reflexivity.
Qed.

Lemma Seg_cut T st c f' t : Seg T st -> NoDup (ids (store st)) -> ~ In c (ids T) -> fcut c (store st) = Some (f', t) ->
  exists A B, f' = fapp A (fapp T B).
Proof.
  intros (A & B & E) Hnd Hc Hcut. rewrite (fcut_fact _ _ _ _ Hnd Hcut), E. rewrite E in Hnd. apply fact_seg; [apply sl_drop|exact Hnd|exact Hc].
Qed.

Lemma nodup_cut st c f' t : NoDup (ids (store st)) -> fcut c (store st) = Some (f', t) -> NoDup (ids f').
Proof.
  intros Hnd Hcut. destruct t as [[i v] k]. pose proof (fcut_ids _ _ _ _ _ _ Hcut) as Hp. eapply Permutation_NoDup in Hnd; [|exact Hp].
  inversion Hnd; subst. apply NoDup_app_inv in H2. tauto.
Qed.

Lemma Seg_detach_raw T st c : Seg T st -> NoDup (ids (store st)) -> ~ In c (ids T) -> Seg T (detach_raw st c).
Proof.
  intros HS Hnd Hc. unfold detach_raw. destruct (fcut c (store st)) as [[f' t]|] eqn:Ecut; [|exact HS].
  destruct (Seg_cut T st c f' t HS Hnd Hc Ecut) as (A & B & E). destruct t as [[i v] k]. exists (FCons i v k A), B. cbn [store with_store single fapp]. rewrite E. reflexivity.
Qed.

Lemma Seg_remove_subtree_raw T st c : Seg T st -> NoDup (ids (store st)) -> ~ In c (ids T) -> Seg T (remove_subtree_raw st c).
Proof.
  intros HS Hnd Hc. unfold remove_subtree_raw. destruct (fcut c (store st)) as [[f' [[i v] k]]|] eqn:Ecut; [|exact HS].
  destruct (Seg_cut T st c f' _ HS Hnd Hc Ecut) as (A & B & E). exists A, B. cbn [store free_slots with_store]. exact E.
Qed.

(* a move: the cut, then an action at a node outside the segment *)
Lemma Seg_move T st c act p (ins : forest -> forest -> forest) : Seg T st -> NoDup (ids (store st)) -> ~ In c (ids T) -> ~ In p (ids T) ->
  (forall t, suffix_local (act t)) -> (forall t f, ins t f = fact (act t) p f) ->
  Seg T (move st c ins).
Proof.
  intros HS Hnd Hc Hp Hl Hins. unfold move. destruct (fcut c (store st)) as [[f' t]|] eqn:Ecut; [|exact HS].
  destruct (Seg_cut T st c f' t HS Hnd Hc Ecut) as (A & B & E). cbn [store with_store]. rewrite Hins.
  pose proof (nodup_cut st c f' t Hnd Ecut) as Hnd'. rewrite E in *. apply fact_seg; [apply Hl|exact Hnd'|exact Hp].
Qed.

(* ---------- a tree that meets the segment lies in the segment ---------- *)

Lemma tree_in_prefix T : forall B A2 B2 r vr kr x, NoDup (ids (fapp T B)) ->
  fapp T B = fapp A2 (FCons r vr kr B2) -> In x (r :: ids kr) -> In x (ids T) -> incl (r :: ids kr) (ids T).
Proof.
  induction T as [|t vt kt _ T' IH]; intros B A2 B2 r vr kr x Hnd E Hx HxT; [destruct HxT|].
  cbn [fapp] in E. destruct A2 as [|a va ka A2']; cbn [fapp] in E.
  - inversion E; subst. intros y Hy. cbn [ids]. destruct Hy as [Hy|Hy]; [left; exact Hy|right; apply in_or_app; left; exact Hy].
  - injection E as E1 E2 E3 H0. subst a va ka. cbn [fapp ids] in Hnd. pose proof Hnd as Hnd0. apply NoDup_cons_app_inv in Hnd as (_ & _ & _ & Hnd' & Hkr).
    cbn [ids] in HxT. destruct HxT as [HxT|HxT].
    + (* x is the root of the first tree, but it is in the later tree R *)
      exfalso. subst x. inversion Hnd0 as [|? ? Hni _]; subst. apply Hni. apply in_or_app. right. rewrite H0, ids_fapp. apply in_or_app. right.
      cbn [ids]. destruct Hx as [Hx|Hx]; [left; exact Hx|right; apply in_or_app; left; exact Hx].
    + apply in_app_or in HxT as [HxT|HxT].
      * exfalso. eapply NoDup_app_not_in; [exact Hkr|exact HxT|]. rewrite H0, ids_fapp. apply in_or_app. right.
        cbn [ids]. destruct Hx as [Hx|Hx]; [left; exact Hx|right; apply in_or_app; left; exact Hx].
      * intros y Hy. cbn [ids]. right. apply in_or_app. right. eapply (IH _ _ _ _ _ _ x Hnd' H0 Hx HxT). exact Hy.
Qed.

Lemma tree_in_segment A : forall T B A2 B2 r vr kr x, NoDup (ids (fapp A (fapp T B))) ->
  fapp A (fapp T B) = fapp A2 (FCons r vr kr B2) -> In x (r :: ids kr) -> In x (ids T) -> incl (r :: ids kr) (ids T).
Proof.
  induction A as [|a va ka _ A' IH]; intros T B A2 B2 r vr kr x Hnd E Hx HxT; cbn [fapp] in *.
  - eapply tree_in_prefix; eauto.
  - destruct A2 as [|a2 va2 ka2 A2']; cbn [fapp] in E.
    + inversion E; subst. exfalso. cbn [ids] in Hnd. rewrite !ids_fapp in Hnd.
      assert (In x ((r :: ids kr) ++ ids A')) as H2 by (apply in_or_app; left; exact Hx).
      rewrite app_comm_cons, app_assoc in Hnd. eapply NoDup_app_not_in; [exact Hnd|exact H2|]. apply in_or_app. left. exact HxT.
    + injection E as E1 E2 E3 H0. subst a2 va2 ka2. cbn [ids] in Hnd. apply NoDup_cons_app_inv in Hnd as (_ & _ & _ & Hnd' & _). eapply IH; eauto.
Qed.

Lemma out_of_seg st T y zy x : Seg T st -> NoDup (ids (store st)) -> cur st y = Some zy -> ~ In y (ids T) ->
  In x (ids (plug zy)) -> ~ In x (ids T).
Proof.
  intros (A & B & E) Hnd Hc Hy Hx HxT. apply Hy. pose proof (locate_zroot _ _ _ Hc) as (Htc & A2 & B2 & Ez).
  destruct (top_clean_plug zy Htc) as (r & vr & kr & Hp). rewrite Hp in *. cbn [fapp] in Ez. rewrite E in Ez, Hnd.
  cbn [ids] in Hx. rewrite app_nil_r in Hx.
  pose proof (tree_in_segment A T B A2 B2 r vr kr x Hnd Ez Hx HxT) as Hincl. apply Hincl.
  assert (In (z_slot zy) (ids (FCons r vr kr FNil))) as Hin by (rewrite <- Hp; apply slot_in_plug).
  cbn [ids] in Hin. rewrite app_nil_r in Hin. apply locate_slot in Hc. destruct Hc as [<- _]. exact Hin.
Qed.

Section Out.
  Variables (T : forest) (st : xstate).
  Hypothesis HS : Seg T st.
  Hypothesis Hnd : NoDup (ids (store st)).

  Lemma sq_prev_out y x : ~ In y (ids T) -> q_prev st y = Some x -> ~ In x (ids T).
  Proof.
    intros Hy H. destruct (q_prev_cur _ _ _ Hnd H) as (z & s & Hz & Hs & Hl & _).
    apply (out_of_seg st T y z x HS Hnd Hz Hy). pose proof (moved_in_plug st y z s Hnd Hz (or_intror (or_introl Hl))) as Hin.
    apply locate_slot in Hs. destruct Hs as [E _]. rewrite E in Hin. exact Hin.
  Qed.

  Lemma sq_next_out y x : ~ In y (ids T) -> q_next st y = Some x -> ~ In x (ids T).
  Proof.
    intros Hy H. destruct (q_next_cur _ _ _ Hnd H) as (z & s & Hz & Hs & Hl & _).
    apply (out_of_seg st T y z x HS Hnd Hz Hy). pose proof (moved_in_plug st y z s Hnd Hz (or_introl Hl)) as Hin.
    apply locate_slot in Hs. destruct Hs as [E _]. rewrite E in Hin. exact Hin.
  Qed.

  Lemma sq_parent_out y x : ~ In y (ids T) -> q_parent st y = Some x -> ~ In x (ids T).
  Proof.
    intros Hy H. unfold q_parent in H. destruct (cur st y) as [z|] eqn:Hz; [|discriminate].
    unfold parent in H. destruct (up z) as [s|] eqn:Hu; [|discriminate]. inversion H; subst x.
    apply (out_of_seg st T y z _ HS Hnd Hz Hy). apply (moved_in_plug st y z s Hnd Hz). right. right. left. exact Hu.
  Qed.

  Lemma sq_last_child_out y x : ~ In y (ids T) -> q_last_child st y = Some x -> ~ In x (ids T).
  Proof.
    intros Hy H. unfold q_last_child in H. destruct (cur st y) as [z|] eqn:Hz; [|discriminate].
    unfold last_child in H. destruct (down_last z) as [s|] eqn:Hd; [|discriminate]. destruct (znormal s); [|discriminate]. inversion H; subst x.
    apply (out_of_seg st T y z _ HS Hnd Hz Hy). apply (moved_in_plug st y z s Hnd Hz). right. right. right. right. exact Hd.
  Qed.

  Lemma schild_out y z c : ~ In y (ids T) -> cur st y = Some z -> In c (arena_children z) -> ~ In (z_slot c) (ids T).
  Proof.
    intros Hy Hz Hc. apply (out_of_seg st T y z _ HS Hnd Hz Hy). apply kids_in_plug.
    unfold arena_children in Hc. eapply level_slot_in. exact Hc.
  Qed.

  Lemma sq_first_child_out y x : ~ In y (ids T) -> q_first_child st y = Some x -> ~ In x (ids T).
  Proof.
    intros Hy H. unfold q_first_child in H. destruct (cur st y) as [z|] eqn:Hz; [|discriminate].
    unfold first_child, normal_children in H. destruct (skip_while _ (arena_children z)) as [|c l] eqn:E; [discriminate|]. cbn in H. inversion H; subst x.
    apply (schild_out y z c Hy Hz). eapply skip_while_in. rewrite E. left. reflexivity.
  Qed.

  Lemma smap_get_node_out k e key x : ~ In e (ids T) -> map_get_node st k e key = Some x -> ~ In x (ids T).
  Proof.
    intros He H. unfold map_get_node in H. destruct (cur st e) as [z|] eqn:Hz; [|discriminate].
    destruct (List.find _ (map_nodes k z)) as [c|] eqn:Ef; [|discriminate]. cbn in H. inversion H; subst x.
    apply find_some in Ef as [Hin _]. apply (schild_out e z c He Hz).
    destruct k; cbn [map_nodes] in Hin.
    - unfold attribute_nodes in Hin. apply take_while_in in Hin as [_ Hin]. apply skip_while_in in Hin. exact Hin.
    - unfold namespace_nodes in Hin. apply take_while_in in Hin as [_ Hin]. exact Hin.
  Qed.

  Lemma sabnormal_out y x : ~ In y (ids T) -> In x (abnormal_child_slots st y) -> ~ In x (ids T).
  Proof.
    intros Hy H. unfold abnormal_child_slots in H. destruct (cur st y) as [z|] eqn:Hz; [|destruct H].
    unfold slots_of in H. apply in_map_iff in H as (c & <- & Hc). apply (schild_out y z c Hy Hz).
    unfold abnormal_children in Hc. apply take_while_in in Hc. tauto.
  Qed.
End Out.

(* ---------- the calls ---------- *)

Lemma Seg_rc T st a b : NoDup (ids (store st)) -> Seg T st -> (forall p, a = Some p -> ~ In p (ids T)) -> (forall x, b = Some x -> ~ In x (ids T)) ->
  Seg T (fst (remove_consolidate st a b)).
Proof.
  intros Hnd HS Ha Hb. unfold remove_consolidate. destruct (negb (cons st)); [exact HS|].
  destruct a as [p|]; [|exact HS]. destruct b as [x|]; [|exact HS].
  destruct (val st p) as [[]|]; try exact HS. destruct (val st x) as [[]|]; try exact HS. cbn [fst].
  apply Seg_remove_single; [apply Seg_fset_val; [exact HS|exact Hnd|apply Ha; reflexivity]|cbn [store with_store]; rewrite nodes_fset_val_ids; exact Hnd|apply Hb; reflexivity].
Qed.

Lemma Seg_ac T st node a b : NoDup (ids (store st)) -> Seg T st -> ~ In node (ids T) -> (forall p, a = Some p -> ~ In p (ids T)) -> (forall x, b = Some x -> ~ In x (ids T)) ->
  Seg T (fst (add_consolidate st node a b)).
Proof.
  intros Hnd HS Hn Ha Hb. unfold add_consolidate. destruct (negb (cons st)); [exact HS|].
  destruct (val st node) as [[]|]; try exact HS.
  assert (forall q g, ~ In q (ids T) -> Seg T (remove_single_raw (with_store st (fset_val q g (store st))) node)) as Hm.
  { intros q g Hq. apply Seg_remove_single; [apply Seg_fset_val; assumption|cbn [store with_store]; rewrite nodes_fset_val_ids; exact Hnd|exact Hn]. }
  assert (Seg T (fst (match b with
                      | Some n => match val st n with
                                  | Some (VText _) => (remove_single_raw (with_store st (fset_val n (prepend_text_to s) (store st))) node, true)
                                  | _ => (st, false)
                                  end
                      | None => (st, false)
                      end))) as Hnext.
  { destruct b as [x|]; [|exact HS]. destruct (val st x) as [[]|]; try exact HS. cbn [fst]. apply Hm. apply Hb. reflexivity. }
  destruct a as [p|]; [|exact Hnext]. destruct (val st p) as [[]|]; try exact Hnext. cbn [fst]. apply Hm. apply Ha. reflexivity.
Qed.

Lemma Seg_move_kids T st c p g : Seg T st -> NoDup (ids (store st)) -> ~ In c (ids T) -> ~ In p (ids T) ->
  Seg T (move st c (fun t f => fmap_kids p (g t) f)).
Proof.
  intros HS Hnd Hc Hp. apply (Seg_move T st c (fun t => a_kids (g t)) p); auto; [intros; apply sl_kids|intros; apply fmap_kids_fact].
Qed.

(* append / prepend share their shape: the consolidations, then a move into the children of [p] *)
Lemma Seg_m_append T st p c : Good st -> Seg T st -> ~ In p (ids T) -> ~ In c (ids T) -> Seg T (fst (m_append st p c)).
Proof.
  intros G HS Hp Hc. unfold m_append. destruct (negb _); [exact HS|]. destruct (opt_eqb _ _); [exact HS|].
  pose proof (Seg_rc T st (q_prev st c) (q_next st c) (Good_nodup _ G) HS (fun x H => sq_prev_out T st HS (Good_nodup _ G) c x Hc H) (fun x H => sq_next_out T st HS (Good_nodup _ G) c x Hc H)) as H1.
  pose proof (Ext_remove_consolidate st (q_prev st c) (q_next st c) G) as X1.
  destruct (remove_consolidate st (q_prev st c) (q_next st c)) as [st1 m0]. cbn [fst] in *. pose proof (ext_good _ _ X1) as G1.
  cbv zeta. set (last := if opt_eqb (q_last_child st1 p) (Some c) then q_prev st1 c else q_last_child st1 p).
  assert (forall x, last = Some x -> ~ In x (ids T)) as Hlast.
  { intros x H. unfold last in H. destruct (opt_eqb _ _); [exact (sq_prev_out T st1 H1 (Good_nodup _ G1) c x Hc H)|exact (sq_last_child_out T st1 H1 (Good_nodup _ G1) p x Hp H)]. }
  pose proof (Seg_ac T st1 c last None (Good_nodup _ G1) H1 Hc Hlast (fun x H => ltac:(discriminate))) as H2.
  pose proof (Ext_add_consolidate st1 c last None G1) as X2.
  destruct (add_consolidate st1 c last None) as [st2 m]. cbn [fst] in *.
  destruct m; cbn [fst]; [exact H2|]. apply Seg_move_kids; auto. apply Good_nodup. apply X2.
Qed.

Lemma Seg_m_prepend T st p c : Good st -> Seg T st -> ~ In p (ids T) -> ~ In c (ids T) -> Seg T (fst (m_prepend st p c)).
Proof.
  intros G HS Hp Hc. unfold m_prepend. destruct (negb _); [exact HS|]. destruct (opt_eqb _ _); [exact HS|].
  pose proof (Seg_rc T st (q_prev st c) (q_next st c) (Good_nodup _ G) HS (fun x H => sq_prev_out T st HS (Good_nodup _ G) c x Hc H) (fun x H => sq_next_out T st HS (Good_nodup _ G) c x Hc H)) as H1.
  pose proof (Ext_remove_consolidate st (q_prev st c) (q_next st c) G) as X1.
  destruct (remove_consolidate st (q_prev st c) (q_next st c)) as [st1 m0]. cbn [fst] in *. pose proof (ext_good _ _ X1) as G1.
  pose proof (Seg_ac T st1 c None (q_first_child st1 p) (Good_nodup _ G1) H1 Hc (fun x H => ltac:(discriminate)) (fun x H => sq_first_child_out T st1 H1 (Good_nodup _ G1) p x Hp H)) as H2.
  pose proof (Ext_add_consolidate st1 c None (q_first_child st1 p) G1) as X2.
  destruct (add_consolidate st1 c None (q_first_child st1 p)) as [st2 m]. cbn [fst] in *.
  destruct m; cbn [fst]; [exact H2|]. apply Seg_move_kids; auto. apply Good_nodup. apply X2.
Qed.

Lemma Seg_m_insert_after T st r n : Good st -> Seg T st -> ~ In r (ids T) -> ~ In n (ids T) -> Seg T (fst (m_insert_after st r n)).
Proof.
  intros G HS Hr Hn. unfold m_insert_after. destruct (negb _); [exact HS|]. destruct (opt_eqb _ _); [exact HS|].
  pose proof (Seg_rc T st (q_prev st n) (q_next st n) (Good_nodup _ G) HS (fun x H => sq_prev_out T st HS (Good_nodup _ G) n x Hn H) (fun x H => sq_next_out T st HS (Good_nodup _ G) n x Hn H)) as H1.
  pose proof (Ext_remove_consolidate st (q_prev st n) (q_next st n) G) as X1.
  destruct (remove_consolidate st (q_prev st n) (q_next st n)) as [st1 m0]. cbn [fst] in *. pose proof (ext_good _ _ X1) as G1.
  destruct (m0 && _); [exact H1|].
  pose proof (Seg_ac T st1 n (Some r) (q_next st1 r) (Good_nodup _ G1) H1 Hn (fun x H => ltac:(inversion H; subst; exact Hr)) (fun x H => sq_next_out T st1 H1 (Good_nodup _ G1) r x Hr H)) as H2.
  pose proof (Ext_add_consolidate st1 n (Some r) (q_next st1 r) G1) as X2.
  destruct (add_consolidate st1 n (Some r) (q_next st1 r)) as [st2 m]. cbn [fst] in *.
  destruct m; cbn [fst]; [exact H2|].
  apply (Seg_move T st2 n (fun t => a_after t) r); auto; [apply Good_nodup; apply X2|intros; apply sl_after|intros; apply finsert_after_fact].
Qed.

Lemma Seg_m_insert_before T st r n : Good st -> Seg T st -> ~ In r (ids T) -> ~ In n (ids T) -> Seg T (fst (m_insert_before st r n)).
Proof.
  intros G HS Hr Hn. unfold m_insert_before. destruct (negb _); [exact HS|]. destruct (opt_eqb _ _); [exact HS|].
  pose proof (Seg_rc T st (q_prev st n) (q_next st n) (Good_nodup _ G) HS (fun x H => sq_prev_out T st HS (Good_nodup _ G) n x Hn H) (fun x H => sq_next_out T st HS (Good_nodup _ G) n x Hn H)) as H1.
  pose proof (Ext_remove_consolidate st (q_prev st n) (q_next st n) G) as X1.
  destruct (remove_consolidate st (q_prev st n) (q_next st n)) as [st1 m0]. cbn [fst] in *. pose proof (ext_good _ _ X1) as G1.
  cbv zeta. set (prev := if opt_eqb (q_prev st1 r) (Some n) then q_prev st1 n else q_prev st1 r).
  assert (forall x, prev = Some x -> ~ In x (ids T)) as Hprev.
  { intros x H. unfold prev in H. destruct (opt_eqb _ _); [exact (sq_prev_out T st1 H1 (Good_nodup _ G1) n x Hn H)|exact (sq_prev_out T st1 H1 (Good_nodup _ G1) r x Hr H)]. }
  pose proof (Seg_ac T st1 n prev (Some r) (Good_nodup _ G1) H1 Hn Hprev (fun x H => ltac:(inversion H; subst; exact Hr))) as H2.
  pose proof (Ext_add_consolidate st1 n prev (Some r) G1) as X2.
  destruct (add_consolidate st1 n prev (Some r)) as [st2 m]. cbn [fst] in *.
  destruct m; cbn [fst]; [exact H2|].
  apply (Seg_move T st2 n (fun t => a_before t) r); auto; [apply Good_nodup; apply X2|intros; apply sl_before|intros; apply finsert_before_fact].
Qed.

Lemma Seg_m_detach T st n : Good st -> Seg T st -> ~ In n (ids T) -> Seg T (fst (m_detach st n)).
Proof.
  intros G HS Hn. unfold m_detach. cbn [fst]. pose proof (Ext_detach_raw st n G) as X.
  apply Seg_rc; [apply Good_nodup; apply X|apply Seg_detach_raw; [exact HS|apply Good_nodup; exact G|exact Hn]| |].
  - intros x H. exact (sq_prev_out T st HS (Good_nodup _ G) n x Hn H).
  - intros x H. exact (sq_next_out T st HS (Good_nodup _ G) n x Hn H).
Qed.

Lemma Seg_m_remove T st n : Good st -> Seg T st -> ~ In n (ids T) -> Seg T (fst (m_remove st n)).
Proof.
  intros G HS Hn. unfold m_remove. cbn [fst]. pose proof (Ext_remove_subtree_raw st n G) as X.
  apply Seg_rc; [apply Good_nodup; apply X|apply Seg_remove_subtree_raw; [exact HS|apply Good_nodup; exact G|exact Hn]| |].
  - intros x H. exact (sq_prev_out T st HS (Good_nodup _ G) n x Hn H).
  - intros x H. exact (sq_next_out T st HS (Good_nodup _ G) n x Hn H).
Qed.


Lemma Seg_ids T st : Seg T st -> incl (ids T) (ids (store st)).
Proof. intros (A & B & E) x Hx. rewrite E, !ids_fapp. apply in_or_app. right. apply in_or_app. left. exact Hx. Qed.

Lemma Seg_fresh T st v st1 i : Good st -> Seg T st -> new_node st v = (st1, i) -> ~ In i (ids T).
Proof. intros G HS Hn Hx. destruct (Ext_new_node _ _ _ _ G Hn) as (_ & Hni & _). apply Hni. apply (Seg_ids T st HS). exact Hx. Qed.

Lemma Seg_m_replace T st a b : Good st -> Seg T st -> ~ In a (ids T) -> ~ In b (ids T) -> Seg T (fst (m_replace st a b)).
Proof.
  intros G HS Ha Hb. pose proof (Good_nodup _ G) as Hnd. unfold m_replace. destruct (is_type st a TDocument); [exact HS|].
  destruct (q_parent st a) as [parent|] eqn:Ep; [|exact HS].
  pose proof (sq_parent_out T st HS Hnd a parent Ha Ep) as Hpar.
  destruct (negb _); [exact HS|]. destruct (N.eqb a b); [exact HS|]. destruct (negb _); [exact HS|].
  pose proof (Ext_detach_raw st a G) as X1. pose proof (ext_good _ _ X1) as G1.
  pose proof (Seg_detach_raw T st a HS Hnd Ha) as H1.
  assert (forall p, q_prev st a = Some p -> ~ In p (ids T)) as Hprev by (intros p H; exact (sq_prev_out T st HS Hnd a p Ha H)).
  assert (forall x, q_next st a = Some x -> ~ In x (ids T)) as Hnext by (intros x H; exact (sq_next_out T st HS Hnd a x Ha H)).
  match goal with |- Seg T (fst (let '(st2, o) := ?X in _)) =>
    assert (Seg T (fst X) /\ Good (fst X)) as [H2 G2]; [|destruct X as [st2 o]] end.
  { destruct (_ || _); [split; assumption|]. destruct (q_prev st a) as [p|] eqn:Eq.
    - split; [apply Seg_m_insert_after; auto|exact (ext_good _ _ (Ext_m_insert_after _ _ _ G1))].
    - split; [apply Seg_m_prepend; auto|exact (ext_good _ _ (Ext_m_prepend _ _ _ G1))]. }
  cbn [fst] in *. destruct o; cbn [fst]; try exact H2.
  pose proof (Seg_remove_subtree_raw T st2 a H2 (Good_nodup _ G2) Ha) as H3.
  pose proof (ext_good _ _ (Ext_remove_subtree_raw st2 a G2)) as G3.
  destruct (q_prev st a) as [p|]; [|exact H3]. destruct (q_next st a) as [x|]; [|exact H3].
  destruct (_ && _); [|exact H3]. cbn [fst]. apply Seg_rc; [apply Good_nodup; exact G3|exact H3| |].
  - intros q H. inversion H; subst. apply Hprev. reflexivity.
  - intros q H. inversion H; subst. apply Hnext. reflexivity.
Qed.

Lemma Seg_m_wrap T st n name : Good st -> Seg T st -> ~ In n (ids T) -> Seg T (fst (m_wrap st n name)).
Proof.
  intros G HS Hn. pose proof (Good_nodup _ G) as Hnd. unfold m_wrap. destruct (is_type st n TDocument); [exact HS|]. destruct (negb _); [exact HS|].
  destruct (q_parent st n) as [parent|] eqn:Ep.
  - pose proof (sq_parent_out T st HS Hnd n parent Hn Ep) as Hpar.
    destruct (_ && _); [exact HS|].
    assert (forall p, q_prev st n = Some p -> ~ In p (ids T)) as Hprev by (intros p H; exact (sq_prev_out T st HS Hnd n p Hn H)).
    destruct (new_node st (VElement name)) as [st1 w] eqn:Hw.
    destruct (Ext_new_node _ _ _ _ G Hw) as (X1 & _). pose proof (ext_good _ _ X1) as G1.
    pose proof (Seg_new_node T _ _ _ _ HS Hw) as H1. pose proof (Seg_fresh T st _ _ _ G HS Hw) as Hwf.
    pose proof (Seg_detach_raw T st1 n H1 (Good_nodup _ G1) Hn) as H2. pose proof (ext_good _ _ (Ext_detach_raw st1 n G1)) as G2.
    pose proof (Seg_m_append T (detach_raw st1 n) w n G2 H2 Hwf Hn) as H3.
    pose proof (ext_good _ _ (Ext_m_append (detach_raw st1 n) w n G2)) as G3.
    destruct (m_append (detach_raw st1 n) w n) as [st3 o3]. cbn [fst] in *. destruct o3; cbn [fst]; try exact H3.
    match goal with |- Seg T (fst (let '(st4, o4) := ?X in _)) => assert (Seg T (fst X)) as H4; [|destruct X as [st4 o4]] end.
    { destruct (q_prev st n) as [p|]; [apply Seg_m_insert_after; auto|apply Seg_m_prepend; auto]. }
    cbn [fst] in H4. destruct o4; exact H4.
  - destruct (new_node st (VElement name)) as [st1 w] eqn:Hw.
    destruct (Ext_new_node _ _ _ _ G Hw) as (X1 & _). pose proof (ext_good _ _ X1) as G1.
    pose proof (Seg_new_node T _ _ _ _ HS Hw) as H1. pose proof (Seg_fresh T st _ _ _ G HS Hw) as Hwf.
    pose proof (Seg_m_append T st1 w n G1 H1 Hwf Hn) as H2. destruct (m_append st1 w n) as [st2 o]. cbn [fst] in H2. destruct o; exact H2.
Qed.

Lemma nodup_remove_single st a : NoDup (ids (store st)) -> NoDup (ids (store (remove_single_raw st a))).
Proof.
  intros Hnd. unfold remove_single_raw. cbn [store free_slots with_store].
  destruct (in_dec N.eq_dec a (ids (store st))) as [Hin|Hni].
  - pose proof (ids_fsplice a _ Hnd Hin) as Hp. eapply Permutation_NoDup in Hnd; [|exact Hp]. inversion Hnd; assumption.
  - rewrite fsplice_absent by exact Hni. exact Hnd.
Qed.

Lemma nodup_rc st a b : NoDup (ids (store st)) -> NoDup (ids (store (fst (remove_consolidate st a b)))).
Proof.
  intros Hnd. unfold remove_consolidate. destruct (negb (cons st)); [exact Hnd|].
  destruct a as [p|]; [|exact Hnd]. destruct b as [x|]; [|exact Hnd].
  destruct (val st p) as [[]|]; try exact Hnd. destruct (val st x) as [[]|]; try exact Hnd. cbn [fst].
  apply nodup_remove_single. cbn [store with_store]. rewrite nodes_fset_val_ids. exact Hnd.
Qed.

Lemma Seg_fold_remove_single T l : forall st, NoDup (ids (store st)) -> Seg T st -> (forall x, In x l -> ~ In x (ids T)) ->
  Seg T (fold_left remove_single_raw l st) /\ NoDup (ids (store (fold_left remove_single_raw l st))).
Proof.
  induction l as [|a l IH]; intros st Hnd HS Hl; cbn [fold_left]; [auto|].
  apply IH; [apply nodup_remove_single; exact Hnd|apply Seg_remove_single; auto; apply Hl; left; reflexivity|intros x Hx; apply Hl; right; exact Hx].
Qed.

Lemma Seg_m_unwrap T st n : Good st -> Seg T st -> ~ In n (ids T) -> Seg T (fst (m_unwrap st n)).
Proof.
  intros G HS Hn. pose proof (Good_nodup _ G) as Hnd. unfold m_unwrap. destruct (negb _); [exact HS|].
  destruct (q_first_child st n) as [first|] eqn:Ef; [|apply Seg_m_remove; assumption].
  destruct (q_last_child st n) as [last|] eqn:El; [|exact HS].
  destruct (_ && _); [exact HS|].
  pose proof (sq_first_child_out T st HS Hnd n first Hn Ef) as Hfirst. pose proof (sq_last_child_out T st HS Hnd n last Hn El) as Hlast.
  destruct (Seg_fold_remove_single T (abnormal_child_slots st n) st Hnd HS (fun x H => sabnormal_out T st HS Hnd n x Hn H)) as [H1 N1].
  set (st1 := fold_left remove_single_raw (abnormal_child_slots st n) st) in *.
  pose proof (Seg_remove_single T st1 n H1 N1 Hn) as H2. pose proof (nodup_remove_single st1 n N1) as N2.
  set (st2 := remove_single_raw st1 n) in *.
  pose proof (Seg_rc T st2 (q_prev st2 first) (Some first) N2 H2 (fun x H => sq_prev_out T st2 H2 N2 first x Hfirst H) (fun x H => ltac:(inversion H; subst; exact Hfirst))) as H3.
  pose proof (nodup_rc st2 (q_prev st2 first) (Some first) N2) as N3.
  destruct (remove_consolidate st2 (q_prev st2 first) (Some first)) as [st3 m]. cbn [fst] in *.
  assert (Seg T (fst (remove_consolidate st3 (Some last) (q_next st3 last)))) as Hlastrc.
  { apply Seg_rc; auto; [intros x H; inversion H; subst; exact Hlast|intros x H; exact (sq_next_out T st3 H3 N3 last x Hlast H)]. }
  destruct m; [destruct (N.eqb first last)|]; cbn [fst]; try exact Hlastrc.
  apply Seg_rc; auto; [intros x H; exact (sq_prev_out T st2 H2 N2 first x Hfirst H)|intros x H; exact (sq_next_out T st2 H2 N2 last x Hlast H)].
Qed.

(* ---------- maps, any_append, clone_node, text_content_mut ---------- *)

Lemma Seg_map_attach T st k e node : Good st -> Seg T st -> ~ In e (ids T) -> ~ In node (ids T) -> Seg T (map_attach st k e node).
Proof. intros G HS He Hn. unfold map_attach. apply Seg_move_kids; auto. apply Good_nodup. exact G. Qed.

Lemma Seg_map_insert_node T st k e node : Good st -> Seg T st -> ~ In e (ids T) -> ~ In node (ids T) ->
  Seg T (fst (map_insert_node st k e node)).
Proof.
  intros G HS He Hn. pose proof (Good_nodup _ G) as Hnd. unfold map_insert_node. destruct (val st node); [|exact HS].
  destruct (map_get_node st k e (key_of v)) as [ex|] eqn:Eg; cbn [fst].
  - apply Seg_fset_val; [exact HS|exact Hnd|]. exact (smap_get_node_out T st HS Hnd k e _ ex He Eg).
  - apply Seg_map_attach; assumption.
Qed.

Lemma Seg_map_insert T st k e newv : Good st -> Seg T st -> ~ In e (ids T) -> Seg T (map_insert st k e newv).
Proof.
  intros G HS He. pose proof (Good_nodup _ G) as Hnd. unfold map_insert.
  destruct (map_get_node st k e (key_of newv)) as [n|] eqn:Eg.
  - apply Seg_fset_val; [exact HS|exact Hnd|]. exact (smap_get_node_out T st HS Hnd k e _ n He Eg).
  - destruct (new_node st newv) as [st1 n] eqn:Hn. destruct (Ext_new_node _ _ _ _ G Hn) as (X & _).
    apply Seg_map_attach; [apply X|eapply Seg_new_node; eauto|exact He|eapply Seg_fresh; eauto].
Qed.

Lemma Seg_map_remove T st k e key : Good st -> Seg T st -> ~ In e (ids T) -> Seg T (map_remove st k e key).
Proof.
  intros G HS He. unfold map_remove. destruct (map_get_node st k e key) as [n|] eqn:Eg; [|exact HS].
  apply Seg_m_remove; auto. exact (smap_get_node_out T st HS (Good_nodup _ G) k e _ n He Eg).
Qed.

Lemma Seg_fold_remove T l : forall st, Good st -> Seg T st -> (forall x, In x l -> ~ In x (ids T)) ->
  Seg T (fold_left (fun s n => fst (m_remove s n)) l st).
Proof.
  induction l as [|a l IH]; intros st G HS Hl; cbn [fold_left]; [exact HS|].
  apply IH; [exact (ext_good _ _ (Ext_m_remove st a G))|apply Seg_m_remove; auto; apply Hl; left; reflexivity|intros x Hx; apply Hl; right; exact Hx].
Qed.

Lemma Seg_map_clear T st k e : Good st -> Seg T st -> ~ In e (ids T) -> Seg T (map_clear st k e).
Proof.
  intros G HS He. unfold map_clear. destruct (cur st e) as [z|] eqn:Hz; [|exact HS]. apply Seg_fold_remove; auto.
  intros x Hx. unfold slots_of in Hx. apply in_map_iff in Hx as (c & <- & Hc). apply (schild_out T st HS (Good_nodup _ G) e z c He Hz).
  destruct k; cbn [map_nodes] in Hc.
  - unfold attribute_nodes in Hc. apply take_while_in in Hc as [_ Hc]. apply skip_while_in in Hc. exact Hc.
  - unfold namespace_nodes in Hc. apply take_while_in in Hc as [_ Hc]. exact Hc.
Qed.

Lemma Seg_m_any_append T st p c : Good st -> Seg T st -> ~ In p (ids T) -> ~ In c (ids T) -> Seg T (fst (m_any_append st p c)).
Proof.
  intros G HS Hp Hc. unfold m_any_append. destruct (val st c) as [[]|];
    try (pose proof (Seg_m_append T st p c G HS Hp Hc) as X; destruct (m_append st p c) as [s1 o]; destruct o; exact X);
    (destruct (negb _); [exact HS|]).
  - pose proof (Seg_map_insert_node T st KAttr p c G HS Hp Hc) as X. destruct (map_insert_node st KAttr p c). exact X.
  - pose proof (Seg_map_insert_node T st KNs p c G HS Hp Hc) as X. destruct (map_insert_node st KNs p c). exact X.
Qed.

Lemma Seg_clone_edges T es : forall st current st', Good st -> Seg T st -> ~ In current (ids T) ->
  clone_edges es st current = Some st' -> Seg T st'.
Proof.
  induction es as [|e es IH]; intros st current st' G HS Hcur; cbn [clone_edges]; [intros H; inversion H; subst; exact HS|].
  destruct e as [z|z].
  - destruct (z_val z) eqn:Ev; try (apply IH; assumption).
    all: match goal with |- context [new_node ?s ?v] => destruct (new_node s v) as [st1 nn] eqn:Hn end.
    all: destruct (Ext_new_node _ _ _ _ G Hn) as (X & _); pose proof (ext_good _ _ X) as G1;
      pose proof (Seg_new_node T _ _ _ _ HS Hn) as HS1; pose proof (Seg_fresh T _ _ _ _ G HS Hn) as Hnn;
      pose proof (Seg_m_any_append T st1 current nn G1 HS1 Hcur Hnn) as HS2;
      pose proof (ext_good _ _ (Ext_m_any_append st1 current nn G1)) as G2;
      destruct (m_any_append st1 current nn) as [st2 o]; cbn [fst] in *; destruct o; try discriminate;
      apply IH; try assumption; try (destruct (vtype_eqb _ _); assumption).
  - destruct (vtype_eqb _ _); [|apply IH; assumption]. destruct (q_parent st current) as [p|] eqn:Ep; [|discriminate].
    apply IH; try assumption. exact (sq_parent_out T st HS (Good_nodup _ G) current p Hcur Ep).
Qed.

Lemma Seg_m_clone T st n : Good st -> Seg T st -> Seg T (fst (m_clone st n)).
Proof.
  intros G HS. unfold m_clone. destruct (cur st n) as [z|]; [|exact HS].
  destruct (z_val z) as [|n0|ts|pt pd|cs|an av|np nn];
    try (match goal with |- context [new_node st ?v] => destruct (new_node st v) as [st1 c] eqn:Hn end; cbn [fst];
         exact (Seg_new_node _ _ _ _ _ HS Hn)).
  - destruct (new_node st VDocument) as [st1 top] eqn:Hn. destruct (Ext_new_node _ _ _ _ G Hn) as (X & _).
    pose proof (Seg_new_node _ _ _ _ _ HS Hn) as HS1. pose proof (Seg_fresh T _ _ _ _ G HS Hn) as Htop.
    destruct (clone_edges (all_traverse z) st1 top) as [st2|] eqn:Ec; cbn [fst]; [|exact HS1].
    exact (Seg_clone_edges _ _ _ _ _ (ext_good _ _ X) HS1 Htop Ec).
  - destruct (new_node st (VElement n0)) as [st1 top] eqn:Hn. destruct (Ext_new_node _ _ _ _ G Hn) as (X & _).
    pose proof (Seg_new_node _ _ _ _ _ HS Hn) as HS1. pose proof (Seg_fresh T _ _ _ _ G HS Hn) as Htop.
    destruct (clone_edges (all_traverse z) st1 top) as [st2|] eqn:Ec; cbn [fst]; [|exact HS1].
    pose proof (Seg_clone_edges _ _ _ _ _ (ext_good _ _ X) HS1 Htop Ec) as HS2.
    assert (is_top st1 top (VElement n0)) as T1.
    { destruct (Ext_new_node _ _ _ _ G Hn) as (_ & _ & Hst & _). unfold is_top. rewrite Hst. cbn. auto. }
    destruct (clone_edges_spec _ _ _ _ top (VElement n0) (ext_good _ _ X) T1 eq_refl Ec) as (X2 & _).
    destruct (q_first_child st2 top); cbn [fst]; [|exact HS2]. apply Seg_remove_single; [exact HS2|apply Good_nodup; apply X2|exact Htop].
Qed.

Lemma Seg_set_value T st n g : Good st -> Seg T st -> ~ In n (ids T) -> Seg T (set_value st n g).
Proof. intros G HS Hn. unfold set_value. apply Seg_fset_val; auto. apply Good_nodup. exact G. Qed.

Lemma Seg_tcm T st n s : Good st -> Seg T st -> ~ In n (ids T) -> Seg T (fst (m_text_content_mut st n s)).
Proof.
  intros G HS Hn. pose proof (Good_nodup _ G) as Hnd. unfold m_text_content_mut.
  destruct (q_first_child st n) as [c|] eqn:Ef.
  - destruct (q_next st c); [exact HS|]. destruct (is_type st c TText); [|exact HS]. cbn [fst].
    apply Seg_set_value; auto. exact (sq_first_child_out T st HS Hnd n c Hn Ef).
  - destruct (is_type st n TElement); [|exact HS].
    destruct (new_node st (VText [])) as [st1 t] eqn:Ht. destruct (Ext_new_node _ _ _ _ G Ht) as (X & _). pose proof (ext_good _ _ X) as G1.
    pose proof (Seg_new_node _ _ _ _ _ HS Ht) as HS1. pose proof (Seg_fresh T _ _ _ _ G HS Ht) as Htf.
    pose proof (Seg_m_append T st1 n t G1 HS1 Hn Htf) as HS2. pose proof (ext_good _ _ (Ext_m_append st1 n t G1)) as G2.
    destruct (m_append st1 n t) as [st2 o]. cbn [fst] in *. destruct o; cbn [fst]; try exact HS2.
    destruct (q_first_child st2 n) as [c|] eqn:Ef2; [|exact HS2]. destruct (is_type st2 c TText); [|exact HS2]. cbn [fst].
    apply Seg_set_value; auto. exact (sq_first_child_out T st2 HS2 (Good_nodup _ G2) n c Hn Ef2).
Qed.

(* ---------- the step theorem ---------- *)

(* the node arguments of a call *)
Definition op_args (o : mop) : list N :=
  match o with
  | ONewDoc | ONewEl _ | ONewText _ | ONewComment _ | ONewPi _ _ | ONewAttr _ _ | ONewNs _ _ | OCons _ => []
  | OAppend p c | OPrepend p c | OInsertAfter p c | OInsertBefore p c | OAnyAppend p c | OAppendAttrNode p c | OAppendNsNode p c
  | OReplace p c => [p; c]
  | ODetach n | ORemove n | OWrap n _ | OUnwrap n | OCloneNode n | OSetName n _ | OSetAttr n _ _ | ORmAttr n _ | OSetNs n _ _ | ORmNs n _
  | OAttrsClear n | ONsClear n | OAttrsGetMutSet n _ _ | OAttrsEntryOrInsert n _ _ | OAttrsEntryModify n _ _ | OAttrsEntryRemove n _
  | ONsGetMutSet n _ _ | ONsEntryOrInsert n _ _ | OSetText n _ | OSetComment n _ | OSetPiData n _ | OSetAttrValue n _ | OSetNsValue n _
  | OTextContentMut n _ | ONewDocWith n => [n]
  end.

Lemma Seg_on_element T st e f : Seg T st -> (Seg T f) -> Seg T (fst (on_element st e f)).
Proof. intros H1 H2. unfold on_element. destruct (is_type st e TElement); assumption. Qed.

Theorem tree_frame T st o : Good st -> Seg T st -> (forall x, In x (op_args o) -> ~ In x (ids T)) -> Seg T (fst (mstep st o)).
Proof.
  intros G HS Ha. pose proof (Good_nodup _ G) as Hnd.
  destruct o; cbn [mstep op_args] in *;
    try (unfold created; match goal with |- context [new_node ?s ?v] => destruct (new_node s v) as [st1 i] eqn:Hn end; cbn [fst];
         exact (Seg_new_node _ _ _ _ _ HS Hn)).
  all: try (assert (~ In p (ids T)) as Hp by (apply Ha; left; reflexivity); assert (~ In c (ids T)) as Hc by (apply Ha; right; left; reflexivity)).
  all: try (assert (~ In n (ids T)) as Hn by (apply Ha; left; reflexivity)).
  all: try (assert (~ In e (ids T)) as He by (apply Ha; left; reflexivity)).
  - apply Seg_m_append; assumption.
  - apply Seg_m_prepend; assumption.
  - apply Seg_m_insert_after; [exact G|exact HS|apply Ha; left; reflexivity|apply Ha; right; left; reflexivity].
  - apply Seg_m_insert_before; [exact G|exact HS|apply Ha; left; reflexivity|apply Ha; right; left; reflexivity].
  - apply Seg_m_any_append; assumption.
  - destruct (negb _); [exact HS|]. destruct (negb _); [exact HS|].
    pose proof (Seg_map_insert_node T st KAttr p c G HS Hp Hc) as X. destruct (map_insert_node st KAttr p c). exact X.
  - destruct (negb _); [exact HS|]. destruct (negb _); [exact HS|].
    pose proof (Seg_map_insert_node T st KNs p c G HS Hp Hc) as X. destruct (map_insert_node st KNs p c). exact X.
  - apply Seg_m_detach; assumption.
  - apply Seg_m_remove; assumption.
  - apply Seg_m_replace; [exact G|exact HS|apply Ha; left; reflexivity|apply Ha; right; left; reflexivity].
  - apply Seg_m_wrap; assumption.
  - apply Seg_m_unwrap; assumption.
  - apply Seg_m_clone; assumption.
  - apply Seg_on_element; [exact HS|apply Seg_set_value; assumption].
  - apply Seg_on_element; [exact HS|apply Seg_map_insert; assumption].
  - apply Seg_on_element; [exact HS|apply Seg_map_remove; assumption].
  - apply Seg_on_element; [exact HS|apply Seg_map_insert; assumption].
  - apply Seg_on_element; [exact HS|apply Seg_map_remove; assumption].
  - apply Seg_on_element; [exact HS|apply Seg_map_clear; assumption].
  - apply Seg_on_element; [exact HS|apply Seg_map_clear; assumption].
  - apply Seg_on_element; [exact HS|]. destruct (map_get_node st KAttr e name) as [m|] eqn:Eg; [|exact HS].
    apply Seg_set_value; auto. exact (smap_get_node_out T st HS Hnd KAttr e _ m He Eg).
  - apply Seg_on_element; [exact HS|]. destruct (map_get_node st KAttr e name); [exact HS|apply Seg_map_insert; assumption].
  - apply Seg_on_element; [exact HS|]. destruct (map_get_node st KAttr e name) as [m|] eqn:Eg; [|apply Seg_map_insert; assumption].
    apply Seg_set_value; auto. exact (smap_get_node_out T st HS Hnd KAttr e _ m He Eg).
  - apply Seg_on_element; [exact HS|apply Seg_map_remove; assumption].
  - apply Seg_on_element; [exact HS|]. destruct (map_get_node st KNs e p) as [m|] eqn:Eg; [|exact HS].
    apply Seg_set_value; auto. exact (smap_get_node_out T st HS Hnd KNs e _ m He Eg).
  - apply Seg_on_element; [exact HS|]. destruct (map_get_node st KNs e p); [exact HS|apply Seg_map_insert; assumption].
  - cbn [fst]. destruct (is_type st n TText); [apply Seg_set_value; assumption|exact HS].
  - destruct (is_type st n TComment); [|exact HS]. destruct (has_double_dash s); [exact HS|]. cbn [fst]. apply Seg_set_value; assumption.
  - cbn [fst]. apply Seg_set_value; assumption.
  - cbn [fst]. apply Seg_set_value; assumption.
  - cbn [fst]. apply Seg_set_value; assumption.
  - apply Seg_tcm; assumption.
  - exact HS.
  - destruct (negb _); [exact HS|]. destruct (new_node st VDocument) as [st1 d] eqn:Hd.
    destruct (Ext_new_node _ _ _ _ G Hd) as (X & _).
    pose proof (Seg_m_append T st1 d e (ext_good _ _ X) (Seg_new_node _ _ _ _ _ HS Hd) (Seg_fresh T _ _ _ _ G HS Hd) He) as H.
    destruct (m_append st1 d e) as [st2 o]. cbn [fst] in H. destruct o; exact H.
Qed.

(* along a history: as long as no call names a node of [T], [T] stays in the store as it is *)
Theorem tree_frame_history T ops : forall st, Good st -> Seg T st ->
  (forall o x, In o ops -> In x (op_args o) -> ~ In x (ids T)) ->
  Seg T (fold_left (fun s o => fst (mstep s o)) ops st).
Proof.
  induction ops as [|o ops IH]; intros st G HS Ha; cbn [fold_left]; [exact HS|].
  apply IH; [exact (ext_good _ _ (Ext_mstep st o G))|apply tree_frame; [exact G|exact HS|intros x Hx; eapply Ha; [left; reflexivity|exact Hx]]|].
  intros o' x Ho Hx. eapply Ha; [right; exact Ho|exact Hx].
Qed.
