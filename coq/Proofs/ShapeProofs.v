(* ShapeProofs.v — the shape predicate of Spec/Shape.v under the forest surgery of Model/Store.v (C04). *)
From Coq Require Import List NArith ZArith Bool Lia Permutation Arith.
From XotV Require Import Model.Base Model.Zipper Model.Access Model.Store Spec.DocOrder Spec.Paths Spec.Shape
                         Proofs.StoreProofs Proofs.ForestFacts.
Import ListNotations.
Open Scope N_scope.

Lemma vrank_le2 v : (vrank v <= 2)%nat.
Proof. destruct v; cbn; lia. Qed.

Lemma vrank_normal v : is_normal v = true <-> vrank v = 2%nat.
Proof. destruct v; cbn; split; intros; try reflexivity; try discriminate. Qed.

Lemma shape_cons c lo i v k r :
  shape c lo (FCons i v k r) = node_ok c lo v && kids_ok v k && shape c (next_lo c v) r.
Proof. reflexivity. Qed.

Lemma next_lo_le2 c v : (next_lo c v <= 2)%nat.
Proof. destruct c; cbn; [lia|apply vrank_le2|apply vrank_le2]. Qed.

Lemma node_ok_weaken c lo lo' v : (lo' <= lo)%nat -> node_ok c lo v = true -> node_ok c lo' v = true.
Proof.
  destruct c; cbn; auto. intros Hle H. apply andb_true_iff in H as [H1 H2]. rewrite H1. cbn.
  apply Nat.leb_le in H2. apply Nat.leb_le. lia.
Qed.

Lemma shape_weaken c f lo lo' : (lo' <= lo)%nat -> shape c lo f = true -> shape c lo' f = true.
Proof.
  destruct f as [|i v k r]; [reflexivity|]. rewrite !shape_cons. intros Hle H.
  apply andb_true_iff in H as [H H3]. apply andb_true_iff in H as [H1 H2].
  rewrite (node_ok_weaken _ _ _ _ Hle H1), H2, H3. reflexivity.
Qed.

(* after a node that is in order, its right siblings are in order from the bound the node started from *)
Lemma shape_tail c lo v r : node_ok c lo v = true -> shape c (next_lo c v) r = true -> shape c lo r = true.
Proof.
  intros Hn. destruct r as [|i v' k' r']; [reflexivity|]. rewrite !shape_cons. intros H.
  apply andb_true_iff in H as [H H3]. apply andb_true_iff in H as [H1 H2]. rewrite H2, H3, !andb_true_r.
  destruct c; cbn in *; auto.
  apply andb_true_iff in Hn as [_ Hn]. apply andb_true_iff in H1 as [H1 H1']. rewrite H1. cbn.
  apply Nat.leb_le in Hn, H1'. apply Nat.leb_le. lia.
Qed.

Lemma shape_root_lo lo f : shape CRoot lo f = shape CRoot 0 f.
Proof. destruct f; reflexivity. Qed.

Lemma shape_to_root f : forall c lo lo', shape c lo f = true -> shape CRoot lo' f = true.
Proof.
  induction f as [|i v k _ r IHr]; intros c lo lo'; [reflexivity|]. rewrite !shape_cons. intros H.
  apply andb_true_iff in H as [H H3]. apply andb_true_iff in H as [H1 H2]. rewrite H2. cbn [node_ok andb next_lo].
  eapply IHr. exact H3.
Qed.

Lemma shape_fapp_root a : forall b, shape CRoot 0 a = true -> shape CRoot 0 b = true -> shape CRoot 0 (fapp a b) = true.
Proof.
  induction a as [|i v k _ r IHr]; intros b; cbn [fapp]; [auto|]. rewrite !shape_cons. intros H Hb.
  apply andb_true_iff in H as [H H3]. apply andb_true_iff in H as [H1 H2]. rewrite H1, H2. cbn [andb next_lo].
  apply IHr; assumption.
Qed.

Lemma kids_ok_to_root v k : kids_ok v k = true -> shape CRoot 0 k = true.
Proof.
  destruct v; cbn [kids_ok]; try (destruct k; [reflexivity|discriminate]); intros H; eapply shape_to_root; exact H.
Qed.

(* a run of ordinary children followed by the ordinary tail of a child list *)
Lemma shape_fapp_normal c k : forall r lo, c <> CRoot -> (lo <= 2)%nat ->
  shape CElem 2 k = true -> shape c 2 r = true -> shape c lo (fapp k r) = true.
Proof.
  induction k as [|i v k' _ r' IHr]; intros r lo Hc Hlo; cbn [fapp].
  - intros _ H. eapply shape_weaken; eauto.
  - rewrite !shape_cons. intros H Hr.
    apply andb_true_iff in H as [H H3]. apply andb_true_iff in H as [H1 H2]. rewrite H2.
    cbn [node_ok] in H1. apply andb_true_iff in H1 as [Hd Hk]. apply Nat.leb_le in Hk.
    assert (vrank v = 2%nat) as Hv by (pose proof (vrank_le2 v); lia).
    assert (node_ok c lo v = true) as ->.
    { destruct c; cbn; [congruence| |].
      - rewrite Hd, andb_true_r. apply vrank_normal. exact Hv.
      - rewrite Hd. cbn. apply Nat.leb_le. lia. }
    cbn [andb]. assert (next_lo c v = 2%nat) as -> by (destruct c; cbn; congruence).
    apply IHr; auto. cbn [next_lo] in H3. rewrite Hv in H3. exact H3.
Qed.

(* ---------- cutting a subtree out ---------- *)

Lemma kids_ok_nil_fcut v k n : kids_ok v k = true -> is_doc v = false -> is_elem v = false -> fcut n k = None.
Proof. destruct v; cbn; try discriminate; destruct k; try discriminate; reflexivity. Qed.

Lemma shape_fcut n f : forall c lo f' i v k, (lo <= 2)%nat -> shape c lo f = true ->
  fcut n f = Some (f', (i, v, k)) -> shape c lo f' = true /\ kids_ok v k = true.
Proof.
  induction f as [|i0 v0 k0 IHk r0 IHr]; intros c lo f' i v k Hlo; cbn [fcut]; [discriminate|].
  rewrite shape_cons. intros H. apply andb_true_iff in H as [H H3]. apply andb_true_iff in H as [H1 H2].
  destruct (N.eqb i0 n).
  - intros E. inversion E; subst. split; [eapply shape_tail; eauto|exact H2].
  - destruct (fcut n k0) as [[k' t]|] eqn:Ek.
    + intros E. inversion E; subst. rewrite shape_cons, H1, H3.
      destruct v0; cbn [kids_ok] in *;
        try (destruct k0; [discriminate Ek|discriminate H2]).
      * destruct (IHk CDoc 0%nat _ _ _ _ (Nat.le_0_l _) H2 eq_refl) as [Ha Hb]. rewrite Ha. auto.
      * destruct (IHk CElem 0%nat _ _ _ _ (Nat.le_0_l _) H2 eq_refl) as [Ha Hb]. rewrite Ha. auto.
    + destruct (fcut n r0) as [[r' t]|] eqn:Er; [|discriminate].
      intros E. inversion E; subst. rewrite shape_cons, H1, H2.
      destruct (IHr c (next_lo c v0) _ _ _ _ (next_lo_le2 _ _) H3 eq_refl) as [Ha Hb]. rewrite Ha. auto.
Qed.

(* ---------- inserting an ordinary subtree ---------- *)

Lemma child_ok_node_ok c lo v : (lo <= 2)%nat -> child_ok v = true -> node_ok c lo v = true.
Proof.
  unfold child_ok. intros Hlo H. apply andb_true_iff in H as [Hn Hd].
  destruct c; cbn; [reflexivity|rewrite Hn, Hd; reflexivity|].
  rewrite Hd. cbn. apply vrank_normal in Hn. rewrite Hn. apply Nat.leb_le. exact Hlo.
Qed.

Lemma child_ok_next_lo c v w : is_normal v = true -> is_normal w = true -> next_lo c v = next_lo c w.
Proof. intros Hv Hw. destruct c; cbn; [reflexivity| |]; apply vrank_normal in Hv, Hw; congruence. Qed.

Lemma shape_finsert_after ref it vt kt f : forall c lo, (lo <= 2)%nat -> shape c lo f = true ->
  (forall v, In (ref, v) (nodes f) -> is_normal v = true) -> child_ok vt = true -> kids_ok vt kt = true ->
  shape c lo (finsert_after ref (FCons it vt kt FNil) f) = true.
Proof.
  induction f as [|i v k IHk r IHr]; intros c lo Hlo; cbn [finsert_after]; [auto|].
  rewrite shape_cons. intros H Href Hct Hkt. apply andb_true_iff in H as [H H3]. apply andb_true_iff in H as [H1 H2].
  destruct (N.eqb_spec i ref) as [->|Hne].
  - cbn [fapp]. rewrite !shape_cons, H1, H2, Hkt. cbn [andb].
    assert (is_normal v = true) as Hv by (apply Href; left; reflexivity).
    assert (is_normal vt = true) as Hvt by (unfold child_ok in Hct; apply andb_true_iff in Hct; tauto).
    rewrite (child_ok_node_ok _ _ _ (next_lo_le2 _ _) Hct). cbn [andb].
    rewrite (child_ok_next_lo c vt v Hvt Hv). exact H3.
  - rewrite shape_cons, H1. cbn [andb].
    assert (kids_ok v (finsert_after ref (FCons it vt kt FNil) k) = true) as ->.
    { destruct v; cbn [kids_ok] in *; try (destruct k; [reflexivity|discriminate H2]);
        (apply IHk; [lia|exact H2| |exact Hct|exact Hkt]; intros w Hw; apply Href; right; apply in_or_app; left; exact Hw). }
    cbn [andb]. apply IHr; [apply next_lo_le2|exact H3| |exact Hct|exact Hkt].
    intros w Hw. apply Href. right. apply in_or_app. right. exact Hw.
Qed.

Lemma shape_finsert_before ref it vt kt f : forall c lo, (lo <= 2)%nat -> shape c lo f = true ->
  (forall v, In (ref, v) (nodes f) -> is_normal v = true) -> child_ok vt = true -> kids_ok vt kt = true ->
  shape c lo (finsert_before ref (FCons it vt kt FNil) f) = true.
Proof.
  induction f as [|i v k IHk r IHr]; intros c lo Hlo; cbn [finsert_before]; [auto|].
  rewrite shape_cons. intros H Href Hct Hkt. apply andb_true_iff in H as [H H3]. apply andb_true_iff in H as [H1 H2].
  destruct (N.eqb_spec i ref) as [->|Hne].
  - cbn [fapp]. rewrite !shape_cons, H2, H3, Hkt, !andb_true_r.
    assert (is_normal v = true) as Hv by (apply Href; left; reflexivity).
    assert (is_normal vt = true) as Hvt by (unfold child_ok in Hct; apply andb_true_iff in Hct; tauto).
    rewrite (child_ok_node_ok _ _ _ Hlo Hct). cbn [andb].
    destruct c; cbn [node_ok next_lo] in *; [reflexivity|exact H1|].
    apply andb_true_iff in H1 as [Hd _]. rewrite Hd. cbn. apply vrank_normal in Hv, Hvt. rewrite Hv, Hvt. reflexivity.
  - rewrite shape_cons, H1. cbn [andb].
    assert (kids_ok v (finsert_before ref (FCons it vt kt FNil) k) = true) as ->.
    { destruct v; cbn [kids_ok] in *; try (destruct k; [reflexivity|discriminate H2]);
        (apply IHk; [lia|exact H2| |exact Hct|exact Hkt]; intros w Hw; apply Href; right; apply in_or_app; left; exact Hw). }
    cbn [andb]. apply IHr; [apply next_lo_le2|exact H3| |exact Hct|exact Hkt].
    intros w Hw. apply Href. right. apply in_or_app. right. exact Hw.
Qed.

(* ---------- rewriting the child list of one node ---------- *)

Lemma shape_fmap_kids p g f : forall c lo, shape c lo f = true ->
  (forall v k, In (p, v) (nodes f) -> kids_ok v k = true -> kids_ok v (g k) = true) ->
  shape c lo (fmap_kids p g f) = true.
Proof.
  induction f as [|i v k IHk r IHr]; intros c lo; cbn [fmap_kids]; [auto|].
  rewrite shape_cons. intros H Hg. apply andb_true_iff in H as [H H3]. apply andb_true_iff in H as [H1 H2].
  destruct (N.eqb_spec i p) as [->|Hne].
  - rewrite shape_cons, H1, H3, (Hg v k (or_introl eq_refl) H2). reflexivity.
  - rewrite shape_cons, H1. cbn [andb].
    assert (kids_ok v (fmap_kids p g k) = true) as ->.
    { destruct v; cbn [kids_ok] in *; try (destruct k; [reflexivity|discriminate H2]);
        (apply IHk; [exact H2|]; intros w kw Hw; apply Hg; right; apply in_or_app; left; exact Hw). }
    cbn [andb]. apply IHr; [exact H3|]. intros w kw Hw. apply Hg. right. apply in_or_app. right. exact Hw.
Qed.

(* append: the new ordinary child goes last *)
Lemma shape_fapp_single c it vt kt k : forall lo, c <> CRoot -> (lo <= 2)%nat -> shape c lo k = true ->
  child_ok vt = true -> kids_ok vt kt = true -> shape c lo (fapp k (FCons it vt kt FNil)) = true.
Proof.
  induction k as [|i v k' _ r IHr]; intros lo Hc Hlo; cbn [fapp].
  - intros _ Hct Hkt. rewrite shape_cons, Hkt, (child_ok_node_ok _ _ _ Hlo Hct). reflexivity.
  - rewrite !shape_cons. intros H Hct Hkt. apply andb_true_iff in H as [H H3]. apply andb_true_iff in H as [H1 H2].
    rewrite H1, H2. cbn [andb]. apply IHr; auto. apply next_lo_le2.
Qed.

(* prepend: the new ordinary child goes before the first ordinary child, after namespace and attribute nodes *)
Lemma shape_insert_first_normal c it vt kt k : forall lo, c <> CRoot -> (lo <= 2)%nat -> shape c lo k = true ->
  child_ok vt = true -> kids_ok vt kt = true -> shape c lo (insert_first_normal (FCons it vt kt FNil) k) = true.
Proof.
  induction k as [|i v k' _ r IHr]; intros lo Hc Hlo; cbn [insert_first_normal].
  - intros _ Hct Hkt. rewrite shape_cons, Hkt, (child_ok_node_ok _ _ _ Hlo Hct). reflexivity.
  - rewrite shape_cons. intros H Hct Hkt. apply andb_true_iff in H as [H H3]. apply andb_true_iff in H as [H1 H2].
    destruct (is_normal v) eqn:Hv.
    + cbn [fapp]. rewrite !shape_cons, Hkt, H2, (child_ok_node_ok _ _ _ Hlo Hct). cbn [andb].
      assert (is_normal vt = true) as Hvt by (unfold child_ok in Hct; apply andb_true_iff in Hct; tauto).
      rewrite (child_ok_next_lo c vt v Hvt Hv), H3, andb_true_r.
      destruct c; cbn [node_ok next_lo] in *; [congruence|rewrite H1; reflexivity|].
      apply andb_true_iff in H1 as [Hd _]. rewrite Hd. cbn. apply vrank_normal in Hv. rewrite Hv. reflexivity.
    + rewrite shape_cons, H1, H2. cbn [andb]. apply IHr; auto. apply next_lo_le2.
Qed.

(* the attribute view's insertion point: after the last attribute (or namespace) node *)
Lemma shape_insert_after_attributes it vt k : forall lo, (lo <= 1)%nat -> shape CElem lo k = true ->
  value_category vt = CAttribute ->
  shape CElem lo (insert_after_attributes (FCons it vt FNil FNil) k) = true.
Proof.
  induction k as [|i v k' _ r IHr]; intros lo Hlo; cbn [insert_after_attributes].
  - intros _ Hc. rewrite shape_cons. destruct vt; try discriminate. cbn. rewrite !andb_true_r. apply Nat.leb_le. exact Hlo.
  - rewrite shape_cons. intros H Hc. apply andb_true_iff in H as [H H3]. apply andb_true_iff in H as [H1 H2].
    destruct (value_category v) eqn:Hv.
    + cbn [fapp]. rewrite !shape_cons, H2, H3, !andb_true_r.
      assert (vrank v = 2%nat) as Hr by (unfold vrank; rewrite Hv; reflexivity).
      assert (vrank vt = 1%nat) as Hrt by (unfold vrank; rewrite Hc; reflexivity).
      cbn [node_ok next_lo] in *. apply andb_true_iff in H1 as [Hd _]. rewrite Hd, Hr, Hrt.
      destruct vt; try discriminate. cbn. rewrite !andb_true_r. apply Nat.leb_le. exact Hlo.
    + rewrite shape_cons, H1, H2. cbn [andb]. apply IHr; auto. cbn. unfold vrank. rewrite Hv. cbn. lia.
    + rewrite shape_cons, H1, H2. cbn [andb]. apply IHr; auto. cbn. unfold vrank. rewrite Hv. cbn. lia.
Qed.

Lemma shape_insert_after_namespaces it vt k : shape CElem 0 k = true ->
  value_category vt = CNamespace ->
  shape CElem 0 (insert_after_namespaces (FCons it vt FNil FNil) k) = true.
Proof.
  induction k as [|i v k' _ r IHr]; cbn [insert_after_namespaces].
  - intros _ Hc. rewrite shape_cons. destruct vt; try discriminate. reflexivity.
  - rewrite shape_cons. intros H Hc. apply andb_true_iff in H as [H H3]. apply andb_true_iff in H as [H1 H2].
    assert (vrank vt = 0%nat) as Hrt by (unfold vrank; rewrite Hc; reflexivity).
    destruct (value_category v) eqn:Hv.
    + cbn [fapp]. rewrite !shape_cons. cbn [next_lo] in *. rewrite Hrt, H1, H2, H3. destruct vt; try discriminate. reflexivity.
    + cbn [fapp]. rewrite !shape_cons. cbn [next_lo] in *. rewrite Hrt, H1, H2, H3. destruct vt; try discriminate. reflexivity.
    + rewrite shape_cons, H1, H2. cbn [andb next_lo]. unfold vrank at 1. rewrite Hv. cbn [cat_rank]. apply IHr; auto.
      cbn [next_lo] in H3. unfold vrank in H3. rewrite Hv in H3. exact H3.
Qed.

(* ---------- splicing a node out (its children take its place) ---------- *)

Lemma shape_fsplice_inner n f : forall c lo, NoDup (ids f) -> (lo <= 2)%nat -> shape c lo f = true ->
  (forall v k, find n f = Some (v, k) -> shape CElem 2 k = true) -> shape c lo (fsplice n f) = true.
Proof.
  induction f as [|i v k IHk r IHr]; intros c lo Hnd Hlo; cbn [fsplice]; [auto|].
  cbn in Hnd. apply NoDup_cons_app_inv in Hnd as (Hik & Hir & Hk & Hr & Hkr).
  rewrite shape_cons. intros H Hf. apply andb_true_iff in H as [H H3]. apply andb_true_iff in H as [H1 H2].
  destruct (N.eqb_spec i n) as [->|Hne].
  - assert (shape CElem 2 k = true) as Hk2 by (apply (Hf v); cbn; rewrite N.eqb_refl; reflexivity).
    destruct c.
    + rewrite shape_root_lo. apply shape_fapp_root; [eapply shape_to_root; exact Hk2|exact H3].
    + destruct (is_normal v) eqn:Hv.
      * apply shape_fapp_normal; [discriminate|exact Hlo|exact Hk2|]. cbn [next_lo] in H3.
        apply vrank_normal in Hv. rewrite Hv in H3. exact H3.
      * assert (k = FNil) as -> by (destruct v; try discriminate; destruct k; try discriminate; reflexivity).
        cbn [fapp]. eapply shape_tail; eauto.
    + destruct (is_normal v) eqn:Hv.
      * apply shape_fapp_normal; [discriminate|exact Hlo|exact Hk2|]. cbn [next_lo] in H3.
        apply vrank_normal in Hv. rewrite Hv in H3. exact H3.
      * assert (k = FNil) as -> by (destruct v; try discriminate; destruct k; try discriminate; reflexivity).
        cbn [fapp]. eapply shape_tail; eauto.
  - apply N.eqb_neq in Hne. rewrite shape_cons, H1. cbn [andb].
    assert (kids_ok v (fsplice n k) = true) as ->.
    { destruct v; cbn [kids_ok] in *; try (destruct k; [reflexivity|discriminate H2]);
        (apply IHk; [exact Hk|lia|exact H2|]; intros w kw Hw; apply (Hf w); cbn [find]; rewrite Hne, Hw; reflexivity). }
    cbn [andb]. apply IHr; [exact Hr|apply next_lo_le2|exact H3|].
    intros w kw Hw. apply (Hf w). cbn [find]. rewrite Hne.
    assert (find n k = None) as ->; [|exact Hw].
    apply find_none. intros Hin. eapply NoDup_app_not_in; [exact Hkr|exact Hin|].
    eapply find_incl; [exact Hw|left; reflexivity].
Qed.

Definition root_slots (f : forest) : list N := map (fun t => fst (fst t)) (roots f).

Lemma root_slots_incl f : incl (root_slots f) (ids f).
Proof.
  induction f as [|i v k _ r IHr]; cbn; [intros x []|]. intros x [Hx|Hx]; [left; exact Hx|right; apply in_or_app; right; apply IHr; exact Hx].
Qed.

Lemma shape_fsplice_root n f : NoDup (ids f) -> shape CRoot 0 f = true -> In n (root_slots f) ->
  shape CRoot 0 (fsplice n f) = true.
Proof.
  induction f as [|i v k _ r IHr]; cbn [fsplice]; [auto|]. intros Hnd.
  cbn in Hnd. apply NoDup_cons_app_inv in Hnd as (Hik & Hir & Hk & Hr & Hkr).
  rewrite shape_cons. intros H Hin. apply andb_true_iff in H as [H H3]. apply andb_true_iff in H as [H1 H2].
  destruct (N.eqb_spec i n) as [->|Hne].
  - apply shape_fapp_root; [eapply kids_ok_to_root; exact H2|exact H3].
  - cbn in Hin. destruct Hin as [Hin|Hin]; [contradiction|].
    assert (In n (ids r)) as Hnr by (apply root_slots_incl; exact Hin).
    rewrite (fsplice_absent n k); [|intros Hx; eapply NoDup_app_not_in; eauto].
    rewrite shape_cons, H2. cbn [node_ok andb next_lo]. apply IHr; auto.
Qed.

(* ---------- value updates that keep the node in its class ---------- *)

Lemma shape_fset_val n g f : forall c lo, shape c lo f = true ->
  (forall v, In (n, v) (nodes f) -> same_class v (g v)) -> shape c lo (fset_val n g f) = true.
Proof.
  induction f as [|i v k IHk r IHr]; intros c lo; cbn [fset_val]; [auto|].
  rewrite shape_cons. intros H Hg. apply andb_true_iff in H as [H H3]. apply andb_true_iff in H as [H1 H2].
  destruct (N.eqb_spec i n) as [->|Hne].
  - destruct (Hg v (or_introl eq_refl)) as (Hr & Hd & He). rewrite shape_cons.
    remember (g v) as w eqn:Ew. clear Ew.
    assert (is_normal w = is_normal v) as Hn.
    { destruct (is_normal v) eqn:E1, (is_normal w) eqn:E2; try reflexivity.
      - apply vrank_normal in E1. rewrite Hr in E1. apply vrank_normal in E1. congruence.
      - apply vrank_normal in E2. rewrite <- Hr in E2. apply vrank_normal in E2. congruence. }
    assert (node_ok c lo w = node_ok c lo v) as ->.
    { destruct c; cbn; [reflexivity| |]; rewrite <- ?Hd, <- ?Hr, ?Hn; reflexivity. }
    assert (next_lo c w = next_lo c v) as -> by (destruct c; cbn; congruence).
    assert (kids_ok w k = kids_ok v k) as ->.
    { destruct v, w; cbn in Hd, He; try discriminate; reflexivity. }
    rewrite H1, H2, H3. reflexivity.
  - rewrite shape_cons, H1. cbn [andb].
    assert (kids_ok v (fset_val n g k) = true) as ->.
    { destruct v; cbn [kids_ok] in *; try (destruct k; [reflexivity|discriminate H2]);
        (apply IHk; [exact H2|]; intros w Hw; apply Hg; right; apply in_or_app; left; exact Hw). }
    cbn [andb]. apply IHr; [exact H3|]. intros w Hw. apply Hg. right. apply in_or_app. right. exact Hw.
Qed.
