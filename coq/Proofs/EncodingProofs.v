(* EncodingProofs.v — the label src/encoding.rs takes is the value of the encoding declaration, for EVERY well-formed spelling of
   the XML declaration: any white space (S) in front of each pseudo-attribute, around each '=', and before '?>', either quote
   for each value, any further pseudo-attributes before and after it (version in front, standalone behind), with or without a
   UTF-8 byte order mark, whatever follows the declaration. *)
From Coq Require Import List NArith Bool Lia.
From XotV Require Import Model.Base Model.Encoding.
Import ListNotations.
Open Scope N_scope.

Definition xml_s (c : N) : bool := (c =? 32) || (c =? 9) || (c =? 10) || (c =? 13).

Record pseudo := { pa_pre : bytes; pa_name : bytes; pa_ws1 : bytes; pa_ws2 : bytes; pa_dq : bool; pa_value : bytes }.
Definition pa_quote (p : pseudo) : N := if pa_dq p then 34 else 39.
Definition render (p : pseudo) : bytes :=
  pa_pre p ++ pa_name p ++ pa_ws1 p ++ [61] ++ pa_ws2 p ++ [pa_quote p] ++ pa_value p ++ [pa_quote p].

(* a name character here: no white space, no '=', no '?' *)
Definition name_byte (c : N) : bool := negb (trim_ws c) && negb (c =? 61) && negb (c =? 63).
Definition wf (p : pseudo) : Prop :=
  forallb xml_s (pa_pre p) = true /\ forallb xml_s (pa_ws1 p) = true /\ forallb xml_s (pa_ws2 p) = true
  /\ pa_name p <> [] /\ forallb name_byte (pa_name p) = true
  /\ forallb (fun c => negb (c =? pa_quote p) && negb (c =? 63)) (pa_value p) = true.

Fixpoint first_encoding (pas : list pseudo) : option bytes :=
  match pas with
  | [] => None
  | p :: r => if bytes_eqb (pa_name p) s_encoding_name then Some (pa_value p) else first_encoding r
  end.

Lemma xml_s_trim c : xml_s c = true -> trim_ws c = true.
Proof.
  unfold xml_s, trim_ws, ascii_ws. intros H.
  repeat (apply orb_true_iff in H as [H|H]); apply N.eqb_eq in H; subst; reflexivity.
Qed.

Lemma xml_s_not c : xml_s c = true -> (c =? 61) = false /\ (c =? 63) = false /\ (c =? 34) = false /\ (c =? 39) = false.
Proof.
  unfold xml_s. intros H. repeat (apply orb_true_iff in H as [H|H]); apply N.eqb_eq in H; subst; repeat split; reflexivity.
Qed.

Lemma split_once_app c a b : forallb (fun x => negb (x =? c)) a = true -> split_once c (a ++ c :: b) = Some (a, b).
Proof.
  induction a as [|x a IH]; cbn [app split_once forallb]; intros H.
  - rewrite N.eqb_refl. reflexivity.
  - apply andb_true_iff in H as [H1 H2]. apply negb_true_iff in H1. rewrite H1, (IH H2). reflexivity.
Qed.

Lemma split_once_none c a : forallb (fun x => negb (x =? c)) a = true -> split_once c a = None.
Proof.
  induction a as [|x a IH]; cbn [split_once forallb]; intros H; [reflexivity|].
  apply andb_true_iff in H as [H1 H2]. apply negb_true_iff in H1. rewrite H1, (IH H2). reflexivity.
Qed.

Lemma trim_start_app w r : forallb trim_ws w = true -> trim_start (w ++ r) = trim_start r.
Proof.
  induction w as [|x w IH]; cbn [app trim_start forallb]; intros H; [reflexivity|].
  apply andb_true_iff in H as [H1 H2]. rewrite H1. exact (IH H2).
Qed.

Lemma trim_start_head x r : trim_ws x = false -> trim_start (x :: r) = x :: r.
Proof. intros H. cbn [trim_start]. rewrite H. reflexivity. Qed.

Lemma forallb_imp {A} (f g : A -> bool) l : (forall x, f x = true -> g x = true) -> forallb f l = true -> forallb g l = true.
Proof. intros H. induction l as [|x l IH]; cbn; [auto|]. intros E. apply andb_true_iff in E as [E1 E2]. rewrite (H _ E1), (IH E2). reflexivity. Qed.

Lemma bytes_eqb_refl a : bytes_eqb a a = true.
Proof. induction a as [|x a IH]; cbn; [reflexivity|]. rewrite N.eqb_refl, IH. reflexivity. Qed.

(* the name between the white space around it *)
Lemma trim_name pre name ws1 : forallb xml_s pre = true -> forallb xml_s ws1 = true -> name <> [] -> forallb name_byte name = true ->
  trim (pre ++ name ++ ws1) = name.
Proof.
  intros Hp Hw Hn Hb. unfold trim, trim_end.
  rewrite (trim_start_app pre _ (forallb_imp _ _ _ xml_s_trim Hp)).
  destruct name as [|x name]; [congruence|]. cbn [forallb] in Hb. apply andb_true_iff in Hb as [Hx Hb].
  assert (trim_ws x = false) as Hx' by (unfold name_byte in Hx; apply andb_true_iff in Hx as [Hx _]; apply andb_true_iff in Hx as [Hx _]; apply negb_true_iff in Hx; exact Hx).
  cbn [app]. rewrite (trim_start_head x _ Hx').
  change (x :: name ++ ws1) with ((x :: name) ++ ws1). rewrite rev_app_distr.
  rewrite (trim_start_app (rev ws1)).
  2:{ rewrite forallb_forall. intros y Hy. apply in_rev in Hy. rewrite forallb_forall in Hw. apply xml_s_trim. exact (Hw y Hy). }
  (* the last byte of the name is no white space *)
  assert (forallb name_byte (x :: name) = true) as Hall by (cbn [forallb]; rewrite Hx, Hb; reflexivity).
  destruct (rev (x :: name)) as [|y l] eqn:E.
  - apply (f_equal (@rev N)) in E. rewrite rev_involutive in E. discriminate.
  - assert (In y (x :: name)) as Hy by (apply in_rev; rewrite E; left; reflexivity).
    rewrite forallb_forall in Hall. pose proof (Hall y Hy) as Hyb.
    unfold name_byte in Hyb. apply andb_true_iff in Hyb as [Hyb _]. apply andb_true_iff in Hyb as [Hyb _]. apply negb_true_iff in Hyb.
    rewrite (trim_start_head y l Hyb), <- E. apply rev_involutive.
Qed.

Lemma render_shape p X : render p ++ X
  = (pa_pre p ++ pa_name p ++ pa_ws1 p) ++ 61 :: (pa_ws2 p ++ pa_quote p :: (pa_value p ++ pa_quote p :: X)).
Proof. unfold render. rewrite <- !app_assoc. reflexivity. Qed.

Lemma declared_label_fuel_spec : forall pas fuel tl, Forall wf pas -> forallb xml_s tl = true -> (length pas < fuel)%nat ->
  declared_label_fuel fuel (flat_map render pas ++ tl) = first_encoding pas.
Proof.
  induction pas as [|p pas IH]; intros fuel tl Hwf Htl Hf.
  - cbn [flat_map app first_encoding]. destruct fuel as [|fuel]; [reflexivity|]. cbn [declared_label_fuel].
    rewrite split_once_none; [reflexivity|].
    eapply forallb_imp; [|exact Htl]. intros x Hx. destruct (xml_s_not x Hx) as [H _]. rewrite H. reflexivity.
  - inversion Hwf as [|? ? (Hpre & Hw1 & Hw2 & Hne & Hnb & Hval) Hwf']; subst.
    destruct fuel as [|fuel]; [cbn in Hf; lia|]. cbn [declared_label_fuel flat_map first_encoding].
    rewrite <- app_assoc, render_shape.
    rewrite split_once_app.
    2:{ rewrite !forallb_app. rewrite (forallb_imp _ _ _ (fun x Hx => eq_trans (f_equal negb (proj1 (xml_s_not x Hx))) eq_refl) Hpre).
        rewrite (forallb_imp _ _ _ (fun x Hx => eq_trans (f_equal negb (proj1 (xml_s_not x Hx))) eq_refl) Hw1).
        rewrite andb_true_r. cbn [andb]. eapply forallb_imp; [|exact Hnb]. intros x Hx. unfold name_byte in Hx.
        apply andb_true_iff in Hx as [Hx _]. apply andb_true_iff in Hx as [_ Hx]. exact Hx. }
    rewrite (trim_start_app (pa_ws2 p) _ (forallb_imp _ _ _ xml_s_trim Hw2)).
    assert (trim_ws (pa_quote p) = false) as Hq by (unfold pa_quote; destruct (pa_dq p); reflexivity).
    rewrite (trim_start_head _ _ Hq).
    assert ((pa_quote p =? 34) || (pa_quote p =? 39) = true) as -> by (unfold pa_quote; destruct (pa_dq p); reflexivity).
    rewrite split_once_app.
    2:{ eapply forallb_imp; [|exact Hval]. intros x Hx. apply andb_true_iff in Hx. tauto. }
    rewrite (trim_name _ _ _ Hpre Hw1 Hne Hnb).
    destruct (bytes_eqb (pa_name p) s_encoding_name); [reflexivity|].
    apply IH; [exact Hwf'|exact Htl|cbn in Hf; lia].
Qed.

Lemma render_length p : (3 <= length (render p))%nat.
Proof. unfold render. rewrite !app_length. cbn [length]. lia. Qed.

Lemma flat_render_length pas : (length pas <= length (flat_map render pas))%nat.
Proof. induction pas as [|p pas IH]; cbn [flat_map length]; [lia|]. rewrite app_length. pose proof (render_length p). lia. Qed.

Theorem declared_label_spec pas tl : Forall wf pas -> forallb xml_s tl = true ->
  declared_label (flat_map render pas ++ tl) = first_encoding pas.
Proof.
  intros Hwf Htl. unfold declared_label. apply declared_label_fuel_spec; [exact Hwf|exact Htl|].
  rewrite app_length. pose proof (flat_render_length pas). lia.
Qed.

(* ---------- the whole decision ---------- *)

Lemma before_pi_end_step x y r : before_pi_end (x :: y :: r)
  = if (x =? 63) && (y =? 62) then Some [] else match before_pi_end (y :: r) with Some a => Some (x :: a) | None => None end.
Proof. reflexivity. Qed.

Lemma before_pi_end_app s body : forallb (fun c => negb (c =? 63)) s = true -> before_pi_end (s ++ 63 :: 62 :: body) = Some s.
Proof.
  induction s as [|x s IH]; intros H; [reflexivity|]. cbn [forallb] in H. apply andb_true_iff in H as [Hx Hs]. apply negb_true_iff in Hx.
  specialize (IH Hs). destruct s as [|y s].
  - cbn [app]. rewrite before_pi_end_step, Hx. cbn [andb]. cbn [app] in IH. rewrite IH. reflexivity.
  - cbn [app] in *. rewrite before_pi_end_step, Hx. cbn [andb]. rewrite IH. reflexivity.
Qed.

Lemma render_no_pi p : wf p -> forallb (fun c => negb (c =? 63)) (render p) = true.
Proof.
  intros (Hpre & Hw1 & Hw2 & _ & Hnb & Hval). unfold render. rewrite !forallb_app. cbn [forallb].
  assert (forall l, forallb xml_s l = true -> forallb (fun c => negb (c =? 63)) l = true) as K.
  { intros l. apply forallb_imp. intros x Hx. destruct (xml_s_not x Hx) as (_ & H & _). rewrite H. reflexivity. }
  rewrite (K _ Hpre), (K _ Hw1), (K _ Hw2).
  assert (forallb (fun c => negb (c =? 63)) (pa_name p) = true) as ->.
  { eapply forallb_imp; [|exact Hnb]. intros x Hx. unfold name_byte in Hx. apply andb_true_iff in Hx. tauto. }
  assert (forallb (fun c => negb (c =? 63)) (pa_value p) = true) as ->.
  { eapply forallb_imp; [|exact Hval]. intros x Hx. apply andb_true_iff in Hx. tauto. }
  unfold pa_quote. destruct (pa_dq p); reflexivity.
Qed.

Lemma flat_render_no_pi pas : Forall wf pas -> forallb (fun c => negb (c =? 63)) (flat_map render pas) = true.
Proof.
  induction 1 as [|p pas Hp _ IH]; [reflexivity|]. cbn [flat_map]. rewrite forallb_app, (render_no_pi p Hp), IH. reflexivity.
Qed.

Definition with_bom (bom : bool) (d : bytes) : bytes := if bom then bom_utf8 ++ d else d.

Theorem chosen_label_spec bom p pas tl body hint :
  Forall wf (p :: pas) -> pa_pre p <> [] -> forallb xml_s tl = true ->
  chosen_label (with_bom bom (s_xml_open ++ flat_map render (p :: pas) ++ tl ++ 63 :: 62 :: body)) hint
  = Some (match first_encoding (p :: pas), hint with
          | Some l, _ => l
          | None, Some h => h
          | None, None => s_utf8_label
          end).
Proof.
  intros Hwf Hpre Htl.
  assert (xml_declaration (with_bom bom (s_xml_open ++ flat_map render (p :: pas) ++ tl ++ 63 :: 62 :: body))
          = Some (flat_map render (p :: pas) ++ tl)) as Hd.
  { unfold xml_declaration.
    assert (match strip_pre bom_utf8 (with_bom bom (s_xml_open ++ flat_map render (p :: pas) ++ tl ++ 63 :: 62 :: body)) with
            | Some d => d | None => with_bom bom (s_xml_open ++ flat_map render (p :: pas) ++ tl ++ 63 :: 62 :: body) end
            = s_xml_open ++ flat_map render (p :: pas) ++ tl ++ 63 :: 62 :: body) as ->
      by (destruct bom; reflexivity).
    assert (strip_pre s_xml_open (s_xml_open ++ flat_map render (p :: pas) ++ tl ++ 63 :: 62 :: body)
            = Some (flat_map render (p :: pas) ++ tl ++ 63 :: 62 :: body)) as -> by reflexivity.
    set (D := flat_map render (p :: pas) ++ tl ++ 63 :: 62 :: body).
    assert (exists c r, D = c :: r /\ ascii_ws c = true) as (c & r & ED & Hc).
    { inversion Hwf as [|? ? Hp _]; subst. destruct Hp as (Hpp & _).
      unfold D. cbn [flat_map]. unfold render. destruct (pa_pre p) as [|c pre] eqn:Ep; [congruence|].
      eexists c, _. split; [cbn [app]; reflexivity|].
      cbn [forallb] in Hpp. apply andb_true_iff in Hpp as [Hc _].
      unfold xml_s in Hc. unfold ascii_ws. repeat (apply orb_true_iff in Hc as [Hc|Hc]); apply N.eqb_eq in Hc; subst; reflexivity. }
    rewrite ED. cbn iota. rewrite Hc, <- ED. unfold D.
    replace (flat_map render (p :: pas) ++ tl ++ 63 :: 62 :: body) with ((flat_map render (p :: pas) ++ tl) ++ 63 :: 62 :: body)
      by (rewrite <- app_assoc; reflexivity).
    apply before_pi_end_app. rewrite forallb_app, (flat_render_no_pi _ Hwf). cbn [andb].
    eapply forallb_imp; [|exact Htl]. intros x Hx. destruct (xml_s_not x Hx) as (_ & H & _). rewrite H. reflexivity. }
  unfold chosen_label. rewrite Hd, (declared_label_spec _ _ Hwf Htl).
  assert (is_ascii_compatible (with_bom bom (s_xml_open ++ flat_map render (p :: pas) ++ tl ++ 63 :: 62 :: body)) = true) as ->
    by (destruct bom; reflexivity).
  reflexivity.
Qed.
