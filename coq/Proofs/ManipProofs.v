(* ManipProofs.v — first tranche of theorems about Model/Manip.v: what follows from the order of checks alone
   (refusals return the untouched state, in-place calls are no-ops, the element-only accessors panic exactly on
   non-elements).  The structural invariants are in Proofs/StoreProofs.v. *)
From Coq Require Import List NArith ZArith Bool Lia.
From XotV Require Import Model.Base Model.Zipper Model.Access Model.Store Model.Manip.
Import ListNotations.
Open Scope N_scope.

(* operations that call other public operations after they have started to modify the store *)
Definition nested_op (o : mop) : bool :=
  match o with OReplace _ _ | OWrap _ _ | ONewDocWith _ => true | _ => false end.

Ltac break_ifs :=
  repeat match goal with
         | |- context [if ?c then _ else _] => destruct c eqn:?
         | |- context [match ?x with | (_, _) => _ end] => destruct x eqn:?
         | |- context [match ?x with | Some _ => _ | None => _ end] => destruct x eqn:?
         | |- context [match ?x with | MDone _ => _ | MErr _ => _ | MPanic => _ end] => destruct x eqn:?
         end.

Lemma m_append_err st p c st' e : m_append st p c = (st', MErr e) -> st' = st.
Proof. unfold m_append. break_ifs; intros H; inversion H; reflexivity. Qed.

Lemma m_prepend_err st p c st' e : m_prepend st p c = (st', MErr e) -> st' = st.
Proof. unfold m_prepend. break_ifs; intros H; inversion H; reflexivity. Qed.

Lemma m_insert_after_err st r n st' e : m_insert_after st r n = (st', MErr e) -> st' = st.
Proof. unfold m_insert_after. break_ifs; intros H; inversion H; reflexivity. Qed.

Lemma m_insert_before_err st r n st' e : m_insert_before st r n = (st', MErr e) -> st' = st.
Proof. unfold m_insert_before. break_ifs; intros H; inversion H; reflexivity. Qed.

Lemma m_remove_no_err st n st' e : m_remove st n <> (st', MErr e).
Proof. unfold m_remove. intros H; inversion H. Qed.

Lemma m_unwrap_err st n st' e : m_unwrap st n = (st', MErr e) -> st' = st.
Proof.
  unfold m_unwrap. destruct (negb (is_type st n TElement)); [intros H; inversion H; reflexivity|].
  destruct (q_first_child st n); [|intros H; exfalso; eapply m_remove_no_err; eauto].
  destruct (q_last_child st n); [|intros H; inversion H].
  break_ifs; intros H; inversion H; reflexivity.
Qed.

Lemma m_any_append_err st p c st' e : m_any_append st p c = (st', MErr e) -> st' = st.
Proof.
  unfold m_any_append.
  assert (forall x, (let '(st1, o) := m_append st p c in
                     match o with MDone _ => (st1, MDone (Some c)) | _ => (st1, o) end) = (st', MErr e) -> x = tt -> st' = st) as Hgen.
  { intros x. destruct (m_append st p c) as [st1 o] eqn:E. destruct o; intros H; inversion H; subst.
    intros _. apply m_append_err in E. exact E. }
  destruct (val st c) as [[]|]; try (intros H; exact (Hgen tt H eq_refl));
    break_ifs; intros H; inversion H; subst; reflexivity.
Qed.

Lemma m_clone_no_err st n st' e : m_clone st n <> (st', MErr e).
Proof.
  unfold m_clone. destruct (cur st n) as [z|]; [|intros H; inversion H].
  destruct (z_val z); break_ifs; intros H; inversion H.
Qed.

Lemma m_tcm_no_err st n s st' e : m_text_content_mut st n s <> (st', MErr e).
Proof.
  unfold m_text_content_mut. destruct (q_first_child st n).
  - destruct (q_next st n0); [intros H; inversion H|]. destruct (is_type st n0 TText); intros H; inversion H.
  - destruct (is_type st n TElement); [|intros H; inversion H]. break_ifs; intros H; inversion H.
Qed.

(* C06, first half: a refused call returns the state it was given, for every operation that does not itself
   call other public operations half-way (replace, element_wrap, new_document_with_element: see below) *)
Theorem refusal_atomic_direct st o st' e :
  nested_op o = false -> mstep st o = (st', MErr e) -> st' = st.
Proof.
  intros Hn. destruct o; try discriminate Hn; cbn [mstep]; unfold created, on_element, m_detach;
    first [ apply m_append_err | apply m_prepend_err | apply m_insert_after_err | apply m_insert_before_err
          | apply m_any_append_err | apply m_unwrap_err
          | (intros H; exfalso; eapply m_remove_no_err; exact H)
          | (intros H; exfalso; eapply m_clone_no_err; exact H)
          | (intros H; exfalso; eapply m_tcm_no_err; exact H)
          | (break_ifs; intros H; inversion H; subst; reflexivity) ].
Qed.

(* replace / element_wrap / new_document_with_element validate first: every refusal that happens BEFORE the first
   modification returns the untouched state; the only other way to an error is a failing inner call *)
Theorem replace_refusal st a b st' e :
  m_replace st a b = (st', MErr e) ->
  st' = st \/ exists parent, q_parent st a = Some parent /\ structure_check st (Some parent) b = true
                             /\ is_normal_node st a = true /\ a <> b.
Proof.
  unfold m_replace. destruct (is_type st a TDocument); [intros H; inversion H; auto|].
  destruct (q_parent st a) as [parent|]; [|intros H; inversion H; auto].
  destruct (negb (is_normal_node st a)) eqn:En; [intros H; inversion H; auto|].
  destruct (N.eqb_spec a b); [intros H; inversion H|].
  destruct (negb (structure_check st (Some parent) b)) eqn:Es; [intros H; inversion H; auto|].
  intros _. right. exists parent. apply negb_false_iff in En, Es. auto.
Qed.

(* C05: a call that asks for the position the node already occupies changes nothing *)
Theorem in_place_noop st :
  (forall p c, structure_check st (Some p) c = true -> q_raw_last_child st p = Some c ->
               m_append st p c = (st, MDone None))
  /\ (forall p c, structure_check st (Some p) c = true -> q_first_child st p = Some c ->
                  m_prepend st p c = (st, MDone None))
  /\ (forall r n, sibling_check st r n = true -> q_prev st n = Some r ->
                  m_insert_after st r n = (st, MDone None))
  /\ (forall r n, sibling_check st r n = true -> q_next st n = Some r ->
                  m_insert_before st r n = (st, MDone None)).
Proof.
  repeat split; intros a b Hc Hq.
  - unfold m_append. rewrite Hc, Hq. cbn. rewrite N.eqb_refl. reflexivity.
  - unfold m_prepend. rewrite Hc, Hq. cbn. rewrite N.eqb_refl. reflexivity.
  - unfold m_insert_after. rewrite Hc, Hq. cbn. rewrite N.eqb_refl. reflexivity.
  - unfold m_insert_before. rewrite Hc, Hq. cbn. rewrite N.eqb_refl. reflexivity.
Qed.

(* C06: the element-only accessors panic exactly when the node is not an element (the documented panics) *)
Definition element_only (o : mop) : option N :=
  match o with
  | OSetName e _ | OSetAttr e _ _ | ORmAttr e _ | OSetNs e _ _ | ORmNs e _ | OAttrsClear e | ONsClear e
  | OAttrsGetMutSet e _ _ | OAttrsEntryOrInsert e _ _ | OAttrsEntryModify e _ _ | OAttrsEntryRemove e _
  | ONsGetMutSet e _ _ | ONsEntryOrInsert e _ _ => Some e
  | _ => None
  end.

Theorem element_only_panics_iff_not_element st o e :
  element_only o = Some e ->
  (snd (mstep st o) = MPanic <-> is_type st e TElement = false)
  /\ (is_type st e TElement = false -> fst (mstep st o) = st).
Proof.
  destruct o; cbn [element_only]; try discriminate; intros H; inversion H; subst; cbn [mstep]; unfold on_element;
    destruct (is_type st e TElement); cbn; split; try split; try discriminate; try reflexivity; auto.
Qed.

(* no other operation of the simple kinds can panic at all *)
Theorem value_setters_total st o :
  match o with
  | OSetText _ _ | OSetPiData _ _ | OSetAttrValue _ _ | OSetNsValue _ _ | OCons _ | ODetach _ | ORemove _
  | ONewDoc | ONewEl _ | ONewText _ | ONewComment _ | ONewPi _ _ | ONewAttr _ _ | ONewNs _ _ =>
      exists r, snd (mstep st o) = MDone r
  | OSetComment _ _ => snd (mstep st o) <> MPanic
  | _ => True
  end.
Proof.
  destruct o; cbn [mstep]; unfold created, m_detach, m_remove; cbn; try exact I; try (eexists; reflexivity).
  break_ifs; cbn; discriminate.
Qed.
